(* C18: exact characterisation of auto_detect_input (both directions), on top of Link/TraverseSpec.v.
   - input_upper: nothing is invented - every reported predicate occurs in a rule/objective;
   - input_exact: p is reported iff it occurs and (it is never a positive head atom, or the statements
     deriving it are exactly the statements using it in their body).
   Axiom-free. *)
From Coq Require Import List String ZArith Bool Arith Lia.
From NGO Require Import Syntax.Ast Model.Traverse Link.TraverseSpec.
Import ListNotations.
Open Scope string_scope. Open Scope list_scope.

Lemma list_eqb_nat_refl (a: list nat) : list_eqb Nat.eqb a a = true.
Proof.
  induction a as [|x a IH]; simpl; [reflexivity|].
  rewrite Nat.eqb_refl, IH. reflexivity.
Qed.

Lemma indices_where_ge f p k P i : In i (indices_where f p k P) -> k <= i.
Proof. intros H. apply In_indices_where in H. destruct H as [s [_ [Hk _]]]. exact Hk. Qed.

Lemma indices_where_ext f g p k P :
  (forall s, In s P -> pmem p (map snd (f s)) = pmem p (map snd (g s))) ->
  indices_where f p k P = indices_where g p k P.
Proof.
  revert k. induction P as [|s r IH]; intros k H; simpl; [reflexivity|].
  rewrite (H s (or_introl eq_refl)). f_equal. apply IH. intros s' Hs'. apply H. right. exact Hs'.
Qed.

Lemma indices_where_inj f g p k P :
  indices_where f p k P = indices_where g p k P ->
  forall s, In s P -> pmem p (map snd (f s)) = pmem p (map snd (g s)).
Proof.
  revert k. induction P as [|s r IH]; intros k E s' Hs'; [contradiction|].
  simpl in E.
  assert (Hf : forall i, In i (indices_where f p (S k) r) -> i <> k).
  { intros i Hi. apply indices_where_ge in Hi. lia. }
  assert (Hg : forall i, In i (indices_where g p (S k) r) -> i <> k).
  { intros i Hi. apply indices_where_ge in Hi. lia. }
  destruct (pmem p (map snd (f s))) eqn:A; destruct (pmem p (map snd (g s))) eqn:B; simpl in E.
  - inversion E as [E']. destruct Hs' as [<-|Hs']; [congruence|]. exact (IH (S k) E' s' Hs').
  - exfalso. apply (Hg k); [|reflexivity]. rewrite <- E. left. reflexivity.
  - exfalso. apply (Hf k); [|reflexivity]. rewrite E. left. reflexivity.
  - destruct Hs' as [<-|Hs']; [congruence|]. exact (IH (S k) E s' Hs').
Qed.

(* nothing is invented: a reported predicate occurs in some statement *)
Theorem input_upper_proof : forall P p,
  In p (auto_detect_input P) -> exists s, In s P /\ occurs p s.
Proof.
  intros P p Hin.
  unfold auto_detect_input, auto_detect_input_parts in Hin. cbv zeta in Hin.
  simpl fst in Hin. simpl snd in Hin.
  assert (Hall : In p (all_preds P)).
  { apply in_app_or in Hin. destruct Hin as [Hin|Hin].
    - apply (proj1 (In_psort _ _)) in Hin. apply filter_In in Hin. exact (proj1 Hin).
    - apply filter_In in Hin. exact (proj1 Hin). }
  apply In_all_preds in Hall. destruct Hall as [s [Hs H]].
  exists s. split; [exact Hs|]. apply predicates_complete_proof. exact H.
Qed.

(* the statements deriving p are exactly the statements using p in their body *)
Definition self_defined (P: list stmt) (p: pred) : Prop :=
  forall s, In s P -> (pos_head_atom p s <-> in_body p s).

Theorem input_exact_proof : forall P p, Forall wf_heads P ->
  (In p (auto_detect_input P) <->
   (exists s, In s P /\ occurs p s) /\
   ((forall s, In s P -> ~ pos_head_atom p s) \/ self_defined P p)).
Proof.
  intros P p W. assert (W' := W). rewrite Forall_forall in W'. split.
  - intros Hin. split; [exact (input_upper_proof P p Hin)|].
    unfold auto_detect_input, auto_detect_input_parts in Hin. cbv zeta in Hin.
    simpl fst in Hin. simpl snd in Hin.
    apply in_app_or in Hin. destruct Hin as [Hin|Hin].
    + left. apply (proj1 (In_psort _ _)) in Hin. apply filter_In in Hin. destruct Hin as [_ Hd].
      intros s Hs Hh.
      assert (Hder : In p (derivable_preds P)).
      { apply (derivable_iff P p W). exists s. split; assumption. }
      apply pmem_In in Hder. rewrite Hder in Hd. discriminate Hd.
    + right. apply filter_In in Hin. destruct Hin as [_ Heq].
      apply list_eqb_nat_eq in Heq.
      intros s Hs. assert (E := indices_where_inj _ _ p 0 P Heq s Hs).
      rewrite (headderivable_spec_proof s p (W' s Hs)), (body_spec_proof s p), <- !pmem_In.
      rewrite E. tauto.
  - intros [[s [Hs Ho]] [Hn|Hsd]].
    + apply C18_input_lower_proof; [exact W | exists s; split; assumption | exact Hn].
    + unfold auto_detect_input, auto_detect_input_parts. cbv zeta. simpl fst. simpl snd.
      apply in_or_app. right. apply filter_In. split.
      * apply In_all_preds. exists s. split; [exact Hs|]. apply predicates_complete_proof. exact Ho.
      * rewrite (indices_where_ext (body_or_min all_signs) headderivable p 0 P);
          [apply list_eqb_nat_refl|].
        intros s' Hs'. specialize (Hsd s' Hs').
        rewrite (headderivable_spec_proof s' p (W' s' Hs')), (body_spec_proof s' p), <- !pmem_In in Hsd.
        destruct (pmem p (map snd (body_or_min all_signs s'))),
                 (pmem p (map snd (headderivable s'))); try reflexivity;
          destruct Hsd as [H1 H2]; [discriminate (H2 eq_refl) | discriminate (H1 eq_refl)].
Qed.

(* non-vacuity of the second disjunct: p/1 is defined only in terms of itself and is reported,
   r/1 is derived by a statement not mentioning it and is not, the open q/1 comes first *)
Definition sd_prog : list stmt :=
  [ SRule 1 (HLit (Lit NoSign (ASym (TFun "p" [TVar "X"] false))))
            [BLit (Lit NoSign (ASym (TFun "p" [TVar "X"] false)))];
    SRule 2 (HLit (Lit NoSign (ASym (TFun "r" [TVar "X"] false))))
            [BLit (Lit NoSign (ASym (TFun "q" [TVar "X"] false)))] ].

Example input_exact_nonvacuous_proof :
  auto_detect_input sd_prog = [("q", 1); ("p", 1)] /\ self_defined sd_prog ("p", 1) /\
  ~ (forall s, In s sd_prog -> ~ pos_head_atom ("p", 1) s).
Proof.
  assert (E : auto_detect_input sd_prog = [("q", 1); ("p", 1)]) by (vm_compute; reflexivity).
  assert (W : Forall wf_heads sd_prog) by (repeat constructor).
  split; [exact E|].
  assert (Hin : In ("p", 1) (auto_detect_input sd_prog)) by (rewrite E; right; left; reflexivity).
  apply (input_exact_proof sd_prog ("p", 1) W) in Hin. destruct Hin as [_ [Hn|Hsd]].
  - exfalso. assert (Hd : In ("p", 1) (derivable_preds sd_prog)) by (vm_compute; left; reflexivity).
    apply (derivable_iff sd_prog ("p", 1) W) in Hd. destruct Hd as [s [Hs Hh]]. exact (Hn s Hs Hh).
  - split; [exact Hsd|]. intros Hn.
    assert (Hd : In ("p", 1) (derivable_preds sd_prog)) by (vm_compute; left; reflexivity).
    apply (derivable_iff sd_prog ("p", 1) W) in Hd. destruct Hd as [s [Hs Hh]]. exact (Hn s Hs Hh).
Qed.

(* the open part of the result (all - derivable) is emitted in Python's tuple order, whatever the
   iteration order of the sets it was computed from *)
Theorem input_open_part_sorted_proof : forall P, psorted (fst (auto_detect_input_parts P)).
Proof. intros P. unfold auto_detect_input_parts. cbv zeta. simpl fst. apply psort_sorted. Qed.
