(* Soundness of ngo.utils.ast._potentially_unifying (Model/Unify.v: pu) w.r.t. term evaluation (Sem/Sym.v).

   Intended:   pu_sound : forall s t, (exists σ τ v, eval σ s = Some v /\ eval τ t = Some v) -> pu s t = true
   i.e. a `False` answer means "the two terms never denote the same ground value".

   The intended statement is FALSE for the faithful model (section 2, `pu_refuted_*`, `pu_sound_refuted`).
   Section 3 gives decidable side conditions, section 5 proves soundness under them:

     pu_sound_partial         wf_term on both terms    + pos_subst on both substitutions
     pu_sound_partial_strict  wf_strict on both terms, arbitrary substitutions
     punify_sound_partial     potentially_unifying (with pools: some pair of alternatives can be made equal)
     pus_sound_partial        potentially_unifying_sequence on pool-free lists
     pus_sound_alts           potentially_unifying_sequence on lists with pools

   Section 4 shows that the fuel of the model is never exhausted (pu_fuel_enough), gives the fuel-free
   recursion equation  pu a b = pu_body pu a b  (pu_unfold), which is the Python function text, and proves
   that the test is symmetric (pu_sym).

   The counterexamples (1), (2), (4), (5), (8) are reachable with parser-built terms and the first three make
   ngo.inline change the meaning of a program (replayed with clingo 5.8.2), e.g.
       { a((1..3)) }.  suminline(A,B) :- a(A); B = #sum { Y: person(A,Y) }.
       foo(X) :- X = #sum { F,f(V): suminline(V,F); A,-B: test(A,B) }.
   with  :- not a(1). :- a(2). :- a(3). person(1,2). person(1,3). test(5,-f(1)).  has foo(5) before and
   foo(10) after inlining (the same with  `F,V,c()` / `A,B,c`  and with  `A,- -B`, test(5,f(1))).

   Caveat about the semantics, not about this file: Sem/Sym.v evaluates an external function term @f(..)
   like f(..).  In clingo @f(1) may return any symbol, and the real test answers False for `@f(1)` vs `g(1)`
   and for `@f(1)` vs `1`; all statements below are about `eval` only. *)
From Coq Require Import List String ZArith Bool Lia.
From NGO Require Import Syntax.Ast Sem.Sym Model.Unify.
Import ListNotations.
Open Scope string_scope. Open Scope list_scope.

(* ====================================================================================== *)
(** * 1. Induction principles, equality, evaluation lemmas *)

Lemma sym_ind' (P: sym -> Prop) :
  P SInf -> (forall z, P (SNum z)) -> (forall s, P (SStr s)) ->
  (forall n a p, Forall P a -> P (SFun n a p)) -> P SSup -> forall s, P s.
Proof.
  intros HI HN HS HF HU. fix IH 1. intros [ |z|s|n a p| ].
  - exact HI.
  - apply HN.
  - apply HS.
  - apply HF. induction a as [|x a IHa]; constructor; [apply IH | apply IHa].
  - exact HU.
Qed.

Lemma term_ind' (P: term -> Prop) :
  (forall x, P (TVar x)) -> (forall s, P (TSym s)) -> (forall o t, P t -> P (TUn o t)) ->
  (forall o l r, P l -> P r -> P (TBin o l r)) -> (forall l r, P l -> P r -> P (TInterval l r)) ->
  (forall n xs e, Forall P xs -> P (TFun n xs e)) -> (forall xs, Forall P xs -> P (TPool xs)) ->
  forall t, P t.
Proof.
  intros HV HS HU HB HI HF HP. fix IH 1. intros t.
  destruct t as [x|s|o t|o l r|l r|n xs e|xs].
  - apply HV.
  - apply HS.
  - apply HU, IH.
  - apply HB; apply IH.
  - apply HI; apply IH.
  - apply HF. induction xs as [|x xs IHxs]; constructor; [apply IH | apply IHxs].
  - apply HP. induction xs as [|x xs IHxs]; constructor; [apply IH | apply IHxs].
Qed.

Lemma sym_eqb_refl s : sym_eqb s s = true.
Proof.
  induction s as [ |z|s|n a p IH| ] using sym_ind'; simpl; auto using Z.eqb_refl, String.eqb_refl.
  rewrite String.eqb_refl, Bool.eqb_reflx. simpl.
  induction IH as [|x a Hx _ IHa]; [reflexivity|]. rewrite Hx. exact IHa.
Qed.

Lemma eval_un_inv σ o a v : eval σ (TUn o a) = Some v ->
  (exists z, eval σ a = Some (SNum z) /\
             v = SNum (match o with UMinus => - z | UAbs => Z.abs z | UNeg => Z.lnot z end)%Z)
  \/ (o = UMinus /\ exists n args p, eval σ a = Some (SFun n args p) /\ v = SFun n args (negb p)).
Proof.
  simpl. destruct (eval σ a) as [[ |z|s|n args p| ]|]; try discriminate.
  - intros H. left. exists z. split; [reflexivity|]. destruct o; inversion H; reflexivity.
  - destruct o; try discriminate. intros H; inversion H. right. split; [reflexivity|].
    exists n, args, p. split; reflexivity.
Qed.

Lemma eval_bin_num σ o l r v : eval σ (TBin o l r) = Some v -> exists z, v = SNum z.
Proof.
  simpl. destruct (eval σ l) as [[ |a| | | ]|]; try discriminate.
  destruct (eval σ r) as [[ |b| | | ]|]; try discriminate.
  destruct (arith o a b); simpl; try discriminate. intros H; inversion H; eauto.
Qed.

Lemma eval_fun_inv σ n xs e v : eval σ (TFun n xs e) = Some v ->
  exists vs, eval_list σ xs = Some vs /\ v = SFun n vs true.
Proof. rewrite eval_fun. destruct (eval_list σ xs); intros H; inversion H; eauto. Qed.

Lemma eval_interval σ l r : eval σ (TInterval l r) = None.
Proof. reflexivity. Qed.
Lemma eval_pool σ xs : eval σ (TPool xs) = None.
Proof. reflexivity. Qed.

Lemma eval_list_length σ xs : forall vs, eval_list σ xs = Some vs -> List.length vs = List.length xs.
Proof.
  induction xs as [|x xs IH]; simpl; intros vs H.
  - inversion H; reflexivity.
  - destruct (eval σ x); [|discriminate]. destruct (eval_list σ xs); [|discriminate].
    inversion H; simpl. f_equal. apply IH. reflexivity.
Qed.

(* a term that evaluates to a number is a variable, a symbolic term, a unary or a binary operation *)
Lemma eval_num_kind σ t z : eval σ t = Some (SNum z) ->
  match t with TFun _ _ _ | TInterval _ _ | TPool _ => False | _ => True end.
Proof.
  destruct t; try exact (fun _ => I); try discriminate.
  intros H. apply eval_fun_inv in H. destruct H as (vs & _ & H). discriminate.
Qed.

Lemma forallb_ext_in {A} (f g: A -> bool) l : (forall x, In x l -> f x = g x) -> forallb f l = forallb g l.
Proof.
  induction l as [|x l IH]; simpl; intros H; [reflexivity|].
  rewrite (H x (or_introl eq_refl)), IH; [reflexivity|]. intros y Hy. apply H. right. exact Hy.
Qed.

(* ====================================================================================== *)
(** * 2. The intended theorem is false: counterexamples on the model *)

Definition unifiable (s t: term) : Prop := exists σ τ v, eval σ s = Some v /\ eval τ t = Some v.

Definition s0 : subst := fun _ => SNum 0.
Definition sX (v: sym) : subst := fun x => if String.eqb x "X" then v else SNum 0.

(* (1) the constant a: SymbolicTerm(Function("a")) versus the Function node a() with no arguments.
       Parser: `a` versus `a()`.  ngo.inline pads tuples with Function(LOC, "unique", [], False). *)
Example pu_refuted_const :
  let s := TSym (SFun "a" [] true) in let t := TFun "a" [] false in let v := SFun "a" [] true in
  eval s0 s = Some v /\ eval s0 t = Some v /\ pu s t = false /\ pu t s = false.
Proof. vm_compute. repeat split. Qed.

Example pu_refuted_unique :
  let s := TSym (SFun "unique" [] true) in let t := TFun "unique" [] false in let v := SFun "unique" [] true in
  eval s0 s = Some v /\ eval s0 t = Some v /\ pu s t = false
  /\ potentially_unifying_sequence [TSym (SNum 1); s] [TSym (SNum 1); t] = false.
Proof. vm_compute. repeat split. Qed.

(* the same one level down: f(a) versus f(a()) *)
Example pu_refuted_const_nested :
  let s := TFun "f" [TSym (SFun "a" [] true)] false in let t := TFun "f" [TFun "a" [] false] false in
  let v := SFun "f" [SFun "a" [] true] true in
  eval s0 s = Some v /\ eval s0 t = Some v /\ pu s t = false.
Proof. vm_compute. repeat split. Qed.

(* (2) unary minus turns a negative function symbol positive.  Parser: `-X` versus `f(1)`, X bound to -f(1) *)
Example pu_refuted_neg_var :
  let s := TUn UMinus (TVar "X") in let t := TFun "f" [TSym (SNum 1)] false in
  let σ := sX (SFun "f" [SNum 1] false) in let v := SFun "f" [SNum 1] true in
  eval σ s = Some v /\ eval s0 t = Some v /\ pu s t = false /\ pu t s = false.
Proof. vm_compute. repeat split. Qed.

(* (3) a SymbolicTerm that holds a function symbol with arguments versus a Function node (API only) *)
Example pu_refuted_sym_fun :
  let s := TSym (SFun "f" [SNum 1] true) in let t := TFun "f" [TSym (SNum 1)] false in
  let v := SFun "f" [SNum 1] true in
  eval s0 s = Some v /\ eval s0 t = Some v /\ pu s t = false /\ pu t s = false.
Proof. vm_compute. repeat split. Qed.

(* (4) double unary minus, no negative symbol anywhere.  Parser: `- -X` versus `f(1)`, X bound to f(1) *)
Example pu_refuted_double_minus_var :
  let s := TUn UMinus (TUn UMinus (TVar "X")) in let t := TFun "f" [TSym (SNum 1)] false in
  let σ := sX (SFun "f" [SNum 1] true) in let v := SFun "f" [SNum 1] true in
  eval σ s = Some v /\ eval s0 t = Some v /\ pu s t = false.
Proof. vm_compute. repeat split. Qed.

(* (5) the same without variables.  Parser: `- -f(1)` versus `f(1)` *)
Example pu_refuted_double_minus_ground :
  let s := TUn UMinus (TUn UMinus (TFun "f" [TSym (SNum 1)] false)) in let t := TFun "f" [TSym (SNum 1)] false in
  let v := SFun "f" [SNum 1] true in
  eval s0 s = Some v /\ eval s0 t = Some v /\ pu s t = false.
Proof. vm_compute. repeat split. Qed.

(* (6) unary minus of a negative SymbolicTerm (API only) *)
Example pu_refuted_neg_sym :
  let s := TUn UMinus (TSym (SFun "f" [SNum 1] false)) in let t := TFun "f" [TSym (SNum 1)] false in
  let v := SFun "f" [SNum 1] true in
  eval s0 s = Some v /\ eval s0 t = Some v /\ pu s t = false.
Proof. vm_compute. repeat split. Qed.

(* (7) |.| is not injective but the test recurses through equal unary operators.
       API: |1| versus |-1| where -1 is one SymbolicTerm (the parser builds -1 as a UnaryOperation) *)
Example pu_refuted_abs_literal :
  let s := TUn UAbs (TSym (SNum 1)) in let t := TUn UAbs (TSym (SNum (-1))) in
  eval s0 s = Some (SNum 1) /\ eval s0 t = Some (SNum 1) /\ pu s t = false.
Proof. vm_compute. repeat split. Qed.

(* (8) the same with parser-built terms only: `|~-0|` = |-1| = 1 and `|~-2|` = |1| = 1 *)
Example pu_refuted_abs_parsed :
  let s := TUn UAbs (TUn UNeg (TUn UMinus (TSym (SNum 0)))) in
  let t := TUn UAbs (TUn UNeg (TUn UMinus (TSym (SNum 2)))) in
  eval s0 s = Some (SNum 1) /\ eval s0 t = Some (SNum 1) /\ pu s t = false.
Proof. vm_compute. repeat split. Qed.

(* pairs that look dangerous but are answered True *)
Example pu_fine :
  pu (TUn UMinus (TVar "X")) (TUn UAbs (TVar "Y")) = true                    (* different unary operators *)
  /\ pu (TUn UAbs (TVar "X")) (TSym (SNum 1)) = true                          (* |X| vs 1 *)
  /\ pu (TBin BPlus (TVar "X") (TSym (SNum 1))) (TSym (SNum 2)) = true        (* X+1 vs 2 *)
  /\ pu (TUn UMinus (TSym (SNum 1))) (TSym (SNum (-1))) = true                (* parsed -1 vs Number(-1) *)
  /\ pu (TUn UAbs (TSym (SNum 1))) (TUn UAbs (TUn UMinus (TSym (SNum 1)))) = true   (* |1| vs |-1| as parsed *)
  /\ pu (TInterval (TSym (SNum 1)) (TSym (SNum 2))) (TSym (SNum 3)) = true
  /\ pu (TPool [TSym (SNum 1)]) (TFun "f" [] false) = true.
Proof. vm_compute. repeat split. Qed.

Theorem pu_sound_refuted : ~ (forall s t, unifiable s t -> pu s t = true).
Proof.
  intros H.
  specialize (H (TSym (SFun "a" [] true)) (TFun "a" [] false)).
  assert (U: unifiable (TSym (SFun "a" [] true)) (TFun "a" [] false)).
  { exists s0, s0, (SFun "a" [] true). split; reflexivity. }
  apply H in U. vm_compute in U. discriminate.
Qed.

(* ====================================================================================== *)
(** * 3. Side conditions (all decidable: boolean functions) *)

(* a function symbol with at least one argument and negative sign *)
Definition negfun (v: sym) : bool := match v with SFun _ (_ :: _) false => true | _ => false end.

(* hypothesis on substitutions: no variable is bound to a negative function symbol with arguments
   (only the top-level sign matters; excludes counterexample (2)) *)
Definition pos_subst (σ: subst) : Prop := forall x, negfun (σ x) = false.

(* `vn` = "variables may be bound to negative function symbols" *)
Definition sub_ok (vn: bool) (σ: subst) : Prop := vn = true \/ pos_subst σ.

(* may_fun vn p t: t may evaluate to a function symbol with arguments and sign p *)
Fixpoint may_fun (vn p: bool) (t: term) : bool :=
  match t with
  | TVar _ => p || vn
  | TUn UMinus u => may_fun vn (negb p) u
  | TFun _ _ _ => p
  | _ => false
  end.

(* below |.|: the operand is a non-negative number literal, or the leaf of its chain of unary operators
   is not a SymbolicTerm (excludes (7) and (8)) *)
Fixpoint abs_leaf_ok (t: term) : bool :=
  match t with TUn _ u => abs_leaf_ok u | TSym _ => false | _ => true end.
Definition abs_ok (t: term) : bool :=
  match t with TSym (SNum z) => (0 <=? z)%Z | TSym _ => true | _ => abs_leaf_ok t end.

(* a SymbolicTerm holds no function symbol with arguments (excludes (3) and (6)) *)
Definition sym_flat (c: sym) : bool := match c with SFun _ (_ :: _) _ => false | _ => true end.

(* wf_gen descends exactly where the test recurses (arguments of functions and of unary operators);
   operands of binary operations, intervals and pools are unconstrained.
   - TFun has at least one argument: excludes (1) (constants are SymbolicTerms, as the parser builds them)
   - unary minus is never applied to something that may be a negative function symbol: excludes (4), (5)
     and, with vn = true, also (2) *)
Fixpoint wf_gen (vn: bool) (t: term) : bool :=
  match t with
  | TVar _ => true
  | TSym c => sym_flat c
  | TUn o u =>
      (match o with UMinus => negb (may_fun vn false u) | UAbs => abs_ok u | UNeg => true end) && wf_gen vn u
  | TBin _ _ _ | TInterval _ _ | TPool _ => true
  | TFun _ xs _ => (match xs with [] => false | _ :: _ => true end) && forallb (wf_gen vn) xs
  end.

Definition wf_term : term -> bool := wf_gen false.    (* to be used together with pos_subst *)
Definition wf_strict : term -> bool := wf_gen true.   (* no hypothesis on the substitutions; forbids -X *)

Lemma wf_strict_wf_term t : wf_strict t = true -> wf_term t = true.
Proof.
  unfold wf_strict, wf_term.
  assert (M: forall u p, may_fun false p u = true -> may_fun true p u = true).
  { induction u as [x|c|o u IH|o l _ r _|l _ r _|n xs e|xs]; intros p; simpl; try discriminate; auto.
    - intros _. apply orb_true_r.
    - destruct o; auto. }
  induction t as [x|c|o u IH|o l r _ _|l r _ _|n xs e IH|xs _] using term_ind'; simpl; auto.
  - rewrite !andb_true_iff. intros [H1 H2]. split; [|auto].
    destruct o; auto. destruct (may_fun false false u) eqn:E; [|reflexivity].
    apply M in E. rewrite E in H1. discriminate.
  - rewrite !andb_true_iff. intros [H1 H2]. split; [exact H1|].
    rewrite forallb_forall in *. rewrite Forall_forall in IH. auto.
Qed.

(* ====================================================================================== *)
(** * 4. Reduction lemmas for pu_body; the fuel is never exhausted *)

Ltac pu_red :=
  unfold pu_body;
  match goal with |- context [term_eqb ?a ?b] => destruct (term_eqb a b) end;
  [reflexivity|];
  cbn [is_var is_nfunc is_fun is_sym orb andb].

Lemma pu_body_var_l rec x b : pu_body rec (TVar x) b = true.
Proof. unfold pu_body. cbn [is_var orb]. rewrite orb_true_r. reflexivity. Qed.
Lemma pu_body_var_r rec a x : pu_body rec a (TVar x) = true.
Proof. unfold pu_body. cbn [is_var orb]. rewrite !orb_true_r. reflexivity. Qed.

(* two unary operations: the arguments are swapped before the recursive call *)
Lemma pu_body_un_un rec o a o' b :
  (o' = o -> rec b a = true) -> pu_body rec (TUn o a) (TUn o' b) = true.
Proof.
  intros H. pu_red. destruct (unop_eqb o' o) eqn:E; [|reflexivity].
  apply H. destruct o, o'; simpl in E; (reflexivity || discriminate).
Qed.

Lemma pu_body_fun_fun rec n xs e m ys e' :
  n = m -> List.length xs = List.length ys ->
  forallb (fun p => rec (fst p) (snd p)) (combine xs ys) = true ->
  pu_body rec (TFun n xs e) (TFun m ys e') = true.
Proof.
  intros -> L F. pu_red. rewrite String.eqb_refl, L, Nat.eqb_refl, F. reflexivity.
Qed.

Lemma size_in x xs : In x xs -> term_size x <= fold_right (fun x acc => term_size x + acc) 0 xs.
Proof.
  induction xs as [|y xs IH]; simpl; [tauto|]. intros [->|H]; [lia|]. apply IH in H. lia.
Qed.

Lemma pu_body_ext rec1 rec2 a b :
  (forall a' b', term_size a' + term_size b' < term_size a + term_size b -> rec1 a' b' = rec2 a' b') ->
  pu_body rec1 a b = pu_body rec2 a b.
Proof.
  intros H. unfold pu_body. destruct (term_eqb a b || (is_var a || is_var b)); [reflexivity|].
  destruct a as [x|c|o a|o l r|l r|n xs e|xs], b as [x'|c'|o' b|o' l' r'|l' r'|n' xs' e'|xs'];
    cbn [is_var is_nfunc is_fun is_sym orb andb]; try reflexivity.
  - destruct (unop_eqb o' o); [|reflexivity]. apply H. cbn [term_size]. lia.
  - f_equal. f_equal. apply forallb_ext_in. intros [p q] Hin. cbn [fst snd].
    apply H. cbn [term_size].
    pose proof (size_in _ _ (in_combine_l _ _ _ _ Hin)).
    pose proof (size_in _ _ (in_combine_r _ _ _ _ Hin)). lia.
Qed.

(* more fuel than size(lhs)+size(rhs) never changes the answer: the default `true` at fuel 0 is unreachable *)
Theorem pu_fuel_enough : forall n m a b,
  term_size a + term_size b < n -> term_size a + term_size b < m -> pu_fuel n a b = pu_fuel m a b.
Proof.
  induction n as [|n IH]; intros m a b Hn Hm; [lia|]. destruct m as [|m]; [lia|].
  simpl. apply pu_body_ext. intros a' b' Hs. apply IH; lia.
Qed.

(* the Python function text as a recursion equation *)
Theorem pu_unfold a b : pu a b = pu_body pu a b.
Proof.
  unfold pu at 1. simpl. apply pu_body_ext. intros a' b' Hs.
  unfold pu. apply pu_fuel_enough; lia.
Qed.

(** ** The test is symmetric (so the argument swap of the Python code is harmless) *)

Lemma sym_eqb_sym : forall a b, sym_eqb a b = sym_eqb b a.
Proof.
  induction a as [ |z|s|n xs p IH| ] using sym_ind'; destruct b as [ |z'|s'|m ys q| ]; simpl; try reflexivity.
  - apply Z.eqb_sym.
  - apply String.eqb_sym.
  - rewrite (String.eqb_sym n m). f_equal. f_equal; [destruct p, q; reflexivity|].
    revert ys. induction IH as [|x xs Hx _ IHxs]; destruct ys as [|y ys]; simpl; try reflexivity.
    rewrite Hx. f_equal. apply IHxs.
Qed.

Lemma unop_eqb_sym a b : unop_eqb a b = unop_eqb b a.
Proof. destruct a, b; reflexivity. Qed.
Lemma binop_eqb_sym a b : binop_eqb a b = binop_eqb b a.
Proof. destruct a, b; reflexivity. Qed.

Lemma term_eqb_sym : forall a b, term_eqb a b = term_eqb b a.
Proof.
  induction a as [x|c|o u IH|o l r IHl IHr|l r IHl IHr|n xs e IH|xs IH] using term_ind';
    destruct b as [x'|c'|o' u'|o' l' r'|l' r'|n' xs' e'|xs']; simpl; try reflexivity.
  - apply String.eqb_sym.
  - apply sym_eqb_sym.
  - rewrite unop_eqb_sym, IH. reflexivity.
  - rewrite binop_eqb_sym, IHl, IHr. reflexivity.
  - rewrite IHl, IHr. reflexivity.
  - rewrite (String.eqb_sym n n'). f_equal. f_equal; [destruct e, e'; reflexivity|].
    revert xs'. induction IH as [|x xs Hx _ IHxs]; destruct xs' as [|y ys]; simpl; try reflexivity.
    rewrite Hx. f_equal. apply IHxs.
  - revert xs'. induction IH as [|x xs Hx _ IHxs]; destruct xs' as [|y ys]; simpl; try reflexivity.
    rewrite Hx. f_equal. apply IHxs.
Qed.

Lemma forallb_combine_sym (rec: term -> term -> bool) : forall xs ys,
  (forall x y, In x xs -> In y ys -> rec x y = rec y x) ->
  forallb (fun p => rec (fst p) (snd p)) (combine xs ys) = forallb (fun p => rec (fst p) (snd p)) (combine ys xs).
Proof.
  induction xs as [|x xs IH]; destruct ys as [|y ys]; simpl; intros H; try reflexivity.
  rewrite (H x y); auto. f_equal. apply IH. intros; apply H; auto.
Qed.

Lemma pu_body_sym rec a b :
  (forall a' b', term_size a' + term_size b' < term_size a + term_size b -> rec a' b' = rec b' a') ->
  pu_body rec a b = pu_body rec b a.
Proof.
  intros H. unfold pu_body. rewrite (term_eqb_sym b a), (orb_comm (is_var b) (is_var a)).
  destruct (term_eqb a b || (is_var a || is_var b)); [reflexivity|].
  destruct a as [x|c|o a|o l r|l r|n xs e|xs], b as [x'|c'|o' b|o' l' r'|l' r'|n' xs' e'|xs'];
    cbn [is_var is_nfunc is_fun is_sym orb andb]; try reflexivity.
  - apply term_eqb_sym.
  - rewrite (unop_eqb_sym o' o). destruct (unop_eqb o o'); [|reflexivity]. apply H. cbn [term_size]. lia.
  - rewrite (String.eqb_sym n n'), (Nat.eqb_sym (List.length xs) (List.length xs')). f_equal. f_equal.
    apply forallb_combine_sym. intros p q Hp Hq. apply H. cbn [term_size].
    pose proof (size_in _ _ Hp). pose proof (size_in _ _ Hq). lia.
Qed.

Lemma pu_fuel_sym : forall n a b, pu_fuel n a b = pu_fuel n b a.
Proof.
  induction n as [|n IH]; intros a b; [reflexivity|]. simpl. apply pu_body_sym. intros; apply IH.
Qed.

Theorem pu_sym a b : pu a b = pu b a.
Proof. unfold pu. rewrite (Nat.add_comm (term_size b)). apply pu_fuel_sym. Qed.

(* ====================================================================================== *)
(** * 5. Soundness under the side conditions *)

Section Body.
Variable vn : bool.

Definition Sound (rec: term -> term -> bool) : Prop :=
  forall a b σ τ v, wf_gen vn a = true -> wf_gen vn b = true -> sub_ok vn σ -> sub_ok vn τ ->
    eval σ a = Some v -> eval τ b = Some v -> rec a b = true.

(* needed below |.| where the operands have equal absolute values only *)
Definition Leafy (rec: term -> term -> bool) : Prop :=
  forall a b σ τ x y, abs_leaf_ok a = true \/ abs_leaf_ok b = true ->
    eval σ a = Some (SNum x) -> eval τ b = Some (SNum y) -> rec a b = true.

(* may_fun is complete: whatever evaluates to a function symbol with arguments is flagged *)
Lemma may_fun_complete σ : sub_ok vn σ -> forall t n v vs p,
  wf_gen vn t = true -> eval σ t = Some (SFun n (v :: vs) p) -> may_fun vn p t = true.
Proof.
  intros Hσ. induction t as [x|c|o u IH|o l _ r _|l _ r _|m xs e|xs]; intros n v vs p W E.
  - simpl in E. inversion E as [E']. simpl. destruct p; [reflexivity|]. simpl.
    destruct Hσ as [->|Hσ]; [reflexivity|]. specialize (Hσ x). rewrite E' in Hσ. discriminate.
  - simpl in E. inversion E; subst c. simpl in W. discriminate.
  - simpl in W. apply andb_true_iff in W. destruct W as [_ W].
    apply eval_un_inv in E. destruct E as [(z & _ & E)|(-> & n' & args & p' & E & E')]; [discriminate|].
    inversion E'; subst. simpl. rewrite negb_involutive. eapply IH; eauto.
  - apply eval_bin_num in E. destruct E as (z & E). discriminate.
  - discriminate.
  - apply eval_fun_inv in E. destruct E as (ws & _ & E). inversion E. reflexivity.
  - discriminate.
Qed.

Lemma pu_body_leafy rec : Leafy rec -> Leafy (pu_body rec).
Proof.
  intros HL a b σ τ x y Hl Ea Eb.
  pose proof (eval_num_kind _ _ _ Ea) as Ka. pose proof (eval_num_kind _ _ _ Eb) as Kb.
  destruct a as [xa|ca|oa a|oa la ra|la ra|na xsa ea|xsa]; try contradiction;
    [apply pu_body_var_l| | |];
    (destruct b as [xb|cb|ob b|ob lb rb|lb rb|nb xsb eb|xsb]; try contradiction;
     [apply pu_body_var_r| | |]).
  - simpl in Hl. destruct Hl; discriminate.
  - pu_red. reflexivity.
  - pu_red. reflexivity.
  - pu_red. reflexivity.
  - apply pu_body_un_un. intros ->.
    apply eval_un_inv in Ea. destruct Ea as [(za & Ea & _)|(_ & n & args & p & _ & Ea)]; [|discriminate].
    apply eval_un_inv in Eb. destruct Eb as [(zb & Eb & _)|(_ & n & args & p & _ & Eb)]; [|discriminate].
    apply (HL b a τ σ zb za); auto. simpl in Hl. tauto.
  - pu_red. reflexivity.
  - pu_red. reflexivity.
  - pu_red. reflexivity.
  - pu_red. reflexivity.
Qed.

Lemma args_sound rec σ τ : Sound rec -> sub_ok vn σ -> sub_ok vn τ ->
  forall xs ys vs, forallb (wf_gen vn) xs = true -> forallb (wf_gen vn) ys = true ->
    eval_list σ xs = Some vs -> eval_list τ ys = Some vs ->
    forallb (fun p => rec (fst p) (snd p)) (combine xs ys) = true.
Proof.
  intros HS Hσ Hτ. induction xs as [|x xs IH]; intros ys vs Wx Wy Ex Ey; [reflexivity|].
  destruct ys as [|y ys]; [reflexivity|]. simpl in *.
  apply andb_true_iff in Wx. destruct Wx as [Wx Wxs]. apply andb_true_iff in Wy. destruct Wy as [Wy Wys].
  destruct (eval σ x) as [vx|] eqn:Evx; [|discriminate].
  destruct (eval_list σ xs) as [vxs|] eqn:Evxs; [|discriminate].
  destruct (eval τ y) as [vy|] eqn:Evy; [|discriminate].
  destruct (eval_list τ ys) as [vys|] eqn:Evys; [|discriminate].
  inversion Ex; subst vs. inversion Ey; subst.
  rewrite (HS x y σ τ vx); auto. simpl. apply (IH ys vxs); auto.
Qed.

(* nfunc term versus Function: impossible under the side conditions *)
Lemma sym_vs_fun σ τ c n xs e v :
  wf_gen vn (TSym c) = true -> wf_gen vn (TFun n xs e) = true ->
  eval σ (TSym c) = Some v -> eval τ (TFun n xs e) = Some v -> False.
Proof.
  intros Wc Wf Ec Ef. simpl in Ec. inversion Ec; subst v.
  apply eval_fun_inv in Ef. destruct Ef as (vs & El & ->).
  apply eval_list_length in El. simpl in Wf. destruct xs as [|x xs]; [discriminate|].
  destruct vs as [|w vs]; [discriminate|]. simpl in Wc. discriminate.
Qed.

Lemma un_vs_fun σ τ o a n xs e v : sub_ok vn σ ->
  wf_gen vn (TUn o a) = true -> wf_gen vn (TFun n xs e) = true ->
  eval σ (TUn o a) = Some v -> eval τ (TFun n xs e) = Some v -> False.
Proof.
  intros Hσ Wu Wf Eu Ef.
  apply eval_fun_inv in Ef. destruct Ef as (vs & El & ->).
  apply eval_list_length in El. simpl in Wf. destruct xs as [|x xs]; [discriminate|].
  destruct vs as [|w vs]; [discriminate|].
  apply eval_un_inv in Eu. destruct Eu as [(z & _ & Eu)|(-> & m & args & p & Ea & Eu)]; [discriminate|].
  inversion Eu; subst. destruct p; [discriminate|].
  simpl in Wu. apply andb_true_iff in Wu. destruct Wu as [Wm Wa].
  rewrite (may_fun_complete σ Hσ a _ _ _ _ Wa Ea) in Wm. discriminate.
Qed.

Lemma bin_vs_fun σ τ o l r n xs e v :
  eval σ (TBin o l r) = Some v -> eval τ (TFun n xs e) = Some v -> False.
Proof.
  intros Eb Ef. apply eval_bin_num in Eb. destruct Eb as (z & ->).
  apply eval_fun_inv in Ef. destruct Ef as (vs & _ & Ef). discriminate.
Qed.

(* operands of two |.| with the same absolute value *)
Lemma abs_case rec σ τ a b x y : Sound rec -> Leafy rec -> sub_ok vn σ -> sub_ok vn τ ->
  abs_ok a = true -> abs_ok b = true -> wf_gen vn a = true -> wf_gen vn b = true ->
  eval σ a = Some (SNum x) -> eval τ b = Some (SNum y) -> Z.abs x = Z.abs y -> rec a b = true.
Proof.
  intros HS HL Hσ Hτ Aa Ab Wa Wb Ea Eb Hxy.
  destruct (Z.eq_dec x y) as [->|Hne]; [apply (HS a b σ τ (SNum y)); auto|].
  apply (HL a b σ τ x y); auto.
  destruct a as [xa|ca|oa a|oa la ra|la ra|na xsa ea|xsa]; simpl in Aa |- *; auto.
  destruct b as [xb|cb|ob b|ob lb rb|lb rb|nb xsb eb|xsb]; simpl in Ab |- *; auto.
  exfalso. simpl in Ea, Eb. inversion Ea; subst ca. inversion Eb; subst cb.
  apply Z.leb_le in Aa. apply Z.leb_le in Ab. lia.
Qed.

Lemma pu_body_sound rec : Sound rec -> Leafy rec -> Sound (pu_body rec).
Proof.
  intros HS HL a b σ τ v Wa Wb Hσ Hτ Ea Eb.
  destruct a as [xa|ca|oa a|oa la ra|la ra|na xsa ea|xsa]; try discriminate Ea; [apply pu_body_var_l| | | |];
    (destruct b as [xb|cb|ob b|ob lb rb|lb rb|nb xsb eb|xsb]; try discriminate Eb; [apply pu_body_var_r| | | |]).
  - (* Sym / Sym *)
    simpl in Ea, Eb. inversion Ea; subst. inversion Eb; subst.
    unfold pu_body. simpl. rewrite sym_eqb_refl. reflexivity.
  - pu_red. reflexivity.
  - pu_red. reflexivity.
  - exfalso. apply (sym_vs_fun σ τ ca nb xsb eb v); auto.
  - pu_red. reflexivity.
  - (* Un / Un *)
    apply pu_body_un_un. intros ->.
    simpl in Wa, Wb. apply andb_true_iff in Wa. destruct Wa as [Ca Wa].
    apply andb_true_iff in Wb. destruct Wb as [Cb Wb].
    apply eval_un_inv in Ea. apply eval_un_inv in Eb.
    destruct Ea as [(za & Ea & Va)|(-> & n & args & p & Ea & Va)];
      destruct Eb as [(zb & Eb & Vb)|(Eo & n' & args' & p' & Eb & Vb)]; subst v; try discriminate.
    + inversion Vb as [Hz].
      destruct oa.
      * assert (zb = za) by lia. subst. apply (HS b a τ σ (SNum za)); auto.
      * assert (zb = za).
        { apply (f_equal Z.lnot) in Hz. rewrite !Z.lnot_involutive in Hz. congruence. }
        subst. apply (HS b a τ σ (SNum za)); auto.
      * apply (abs_case rec τ σ b a zb za); auto; lia.
    + inversion Vb as [[Hn Hargs Hp]]. subst n' args'.
      assert (p' = p) by (destruct p, p'; simpl in Hp; congruence). subst p'.
      apply (HS b a τ σ (SFun n args p)); auto.
  - pu_red. reflexivity.
  - exfalso. apply (un_vs_fun σ τ oa a nb xsb eb v); auto.
  - pu_red. reflexivity.
  - pu_red. reflexivity.
  - pu_red. reflexivity.
  - exfalso. apply (bin_vs_fun σ τ oa la ra nb xsb eb v); auto.
  - exfalso. apply (sym_vs_fun τ σ cb na xsa ea v); auto.
  - exfalso. apply (un_vs_fun τ σ ob b na xsa ea v); auto.
  - exfalso. apply (bin_vs_fun τ σ ob lb rb na xsa ea v); auto.
  - (* Fun / Fun *)
    apply eval_fun_inv in Ea. destruct Ea as (vs & Ea & ->).
    apply eval_fun_inv in Eb. destruct Eb as (vs' & Eb & Ev). inversion Ev as [[Hn Hvs]]. subst nb vs'.
    simpl in Wa, Wb. apply andb_true_iff in Wa. destruct Wa as [_ Wa].
    apply andb_true_iff in Wb. destruct Wb as [_ Wb].
    apply pu_body_fun_fun; [reflexivity| |].
    + rewrite <- (eval_list_length _ _ _ Ea), <- (eval_list_length _ _ _ Eb). reflexivity.
    + apply (args_sound rec σ τ HS Hσ Hτ xsa xsb vs); auto.
Qed.

Lemma pu_fuel_sound : forall n, Sound (pu_fuel n) /\ Leafy (pu_fuel n).
Proof.
  induction n as [|n [IHS IHL]]; simpl.
  - split; intros; intro; intros; reflexivity.
  - split; [apply pu_body_sound | apply pu_body_leafy]; assumption.
Qed.

Lemma pu_sound_gen : Sound pu.
Proof. intros a b. unfold pu. apply (proj1 (pu_fuel_sound _)). Qed.
End Body.

(** ** The main statements *)

Theorem pu_sound_partial : forall s t σ τ v,
  wf_term s = true -> wf_term t = true -> pos_subst σ -> pos_subst τ ->
  eval σ s = Some v -> eval τ t = Some v -> pu s t = true.
Proof.
  intros s t σ τ v Ws Wt Hσ Hτ. apply (pu_sound_gen false); auto; right; assumption.
Qed.

Theorem pu_sound_partial_strict : forall s t σ τ v,
  wf_strict s = true -> wf_strict t = true ->
  eval σ s = Some v -> eval τ t = Some v -> pu s t = true.
Proof.
  intros s t σ τ v Ws Wt. apply (pu_sound_gen true); auto; left; reflexivity.
Qed.

(* the form in which the passes use the test: a False answer means "never the same value" *)
Corollary pu_false_never_equal : forall s t σ τ v,
  wf_term s = true -> wf_term t = true -> pos_subst σ -> pos_subst τ ->
  pu s t = false -> eval σ s = Some v -> eval τ t <> Some v.
Proof.
  intros s t σ τ v Ws Wt Hσ Hτ F Es Et.
  rewrite (pu_sound_partial s t σ τ v) in F; auto. discriminate.
Qed.

(** ** Pools: potentially_unifying *)

Fixpoint pool_free (t: term) : bool :=
  match t with
  | TVar _ | TSym _ => true
  | TUn _ a => pool_free a
  | TBin _ l r | TInterval l r => pool_free l && pool_free r
  | TFun _ xs _ => forallb pool_free xs
  | TPool _ => false
  end.

Lemma cross_singletons : forall xs acc, fold_left cross_step (map (fun x => [x]) xs) [acc] = [acc ++ xs].
Proof.
  induction xs as [|x xs IH]; intros acc; simpl.
  - rewrite app_nil_r. reflexivity.
  - rewrite IH, <- app_assoc. reflexivity.
Qed.

Lemma unpool_pool_free : forall t, pool_free t = true -> unpool_term t = [t].
Proof.
  induction t as [x|c|o u IH|o l r IHl IHr|l r IHl IHr|n xs e IH|xs _] using term_ind'; simpl; intros H;
    try reflexivity; try discriminate.
  - rewrite IH; auto.
  - apply andb_true_iff in H. destruct H. rewrite IHl, IHr; auto.
  - apply andb_true_iff in H. destruct H. rewrite IHl, IHr; auto.
  - assert (E: map unpool_term xs = map (fun x => [x]) xs).
    { apply map_ext_in. intros x Hx. rewrite Forall_forall in IH. apply IH; auto.
      rewrite forallb_forall in H. auto. }
    rewrite E. unfold cross. rewrite cross_singletons. reflexivity.
Qed.

(* semantics of a term with pools = any of its pool-free alternatives *)
Theorem punify_sound_partial : forall s t a b σ τ v,
  In a (unpool_term s) -> In b (unpool_term t) ->
  wf_term a = true -> wf_term b = true -> pos_subst σ -> pos_subst τ ->
  eval σ a = Some v -> eval τ b = Some v -> potentially_unifying s t = true.
Proof.
  intros s t a b σ τ v Ia Ib Wa Wb Hσ Hτ Ea Eb. unfold potentially_unifying.
  apply existsb_exists. exists (a, b). split; [apply in_prod; assumption|].
  simpl. apply (pu_sound_partial a b σ τ v); auto.
Qed.

Corollary punify_pool_free s t : pool_free s = true -> pool_free t = true ->
  potentially_unifying s t = pu s t.
Proof.
  intros Hs Ht. unfold potentially_unifying. rewrite (unpool_pool_free s Hs), (unpool_pool_free t Ht).
  simpl. rewrite orb_false_r. reflexivity.
Qed.

(** ** Sequences: potentially_unifying_sequence *)

Lemma Forall2_len {A B} (R: A -> B -> Prop) l l' : Forall2 R l l' -> List.length l = List.length l'.
Proof. induction 1; simpl; congruence. Qed.

Theorem pus_sound_alts : forall ss ts sa ta σ τ vs,
  Forall2 (fun s a => In a (unpool_term s)) ss sa -> Forall2 (fun t b => In b (unpool_term t)) ts ta ->
  forallb wf_term sa = true -> forallb wf_term ta = true -> pos_subst σ -> pos_subst τ ->
  eval_list σ sa = Some vs -> eval_list τ ta = Some vs ->
  potentially_unifying_sequence ss ts = true.
Proof.
  intros ss ts sa ta σ τ vs Fs Ft Ws Wt Hσ Hτ Es Et. unfold potentially_unifying_sequence.
  assert (L: List.length ss = List.length ts).
  { rewrite (Forall2_len _ _ _ Fs), (Forall2_len _ _ _ Ft).
    rewrite <- (eval_list_length _ _ _ Es), <- (eval_list_length _ _ _ Et). reflexivity. }
  rewrite L, Nat.eqb_refl. simpl. clear L.
  revert ts ta vs Ft Wt Es Et.
  induction Fs as [|s a ss sa Ia Fs IH]; intros ts ta vs Ft Wt Es Et; [reflexivity|].
  destruct Ft as [|t b ts ta Ib Ft]; [reflexivity|]. simpl in *.
  apply andb_true_iff in Ws. destruct Ws as [Wa Ws]. apply andb_true_iff in Wt. destruct Wt as [Wb Wt].
  destruct (eval σ a) as [va|] eqn:Eva; [|discriminate].
  destruct (eval_list σ sa) as [vsa|] eqn:Evsa; [|discriminate].
  destruct (eval τ b) as [vb|] eqn:Evb; [|discriminate].
  destruct (eval_list τ ta) as [vta|] eqn:Evta; [|discriminate].
  inversion Es; subst vs. inversion Et; subst.
  rewrite (punify_sound_partial s t a b σ τ va); auto. simpl. apply (IH Ws ts ta vsa); auto.
Qed.

Lemma Forall2_self_unpool ss : forallb pool_free ss = true -> Forall2 (fun s a => In a (unpool_term s)) ss ss.
Proof.
  induction ss as [|s ss IH]; simpl; intros H; constructor.
  - apply andb_true_iff in H. destruct H as [H _]. rewrite (unpool_pool_free s H). left. reflexivity.
  - apply IH. apply andb_true_iff in H. tauto.
Qed.

Theorem pus_sound_partial : forall ss ts σ τ vs,
  forallb pool_free ss = true -> forallb pool_free ts = true ->
  forallb wf_term ss = true -> forallb wf_term ts = true -> pos_subst σ -> pos_subst τ ->
  eval_list σ ss = Some vs -> eval_list τ ts = Some vs ->
  potentially_unifying_sequence ss ts = true.
Proof.
  intros ss ts σ τ vs Ps Pt Ws Wt Hσ Hτ Es Et.
  apply (pus_sound_alts ss ts ss ts σ τ vs); auto using Forall2_self_unpool.
Qed.

(* ====================================================================================== *)
(** * 6. Non-vacuity *)

(* f(X,1)   (a,Y+1)   g(-3,"s")   as the parser builds them *)
Definition ex_fX1 := TFun "f" [TVar "X"; TSym (SNum 1)] false.
Definition ex_tup := TFun "" [TSym (SFun "a" [] true); TBin BPlus (TVar "Y") (TSym (SNum 1))] false.
Definition ex_g := TFun "g" [TUn UMinus (TSym (SNum 3)); TSym (SStr "s")] false.

Example wf_realistic :
  forallb wf_term [ex_fX1; ex_tup; ex_g; TUn UMinus (TVar "X"); TUn UAbs (TBin BMinus (TVar "X") (TVar "Y"));
                   TFun "f" [TUn UMinus (TVar "X"); TUn UAbs (TSym (SNum 2))] false] = true
  /\ forallb wf_strict [ex_fX1; ex_tup; ex_g; TUn UAbs (TBin BMinus (TVar "X") (TVar "Y"))] = true
  /\ forallb pool_free [ex_fX1; ex_tup; ex_g] = true.
Proof. vm_compute. repeat split. Qed.

(* every counterexample of section 2 violates exactly the advertised condition *)
Example wf_rejects :
  wf_term (TFun "a" [] false) = false                                              (* (1) *)
  /\ wf_term (TSym (SFun "f" [SNum 1] true)) = false                                (* (3) *)
  /\ wf_term (TUn UMinus (TUn UMinus (TVar "X"))) = false                           (* (4) *)
  /\ wf_term (TUn UMinus (TUn UMinus (TFun "f" [TSym (SNum 1)] false))) = false     (* (5) *)
  /\ wf_term (TUn UMinus (TSym (SFun "f" [SNum 1] false))) = false                  (* (6) *)
  /\ wf_term (TUn UAbs (TSym (SNum (-1)))) = false                                  (* (7) *)
  /\ wf_term (TUn UAbs (TUn UNeg (TUn UMinus (TSym (SNum 0))))) = false             (* (8) *)
  /\ wf_term (TUn UMinus (TVar "X")) = true /\ wf_strict (TUn UMinus (TVar "X")) = false   (* (2) *)
  /\ negfun (sX (SFun "f" [SNum 1] false) "X") = true.                              (* (2): not pos_subst *)
Proof. vm_compute. repeat split. Qed.

Lemma pos_subst_nums : pos_subst (fun _ => SNum 2).
Proof. intros x. reflexivity. Qed.

(* the hypotheses are satisfiable together with the conclusion's premise: f(X,1) and f(2,Y) *)
Example pu_sound_partial_instance :
  pu ex_fX1 (TFun "f" [TSym (SNum 2); TVar "Y"] false) = true.
Proof.
  apply (pu_sound_partial _ _ (fun _ => SNum 2) (fun _ => SNum 1) (SFun "f" [SNum 2; SNum 1] true));
    try reflexivity; intros x; reflexivity.
Qed.

(* and a False answer that the corollary turns into a semantic fact: f(X,1) never equals f(Y,2) *)
Example pu_false_instance : forall σ τ v, pos_subst σ -> pos_subst τ ->
  eval σ ex_fX1 = Some v -> eval τ (TFun "f" [TVar "Y"; TSym (SNum 2)] false) <> Some v.
Proof.
  intros σ τ v Hσ Hτ. apply pu_false_never_equal; auto; reflexivity.
Qed.

Example pus_instance :
  potentially_unifying_sequence [TSym (SNum 1); ex_fX1] [TVar "W"; TFun "f" [TSym (SNum 2); TVar "Y"] false] = true.
Proof.
  apply (pus_sound_partial _ _ (fun _ => SNum 2) (fun _ => SNum 1) [SNum 1; SFun "f" [SNum 2; SNum 1] true]);
    try reflexivity; intros x; reflexivity.
Qed.

Print Assumptions pu_sound_refuted.
Print Assumptions pu_fuel_enough.
Print Assumptions pu_unfold.
Print Assumptions pu_sym.
Print Assumptions pu_sound_partial.
Print Assumptions pu_sound_partial_strict.
Print Assumptions pu_false_never_equal.
Print Assumptions punify_sound_partial.
Print Assumptions pus_sound_alts.
Print Assumptions pus_sound_partial.
