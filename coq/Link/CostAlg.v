(* G7/G8: algebra of sums over tuple *sets* (aggregates and objectives share it). No axioms. *)
From Coq Require Import List String ZArith Bool Lia Permutation.
From NGO Require Import Syntax.Ast Sem.Sym Sem.Sat Sem.Cost.
Import ListNotations.
Open Scope list_scope.

Lemma sum_of_app l1 l2 : sum_of (l1 ++ l2) = (sum_of l1 + sum_of l2)%Z.
Proof. unfold sum_of. induction l1 as [|a l IH]; simpl; [reflexivity|]. rewrite IH. lia. Qed.

Lemma sum_of_perm l l' : Permutation l l' -> sum_of l = sum_of l'.
Proof.
  unfold sum_of. induction 1 as [|x l l' P IH|x y l|l l' l'' P1 IH1 P2 IH2]; simpl; try lia.
Qed.

(* the value of a sum does not depend on how the tuple set is enumerated *)
Theorem sum_enumeration_independent_proof S l l' : enumerates S l -> enumerates S l' -> sum_of l = sum_of l'.
Proof.
  intros [ND M] [ND' M']. apply sum_of_perm. apply NoDup_Permutation; try assumption.
  intro tv. rewrite (M tv), (M' tv). tauto.
Qed.

Lemma NoDup_app_disjoint {A} (l1 l2: list A) :
  NoDup l1 -> NoDup l2 -> (forall x, In x l1 -> In x l2 -> False) -> NoDup (l1 ++ l2).
Proof.
  induction l1 as [|a l1 IH]; intros N1 N2 Dis; simpl; [exact N2|].
  inversion N1 as [|? ? Na N1']; subst. constructor.
  - intro Hin. apply in_app_or in Hin. destruct Hin as [Hin|Hin]; [exact (Na Hin) | exact (Dis a (or_introl eq_refl) Hin)].
  - apply IH; [exact N1' | exact N2 | intros x H1 H2; exact (Dis x (or_intror H1) H2)].
Qed.

(* tuples of two statements / aggregates that can never coincide: the sums add *)
Theorem sum_disjoint_union_proof (S1 S2: tupset) l1 l2 :
  enumerates S1 l1 -> enumerates S2 l2 -> (forall tv, S1 tv -> S2 tv -> False) ->
  enumerates (fun tv => S1 tv \/ S2 tv) (l1 ++ l2) /\ sum_of (l1 ++ l2) = (sum_of l1 + sum_of l2)%Z.
Proof.
  intros [ND1 M1] [ND2 M2] Dis. split; [|apply sum_of_app]. split.
  - apply NoDup_app_disjoint; [exact ND1 | exact ND2 |]. intros tv H1 H2. apply (Dis tv); [apply M1 | apply M2]; assumption.
  - intro tv. rewrite in_app_iff, (M1 tv), (M2 tv). tauto.
Qed.

(* tuples that do coincide are counted once: a set, not a multiset *)
Theorem sum_overlap_counted_once_proof (tv: list sym) :
  enumerates (fun x => x = tv \/ x = tv) [tv] /\ sum_of [tv] = weight tv.
Proof.
  split; [split; [constructor; [intros []|constructor] | intro x; simpl; split; [intros [<-|[]]; left; reflexivity | intros [->| ->]; left; reflexivity]]|].
  unfold sum_of. simpl. lia.
Qed.

(* #sum+ ignores negative weights, so negating weights inside #sum+ is not sound (C14) *)
Theorem sumplus_negation_refuted_proof :
  sumplus_of [[SNum (-1)]] = 0%Z /\ sumplus_of [[SNum 1]] = 1%Z /\ sum_of [[SNum (-1)]] = (-1)%Z.
Proof. repeat split; reflexivity. Qed.

(* equal tuple sets give equal costs *)
Section CostExt.
Variable sym_lt : sym -> sym -> Prop.
Theorem cost_ext_proof (P Q: program) (T T': interp) :
  (forall p tv, cost_tuples sym_lt P T p tv <-> cost_tuples sym_lt Q T' p tv) -> same_cost sym_lt P Q T T'.
Proof.
  intros E p c. unfold cost_at. split; intros [l [[ND M] V]]; exists l; (split; [|exact V]); (split; [exact ND|]); intro tv; rewrite (M tv); [apply E | symmetry; apply E].
Qed.
End CostExt.
