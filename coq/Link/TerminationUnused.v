(* Termination of the `while True` loop of UnusedTranslator.execute (ngo/unused.py:261-278) as modelled by
   Model/Unused.v: the fuel `execute_fuel prg = S (length prg + count_positions prg)` that the model passes to
   `execute_loop` is always sufficient, i.e. `execute_core` never answers OutOfFuel.

   Measure: mu prg = number of statements + number of argument positions of all symbolic atoms whose symbol is
   a Function node.  One iteration  new_prg -> prg1 -> prg2 -> prg3 -> prg4 :
     (a) _anonymize_variables keeps length and positions               (anonymize_ok)
     (b) project_unused keeps the length, never adds positions, and is the identity when it removes none
                                                                        (project_unused_ok)
     (c) remove_unused is a filter                                      (remove_unused_ok)
     (d) remove_single_copies is the identity or removes a statement without adding positions
                                                                        (remove_single_copies_ok)
   so prg4 = prg1 or mu prg4 < mu prg1 = mu new_prg (execute_step_ok); the loop stops when prg4 == prg1. *)
From Coq Require Import List String ZArith Bool Arith Lia.
From NGO Require Import Syntax.Ast Model.Traverse Model.Globals Model.Unused.
From NGO Require Import Link.GlobalsSpec.
From NGO Require Link.CleanupSpec.
Import ListNotations.
Open Scope string_scope. Open Scope list_scope.

(* ====================================================================================== *)
(** * 0. Generic facts about `result` *)

Lemma rbind_nof {A B} (r: result A) (f: A -> result B) :
  r <> OutOfFuel -> (forall a, r = Ok a -> f a <> OutOfFuel) -> rbind r f <> OutOfFuel.
Proof.
  destruct r as [a|k| |]; simpl; intros N F.
  - apply F. reflexivity.
  - discriminate.
  - discriminate.
  - exfalso. apply N. reflexivity.
Qed.

Lemma rbind_ok {A B} (r: result A) (f: A -> result B) b :
  rbind r f = Ok b -> exists a, r = Ok a /\ f a = Ok b.
Proof. destruct r as [a|k| |]; simpl; try discriminate. intros E. exists a. split; [reflexivity | exact E]. Qed.

Lemma rmap_nof {A B} (f: A -> result B) : (forall a, f a <> OutOfFuel) -> forall l, rmap f l <> OutOfFuel.
Proof.
  intros Hf. induction l as [|a l IH]; simpl; [discriminate|].
  apply rbind_nof; [apply Hf|]. intros b _. apply rbind_nof; [exact IH|]. intros t _. discriminate.
Qed.

Lemma rmap_ok {A B} (f: A -> result B) : forall l l', rmap f l = Ok l' -> Forall2 (fun a b => f a = Ok b) l l'.
Proof.
  induction l as [|a l IH]; simpl; intros l' H.
  - injection H as <-. constructor.
  - apply rbind_ok in H. destruct H as [b [Hb H]]. apply rbind_ok in H. destruct H as [t [Ht H]].
    injection H as <-. constructor; [exact Hb | apply IH; exact Ht].
Qed.

Lemma fold_rbind_nof {A X} (h: A -> X -> result A) :
  (forall a x, h a x <> OutOfFuel) ->
  forall l init, init <> OutOfFuel -> fold_left (fun acc x => rbind acc (fun a => h a x)) l init <> OutOfFuel.
Proof.
  intros Hh. induction l as [|x l IH]; simpl; intros init Hi; [exact Hi|].
  apply IH. apply rbind_nof; [exact Hi|]. intros a _. apply Hh.
Qed.

(* an invariant of a fold of rbind's *)
Lemma fold_rbind_inv {A X} (h: A -> X -> result A) (P: A -> Prop) :
  (forall a x a', P a -> h a x = Ok a' -> P a') ->
  forall l init r, (forall a, init = Ok a -> P a) ->
    fold_left (fun acc x => rbind acc (fun a => h a x)) l init = Ok r -> P r.
Proof.
  intros Hh. induction l as [|x l IH]; simpl; intros init r Hi H.
  - apply Hi. exact H.
  - apply (IH _ _ (fun a E => match rbind_ok _ _ _ E with ex_intro _ a0 (conj E0 E1) => Hh a0 x a (Hi a0 E0) E1 end) H).
Qed.

Definition lsum {A} (w: A -> nat) (l: list A) : nat := list_sum (map w l).

Lemma lsum_cons {A} (w: A -> nat) a l : lsum w (a :: l) = w a + lsum w l.
Proof. reflexivity. Qed.
Lemma lsum_app {A} (w: A -> nat) l1 l2 : lsum w (l1 ++ l2) = lsum w l1 + lsum w l2.
Proof. unfold lsum. rewrite map_app, list_sum_app. reflexivity. Qed.
Lemma lsum_ext {A} (w w': A -> nat) l : Forall (fun a => w a = w' a) l -> lsum w l = lsum w' l.
Proof. induction 1 as [|a l Ha _ IH]; [reflexivity|]. rewrite !lsum_cons, Ha, IH. reflexivity. Qed.
Lemma lsum_map {A B} (w: B -> nat) (g: A -> B) l : lsum w (map g l) = lsum (fun a => w (g a)) l.
Proof. unfold lsum. rewrite map_map. reflexivity. Qed.

(* ====================================================================================== *)
(** * 1. Argument positions, structurally *)

Definition pos_term (t: term) : nat := match t with TFun _ args _ => List.length args | _ => 0 end.

Fixpoint pos_atom (a: atom) : nat :=
  match a with
  | ASym t => pos_term t
  | ABodyAgg _ _ es _ => list_sum (map (fun e : list term * list lit => list_sum (map pos_lit (snd e))) es)
  | AAgg _ es _ => list_sum (map (fun e : lit * list lit => pos_lit (fst e) + list_sum (map pos_lit (snd e))) es)
  | _ => 0
  end
with pos_lit (l: lit) : nat := match l with Lit _ a => pos_atom a end.

Definition pos_lits (ls: list lit) : nat := lsum pos_lit ls.
Definition pos_condlit (c: condlit) : nat := pos_lit (fst c) + pos_lits (snd c).
Definition pos_bodyelem (b: bodyelem) : nat :=
  match b with BLit l => pos_lit l | BCond l c => pos_lit l + pos_lits c end.
Definition pos_body (b: list bodyelem) : nat := lsum pos_bodyelem b.
Definition pos_head (h: head) : nat :=
  match h with
  | HLit l => pos_lit l
  | HDisj es => lsum pos_condlit es
  | HAgg _ es _ => lsum pos_condlit es
  | HHeadAgg _ _ es _ => lsum (fun e : helem => pos_condlit (snd e)) es
  | HTheory _ => 0
  end.
Definition pos_stmt (s: stmt) : nat :=
  match s with
  | SRule _ h b => pos_head h + pos_body b
  | SMin _ _ _ _ b => pos_body b
  | SShowTerm _ b => pos_body b
  | _ => 0
  end.
Definition pos_prog (prg: list stmt) : nat := lsum pos_stmt prg.

(* the measure *)
Definition mu (prg: list stmt) : nat := List.length prg + pos_prog prg.

Lemma pos_atom_bodyagg lg fn es rg :
  pos_atom (ABodyAgg lg fn es rg) = lsum (fun e : list term * list lit => pos_lits (snd e)) es.
Proof. reflexivity. Qed.
Lemma pos_atom_agg lg es rg :
  pos_atom (AAgg lg es rg) = lsum (fun e : lit * list lit => pos_lit (fst e) + pos_lits (snd e)) es.
Proof. reflexivity. Qed.
Lemma pos_lit_unfold s a : pos_lit (Lit s a) = pos_atom a.
Proof. reflexivity. Qed.

(* unfolding lemmas for the mutual fixpoint tr_atom / tr_lit *)
Section TrUnfold.
  Context {S: Type} (f: term -> S -> result (term * S)).
  Lemma tr_lit_unfold s a st : tr_lit f (Lit s a) st = rbind (tr_atom f a st) (fun r => Ok (Lit s (fst r), snd r)).
  Proof. reflexivity. Qed.
  Lemma tr_atom_sym t st : tr_atom f (ASym t) st = rbind (f t st) (fun r => Ok (ASym (fst r), snd r)).
  Proof. reflexivity. Qed.
  Lemma tr_atom_bodyagg lg fn es rg st :
    tr_atom f (ABodyAgg lg fn es rg) st =
    rbind (smapM (fun (e: list term * list lit) st => rbind (smapM (tr_lit f) (snd e) st) (fun r => Ok ((fst e, fst r), snd r))) es st)
          (fun r => Ok (ABodyAgg lg fn (fst r) rg, snd r)).
  Proof. reflexivity. Qed.
  Lemma tr_atom_agg lg es rg st :
    tr_atom f (AAgg lg es rg) st =
    rbind (smapM (fun (e: lit * list lit) st => rbind (tr_lit f (fst e) st) (fun l =>
                                  rbind (smapM (tr_lit f) (snd e) (snd l)) (fun r => Ok ((fst l, fst r), snd r)))) es st)
          (fun r => Ok (AAgg lg (fst r) rg, snd r)).
  Proof. reflexivity. Qed.
End TrUnfold.

(* ====================================================================================== *)
(** * 2. count_positions computes pos_prog *)

Definition cf (t: term) (n: nat) : result (term * nat) :=
  Ok (t, match t with TFun _ args _ => n + List.length args | _ => n end).

Lemma cf_spec t n : cf t n = Ok (t, n + pos_term t).
Proof. unfold cf. destruct t; simpl; rewrite ?Nat.add_0_r; reflexivity. Qed.

Lemma smapM_count {A} (g: A -> nat -> result (A * nat)) (w: A -> nat) l :
  Forall (fun a => forall n, g a n = Ok (a, n + w a)) l -> forall n, smapM g l n = Ok (l, n + lsum w l).
Proof.
  induction 1 as [|a l Ha _ IH]; intros n; simpl.
  - unfold lsum. simpl. rewrite Nat.add_0_r. reflexivity.
  - rewrite Ha. simpl. rewrite IH. simpl. rewrite lsum_cons, Nat.add_assoc. reflexivity.
Qed.

Lemma smapM_count_all {A} (g: A -> nat -> result (A * nat)) (w: A -> nat) :
  (forall a n, g a n = Ok (a, n + w a)) -> forall l n, smapM g l n = Ok (l, n + lsum w l).
Proof. intros H l. apply smapM_count. apply Forall_forall. intros a _. apply H. Qed.

Lemma count_lit_of_atom l : (forall n, tr_atom cf (CleanupSpec.lit_atom l) n = Ok (CleanupSpec.lit_atom l, n + pos_atom (CleanupSpec.lit_atom l))) ->
  forall n, tr_lit cf l n = Ok (l, n + pos_lit l).
Proof. destruct l as [s a]. simpl CleanupSpec.lit_atom. intros H n. rewrite tr_lit_unfold, H. reflexivity. Qed.

Lemma count_atom : forall a n, tr_atom cf a n = Ok (a, n + pos_atom a).
Proof.
  apply (CleanupSpec.atom_ind' (fun a => forall n, tr_atom cf a n = Ok (a, n + pos_atom a))).
  - intros t n. rewrite tr_atom_sym, cf_spec. reflexivity.
  - intros t gs n. simpl. rewrite Nat.add_0_r. reflexivity.
  - intros b n. simpl. rewrite Nat.add_0_r. reflexivity.
  - intros lg fn es rg IH n. rewrite tr_atom_bodyagg, pos_atom_bodyagg.
    rewrite (smapM_count _ (fun e : list term * list lit => pos_lits (snd e))).
    + reflexivity.
    + eapply Forall_impl; [|exact IH]. intros [ts cs] Hcs k. simpl in *.
      rewrite (smapM_count _ pos_lit).
      * reflexivity.
      * eapply Forall_impl; [|exact Hcs]. intros l Hl. apply count_lit_of_atom. exact Hl.
  - intros lg es rg IH n. rewrite tr_atom_agg, pos_atom_agg.
    rewrite (smapM_count _ (fun e : lit * list lit => pos_lit (fst e) + pos_lits (snd e))).
    + reflexivity.
    + eapply Forall_impl; [|exact IH]. intros [l cs] [Hl Hcs] k. simpl in *.
      rewrite (count_lit_of_atom l Hl). simpl.
      rewrite (smapM_count _ pos_lit).
      * simpl. rewrite Nat.add_assoc. reflexivity.
      * eapply Forall_impl; [|exact Hcs]. intros l' Hl'. apply count_lit_of_atom. exact Hl'.
  - intros s n. simpl. rewrite Nat.add_0_r. reflexivity.
Qed.

Lemma count_lit l n : tr_lit cf l n = Ok (l, n + pos_lit l).
Proof. apply count_lit_of_atom. intros k. apply count_atom. Qed.
Lemma count_lits ls n : tr_lits cf ls n = Ok (ls, n + pos_lits ls).
Proof. apply smapM_count_all. apply count_lit. Qed.
Lemma count_condlit c n : tr_condlit cf c n = Ok (c, n + pos_condlit c).
Proof.
  destruct c as [l cs]. unfold tr_condlit, pos_condlit. simpl. rewrite count_lit. simpl. rewrite count_lits. simpl.
  rewrite Nat.add_assoc. reflexivity.
Qed.
Lemma count_bodyelem b n : tr_bodyelem cf b n = Ok (b, n + pos_bodyelem b).
Proof.
  destruct b as [l|l c]; simpl.
  - rewrite count_lit. reflexivity.
  - rewrite count_condlit. reflexivity.
Qed.
Lemma count_body b n : tr_body cf b n = Ok (b, n + pos_body b).
Proof. apply smapM_count_all. apply count_bodyelem. Qed.
Lemma count_head h n : tr_head cf h n = Ok (h, n + pos_head h).
Proof.
  destruct h as [l|es|lg es rg|lg fn es rg|t]; simpl.
  - rewrite count_lit. reflexivity.
  - rewrite (smapM_count_all _ pos_condlit count_condlit). reflexivity.
  - rewrite (smapM_count_all _ pos_condlit count_condlit). reflexivity.
  - rewrite (smapM_count_all _ (fun e : helem => pos_condlit (snd e))); [reflexivity|].
    intros [ts c] k. simpl. rewrite count_condlit. reflexivity.
  - rewrite Nat.add_0_r. reflexivity.
Qed.
Lemma count_stmt s n : tr_stmt cf s n = Ok (s, n + pos_stmt s).
Proof.
  destruct s as [ln h b|ln w p ts b|nm ar ps|t b|k tx]; simpl; rewrite ?Nat.add_0_r; try reflexivity.
  - rewrite count_head. simpl. rewrite count_body. simpl. rewrite Nat.add_assoc. reflexivity.
  - rewrite count_body. reflexivity.
  - rewrite count_body. reflexivity.
Qed.

Theorem count_positions_spec prg : count_positions prg = pos_prog prg.
Proof.
  unfold count_positions. change (fun (t: term) (n: nat) => Ok (t, match t with TFun _ args _ => n + List.length args | _ => n end)) with cf.
  unfold tr_prog. rewrite (smapM_count_all _ pos_stmt count_stmt). reflexivity.
Qed.

(* ====================================================================================== *)
(** * 3. A generic lemma about transform_ast(x, "SymbolicAtom", f)

   If f never runs out of fuel, moves the state along a preorder Q, never adds positions, (under Idn) returns
   its argument when it keeps the positions, and (under Eqp) keeps the positions, then so does the traversal. *)

Section Traversal.
  Context {S: Type} (f: term -> S -> result (term * S)).
  Variable Q: S -> S -> Prop.
  Variables Idn Eqp: Prop.
  Hypothesis Q_refl: forall s, Q s s.
  Hypothesis Q_trans: forall a b c, Q a b -> Q b c -> Q a c.

  Definition good {A} (w: A -> nat) (x x': A) (st st': S) : Prop :=
    Q st st' /\ w x' <= w x /\ (Idn -> w x' = w x -> x' = x) /\ (Eqp -> w x' = w x).

  Definition okgood {A} (w: A -> nat) (x: A) (st: S) (r: result (A * S)) : Prop :=
    match r with
    | Ok r => good w x (fst r) st (snd r)
    | OutOfFuel => False
    | _ => True
    end.

  Hypothesis Hf: forall t st, okgood pos_term t st (f t st).

  Lemma good_refl {A} (w: A -> nat) x st : good w x x st st.
  Proof. unfold good. auto. Qed.

  Lemma okgood_ret {A} (w: A -> nat) x st : okgood w x st (Ok (x, st)).
  Proof. apply good_refl. Qed.

  (* a constructor around one transformed component *)
  Lemma okgood_wrap {A B} (wa: A -> nat) (wb: B -> nat) (C: B -> A) b st r :
    (forall y, wa (C y) = wb y) -> okgood wb b st r ->
    okgood wa (C b) st (rbind r (fun r => Ok (C (fst r), snd r))).
  Proof.
    intros Hw. destruct r as [[b' st']| | |]; simpl; trivial.
    unfold good. simpl. rewrite !Hw. intros [H1 [H2 [H3 H4]]]. repeat split; auto.
    intros I E. f_equal. auto.
  Qed.

  (* a constructor around two components transformed one after the other *)
  Lemma okgood_wrap2 {A B1 B2} (wa: A -> nat) (w1: B1 -> nat) (w2: B2 -> nat) (C: B1 -> B2 -> A) b1 b2 st r1 k :
    (forall y z, wa (C y z) = w1 y + w2 z) -> okgood w1 b1 st r1 -> (forall st1, okgood w2 b2 st1 (k st1)) ->
    okgood wa (C b1 b2) st (rbind r1 (fun x => rbind (k (snd x)) (fun y => Ok (C (fst x) (fst y), snd y)))).
  Proof.
    intros Hw H1 H2. destruct r1 as [[b1' st1]| | |]; simpl in *; trivial.
    specialize (H2 st1). destruct (k st1) as [[b2' st2]| | |]; simpl in *; trivial.
    unfold good in *. simpl. rewrite !Hw.
    destruct H1 as [A1 [A2 [A3 A4]]], H2 as [B1' [B2' [B3 B4]]]. repeat split.
    - eapply Q_trans; eassumption.
    - lia.
    - intros I E. f_equal; [apply A3 | apply B3]; auto; lia.
    - intros E. rewrite A4, B4; auto.
  Qed.

  Lemma okgood_smapM {A} (g: A -> S -> result (A * S)) (w: A -> nat) l :
    Forall (fun a => forall st, okgood w a st (g a st)) l -> forall st, okgood (lsum w) l st (smapM g l st).
  Proof.
    induction 1 as [|a l Ha _ IH]; intros st.
    - simpl. apply good_refl.
    - change (smapM g (a :: l) st) with
        (rbind (g a st) (fun x => rbind (smapM g l (snd x)) (fun y => Ok (fst x :: fst y, snd y)))).
      apply (okgood_wrap2 (lsum w) w (lsum w) cons a l st (g a st) (smapM g l)).
      + intros y z. apply lsum_cons.
      + apply Ha.
      + exact IH.
  Qed.

  Lemma okgood_smapM_all {A} (g: A -> S -> result (A * S)) (w: A -> nat) :
    (forall a st, okgood w a st (g a st)) -> forall l st, okgood (lsum w) l st (smapM g l st).
  Proof. intros H l. apply okgood_smapM. apply Forall_forall. intros a _. apply H. Qed.

  Lemma trav_lit_of_atom l :
    (forall st, okgood pos_atom (CleanupSpec.lit_atom l) st (tr_atom f (CleanupSpec.lit_atom l) st)) ->
    forall st, okgood pos_lit l st (tr_lit f l st).
  Proof.
    destruct l as [s a]. simpl CleanupSpec.lit_atom. intros H st. rewrite tr_lit_unfold.
    apply (okgood_wrap pos_lit pos_atom (Lit s)); [reflexivity | apply H].
  Qed.

  Lemma trav_atom : forall a st, okgood pos_atom a st (tr_atom f a st).
  Proof.
    apply (CleanupSpec.atom_ind' (fun a => forall st, okgood pos_atom a st (tr_atom f a st))).
    - intros t st. rewrite tr_atom_sym. apply (okgood_wrap pos_atom pos_term ASym); [reflexivity | apply Hf].
    - intros t gs st. apply okgood_ret.
    - intros b st. apply okgood_ret.
    - intros lg fn es rg IH st. rewrite tr_atom_bodyagg.
      apply (okgood_wrap pos_atom (lsum (fun e : list term * list lit => pos_lits (snd e))) (fun es => ABodyAgg lg fn es rg)).
      + intros y. apply pos_atom_bodyagg.
      + apply okgood_smapM. eapply Forall_impl; [|exact IH]. intros [ts cs] Hcs st1. simpl fst. simpl snd.
        apply (okgood_wrap (fun e : list term * list lit => pos_lits (snd e)) pos_lits (fun cs => (ts, cs))); [reflexivity|].
        apply okgood_smapM. eapply Forall_impl; [|exact Hcs]. intros l Hl. apply trav_lit_of_atom. exact Hl.
    - intros lg es rg IH st. rewrite tr_atom_agg.
      apply (okgood_wrap pos_atom (lsum (fun e : lit * list lit => pos_lit (fst e) + pos_lits (snd e))) (fun es => AAgg lg es rg)).
      + intros y. apply pos_atom_agg.
      + apply okgood_smapM. eapply Forall_impl; [|exact IH]. intros [l cs] [Hl Hcs] st1. simpl fst. simpl snd.
        apply (okgood_wrap2 (fun e : lit * list lit => pos_lit (fst e) + pos_lits (snd e)) pos_lit pos_lits
                 (fun (l: lit) (cs: list lit) => (l, cs)) l cs st1 (tr_lit f l st1) (smapM (tr_lit f) cs)).
        * reflexivity.
        * apply trav_lit_of_atom. exact Hl.
        * apply okgood_smapM. eapply Forall_impl; [|exact Hcs]. intros l' Hl'. apply trav_lit_of_atom. exact Hl'.
    - intros s st. apply okgood_ret.
  Qed.

  Lemma trav_lit l st : okgood pos_lit l st (tr_lit f l st).
  Proof. apply trav_lit_of_atom. intros st1. apply trav_atom. Qed.
  Lemma trav_lits ls st : okgood pos_lits ls st (tr_lits f ls st).
  Proof. apply okgood_smapM_all. apply trav_lit. Qed.
  Lemma trav_condlit c st : okgood pos_condlit c st (tr_condlit f c st).
  Proof.
    destruct c as [l cs]. unfold tr_condlit. simpl fst. simpl snd.
    apply (okgood_wrap2 pos_condlit pos_lit pos_lits (fun (l: lit) (cs: list lit) => (l, cs)) l cs st (tr_lit f l st) (tr_lits f cs)).
    - reflexivity.
    - apply trav_lit.
    - apply trav_lits.
  Qed.
  Lemma trav_bodyelem b st : okgood pos_bodyelem b st (tr_bodyelem f b st).
  Proof.
    destruct b as [l|l c]; simpl.
    - apply (okgood_wrap pos_bodyelem pos_lit BLit); [reflexivity | apply trav_lit].
    - pose proof (trav_condlit (l, c) st) as H.
      destruct (tr_condlit f (l, c) st) as [[[l' c'] st']| | |]; simpl in *; trivial.
      unfold good in *. simpl in *. unfold pos_condlit in H. simpl in H.
      destruct H as [H1 [H2 [H3 H4]]]. repeat split; auto.
      intros I E. specialize (H3 I E). injection H3 as -> ->. reflexivity.
  Qed.
  Lemma trav_body b st : okgood pos_body b st (tr_body f b st).
  Proof. apply okgood_smapM_all. apply trav_bodyelem. Qed.
  Lemma trav_head h st : okgood pos_head h st (tr_head f h st).
  Proof.
    destruct h as [l|es|lg es rg|lg fn es rg|t]; simpl.
    - apply (okgood_wrap pos_head pos_lit HLit); [reflexivity | apply trav_lit].
    - apply (okgood_wrap pos_head (lsum pos_condlit) HDisj); [reflexivity|].
      apply okgood_smapM_all. apply trav_condlit.
    - apply (okgood_wrap pos_head (lsum pos_condlit) (fun es => HAgg lg es rg)); [reflexivity|].
      apply okgood_smapM_all. apply trav_condlit.
    - apply (okgood_wrap pos_head (lsum (fun e : helem => pos_condlit (snd e))) (fun es => HHeadAgg lg fn es rg)); [reflexivity|].
      apply okgood_smapM_all. intros [ts c] st1. simpl fst. simpl snd.
      apply (okgood_wrap (fun e : helem => pos_condlit (snd e)) pos_condlit (fun c => (ts, c))); [reflexivity|].
      apply trav_condlit.
    - apply okgood_ret.
  Qed.
  Lemma trav_stmt s st : okgood pos_stmt s st (tr_stmt f s st).
  Proof.
    destruct s as [ln h b|ln w p ts b|nm ar ps|t b|k tx]; simpl.
    - apply (okgood_wrap2 pos_stmt pos_head pos_body (SRule ln) h b st (tr_head f h st) (tr_body f b)).
      + reflexivity.
      + apply trav_head.
      + apply trav_body.
    - apply (okgood_wrap pos_stmt pos_body (SMin ln w p ts)); [reflexivity | apply trav_body].
    - apply okgood_ret.
    - apply (okgood_wrap pos_stmt pos_body (SShowTerm t)); [reflexivity | apply trav_body].
    - apply okgood_ret.
  Qed.
  Lemma trav_prog prg st : okgood pos_prog prg st (tr_prog f prg st).
  Proof. apply okgood_smapM_all. apply trav_stmt. Qed.
End Traversal.

Lemma smapM_length {S A B} (g: A -> S -> result (B * S)) : forall l st l' st',
  smapM g l st = Ok (l', st') -> List.length l' = List.length l.
Proof.
  induction l as [|a l IH]; simpl; intros st l' st' H.
  - injection H as <- _. reflexivity.
  - apply rbind_ok in H. destruct H as [[b st1] [_ H]]. apply rbind_ok in H. destruct H as [[l1 st2] [H1 H]].
    injection H as <- _. simpl. f_equal. eapply IH. exact H1.
Qed.

(* ====================================================================================== *)
(** * 4. (a) _anonymize_variables keeps the number of statements and of positions *)

Section Vmap.
  Variable f: string -> term.
  Hypothesis f_var: forall x, pos_term (f x) = 0.

  Lemma pos_vmap_term t : pos_term (vmap_term f t) = pos_term t.
  Proof. destruct t; simpl; auto. apply map_length. Qed.

  Lemma vmap_atom_bodyagg lg fn es rg :
    vmap_atom f (ABodyAgg lg fn es rg) =
    ABodyAgg (vmap_oguard f lg) fn
      (map (fun e : list term * list lit => (map (vmap_term f) (fst e), map (vmap_lit f) (snd e))) es) (vmap_oguard f rg).
  Proof. reflexivity. Qed.
  Lemma vmap_atom_agg lg es rg :
    vmap_atom f (AAgg lg es rg) =
    AAgg (vmap_oguard f lg) (map (fun e : lit * list lit => (vmap_lit f (fst e), map (vmap_lit f) (snd e))) es) (vmap_oguard f rg).
  Proof. reflexivity. Qed.
  Lemma vmap_lit_unfold s a : vmap_lit f (Lit s a) = Lit s (vmap_atom f a).
  Proof. reflexivity. Qed.

  Lemma pos_vmap_lit_of_atom l :
    pos_atom (vmap_atom f (CleanupSpec.lit_atom l)) = pos_atom (CleanupSpec.lit_atom l) -> pos_lit (vmap_lit f l) = pos_lit l.
  Proof. destruct l as [s a]. simpl. auto. Qed.

  Lemma pos_vmap_atom : forall a, pos_atom (vmap_atom f a) = pos_atom a.
  Proof.
    apply (CleanupSpec.atom_ind' (fun a => pos_atom (vmap_atom f a) = pos_atom a)).
    - intros t. simpl. apply pos_vmap_term.
    - reflexivity.
    - reflexivity.
    - intros lg fn es rg IH. rewrite vmap_atom_bodyagg, !pos_atom_bodyagg, lsum_map.
      apply lsum_ext. eapply Forall_impl; [|exact IH]. intros [ts cs] Hcs. simpl in *.
      unfold pos_lits. rewrite lsum_map. apply lsum_ext.
      eapply Forall_impl; [|exact Hcs]. intros l Hl. apply pos_vmap_lit_of_atom. exact Hl.
    - intros lg es rg IH. rewrite vmap_atom_agg, !pos_atom_agg, lsum_map.
      apply lsum_ext. eapply Forall_impl; [|exact IH]. intros [l cs] [Hl Hcs]. simpl in *.
      rewrite (pos_vmap_lit_of_atom l Hl). f_equal.
      unfold pos_lits. rewrite lsum_map. apply lsum_ext.
      eapply Forall_impl; [|exact Hcs]. intros l' Hl'. apply pos_vmap_lit_of_atom. exact Hl'.
    - reflexivity.
  Qed.

  Lemma pos_vmap_lit l : pos_lit (vmap_lit f l) = pos_lit l.
  Proof. apply pos_vmap_lit_of_atom. apply pos_vmap_atom. Qed.
  Lemma pos_vmap_lits ls : pos_lits (map (vmap_lit f) ls) = pos_lits ls.
  Proof. unfold pos_lits. rewrite lsum_map. apply lsum_ext. apply Forall_forall. intros l _. apply pos_vmap_lit. Qed.
  Lemma pos_vmap_bodyelem b : pos_bodyelem (vmap_bodyelem f b) = pos_bodyelem b.
  Proof. destruct b as [l|l c]; simpl; rewrite pos_vmap_lit; [reflexivity|]. rewrite pos_vmap_lits. reflexivity. Qed.
  Lemma pos_transform_body body : pos_body (transform_body_ast_except_aggregate body f) = pos_body body.
  Proof.
    unfold transform_body_ast_except_aggregate, pos_body. rewrite lsum_map. apply lsum_ext.
    apply Forall_forall. intros b _. destruct (is_aggregate_lit b); [reflexivity | apply pos_vmap_bodyelem].
  Qed.
End Vmap.

Lemma anom_var_var c x : pos_term (anom_var c x) = 0.
Proof. unfold anom_var. destruct (Nat.eqb (count_var c x) 1); reflexivity. Qed.

Lemma anonymize_stm_nof s : _anonymize_stm s <> OutOfFuel.
Proof.
  destruct s as [ln h b|ln w p ts b|nm ar ps|t b|k tx]; unfold _anonymize_stm; try discriminate.
  - destruct (opaque_vars (SRule ln h b)); discriminate.
  - destruct (opaque_vars (SMin ln w p ts b)); discriminate.
Qed.

Lemma anonymize_stm_pos s s' : _anonymize_stm s = Ok s' -> pos_stmt s' = pos_stmt s.
Proof.
  destruct s as [ln h b|ln w p ts b|nm ar ps|t b|k tx]; unfold _anonymize_stm; intros H;
    try (injection H as <-; reflexivity).
  - destruct (opaque_vars (SRule ln h b)); [discriminate|]. injection H as <-. simpl.
    rewrite pos_transform_body; [reflexivity | apply anom_var_var].
  - destruct (opaque_vars (SMin ln w p ts b)); [discriminate|]. injection H as <-. simpl.
    apply pos_transform_body. apply anom_var_var.
Qed.

Theorem anonymize_nof prg : _anonymize_variables prg <> OutOfFuel.
Proof. apply rmap_nof. apply anonymize_stm_nof. Qed.

Theorem anonymize_ok prg prg1 : _anonymize_variables prg = Ok prg1 ->
  List.length prg1 = List.length prg /\ pos_prog prg1 = pos_prog prg.
Proof.
  intros H. apply rmap_ok in H. induction H as [|s s' l l' Hs _ [IH1 IH2]]; [split; reflexivity|].
  split; [simpl; f_equal; exact IH1|]. unfold pos_prog in *. rewrite !lsum_cons, IH2, (anonymize_stm_pos _ _ Hs). reflexivity.
Qed.

(* ====================================================================================== *)
(** * 5. Selecting elements of an enumerated list / filtering *)

Section Sel.
  Context {A: Type} (h: nat * A -> list A) (w: A -> nat).
  Hypothesis Hh: forall ix, h ix = [snd ix] \/ h ix = [].

  Definition sel (k: nat) (l: list A) : list A := flat_map h (combine (seq k (List.length l)) l).

  Lemma sel_cons k a l : sel k (a :: l) = h (k, a) ++ sel (S k) l.
  Proof. reflexivity. Qed.

  Lemma sel_spec : forall l k,
    List.length (sel k l) <= List.length l /\ (List.length (sel k l) = List.length l -> sel k l = l) /\
    lsum w (sel k l) <= lsum w l.
  Proof.
    induction l as [|a l IH]; intros k.
    - unfold sel. simpl. auto.
    - rewrite sel_cons. destruct (IH (S k)) as [H1 [H2 H3]].
      destruct (Hh (k, a)) as [E | E]; rewrite E; simpl snd; simpl app; simpl List.length; rewrite ?lsum_cons.
      + repeat split; [lia | | lia]. intros L. f_equal. apply H2. lia.
      + repeat split; [lia | | lia]. intros L. exfalso. lia.
  Qed.

  Lemma sel_strict : forall l k i, k <= i < k + List.length l -> (forall x, h (i, x) = []) ->
    List.length (sel k l) < List.length l.
  Proof.
    induction l as [|a l IH]; intros k i Hi Hx; simpl in Hi; [lia|].
    rewrite sel_cons. destruct (Nat.eq_dec i k) as [-> | Hne].
    - rewrite Hx. simpl. pose proof (sel_spec l (S k)) as [H _]. lia.
    - assert (L: List.length (sel (S k) l) < List.length l) by (apply (IH (S k) i); [lia | exact Hx]).
      destruct (Hh (k, a)) as [E | E]; rewrite E; simpl; lia.
  Qed.
End Sel.

Lemma filter_spec {A} (p: A -> bool) (w: A -> nat) : forall l,
  List.length (filter p l) <= List.length l /\ (List.length (filter p l) = List.length l -> filter p l = l) /\
  lsum w (filter p l) <= lsum w l.
Proof.
  induction l as [|a l [H1 [H2 H3]]]; simpl; [auto|].
  destruct (p a); simpl; rewrite ?lsum_cons.
  - repeat split; [lia | | lia]. intros L. f_equal. apply H2. lia.
  - repeat split; [lia | | lia]. intros L. exfalso. lia.
Qed.

(* ====================================================================================== *)
(** * 6. (b) project_unused *)

Lemma new_name_total st o p : exists n st', _new_name st o p = Ok (n, st').
Proof.
  unfold _new_name. destruct (names_lookup (o, p) (new_names st)) as [n|]; [eauto|].
  destruct (new_predicate_total (unique_names st) (fst p) (snd p)) as [q [st' E]]. rewrite E. simpl. eauto.
Qed.

Lemma transform_good t st : okgood (fun _ _ : ustate => True) True False pos_term t st (transform t st).
Proof.
  destruct t as [x|c|o u|o l r|l r|name arguments ext|xs]; try (simpl; unfold good; simpl; repeat split; auto; tauto).
  unfold transform.
  set (st1 := match arguments with [] => st | _ => _ end).
  set (args := flat_map _ (enumerate arguments)).
  pose proof (sel_spec (fun ia : nat * term => if nmem (fst ia) (pos_get (name, List.length arguments) (used_positions st1)) then [snd ia] else [])
                (fun _ => 0)
                (fun ia => match nmem (fst ia) (pos_get (name, List.length arguments) (used_positions st1)) as b
                                 return ((if b then [snd ia] else []) = [snd ia] \/ (if b then [snd ia] else []) = [])
                           with true => or_introl eq_refl | false => or_intror eq_refl end)
                arguments 0) as [L1 [L2 _]].
  change (sel _ 0 arguments) with args in L1, L2.
  destruct (list_eqb term_eqb args arguments) eqn:E; cbn [negb].
  - simpl. unfold good. simpl. repeat split; auto; tauto.
  - destruct (new_name_total st1 (name, List.length arguments) (name, List.length args)) as [n [st' En]].
    rewrite En. simpl. unfold good. simpl. repeat split; [exact L1 | | intros []].
    intros _ L. exfalso. rewrite (L2 L) in E.
    rewrite (CleanupSpec.list_eqb_refl_all term_eqb CleanupSpec.term_eqb_refl) in E. discriminate.
Qed.

Theorem project_unused_nof st prg : project_unused st prg <> OutOfFuel.
Proof.
  unfold project_unused. destruct (negb (prog_in_fragment prg)); [discriminate|].
  pose proof (trav_prog transform (fun _ _ => True) True False (fun _ => I) (fun _ _ _ _ _ => I) transform_good prg st) as H.
  change (smapM _project_unused_stm prg st) with (tr_prog transform prg st). intros E. rewrite E in H. exact H.
Qed.

Theorem project_unused_ok st prg prg2 st2 : project_unused st prg = Ok (prg2, st2) ->
  List.length prg2 = List.length prg /\ pos_prog prg2 <= pos_prog prg /\ (pos_prog prg2 = pos_prog prg -> prg2 = prg).
Proof.
  unfold project_unused. destruct (negb (prog_in_fragment prg)); [discriminate|]. intros E.
  split; [eapply smapM_length; exact E|].
  pose proof (trav_prog transform (fun _ _ => True) True False (fun _ => I) (fun _ _ _ _ _ => I) transform_good prg st) as H.
  change (smapM _project_unused_stm prg st) with (tr_prog transform prg st) in E. rewrite E in H. simpl in H.
  destruct H as [_ [H2 [H3 _]]]. split; [exact H2 | exact (H3 I)].
Qed.

(* ====================================================================================== *)
(** * 7. (c) remove_unused *)

Theorem remove_unused_ok st prg :
  List.length (remove_unused st prg) <= List.length prg /\
  (List.length (remove_unused st prg) = List.length prg -> remove_unused st prg = prg) /\
  pos_prog (remove_unused st prg) <= pos_prog prg.
Proof. unfold remove_unused, pos_prog. apply filter_spec. Qed.

(* ====================================================================================== *)
(** * 8. (d) remove_single_copies *)

(** ** 8.1 never out of fuel *)
Lemma init_vars_nof r : init_vars r <> OutOfFuel.
Proof. unfold init_vars. destruct (opaque_vars r); discriminate. Qed.

Lemma mapper_init_spec allvars rid args sym :
  mapper_init allvars rid args sym <> OutOfFuel /\
  forall m, mapper_init allvars rid args sym = Ok m ->
    rule_id m = rid /\ List.length (snd (m_symbol m)) = List.length (snd sym).
Proof.
  unfold mapper_init. set (vars_ := sdedup (flat_map vars_term args)).
  destruct (rmap (fun v => rbind (make_unique allvars v) (fun r => Ok (fst r))) vars_) as [sep| | |] eqn:E1; simpl;
    try (split; [discriminate | intros m; discriminate]).
  - destruct (negb (nodup_str sep)); [split; [discriminate | intros m; discriminate]|].
    destruct (vars_history_distinct vars_ allvars) as [vars' [outs [E2 _]]]. rewrite E2. simpl.
    split; [discriminate|]. intros m H. injection H as <-. simpl. split; [reflexivity | apply map_length].
  - exfalso. revert E1. apply rmap_nof. intros v.
    destruct (make_unique_total allvars v) as [v' [vars' E]]. rewrite E. discriminate.
Qed.

Definition head_pred (s: stmt) : option pred :=
  match s with
  | SRule _ (HLit (Lit _ (ASym (TFun n args _)))) _ => Some (n, List.length args)
  | _ => None
  end.

Lemma scm_spec ins outs prg rd hd :
  single_copy_mapper ins outs prg rd hd <> OutOfFuel /\
  forall m, single_copy_mapper ins outs prg rd hd = Ok (Some m) ->
    exists rule rid,
      get_rules_that_derive rd hd = [rule] /\ index_stmt rule prg 0 = Some rid /\ rule_id m = rid /\
      exists (hn: string) (hargs: list term), head_pred rule = Some (hn, List.length hargs) /\
        List.length (snd (m_symbol m)) = List.length hargs /\
        headderivable rule = [(NoSign, (hn, List.length hargs))].
Proof.
  unfold single_copy_mapper.
  destruct (pmem hd ins || pmem hd outs); [split; [discriminate | intros m; discriminate]|].
  destruct (get_rules_that_derive rd hd) as [|s tl]; [split; [discriminate | intros m; discriminate]|].
  destruct s as [ln h b| | | |]; try (split; [discriminate | intros m; discriminate]).
  destruct h as [hlit| | | |]; try (split; [discriminate | intros m; discriminate]).
  destruct b as [|be bt]; try (split; [discriminate | intros m; discriminate]).
  destruct be as [blit|]; try (split; [discriminate | intros m; discriminate]).
  destruct bt; try (split; [discriminate | intros m; discriminate]).
  destruct tl; try (split; [discriminate | intros m; discriminate]).
  destruct hlit as [hs ha]. destruct ha as [ht| | | | |]; try (split; [discriminate | intros m; discriminate]).
  destruct ht as [ | | | | |hn hargs he| ]; try (split; [discriminate | intros m; discriminate]).
  destruct blit as [bs ba]. destruct ba as [bt| | | | |]; try (split; [discriminate | intros m; discriminate]).
  destruct bt as [ | | | | |bn bargs be| ]; try (split; [discriminate | intros m; discriminate]).
  cbn [lit_fsym lit_sign snd fst].
  destruct hs; cbn [sign_eqb negb]; try (split; [discriminate | intros m; discriminate]).
  destruct (negb (sign_eqb bs NoSign)); [split; [discriminate | intros m; discriminate]|].
  destruct (negb (all_variables hargs)); [split; [discriminate | intros m; discriminate]|].
  destruct (Nat.eqb (List.length hargs) (List.length bargs)) eqn:EL; cbn [negb]; [|split; [discriminate | intros m; discriminate]].
  apply Nat.eqb_eq in EL.
  destruct (pred_eqb hd (fsym_pred (bn, bargs))); [split; [discriminate | intros m; discriminate]|].
  set (rule := SRule ln (HLit (Lit NoSign (ASym (TFun hn hargs he)))) [BLit (Lit bs (ASym (TFun bn bargs be)))]).
  destruct (init_vars rule) as [allvars| | |] eqn:EV; cbn [rbind]; try (split; [discriminate | intros m; discriminate]).
  destruct (index_stmt rule prg 0) as [rid|] eqn:EI; [|split; [discriminate | intros m; discriminate]].
  destruct (mapper_init_spec allvars rid hargs (bn, bargs)) as [N1 N2].
  split.
  - apply rbind_nof; [exact N1 | discriminate].
  - intros m H. apply rbind_ok in H. destruct H as [m' [Hm H]]. injection H as ->.
    destruct (N2 _ Hm) as [R1 R2]. exists rule, rid.
    split; [reflexivity|]. split; [exact EI|]. split; [exact R1|].
    exists hn, hargs. split; [reflexivity|]. split; [|reflexivity].
    simpl in R2. lia.
Qed.

(** ** 8.2 RuleDependency: a rule filed under hd derives hd *)
Lemma dd_get_append {V} (p q: pred) (v: V) d :
  dd_get p (dd_append q v d) = if pred_eqb p q then dd_get p d ++ [v] else dd_get p d.
Proof.
  induction d as [|[q' l] r IH]; simpl.
  - destruct (pred_eqb p q); reflexivity.
  - destruct (pred_eqb q q') eqn:E1; simpl.
    + apply pred_eqb_eq in E1. subst q'. destruct (pred_eqb p q); reflexivity.
    + rewrite IH. destruct (pred_eqb p q') eqn:E2; [|reflexivity].
      destruct (pred_eqb p q) eqn:E3; [|reflexivity].
      apply pred_eqb_eq in E2. apply pred_eqb_eq in E3. subst. 
      assert (X: pred_eqb q' q' = true) by (apply pred_eqb_eq; reflexivity). rewrite X in E1. discriminate.
Qed.

Definition rd_inv (rd: rule_dependency) : Prop :=
  forall hd r, In r (dd_get hd (head2rules rd)) -> In hd (map snd (headderivable r)).

Lemma rd_add_heads_inv stm body : forall hs rd, incl hs (map snd (headderivable stm)) -> rd_inv rd ->
  rd_inv (fold_left (fun rd hd => mk_rd (dd_append hd body (head2bodies rd)) (dd_append hd stm (head2rules rd)) (pred2stm rd)) hs rd).
Proof.
  induction hs as [|h hs IH]; intros rd Hi Hrd; simpl; [exact Hrd|].
  apply IH; [intros x Hx; apply Hi; right; exact Hx|].
  intros hd r. simpl. rewrite dd_get_append. destruct (pred_eqb hd h) eqn:E.
  - apply pred_eqb_eq in E. subst h. intros Hin. apply in_app_or in Hin. destruct Hin as [Hin | [<- | []]].
    + apply Hrd. exact Hin.
    + apply Hi. left. reflexivity.
  - apply Hrd.
Qed.

Lemma rd_add_uses_rules stm : forall ps rd,
  head2rules (fold_left (fun rd p => mk_rd (head2bodies rd) (head2rules rd) (dd_append p stm (pred2stm rd))) ps rd) = head2rules rd.
Proof. induction ps as [|p ps IH]; intros rd; simpl; [reflexivity|]. rewrite IH. reflexivity. Qed.

Lemma rd_add_stmt_inv rd stm : rd_inv rd -> rd_inv (rd_add_stmt rd stm).
Proof.
  intros H. unfold rd_add_stmt, rd_inv. rewrite rd_add_uses_rules.
  destruct stm as [ln h b| | | |]; try exact H.
  apply rd_add_heads_inv; [apply incl_refl | exact H].
Qed.

Lemma RuleDependency_inv prg : rd_inv (RuleDependency prg).
Proof.
  unfold RuleDependency.
  assert (G: forall l rd, rd_inv rd -> rd_inv (fold_left rd_add_stmt l rd)).
  { induction l as [|s l IH]; intros rd H; simpl; [exact H|]. apply IH. apply rd_add_stmt_inv. exact H. }
  apply G. intros hd r []. 
Qed.

(** ** 8.3 the mapping *)
Lemma mapping_lookup_set p q x m :
  mapping_lookup p (mapping_set q x m) = if pred_eqb p q then Some x else mapping_lookup p m.
Proof.
  induction m as [|[q' y] r IH]; simpl.
  - reflexivity.
  - destruct (pred_eqb q q') eqn:E1; simpl.
    + apply pred_eqb_eq in E1. subst q'. destruct (pred_eqb p q); reflexivity.
    + rewrite IH. destruct (pred_eqb p q') eqn:E2; [|reflexivity].
      destruct (pred_eqb p q) eqn:E3; [|reflexivity].
      apply pred_eqb_eq in E2. apply pred_eqb_eq in E3. subst.
      assert (X: pred_eqb q' q' = true) by (apply pred_eqb_eq; reflexivity). rewrite X in E1. discriminate.
Qed.

Lemma index_stmt_spec x : forall prg k i, index_stmt x prg k = Some i ->
  k <= i < k + List.length prg /\ exists s, In s prg /\ stmt_eqb s x = true.
Proof.
  induction prg as [|s r IH]; simpl; intros k i H; [discriminate|].
  destruct (stmt_eqb s x) eqn:E.
  - injection H as <-. split; [lia|]. exists s. split; [left; reflexivity | exact E].
  - apply IH in H. destruct H as [H1 [s' [H2 H3]]]. split; [lia|]. exists s'. split; [right; exact H2 | exact H3].
Qed.

Lemma stmt_eqb_head_pred s x p : stmt_eqb s x = true -> head_pred x = Some p -> head_pred s = Some p.
Proof.
  destruct x as [ln h b| | | |]; try discriminate.
  destruct h as [[sg a]| | | |]; try discriminate.
  destruct a as [t| | | | |]; try discriminate.
  destruct t as [ | | | | |n args e| ]; try discriminate.
  intros E H. simpl in H. injection H as <-.
  destruct s as [ln' h' b'| | | |]; try discriminate. simpl in E. apply andb_true_iff in E. destruct E as [E _].
  destruct h' as [[sg' a']| | | |]; try discriminate. simpl in E.
  apply andb_true_iff in E. destruct E as [_ E].
  destruct a' as [t'| | | | |]; try discriminate. simpl in E. apply CleanupSpec.term_eqb_eq in E. subst t'. reflexivity.
Qed.

(* what is known about an entry of the mapping *)
Definition entry_ok (prg: list stmt) (hd: pred) (m: Mapper) : Prop :=
  List.length (snd (m_symbol m)) = snd hd /\ rule_id m < List.length prg /\
  exists s, In s prg /\ head_pred s = Some hd.

Definition mp_ok (prg: list stmt) (mp: mapping) : Prop :=
  forall hd m, mapping_lookup hd mp = Some m -> entry_ok prg hd m.

Lemma scm_entry_ok ins outs prg hd m :
  single_copy_mapper ins outs prg (RuleDependency prg) hd = Ok (Some m) -> entry_ok prg hd m.
Proof.
  intros H. apply scm_spec in H. destruct H as [rule [rid [Hr [Hi [Hid [hn [hargs [Hp [Hl Hh]]]]]]]]].
  assert (Ehd: hd = (hn, List.length hargs)).
  { pose proof (RuleDependency_inv prg hd rule) as X. unfold get_rules_that_derive in Hr. rewrite Hr, Hh in X.
    destruct (X (or_introl eq_refl)) as [X1 | []]. symmetry. exact X1. }
  apply index_stmt_spec in Hi. destruct Hi as [Hlt [s [Hin Heq]]].
  unfold entry_ok. subst hd. simpl. split; [exact Hl|]. split; [lia|].
  exists s. split; [exact Hin|]. eapply stmt_eqb_head_pred; eassumption.
Qed.

Lemma single_copy_mapping_nof ins outs prg : single_copy_mapping ins outs prg <> OutOfFuel.
Proof.
  unfold single_copy_mapping.
  apply (fold_rbind_nof (fun mp hd => rbind (single_copy_mapper ins outs prg (RuleDependency prg) hd)
           (fun om => match om with Some m => Ok (mapping_set hd m mp) | None => Ok mp end))); [|discriminate].
  intros mp hd. apply rbind_nof; [apply scm_spec|]. intros [m|] _; discriminate.
Qed.

Lemma single_copy_mapping_ok ins outs prg mp : single_copy_mapping ins outs prg = Ok mp -> mp_ok prg mp.
Proof.
  unfold single_copy_mapping.
  apply (fold_rbind_inv (fun mp hd => rbind (single_copy_mapper ins outs prg (RuleDependency prg) hd)
           (fun om => match om with Some m => Ok (mapping_set hd m mp) | None => Ok mp end)) (mp_ok prg)).
  - intros mp0 hd mp1 H0 H. apply rbind_ok in H. destruct H as [[m|] [Hm H]]; injection H as <-; [|exact H0].
    intros p x. rewrite mapping_lookup_set. destruct (pred_eqb p hd) eqn:E.
    + apply pred_eqb_eq in E. subst p. intros X. injection X as <-. eapply scm_entry_ok. exact Hm.
    + apply H0.
  - intros a H. injection H as <-. intros p x. discriminate.
Qed.

(** ** 8.4 the conversion keeps the positions and records the rules it uses *)
Lemma nadd_In n l x : In x (nadd n l) <-> x = n \/ In x l.
Proof.
  unfold nadd. destruct (nmem n l) eqn:E.
  - split; [auto|]. intros [-> | H]; [|exact H]. unfold nmem in E. apply existsb_exists in E.
    destruct E as [y [Hy E]]. apply Nat.eqb_eq in E. subst y. exact Hy.
  - rewrite in_app_iff. simpl. intuition.
Qed.

Lemma nmem_In n l : nmem n l = true <-> In n l.
Proof.
  unfold nmem. rewrite existsb_exists. split.
  - intros [y [Hy E]]. apply Nat.eqb_eq in E. subst y. exact Hy.
  - intros H. exists n. split; [exact H | apply Nat.eqb_refl].
Qed.

Definition scQ (mp: mapping) (u u': list nat) : Prop := incl u u' /\ (mp = [] -> u' = u).

Lemma scQ_refl mp u : scQ mp u u.
Proof. split; [apply incl_refl | reflexivity]. Qed.
Lemma scQ_trans mp a b c : scQ mp a b -> scQ mp b c -> scQ mp a c.
Proof. intros [H1 H2] [H3 H4]. split; [eapply incl_tran; eassumption|]. intros E. rewrite (H4 E). apply H2. exact E. Qed.

Lemma mapper_convert_length m args : List.length (snd (mapper_convert m args)) = List.length (snd (m_symbol m)).
Proof. unfold mapper_convert. simpl. rewrite !map_length. reflexivity. Qed.

Lemma sc_convert_good prg mp : mp_ok prg mp ->
  forall t st, okgood (scQ mp) (mp = []) True pos_term t st (sc_convert mp t st).
Proof.
  intros Hmp t st. destruct t as [x|c|o u|o l r|l r|name arguments ext|xs]; try exact I.
  unfold sc_convert.
  destruct (mapping_lookup (name, List.length arguments) mp) as [m|] eqn:E.
  - destruct (Hmp _ _ E) as [Hl _]. simpl in Hl.
    assert (L: List.length (snd (mapper_convert m arguments)) = List.length arguments)
      by (rewrite mapper_convert_length; exact Hl).
    cbv zeta. unfold okgood, good. cbn [fst snd pos_term]. rewrite L. repeat split; auto.
    + intros x Hx. apply nadd_In. right. exact Hx.
    + intros ->. discriminate.
    + intros ->. discriminate.
  - simpl. apply good_refl. apply scQ_refl.
Qed.

Lemma smapM_incl {A} (g: A -> list nat -> result (A * list nat)) :
  (forall a st a' st', g a st = Ok (a', st') -> incl st st') ->
  forall l st l' st', smapM g l st = Ok (l', st') -> incl st st'.
Proof.
  intros Hg. induction l as [|a l IH]; simpl; intros st l' st' H.
  - injection H as _ <-. apply incl_refl.
  - apply rbind_ok in H. destruct H as [[a' st1] [Ha H]]. apply rbind_ok in H. destruct H as [[l1 st2] [Hl H]].
    injection H as _ <-. simpl in *. eapply incl_tran; [eapply Hg; exact Ha | eapply IH; exact Hl].
Qed.

Lemma smapM_reaches {A} (g: A -> list nat -> result (A * list nat)) (i: nat) (s: A) :
  (forall a st a' st', g a st = Ok (a', st') -> incl st st') ->
  (forall st s' st', g s st = Ok (s', st') -> In i st') ->
  forall l, In s l -> forall st l' st', smapM g l st = Ok (l', st') -> In i st'.
Proof.
  intros Hg Hs. induction l as [|a l IH]; intros Hin st l' st' H; [destruct Hin|].
  simpl in H. apply rbind_ok in H. destruct H as [[a' st1] [Ha H]]. apply rbind_ok in H. destruct H as [[l1 st2] [Hl H]].
  injection H as _ <-. simpl in *. destruct Hin as [-> | Hin].
  - eapply (smapM_incl g Hg); [exact Hl|]. eapply Hs. exact Ha.
  - eapply IH; [exact Hin | exact Hl].
Qed.

Lemma sel_id {A} (h: nat * A -> list A) : (forall ix, h ix = [snd ix]) -> forall l k, sel h k l = l.
Proof. intros Hh. induction l as [|a l IH]; intros k; [reflexivity|]. rewrite sel_cons, Hh, IH. reflexivity. Qed.

Theorem remove_single_copies_nof ins outs prg : remove_single_copies ins outs prg <> OutOfFuel.
Proof.
  unfold remove_single_copies. destruct (negb (prog_in_fragment prg)); [discriminate|].
  apply rbind_nof; [apply single_copy_mapping_nof|]. intros mp Hmp.
  apply rbind_nof; [|discriminate].
  pose proof (trav_prog (sc_convert mp) (scQ mp) (mp = []) True (scQ_refl mp) (scQ_trans mp)
                (sc_convert_good prg mp (single_copy_mapping_ok _ _ _ _ Hmp)) prg []) as H.
  intros E. rewrite E in H. exact H.
Qed.

Theorem remove_single_copies_ok ins outs prg prg4 : remove_single_copies ins outs prg = Ok prg4 ->
  prg4 = prg \/ (List.length prg4 < List.length prg /\ pos_prog prg4 <= pos_prog prg).
Proof.
  unfold remove_single_copies. destruct (negb (prog_in_fragment prg)); [discriminate|]. intros H.
  apply rbind_ok in H. destruct H as [mp [Hmp H]]. apply rbind_ok in H. destruct H as [[cprg used_] [Hc H]].
  injection H as <-. simpl fst. simpl snd.
  pose proof (single_copy_mapping_ok _ _ _ _ Hmp) as Hok.
  pose proof (trav_prog (sc_convert mp) (scQ mp) (mp = []) True (scQ_refl mp) (scQ_trans mp)
                (sc_convert_good prg mp Hok)) as T.
  pose proof (T prg []) as T0. rewrite Hc in T0. simpl in T0. destruct T0 as [[_ Q2] [_ [T3 T4]]].
  pose proof (smapM_length _ _ _ _ _ Hc) as Len.
  set (h := fun ix : nat * stmt => if nmem (fst ix) used_ then [] else [snd ix]).
  change (flat_map h (enumerate cprg)) with (sel h 0 cprg).
  assert (Hh: forall ix, h ix = [snd ix] \/ h ix = []) by (intros ix; unfold h; destruct (nmem (fst ix) used_); auto).
  destruct mp as [|[hd0 m0] mp'].
  - left. unfold h. rewrite (Q2 eq_refl). rewrite sel_id; [|intros ix; reflexivity]. apply T3; [reflexivity | apply T4; exact I].
  - right.
    assert (E0: mapping_lookup hd0 ((hd0, m0) :: mp') = Some m0).
    { simpl. assert (X: pred_eqb hd0 hd0 = true) by (apply pred_eqb_eq; reflexivity). rewrite X. reflexivity. }
    destruct (Hok _ _ E0) as [_ [Hlt [s [Hin Hp]]]].
    assert (Hu: In (rule_id m0) used_).
    { apply (smapM_reaches (tr_stmt (sc_convert ((hd0, m0) :: mp'))) (rule_id m0) s) with (l := prg) (st := []) (l' := cprg).
      - intros a st a' st' Ha. pose proof (trav_stmt _ _ _ _ (scQ_refl _) (scQ_trans _) (sc_convert_good prg _ Hok) a st) as X.
        rewrite Ha in X. simpl in X. destruct X as [[X _] _]. exact X.
      - intros st s' st'.
        destruct s as [ln h0 b| | | |]; try discriminate.
        destruct h0 as [[sg a]| | | |]; try discriminate.
        destruct a as [t| | | | |]; try discriminate.
        destruct t as [ | | | | |n args e| ]; try discriminate.
        simpl in Hp. injection Hp as Hp. subst hd0.
        unfold tr_stmt, tr_head. rewrite tr_lit_unfold, tr_atom_sym.
        unfold sc_convert at 1. rewrite E0. cbn [rbind fst snd]. intros Hb.
        apply rbind_ok in Hb. destruct Hb as [[b' st2] [Hb Hr]]. injection Hr as _ <-. simpl.
        pose proof (trav_body _ _ _ _ (scQ_refl _) (scQ_trans _) (sc_convert_good prg _ Hok) b (nadd (rule_id m0) st)) as X.
        rewrite Hb in X. simpl in X. destruct X as [[X _] _]. apply X. apply nadd_In. left. reflexivity.
      - exact Hin.
      - exact Hc. }
    pose proof (sel_spec h pos_stmt Hh cprg 0) as [_ [_ S3]].
    split.
    + rewrite <- Len. apply (sel_strict h pos_stmt Hh cprg 0 (rule_id m0)); [lia|].
      intros x. unfold h. simpl. apply nmem_In in Hu. rewrite Hu. reflexivity.
    + unfold pos_prog in *. rewrite <- (T4 I). exact S3.
Qed.

(* ====================================================================================== *)
(** * 9. (e) one iteration and the loop *)

Lemma condlit_eqb_refl c : condlit_eqb c c = true.
Proof.
  unfold condlit_eqb. rewrite CleanupSpec.lit_eqb_refl. simpl.
  apply CleanupSpec.list_eqb_refl_all. apply CleanupSpec.lit_eqb_refl.
Qed.
Lemma helem_eqb_refl e : helem_eqb e e = true.
Proof.
  unfold helem_eqb. rewrite condlit_eqb_refl, (CleanupSpec.list_eqb_refl_all term_eqb CleanupSpec.term_eqb_refl). reflexivity.
Qed.
Lemma aggfun_eqb_refl f : aggfun_eqb f f = true.
Proof. destruct f; reflexivity. Qed.
Lemma head_eqb_refl h : head_eqb h h = true.
Proof.
  destruct h as [l|es|lg es rg|lg fn es rg|t]; simpl.
  - apply CleanupSpec.lit_eqb_refl.
  - apply CleanupSpec.list_eqb_refl_all. apply condlit_eqb_refl.
  - rewrite !CleanupSpec.oguard_eqb_refl, (CleanupSpec.list_eqb_refl_all condlit_eqb condlit_eqb_refl). reflexivity.
  - rewrite !CleanupSpec.oguard_eqb_refl, aggfun_eqb_refl, (CleanupSpec.list_eqb_refl_all helem_eqb helem_eqb_refl). reflexivity.
  - apply String.eqb_refl.
Qed.
Lemma stmt_eqb_refl s : stmt_eqb s s = true.
Proof.
  destruct s as [ln h b|ln w p ts b|nm ar ps|t b|k tx]; simpl.
  - rewrite head_eqb_refl, (CleanupSpec.list_eqb_refl_all bodyelem_eqb CleanupSpec.bodyelem_eqb_refl). reflexivity.
  - rewrite !CleanupSpec.term_eqb_refl, (CleanupSpec.list_eqb_refl_all term_eqb CleanupSpec.term_eqb_refl),
      (CleanupSpec.list_eqb_refl_all bodyelem_eqb CleanupSpec.bodyelem_eqb_refl). reflexivity.
  - rewrite String.eqb_refl, Nat.eqb_refl. destruct ps; reflexivity.
  - rewrite CleanupSpec.term_eqb_refl, (CleanupSpec.list_eqb_refl_all bodyelem_eqb CleanupSpec.bodyelem_eqb_refl). reflexivity.
  - rewrite !String.eqb_refl. reflexivity.
Qed.
Lemma prog_eqb_refl prg : list_eqb stmt_eqb prg prg = true.
Proof. apply CleanupSpec.list_eqb_refl_all. apply stmt_eqb_refl. Qed.

Lemma analyze_usage_stm_nof acc stm : analyze_usage_stm acc stm <> OutOfFuel.
Proof.
  destruct stm as [ln h b|ln w p ts b|nm ar ps|t b|k tx]; simpl; try discriminate.
  - destruct h; discriminate.
  - destruct (opaque_kind k); discriminate.
Qed.

Theorem analyze_usage_nof ins outs st prg : analyze_usage ins outs st prg <> OutOfFuel.
Proof.
  unfold analyze_usage. apply rbind_nof; [|discriminate].
  unfold analyze_usage_prg. destruct (negb (prog_in_fragment prg)); [discriminate|].
  apply rbind_nof; [|discriminate].
  apply (fold_rbind_nof analyze_usage_stm); [apply analyze_usage_stm_nof | discriminate].
Qed.

Theorem execute_step_nof ins outs st new_prg : execute_step ins outs st new_prg <> OutOfFuel.
Proof.
  unfold execute_step.
  apply rbind_nof; [apply anonymize_nof|]. intros prg1 _.
  apply rbind_nof; [apply analyze_usage_nof|]. intros st1 _.
  apply rbind_nof; [apply project_unused_nof|]. intros r _.
  apply rbind_nof; [apply remove_single_copies_nof|]. intros prg4 _. discriminate.
Qed.

(* every iteration that changes the program removes a statement or an argument position *)
Theorem execute_step_ok ins outs st new_prg prg4 prg1 st' :
  execute_step ins outs st new_prg = Ok (prg4, prg1, st') ->
  mu prg1 = mu new_prg /\ (prg4 = prg1 \/ mu prg4 < mu prg1).
Proof.
  unfold execute_step. intros H.
  apply rbind_ok in H. destruct H as [p1 [Ha H]].
  apply rbind_ok in H. destruct H as [st1 [_ H]].
  apply rbind_ok in H. destruct H as [[prg2 st2] [Hb H]].
  apply rbind_ok in H. destruct H as [p4 [Hd H]].
  injection H as -> -> _. simpl fst in Hd. simpl snd in Hd.
  apply anonymize_ok in Ha. destruct Ha as [A1 A2].
  apply project_unused_ok in Hb. destruct Hb as [B1 [B2 B3]].
  destruct (remove_unused_ok st2 prg2) as [C1 [C2 C3]].
  apply remove_single_copies_ok in Hd.
  unfold mu. split; [lia|].
  destruct (Nat.eq_dec (pos_prog prg2) (pos_prog prg1)) as [E2 | N2].
  - specialize (B3 E2). subst prg2.
    destruct (Nat.eq_dec (List.length (remove_unused st2 prg1)) (List.length prg1)) as [E3 | N3].
    + specialize (C2 E3). rewrite C2 in *. destruct Hd as [-> | [D1 D2]]; [left; reflexivity | right; lia].
    + right. destruct Hd as [-> | [D1 D2]]; lia.
  - right. destruct Hd as [-> | [D1 D2]]; lia.
Qed.

Theorem execute_loop_no_outoffuel : forall fuel ins outs st prg,
  List.length prg + count_positions prg < fuel -> execute_loop fuel ins outs st prg <> OutOfFuel.
Proof.
  intros fuel ins outs st prg. rewrite count_positions_spec. fold (mu prg). revert st prg.
  induction fuel as [|fuel IH]; intros st prg Hlt; [lia|].
  simpl. apply rbind_nof; [apply execute_step_nof|].
  intros [[prg4 prg1] st'] Hs. apply execute_step_ok in Hs. destruct Hs as [Hmu Hd].
  destruct (list_eqb stmt_eqb prg4 prg1) eqn:E; [discriminate|].
  apply IH. destruct Hd as [-> | Hd]; [|lia]. rewrite prog_eqb_refl in E. discriminate.
Qed.

Theorem execute_core_st_no_outoffuel : forall ins outs st prg, execute_core_st ins outs st prg <> OutOfFuel.
Proof. intros. unfold execute_core_st, execute_fuel. apply execute_loop_no_outoffuel. lia. Qed.

Theorem execute_core_no_outoffuel : forall ctor_prg ins outs prg, execute_core ctor_prg ins outs prg <> OutOfFuel.
Proof.
  intros. unfold execute_core. apply rbind_nof; [apply execute_core_st_no_outoffuel | discriminate].
Qed.

(* non-vacuity:  p(X) :- q(X).  q(1).  :- p(1).   The first iteration removes the single copy, the second one
   confirms the fixpoint: fuel 1 is not enough, the fuel of the model (8) is. *)
Module Sanity.
  Definition at1 (n: string) (t: term) : lit := Lit NoSign (ASym (TFun n [t] false)).
  Definition prg : list stmt :=
    [ SRule 1 (HLit (at1 "p" (TVar "X"))) [BLit (at1 "q" (TVar "X"))];
      SRule 2 (HLit (at1 "q" (TSym (SNum 1)))) [];
      SRule 3 (HLit (Lit NoSign (ABool false))) [BLit (at1 "p" (TSym (SNum 1)))] ].
  Example fuel_value : execute_fuel prg = 8.
  Proof. vm_compute. reflexivity. Qed.
  Example two_iterations : execute_loop 1 [] [] (init_state prg []) prg = OutOfFuel.
  Proof. vm_compute. reflexivity. Qed.
  Example result :
    execute_core prg [] [] prg =
    Ok [ SRule 2 (HLit (at1 "q" (TSym (SNum 1)))) [];
         SRule 3 (HLit (Lit NoSign (ABool false))) [BLit (at1 "q" (TSym (SNum 1)))] ].
  Proof. vm_compute. reflexivity. Qed.
End Sanity.

Print Assumptions count_positions_spec.
Print Assumptions execute_step_ok.
Print Assumptions execute_loop_no_outoffuel.
Print Assumptions execute_core_st_no_outoffuel.
Print Assumptions execute_core_no_outoffuel.
