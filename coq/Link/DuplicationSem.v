(* Semantic soundness of ngo's literal-duplication rewrite (ngo/literal_duplication.py) on the simple fragment.

   The pass finds a set of literals New that occurs (up to a renaming of variables) in the bodies of k >= 2
   rules, adds ONE rule
                            aux(ts) :- New.                       (ts = the variables bound by New, sorted)
   and replaces in the i-th rule   h_i :- New[r_i], Rest_i   the copy New[r_i] by the atom aux(r_i ts):
                            h_i :- Rest_i, aux(r_i ts).

   Results (sections)
     1. gfold_iff                    abstract ground programs (Meta/Cleanup.v): FOLDING WITH AN EXISTING DEFINITION.
                                     If the aux atoms are defined by the rules  a :- beta  only (in both programs),
                                     replacing  beta  by  a  in other rules preserves the stable models.  Direct
                                     proof (supportedness one way, the "supported part of H" the other way).
     2. ground_body_ren, ...         renamings on the ground level; variables of a renamed literal
     3. fold_existing_ground         the premises of 1 for  D :: (h :- New[r], Rest) :: C   versus
                                     D :: (h :- Rest, aux(r ts)) :: C
     4. fold_existing_sound[_members] non-ground programs: same answer sets under every set of facts over
                                     predicates other than aux/k  (equiv_on; equiv_all is false, see 7)
     5. def_intro_sound              adding the rule  aux(ts) :- New  for a fresh aux/k is a conservative extension
                                     (from ProjectionSem.projection_split_sound_members)
        cons_ext_equiv_on            cons_ext composes with equiv_on
     6. duplication_step_sound[_members]   the pass step for k occurrences: cons_ext
     7. refutations                  Refutations.fold_missing_variable_refuted (ts omits a variable of New that the rest
                                     of the rule and the head use), Refutations.fold_aux_fact_refuted (a fact for aux/k:
                                     equiv_all is false, equiv_on is the right notion); both axiom-free
     8. the model                    Model/Duplication.v:  ModelExamples.exA_model / exA_pass_sound
                                       foo(X) :- a(X), b(X), c.  bar(Y) :- a(Y), b(Y), d.   (output by vm_compute + cons_ext)
                                     ModelExamples.exB_model / exB_anonymous_variable_refuted  (the anonymous variable)

   Remarks on the hypotheses
     * [covers]: every variable of New is among ts.  ngo only folds sets of literals without unbound variables
       and takes ts = all bound variables, so this holds for the pass -- except for the anonymous variable "_",
       which ngo (like gringo) reads as a fresh variable at each occurrence and never puts among ts, while
       Sem/Sat.v reads TVar "_" as ONE variable (ModelExamples.exB_anonymous_variable_refuted below).
       OUTSIDE the fragment ngo does violate [covers]: the variables of a THEORY ATOM are neither bound nor unbound
       for collect_binding_information_body, so   foo(Y) :- q(X), &diff{X-Y}<=3, r(Y).  bar(Y) :- q(X), &diff{X-Y}<=3, s(Y).
       becomes   __aux_1(A0) :- q(A0), &diff{A0-A1}<=3.   foo(Y) :- r(Y), __aux_1(X).   (unsafe A1, the link X-Y is lost;
       replayed with clingo).  On plain literals bound = all variables but "_" (0 violations on 6389 admitted subsets).
     * r is ANY function on variable names: injectivity is not needed, nor NoDup ts.
     * The aux atom may occur anywhere in the bodies of the other rules, under any sign (negation is evaluated
       in the there-world only); New itself may even mention aux.  What is needed is that no OTHER rule has aux/k
       in its head and that no aux/k fact is added.
     * The body of the rule is given by its members (Permutation is a special case), as ngo's
       [lit for lit in body if lit not in original_literals] drops every ==-copy.
   Axiom used: Classical_Prop.classic (through Meta/Cleanup.v: supportedness, Link/Ground.v, ProjectionSem). *)
From Coq Require Import List String ZArith Bool Classical Permutation Arith Lia.
From NGO Require Import Syntax.Ast Sem.Sym Sem.Sat Link.Ground Link.Equiv Link.ProjectionSem.
From NGO Require Meta.Cleanup Meta.Fold Link.SymmetrySem Link.SubstSpec Model.Normalize.
Import ListNotations.
Open Scope string_scope. Open Scope list_scope.

Local Notation grule := (Meta.Cleanup.rule gatom gF).
Local Notation ghead := (Meta.Cleanup.head gatom).
Local Notation GAtom := (Meta.Cleanup.HAtom gatom).
Local Notation GChoice := (Meta.Cleanup.HChoice gatom).
Local Notation GDisj := (Meta.Cleanup.HDisj gatom).
Local Notation GFalse := (Meta.Cleanup.HFalse gatom).
Local Notation mkrule := (Meta.Cleanup.Build_rule gatom gF).
Local Notation ghd := (Meta.Cleanup.hd gatom gF).
Local Notation gbd := (Meta.Cleanup.bd gatom gF).
Local Notation gbsat := (Meta.Cleanup.bsat gatom gF gsat).
Local Notation ghsat := (Meta.Cleanup.hsat gatom).
Local Notation grsat := (Meta.Cleanup.rsat gatom gF gsat).
Local Notation gpsat := (Meta.Cleanup.psat gatom gF gsat).
Local Notation gstable := (Meta.Cleanup.stable gatom gF gsat).

Notation ren := SymmetrySem.ren.
Notation ren_lit := SymmetrySem.ren_lit.
Notation ren_bodyelem := SymmetrySem.ren_bodyelem.
Notation comp := SymmetrySem.comp.

(* ================================================================================================ *)
(* 1. Folding with an existing definition, abstract ground programs                                 *)
(* ================================================================================================ *)
Section GFold.
Variable aux : gatom -> Prop.                        (* the atoms of the aux predicate *)
Variable Def : gatom -> list gF -> Prop.             (* the ground definitions  a :- beta *)
Variables G G' : Meta.Cleanup.prog gatom gF.         (* unfolded / folded program *)

(* the definitions are rules of both programs ... *)
Hypothesis def_both : forall a beta, Def a beta -> G (mkrule (GAtom a) beta) /\ G' (mkrule (GAtom a) beta).
(* ... and the only rules that can derive an aux atom *)
Hypothesis aux_head_G : forall r a, G r -> Meta.Cleanup.head_atom gatom (ghd r) a -> aux a ->
  ghd r = GAtom a /\ Def a (gbd r).
Hypothesis aux_head_G' : forall r a, G' r -> Meta.Cleanup.head_atom gatom (ghd r) a -> aux a ->
  ghd r = GAtom a /\ Def a (gbd r).
(* a rule of G is kept, or it is  hd :- beta, rest  and  hd :- a, rest  is a rule of G' *)
Hypothesis fwd : forall r, G r -> G' r \/
  exists a beta rest r', Def a beta /\ (forall f, In f (gbd r) <-> In f beta \/ In f rest) /\
    G' r' /\ ghd r' = ghd r /\ (forall f, In f (gbd r') <-> f = GPos a \/ In f rest).
(* a rule of G' is kept, or it is  hd :- a, rest  and  hd :- beta, rest  is a rule of G for EVERY definition of a *)
Hypothesis bwd : forall r', G' r' -> G r' \/
  exists a rest, aux a /\ (forall f, In f (gbd r') <-> f = GPos a \/ In f rest) /\
    forall beta, Def a beta -> exists r, G r /\ ghd r = ghd r' /\ (forall f, In f (gbd r) <-> In f beta \/ In f rest).

Lemma gfold_fwd T : gstable G T -> gstable G' T.
Proof.
  intros St. pose proof St as [M Min].
  assert (MT: gpsat T T G').
  { intros r' Gr'. destruct (bwd r' Gr') as [Gr|[a [rest [Aa [Eb Hall]]]]]; [exact (M r' Gr)|].
    assert (X: gbsat T T (gbd r') -> ghsat T T (ghd r')).
    { intro B. assert (Ta: T a) by (apply (B (GPos a)); apply Eb; left; reflexivity).
      destruct (Meta.Cleanup.supported gatom gF gsat gsat_persist G T a St Ta) as [r0 [Gr0 [HA B0]]].
      destruct (aux_head_G r0 a Gr0 HA Aa) as [_ D].
      destruct (Hall _ D) as [r [Gr [Ehd Ebd]]].
      rewrite <- Ehd. apply (proj2 (M r Gr)). intros f Hf. apply Ebd in Hf.
      destruct Hf as [Hf|Hf]; [apply B0; exact Hf|apply B; apply Eb; right; exact Hf]. }
    split; exact X. }
  split; [exact MT|].
  intros H S PS. apply Min; [exact S|].
  intros r Gr. split; [|exact (proj2 (M r Gr))].
  intro B. destruct (fwd r Gr) as [Gr'|[a [beta [rest [r' [D [Eb [Gr' [Eh Eb']]]]]]]]].
  - exact (proj1 (PS r Gr') B).
  - destruct (def_both a beta D) as [_ GD]. pose proof (proj1 (PS _ GD)) as PD. simpl in PD.
    assert (Ha: H a). { apply PD. intros f Hf. apply B. apply Eb. left. exact Hf. }
    rewrite <- Eh. apply (proj1 (PS r' Gr')). intros f Hf. apply Eb' in Hf.
    destruct Hf as [->|Hf]; [exact Ha|apply B; apply Eb; right; exact Hf].
Qed.

Lemma gfold_bwd T : gstable G' T -> gstable G T.
Proof.
  intros St. pose proof St as [M Min].
  assert (MT: gpsat T T G).
  { intros r Gr. destruct (fwd r Gr) as [Gr'|[a [beta [rest [r' [D [Eb [Gr' [Eh Eb']]]]]]]]]; [exact (M r Gr')|].
    assert (X: gbsat T T (gbd r) -> ghsat T T (ghd r)).
    { intro B. destruct (def_both a beta D) as [_ GD]. pose proof (proj2 (M _ GD)) as PD. simpl in PD.
      assert (Ta: T a) by (apply PD; intros f Hf; apply B; apply Eb; left; exact Hf).
      rewrite <- Eh. apply (proj2 (M r' Gr')). intros f Hf. apply Eb' in Hf.
      destruct Hf as [->|Hf]; [exact Ta|apply B; apply Eb; right; exact Hf]. }
    split; exact X. }
  split; [exact MT|].
  intros H S PS.
  (* H without the aux atoms that are not supported by a definition under (H,T) *)
  set (H' := fun x : gatom => H x /\ (aux x -> exists beta, Def x beta /\ gbsat H T beta)).
  assert (S1: Meta.Cleanup.subi gatom H' H) by (intros x [Hx _]; exact Hx).
  assert (S2: Meta.Cleanup.subi gatom H' T) by (intros x Hx; apply S; apply S1; exact Hx).
  assert (Lift: forall r', G' r' -> gbsat H T (gbd r') -> ghsat H T (ghd r') -> ghsat H' T (ghd r')).
  { intros r' Gr' B Hh. destruct (ghd r') as [b|b|l|] eqn:E; simpl in Hh |- *.
    - split; [exact Hh|]. intro Ab. exists (gbd r'). split; [|exact B].
      apply (aux_head_G' r' b Gr'); [rewrite E; reflexivity|exact Ab].
    - destruct Hh as [Hb|N]; [left|right; exact N]. split; [exact Hb|]. intro Ab.
      destruct (aux_head_G' r' b Gr') as [X _]; [rewrite E; reflexivity|exact Ab|]. rewrite E in X. discriminate X.
    - destruct Hh as [b [Hin Hb]]. exists b. split; [exact Hin|]. split; [exact Hb|]. intro Ab.
      destruct (aux_head_G' r' b Gr') as [X _]; [rewrite E; exact Hin|exact Ab|]. rewrite E in X. discriminate X.
    - exact Hh. }
  assert (QS: gpsat H' T G').
  { intros r' Gr'. split; [|exact (proj2 (M r' Gr'))].
    intro B'. assert (BH: gbsat H T (gbd r')) by (intros f Hf; apply (gsat_mono H' H T f S1); apply B'; exact Hf).
    apply (Lift r' Gr' BH).
    destruct (bwd r' Gr') as [Gr|[a [rest [Aa [Eb Hall]]]]]; [exact (proj1 (PS r' Gr) BH)|].
    assert (Ha': H' a) by (apply (B' (GPos a)); apply Eb; left; reflexivity).
    destruct Ha' as [_ Sup]. destruct (Sup Aa) as [beta [D Bb]].
    destruct (Hall beta D) as [r [Gr [Eh Ebd]]]. rewrite <- Eh. apply (proj1 (PS r Gr)).
    intros f Hf. apply Ebd in Hf. destruct Hf as [Hf|Hf]; [apply Bb; exact Hf|apply BH; apply Eb; right; exact Hf]. }
  intros x Tx. apply S1. exact (Min H' S2 QS x Tx).
Qed.

Theorem gfold_iff T : gstable G T <-> gstable G' T.
Proof. split; [apply gfold_fwd|apply gfold_bwd]. Qed.
End GFold.

(* ================================================================================================ *)
(* 2. Renamings on the ground level                                                                 *)
(* ================================================================================================ *)
Section Renaming.
Variable sym_lt : sym -> sym -> Prop.
Notation ground_lit := (ground_lit sym_lt).
Notation ground_body := (ground_body sym_lt).

Lemma chain_holds_ren r s gs : forall v,
  chain_holds sym_lt s v (map (Normalize.vmap_guard (ren r)) gs) = chain_holds sym_lt (comp s r) v gs.
Proof.
  induction gs as [|[o t] gs IH]; intro v; simpl; [reflexivity|]. rewrite SymmetrySem.eval_ren.
  destruct (eval (comp s r) t) as [w|]; [rewrite IH|]; reflexivity.
Qed.

Lemma chain_definedb_ren r s gs :
  chain_definedb s (map (Normalize.vmap_guard (ren r)) gs) = chain_definedb (comp s r) gs.
Proof.
  induction gs as [|[o t] gs IH]; simpl; [reflexivity|]. rewrite SymmetrySem.eval_ren.
  destruct (eval (comp s r) t) as [w|]; [exact IH|reflexivity].
Qed.

Lemma ground_lit_ren r s l : simple_lit l = true -> ground_lit s (ren_lit r l) = ground_lit (comp s r) l.
Proof.
  destruct l as [sg a]. destruct a as [t|t gs|b| | |]; try discriminate; intros _.
  - simpl. unfold gatom_of. rewrite SymmetrySem.eval_ren. reflexivity.
  - simpl. unfold cmp_defb, cmp_true. rewrite SymmetrySem.eval_ren, chain_definedb_ren.
    destruct (eval (comp s r) t) as [v|]; [rewrite chain_holds_ren|]; reflexivity.
  - reflexivity.
Qed.

Lemma ground_body_ren r s b : simple_body b = true ->
  ground_body s (map (ren_bodyelem r) b) = ground_body (comp s r) b.
Proof.
  induction b as [|e b IH]; simpl; [reflexivity|]. intro S. apply andb_true_iff in S. destruct S as [Se Sb].
  destruct e as [l|l c]; [|discriminate]. simpl in Se. unfold ren_bodyelem at 1. simpl.
  change (Normalize.vmap_lit (ren r) l) with (ren_lit r l). rewrite (ground_lit_ren r s l Se), (IH Sb). reflexivity.
Qed.

Lemma simple_ren_bodyelem r e : simple_bodyelem (ren_bodyelem r e) = simple_bodyelem e.
Proof. destruct e as [[sg a]|l c]; [|reflexivity]. destruct a; reflexivity. Qed.

(* the variables of a renamed term / simple literal are the renamed variables *)
Lemma vars_term_ren r t x : In x (vars_term (Normalize.vmap_term (ren r) t)) -> exists y, In y (vars_term t) /\ x = r y.
Proof.
  induction t as [y|c|o u IH|o l1 r1 IHl IHr|l1 r1 IHl IHr|n xs e IH|xs IH] using term_ind'; simpl.
  - intros [<-|[]]. exists y. split; [left; reflexivity|reflexivity].
  - intros [].
  - exact IH.
  - intro Hx. apply in_app_or in Hx. destruct Hx as [Hx|Hx]; [destruct (IHl Hx) as [y [A B]]|destruct (IHr Hx) as [y [A B]]];
      exists y; (split; [apply in_or_app; auto|exact B]).
  - intro Hx. apply in_app_or in Hx. destruct Hx as [Hx|Hx]; [destruct (IHl Hx) as [y [A B]]|destruct (IHr Hx) as [y [A B]]];
      exists y; (split; [apply in_or_app; auto|exact B]).
  - intro Hx. apply in_flat_map in Hx. destruct Hx as [t' [Ht' Hx]]. apply in_map_iff in Ht'. destruct Ht' as [t [<- Ht]].
    rewrite Forall_forall in IH. destruct (IH t Ht Hx) as [y [A B]]. exists y. split; [|exact B].
    apply in_flat_map. exists t. auto.
  - intro Hx. apply in_flat_map in Hx. destruct Hx as [t' [Ht' Hx]]. apply in_map_iff in Ht'. destruct Ht' as [t [<- Ht]].
    rewrite Forall_forall in IH. destruct (IH t Ht Hx) as [y [A B]]. exists y. split; [|exact B].
    apply in_flat_map. exists t. auto.
Qed.

Lemma vars_bodyelem_ren r e x : simple_bodyelem e = true ->
  In x (vars_bodyelem (ren_bodyelem r e)) -> exists y, In y (vars_bodyelem e) /\ x = r y.
Proof.
  destruct e as [[sg a]|l c]; [|discriminate]. destruct a as [t|t gs|b| | |]; try discriminate; intros _; simpl.
  - apply vars_term_ren.
  - intro Hx. apply in_app_or in Hx. destruct Hx as [Hx|Hx].
    + destruct (vars_term_ren r t x Hx) as [y [A B]]. exists y. split; [apply in_or_app; left; exact A|exact B].
    + apply in_flat_map in Hx. destruct Hx as [g' [Hg' Hx]]. apply in_map_iff in Hg'. destruct Hg' as [[o u] [<- Hg]].
      unfold vars_guard in Hx. simpl in Hx. destruct (vars_term_ren r u x Hx) as [y [A B]]. exists y. split; [|exact B].
      apply in_or_app. right. apply in_flat_map. exists (o, u). split; [exact Hg|exact A].
  - intros [].
Qed.
End Renaming.

(* ================================================================================================ *)
(* 3. One fold against an existing definition: the premises of section 1                            *)
(* ================================================================================================ *)
(* no head of a statement mentions the predicate p *)
Definition stmt_head_avoids (p: pred) (st: stmt) : bool :=
  match st with SRule _ h _ => head_avoids p h | _ => true end.
Definition heads_avoid (p: pred) (P: program) : bool := forallb (stmt_head_avoids p) P.

Section FoldExisting.
Variable sym_lt : sym -> sym -> Prop.
Notation ground_lit := (ground_lit sym_lt).
Notation ground_body := (ground_body sym_lt).
Notation ground_rule := (ground_rule sym_lt).
Notation ground_prog := (ground_prog sym_lt).

Variables (auxn: string) (ts: list string) (ext: bool) (r: string -> string).
Variables (C: program) (l0 line: nat) (h: head) (New Rest B B': list bodyelem).
Variable I : list gatom.
Notation p := (aux_pred auxn ts).

Definition def_rule : stmt := aux_rule auxn ts ext l0 New.           (* aux(ts) :- New. *)
Definition fold_lit : lit := auxlit auxn (map r ts) ext.             (* aux(r ts) *)
Definition unfolded_rule : stmt := SRule line h B.                   (* h :- New[r], Rest. *)
Definition folded_rule : stmt := SRule line h B'.                    (* h :- Rest, aux(r ts). *)

Hypothesis B_members : forall e, In e B <-> In e (map (ren_bodyelem r) New ++ Rest).
Hypothesis B'_members : forall e, In e B' <-> In e (Rest ++ [BLit fold_lit]).
Hypothesis New_simple : simple_body New = true.
(* every variable of New is an argument of the aux atom *)
Hypothesis covers : forall x, In x (flat_map vars_bodyelem New) -> In x ts.
(* the definition is the only rule with aux/k in its head, and there are no aux/k facts *)
Hypothesis h_avoids : head_avoids p h = true.
Hypothesis C_heads : heads_avoid p C = true.
Hypothesis I_avoids : facts_over (fun q => q <> p) I.

Definition GQ := ground_prog (def_rule :: unfolded_rule :: C) I.
Definition GQ' := ground_prog (def_rule :: folded_rule :: C) I.
Definition GDef (a: gatom) (beta: list gF) : Prop := exists s, ground_body s New = Some beta /\ a = aux_atom auxn ts s.

Lemma fold_atom_eq s : aux_atom auxn (map r ts) s = aux_atom auxn ts (comp s r).
Proof. unfold aux_atom. rewrite map_map. reflexivity. Qed.

Lemma fe_def_both a beta : GDef a beta -> GQ (mkrule (GAtom a) beta) /\ GQ' (mkrule (GAtom a) beta).
Proof.
  intros [s [En ->]]. split; left; exists def_rule; (split; [left; reflexivity|]); exists s, beta;
    (split; [exact En|]); (split; [rewrite ground_heads_auxlit; left; reflexivity|reflexivity]).
Qed.

Lemma fe_aux_head Bx c a : ground_prog (def_rule :: SRule line h Bx :: C) I c ->
  Meta.Cleanup.head_atom gatom (ghd c) a -> is_p p a -> ghd c = GAtom a /\ GDef a (gbd c).
Proof.
  intros [[st [[<-|[<-|Hin]] GR]]|[a0 [Hin ->]]] HA Pa.
  - destruct GR as [s [fs [Eb [Hh Ebd]]]]. rewrite ground_heads_auxlit in Hh. destruct Hh as [Hh|[]].
    rewrite <- Hh in HA. simpl in HA. subst a. split; [symmetry; exact Hh|]. exists s. split; [rewrite Ebd; exact Eb|reflexivity].
  - exfalso. destruct GR as [s [fs [_ [Hh _]]]].
    exact (head_atom_clean _ _ _ (ground_heads_clean p s h _ h_avoids Hh) HA Pa).
  - exfalso. unfold heads_avoid in C_heads. rewrite forallb_forall in C_heads. pose proof (C_heads st Hin) as A.
    destruct st as [ln hh bb| | | |]; try (simpl in GR; contradiction). destruct GR as [s [fs [_ [Hh _]]]]. simpl in A.
    exact (head_atom_clean _ _ _ (ground_heads_clean p s hh _ A Hh) HA Pa).
  - exfalso. simpl in HA. subst a0. apply (I_avoids a Hin). destruct Pa as [E1 E2]. unfold aux_pred in *. simpl in E1, E2.
    rewrite E1, E2. reflexivity.
Qed.

Lemma fe_fwd c : GQ c -> GQ' c \/
  exists a beta rest c', GDef a beta /\ (forall f, In f (gbd c) <-> In f beta \/ In f rest) /\
    GQ' c' /\ ghd c' = ghd c /\ (forall f, In f (gbd c') <-> f = GPos a \/ In f rest).
Proof.
  intros [[st [[<-|[<-|Hin]] GR]]|F].
  - left. left. exists def_rule. split; [left; reflexivity|exact GR].
  - right. destruct GR as [s [fs [Eb [Hh Ebd]]]].
    destruct (ground_body_members sym_lt s B _ fs B_members Eb) as [fs1 [E1 M1]].
    destruct (ground_body_app_inv sym_lt s _ _ fs1 E1) as [beta [rest [En [Er ->]]]].
    rewrite (ground_body_ren sym_lt r s New New_simple) in En.
    pose proof (ground_upd sym_lt auxn (map r ts) ext Rest s rest Er) as E2.
    destruct (ground_body_members sym_lt s _ B' _ (fun e => iff_sym (B'_members e)) E2) as [fs2 [E3 M2]].
    exists (aux_atom auxn ts (comp s r)), beta, rest, (mkrule (ghd c) fs2).
    split; [exists (comp s r); split; [exact En|reflexivity]|].
    split; [intro f; rewrite Ebd, (M1 f), in_app_iff; tauto|].
    split; [left; exists folded_rule; split; [right; left; reflexivity|]; exists s, fs2; simpl; auto|].
    split; [reflexivity|]. intro f. simpl. rewrite <- (M2 f), in_app_iff, fold_atom_eq. simpl.
    split; [intros [A|[A|[]]]; [right; exact A|left; symmetry; exact A]|intros [->|A]; [right; left; reflexivity|left; exact A]].
  - left. left. exists st. split; [right; right; exact Hin|exact GR].
  - left. right. exact F.
Qed.

Lemma fe_bwd c' : GQ' c' -> GQ c' \/
  exists a rest, is_p p a /\ (forall f, In f (gbd c') <-> f = GPos a \/ In f rest) /\
    forall beta, GDef a beta -> exists c, GQ c /\ ghd c = ghd c' /\ (forall f, In f (gbd c) <-> In f beta \/ In f rest).
Proof.
  intros [[st [[<-|[<-|Hin]] GR]]|F].
  - left. left. exists def_rule. split; [left; reflexivity|exact GR].
  - right. destruct GR as [s [fs [Eb [Hh Ebd]]]].
    destruct (ground_body_members sym_lt s B' _ fs B'_members Eb) as [fs1 [E1 M1]].
    destruct (ground_upd_inv sym_lt auxn (map r ts) ext Rest s fs1 E1) as [rest [Er ->]].
    exists (aux_atom auxn ts (comp s r)), rest. split; [apply aux_atom_isaux|]. split.
    + intro f. rewrite Ebd, (M1 f), in_app_iff, fold_atom_eq. simpl.
      split; [intros [A|[A|[]]]; [right; exact A|left; symmetry; exact A]|intros [->|A]; [right; left; reflexivity|left; exact A]].
    + intros beta [s2 [En Ea]].
      assert (Ag: forall x, In x (flat_map vars_bodyelem New) -> comp s r x = s2 x).
      { intros x Hx. apply (aux_atom_eq auxn ts _ _ Ea). apply covers. exact Hx. }
      rewrite <- (ground_body_agree sym_lt _ _ New Ag), <- (ground_body_ren sym_lt r s New New_simple) in En.
      assert (E2: ground_body s (map (ren_bodyelem r) New ++ Rest) = Some (beta ++ rest)) by (rewrite ground_body_app, En, Er; reflexivity).
      destruct (ground_body_members sym_lt s _ B _ (fun e => iff_sym (B_members e)) E2) as [fs2 [E3 M2]].
      exists (mkrule (ghd c') fs2). split; [left; exists unfolded_rule; split; [right; left; reflexivity|]; exists s, fs2; simpl; auto|].
      split; [reflexivity|]. intro f. simpl. rewrite <- (M2 f), in_app_iff. tauto.
  - left. left. exists st. split; [right; right; exact Hin|exact GR].
  - left. right. exact F.
Qed.

Theorem fold_existing_ground T : gstable GQ T <-> gstable GQ' T.
Proof.
  exact (gfold_iff (is_p p) GDef GQ GQ' fe_def_both (fe_aux_head B) (fe_aux_head B') fe_fwd fe_bwd T).
Qed.
End FoldExisting.

(* ================================================================================================ *)
(* 4. The fold for non-ground simple programs                                                       *)
(* ================================================================================================ *)
(* same answer sets under every set of added facts over the predicates IN (with IN = everything this is
   Sat.equiv_all; for IN = "not aux/k" it is the strongest notion that holds for a fold, see section 7) *)
Definition equiv_on (sym_lt: sym -> sym -> Prop) (IN: pred -> Prop) (P Q: program) : Prop :=
  forall I, facts_over IN I -> forall T, Sat.stable sym_lt P I T <-> Sat.stable sym_lt Q I T.

Section EquivOn.
Variable sym_lt : sym -> sym -> Prop.
Notation equiv_on := (equiv_on sym_lt).
Notation cons_ext := (cons_ext sym_lt).

Lemma equiv_on_refl IN P : equiv_on IN P P.
Proof. intros I _ T. tauto. Qed.
Lemma equiv_on_sym IN P Q : equiv_on IN P Q -> equiv_on IN Q P.
Proof. intros E I F T. symmetry. apply E. exact F. Qed.
Lemma equiv_on_trans IN P Q R : equiv_on IN P Q -> equiv_on IN Q R -> equiv_on IN P R.
Proof. intros A B I F T. rewrite (A I F T). apply B. exact F. Qed.
Lemma equiv_all_on IN P Q : equiv_all sym_lt P Q -> equiv_on IN P Q.
Proof. intros E I _ T. apply E. Qed.
Lemma equiv_on_out IN OUT P Q : equiv_on IN P Q -> equiv_out sym_lt IN OUT P Q.
Proof.
  intros E I F S. split; intros [T [St Sa]]; exists T; (split; [|exact Sa]); apply (E I F T); exact St.
Qed.

(* cons_ext composes with equivalence on the extended / on the original vocabulary *)
Lemma cons_ext_equiv_on IN V P Q Q' : cons_ext IN V P Q -> equiv_on IN Q Q' -> cons_ext IN V P Q'.
Proof.
  intros CE E I F. destruct (CE I F) as [A [B Inj]]. split; [|split].
  - intros T St. destruct (A T St) as [T' [St' Sa]]. exists T'. split; [apply (E I F T'); exact St'|exact Sa].
  - intros T' St. apply B. apply (E I F T'). exact St.
  - intros T1 T2 S1 S2. apply Inj; apply (E I F); assumption.
Qed.
Lemma equiv_on_cons_ext IN V P P' Q : equiv_on IN P P' -> cons_ext IN V P' Q -> cons_ext IN V P Q.
Proof.
  intros E CE I F. destruct (CE I F) as [A [B Inj]]. split; [|split].
  - intros T St. apply (E I F T) in St. exact (A T St).
  - intros T' St. apply (E I F). apply B. exact St.
  - exact Inj.
Qed.
End EquivOn.

Section FoldNonGround.
Variable sym_lt : sym -> sym -> Prop.
Notation equiv_on := (equiv_on sym_lt).

Section OneFold.
Variables (auxn: string) (ts: list string) (ext: bool) (r: string -> string).
Variables (C: program) (l0 line: nat) (h: head) (New Rest B B': list bodyelem).
Notation p := (aux_pred auxn ts).
Notation D := (def_rule auxn ts ext l0 New).
Notation flit := (fold_lit auxn ts ext r).
Notation Ru := (unfolded_rule line h B).
Notation Rf := (folded_rule line h B').

Hypothesis B_members : forall e, In e B <-> In e (map (ren_bodyelem r) New ++ Rest).
Hypothesis B'_members : forall e, In e B' <-> In e (Rest ++ [BLit flit]).
Hypothesis covers : forall x, In x (flat_map vars_bodyelem New) -> In x ts.

(* the folded rule stays in the fragment: its head variables that were global through New[r] are arguments of
   the aux atom *)
Lemma head_safe_folded : simple_body New = true -> head_safe h B = true -> head_safe h B' = true.
Proof.
  intros SN. destruct h as [l|es|lg es rg|lg f es rg|tx]; try reflexivity. unfold head_safe. rewrite !forallb_forall.
  intros S x Hx. specialize (S x Hx). apply existsb_exists in S. destruct S as [y [Hy E]]. apply String.eqb_eq in E. subst y.
  apply existsb_exists. exists x. split; [|apply String.eqb_refl].
  unfold gvars_rule in *. apply in_app_or in Hy. apply in_or_app. destruct Hy as [Hy|Hy]; [left; exact Hy|]. right.
  apply in_flat_map in Hy. destruct Hy as [e [He Hxe]]. apply B_members in He. apply in_app_or in He.
  apply in_flat_map. destruct He as [He|He].
  - exists (BLit flit). split; [apply B'_members; apply in_or_app; right; left; reflexivity|].
    apply in_map_iff in He. destruct He as [e0 [<- He0]].
    unfold simple_body in SN. rewrite forallb_forall in SN.
    destruct (vars_bodyelem_ren r e0 x (SN e0 He0) (gvars_bodyelem_sub _ _ Hxe)) as [y [Hy ->]].
    simpl. apply in_flat_map. exists (TVar (r y)). split; [|left; reflexivity].
    apply in_map. apply in_map. apply covers. apply in_flat_map. exists e0. split; assumption.
  - exists e. split; [apply B'_members; apply in_or_app; left; exact He|exact Hxe].
Qed.

Lemma simple_folded : simple_body New = true -> simple_stmt Ru = true -> simple_stmt Rf = true.
Proof.
  intros SN S. destruct (simple_stmt_rule _ _ _ S) as [Sh [Sb Safe]]. unfold folded_rule. simpl.
  rewrite Sh, (head_safe_folded SN Safe), andb_true_r. simpl. unfold simple_body in *. rewrite forallb_forall in *.
  intros e He. apply B'_members in He. apply in_app_or in He. destruct He as [He|[<-|[]]]; [|reflexivity].
  apply Sb. apply B_members. apply in_or_app. right. exact He.
Qed.

(* FOLD AGAINST AN EXISTING DEFINITION, programs given by their members:
     Q  = C + { aux(ts) :- New.   h :- B. }     B  has the members of  New[r] ++ Rest
     Q' = C + { aux(ts) :- New.   h :- B'. }    B' has the members of  Rest ++ [aux(r ts)]            *)
Theorem fold_existing_sound_members (Q Q': program) :
  (forall st, In st Q <-> In st (D :: Ru :: C)) ->
  (forall st, In st Q' <-> In st (D :: Rf :: C)) ->
  simple_prog Q = true ->
  heads_avoid p (Ru :: C) = true ->                 (* the definition is the only statement with aux/k in its head *)
  equiv_on (fun q => q <> p) Q Q' /\ simple_prog Q' = true.
Proof.
  intros MQ MQ' Simple HA.
  assert (SQ: forall st, In st (D :: Ru :: C) -> simple_stmt st = true).
  { intros st Hin. apply (simple_prog_stmt Q); [exact Simple|apply MQ; exact Hin]. }
  assert (SN: simple_body New = true).
  { pose proof (SQ D (or_introl eq_refl)) as S. unfold def_rule, aux_rule in S. apply simple_stmt_rule in S. tauto. }
  assert (Simple': simple_prog Q' = true).
  { apply forallb_forall. intros st Hin. apply MQ' in Hin. destruct Hin as [<-|[<-|Hin]].
    - apply SQ. left. reflexivity.
    - apply (simple_folded SN). apply SQ. right. left. reflexivity.
    - apply SQ. right. right. exact Hin. }
  split; [|exact Simple'].
  simpl in HA. apply andb_true_iff in HA. destruct HA as [Hh HC].
  intros I FO T.
  rewrite (ground_stable_iff sym_lt Q Simple I T), (ground_stable_iff sym_lt Q' Simple' I T).
  rewrite (gstable_ext _ _ (fun c => ground_prog_members sym_lt Q _ I c MQ) T).
  rewrite (gstable_ext _ _ (fun c => ground_prog_members sym_lt Q' _ I c MQ') T).
  exact (fold_existing_ground sym_lt auxn ts ext r C l0 line h New Rest B B' I B_members B'_members SN covers Hh HC FO T).
Qed.
End OneFold.

(* ---- the statement of the task: Q contains the rule  aux(ts) :- New  and a rule  h :- New[r] ++ Rest ---- *)
Theorem fold_existing_sound (aux: string) (ts: list string) (r: string -> string) (P1 P2 P3: program) (l0 line: nat)
        (h: head) (New Rest B: list bodyelem) :
  let p : pred := (aux, List.length ts) in
  let D := SRule l0 (HLit (Lit NoSign (ASym (TFun aux (map TVar ts) false)))) New in
  let Q := P1 ++ [D] ++ P2 ++ [SRule line h B] ++ P3 in
  let Q' := P1 ++ [D] ++ P2 ++ [SRule line h (Rest ++ [BLit (Lit NoSign (ASym (TFun aux (map TVar (map r ts)) false)))])] ++ P3 in
  simple_prog Q = true ->
  heads_avoid p (P1 ++ P2 ++ [SRule line h B] ++ P3) = true ->   (* D is the only statement with aux/k in its head *)
  Permutation B (map (ren_bodyelem r) New ++ Rest) ->
  (forall x, In x (flat_map vars_bodyelem New) -> In x ts) ->    (* ts lists every variable of New *)
  equiv_on (fun q => q <> p) Q Q'.
Proof.
  intros p D Q Q' Simple HA Perm Cov.
  refine (proj1 (fold_existing_sound_members aux ts false r (P1 ++ P2 ++ P3) l0 line h New Rest B
            (Rest ++ [BLit (fold_lit aux ts false r)]) _ _ Cov Q Q' _ _ Simple _)).
  - intro e. split; intro He; [apply (Permutation_in _ Perm)|apply (Permutation_in _ (Permutation_sym Perm))]; exact He.
  - intro e. tauto.
  - intro st. unfold Q, D, def_rule, aux_rule, auxlit, unfolded_rule. simpl. rewrite !in_app_iff. simpl. rewrite !in_app_iff. simpl. tauto.
  - intro st. unfold Q', D, def_rule, aux_rule, auxlit, folded_rule, fold_lit, auxlit. simpl. rewrite !in_app_iff. simpl. rewrite !in_app_iff. simpl. tauto.
  - unfold heads_avoid in *. rewrite forallb_forall in *. intros st Hin. apply HA. unfold unfolded_rule in Hin.
    destruct Hin as [<-|Hin]; [|apply in_app_or in Hin; destruct Hin as [Hin|Hin]; [|apply in_app_or in Hin; destruct Hin as [Hin|Hin]]];
      rewrite !in_app_iff; simpl; tauto.
Qed.
End FoldNonGround.

Print Assumptions gfold_fwd.
Print Assumptions gfold_bwd.
Print Assumptions fold_existing_sound_members.
Print Assumptions fold_existing_sound.

(* ================================================================================================ *)
(* 5. Introducing the definition of a fresh predicate is a conservative extension                   *)
(* ================================================================================================ *)
Section DefIntro.
Variable sym_lt : sym -> sym -> Prop.
Notation stmt_sat := (Sat.stmt_sat sym_lt).
Notation equiv_on := (equiv_on sym_lt).
Notation equiv_all := (Sat.equiv_all sym_lt).
Notation cons_ext := (Sat.cons_ext sym_lt).

Lemma members_equiv_all P Q : (forall st, In st P <-> In st Q) -> equiv_all P Q.
Proof. intros M. apply stmts_equiv_equiv_all. intros H T _. split; intros A st Hin; apply A; apply M; exact Hin. Qed.

Definition lfalse : lit := Lit NoSign (ABool false).

(* a rule with #false in its body is satisfied by every HT-interpretation *)
Lemma false_body_sat H T line h b : In (BLit lfalse) b -> stmt_sat H T (SRule line h b).
Proof.
  intros Hin s.
  assert (N: forall X, ~ body_sat sym_lt (gvars_rule h b) X T s b).
  { intros X Bd. unfold Sat.body_sat in Bd. rewrite Forall_forall in Bd. specialize (Bd _ Hin). simpl in Bd.
    unfold lfalse in Bd. rewrite (lit_sat_bool sym_lt) in Bd. simpl in Bd. discriminate Bd. }
  split; intro Bd; exfalso; exact (N _ Bd).
Qed.

Lemma drop_trivial_equiv_all st P : (forall H T, stmt_sat H T st) -> equiv_all (st :: P) P.
Proof.
  intros Tr. apply stmts_equiv_equiv_all. intros H T _. split.
  - intros A s0 Hin. apply A. right. exact Hin.
  - intros A s0 [<-|Hin]; [apply Tr|apply A; exact Hin].
Qed.

(* P + { aux(ts) :- New. }  for aux/k fresh.  Obtained from the projection theorem applied to the (trivially
   satisfied) constraint  :- New, #false.   which it splits into  aux(ts) :- New.  and  :- #false, aux(ts). *)
Theorem def_intro_sound_members (auxn: string) (ts: list string) (ext: bool) (l0: nat) (New: list bodyelem) (P Q: program) :
  let p := aux_pred auxn ts in
  (forall st, In st Q <-> In st (def_rule auxn ts ext l0 New :: P)) ->
  simple_prog P = true -> prog_avoids p P = true ->
  simple_body New = true -> forallb (bodyelem_avoids p) New = true ->
  cons_ext (fun q => q <> p) (fun a => ~ is_p p a) P Q.
Proof.
  intros p MQ Simple Av SN AN.
  set (hf := HLit lfalse).
  set (dummy := SRule l0 hf (New ++ [BLit lfalse])).
  assert (CE: cons_ext (fun q => q <> p) (fun a => ~ is_p p a) (dummy :: P)
                (aux_rule auxn ts ext l0 New :: upd_rule auxn ts ext l0 hf [BLit lfalse] :: P)).
  { apply (projection_split_sound_members sym_lt auxn ts ext P l0 l0 hf (New ++ [BLit lfalse]) New [BLit lfalse]).
    - intro e. tauto.
    - intros x _ [[]|[]].
    - intro st. unfold orig_rule. tauto.
    - intro st. tauto.
    - change (simple_stmt dummy && simple_prog P = true). rewrite Simple, andb_true_r.
      unfold dummy, hf, simple_stmt, simple_head, lfalse, head_safe, simple_body. rewrite forallb_app. fold (simple_body New).
      rewrite SN. reflexivity.
    - change (stmt_avoids p dummy && prog_avoids p P = true). rewrite Av, andb_true_r.
      unfold dummy, hf, stmt_avoids. rewrite forallb_app, AN. reflexivity. }
  apply (equiv_on_cons_ext sym_lt _ _ P (dummy :: P)).
  { apply equiv_all_on. apply equiv_all_sym. apply drop_trivial_equiv_all. intros H T. apply false_body_sat.
    apply in_or_app. right. left. reflexivity. }
  apply (cons_ext_equiv_on sym_lt _ _ _ _ Q CE). apply equiv_all_on.
  apply (equiv_all_trans sym_lt _ (upd_rule auxn ts ext l0 hf [BLit lfalse] :: aux_rule auxn ts ext l0 New :: P)).
  { apply members_equiv_all. intro st. simpl. tauto. }
  apply (equiv_all_trans sym_lt _ (aux_rule auxn ts ext l0 New :: P)).
  { apply drop_trivial_equiv_all. intros H T. apply false_body_sat. left. reflexivity. }
  apply members_equiv_all. intro st. symmetry. apply MQ.
Qed.
End DefIntro.

Print Assumptions def_intro_sound_members.

(* ================================================================================================ *)
(* 6. One step of the duplication pass: k occurrences folded against ONE new definition             *)
(* ================================================================================================ *)
(* an occurrence: the rule  o_h :- o_B  whose body has the members of  New[o_r] ++ o_rest,
   rewritten into  o_h :- o_B'  whose body has the members of  o_rest ++ [aux(o_r ts)] *)
Record occ := mk_occ {
  o_line : nat; o_h : head; o_B : list bodyelem; o_B' : list bodyelem; o_rest : list bodyelem; o_r : string -> string }.
Definition o_orig (o: occ) : stmt := SRule (o_line o) (o_h o) (o_B o).
Definition o_folded (o: occ) : stmt := SRule (o_line o) (o_h o) (o_B' o).

Lemma term_avoids_ren p r t : term_avoids p (Normalize.vmap_term (ren r) t) = term_avoids p t.
Proof.
  induction t as [y|c|o u IH|o l1 r1 IHl IHr|l1 r1 IHl IHr|n xs e IH|xs IH] using term_ind'; try reflexivity.
  - destruct o; try reflexivity. exact IH.
  - simpl. rewrite map_length. reflexivity.
Qed.
Lemma bodyelem_avoids_ren p r e : bodyelem_avoids p (ren_bodyelem r e) = bodyelem_avoids p e.
Proof. destruct e as [[sg a]|l c]; [|reflexivity]. destruct a; try reflexivity. apply term_avoids_ren. Qed.

Lemma heads_avoid_transfer p P P' :
  (forall st, In st P' -> exists st', In st' P /\ stmt_head_avoids p st = stmt_head_avoids p st') ->
  heads_avoid p P = true -> heads_avoid p P' = true.
Proof.
  unfold heads_avoid. rewrite !forallb_forall. intros M A st Hin. destruct (M st Hin) as [st' [Hin' E]]. rewrite E. apply A. exact Hin'.
Qed.

Lemma prog_avoids_heads p P : prog_avoids p P = true -> heads_avoid p P = true.
Proof.
  unfold prog_avoids, heads_avoid. rewrite !forallb_forall. intros A st Hin. specialize (A st Hin).
  destruct st as [ln hh bb| | | |]; try reflexivity. simpl in *. apply andb_true_iff in A. tauto.
Qed.

Section Step.
Variable sym_lt : sym -> sym -> Prop.
Notation equiv_on := (equiv_on sym_lt).
Notation cons_ext := (Sat.cons_ext sym_lt).

Variables (auxn: string) (ts: list string) (ext: bool) (l0: nat) (New: list bodyelem).
Notation p := (aux_pred auxn ts).
Notation D := (def_rule auxn ts ext l0 New).

Definition occ_ok (o: occ) : Prop :=
  (forall e, In e (o_B o) <-> In e (map (ren_bodyelem (o_r o)) New ++ o_rest o)) /\
  (forall e, In e (o_B' o) <-> In e (o_rest o ++ [BLit (fold_lit auxn ts ext (o_r o))])).

Hypothesis covers : forall x, In x (flat_map vars_bodyelem New) -> In x ts.

(* folding the occurrences one after the other, each time against the same definition *)
Lemma fold_all (C: program) : forall todo done, Forall occ_ok todo ->
  simple_prog (D :: map o_folded done ++ map o_orig todo ++ C) = true ->
  heads_avoid p (map o_folded done ++ map o_orig todo ++ C) = true ->
  equiv_on (fun q => q <> p) (D :: map o_folded done ++ map o_orig todo ++ C) (D :: map o_folded (done ++ todo) ++ C).
Proof.
  induction todo as [|o todo IH]; intros done OK Simple HA.
  - rewrite app_nil_r. apply equiv_on_refl.
  - inversion OK as [|? ? [OB OB'] OK']; subst.
    destruct (fold_existing_sound_members sym_lt auxn ts ext (o_r o) (map o_folded done ++ map o_orig todo ++ C) l0
                (o_line o) (o_h o) New (o_rest o) (o_B o) (o_B' o) OB OB' covers
                (D :: map o_folded done ++ map o_orig (o :: todo) ++ C)
                (D :: map o_folded (done ++ [o]) ++ map o_orig todo ++ C)) as [E S'].
    + intro st. unfold unfolded_rule. repeat first [rewrite in_app_iff | progress simpl]. unfold o_orig at 1. tauto.
    + intro st. unfold folded_rule. rewrite map_app. repeat first [rewrite in_app_iff | progress simpl]. unfold o_folded at 2. tauto.
    + exact Simple.
    + apply (heads_avoid_transfer p _ _) with (2 := HA). intros st Hin. exists st. split; [|reflexivity].
      unfold unfolded_rule in Hin. repeat first [rewrite in_app_iff in Hin | progress simpl in Hin].
      repeat first [rewrite in_app_iff | progress simpl]. unfold o_orig at 1. tauto.
    + apply (equiv_on_trans sym_lt _ _ _ _ E). replace (done ++ o :: todo) with ((done ++ [o]) ++ todo) by (rewrite <- app_assoc; reflexivity).
      apply IH; [exact OK'|exact S'|].
      apply (heads_avoid_transfer p _ _) with (2 := HA). intros st Hin.
      rewrite map_app in Hin. repeat first [rewrite in_app_iff in Hin | progress simpl in Hin].
      destruct Hin as [[Hin|[<-|[]]]|[Hin|Hin]].
      * exists st. split; [|reflexivity]. rewrite !in_app_iff. tauto.
      * exists (o_orig o). split; [|reflexivity]. rewrite !in_app_iff. simpl. tauto.
      * exists st. split; [|reflexivity]. rewrite !in_app_iff. simpl. tauto.
      * exists st. split; [|reflexivity]. rewrite !in_app_iff. simpl. tauto.
Qed.

(* THE PASS STEP, programs given by their members:
     P = C + { o_h :- o_B           | o in occs }
     Q = C + { o_h :- o_B'          | o in occs } + { aux(ts) :- New. }                                *)
Theorem duplication_step_sound_members (occs: list occ) (C P Q: program) :
  (forall st, In st P <-> In st (map o_orig occs ++ C)) ->
  (forall st, In st Q <-> In st (D :: map o_folded occs ++ C)) ->
  Forall occ_ok occs ->
  simple_prog P = true ->
  prog_avoids p P = true ->                                  (* aux/k is fresh *)
  simple_body New = true -> forallb (bodyelem_avoids p) New = true ->
  cons_ext (fun q => q <> p) (fun a => ~ is_p p a) P Q.
Proof.
  intros MP MQ OK Simple Av SN AN.
  set (P' := map o_orig occs ++ C).
  assert (SP': simple_prog P' = true).
  { apply forallb_forall. intros st Hin. apply (simple_prog_stmt P); [exact Simple|apply MP; exact Hin]. }
  assert (AP': prog_avoids p P' = true).
  { unfold prog_avoids in *. rewrite forallb_forall in *. intros st Hin. apply Av. apply MP. exact Hin. }
  assert (CE: cons_ext (fun q => q <> p) (fun a => ~ is_p p a) P (D :: P')).
  { apply (equiv_on_cons_ext sym_lt _ _ P P').
    - apply equiv_all_on. apply members_equiv_all. exact MP.
    - apply (def_intro_sound_members sym_lt auxn ts ext l0 New P' (D :: P')); try assumption. intro st. tauto. }
  apply (cons_ext_equiv_on sym_lt _ _ _ _ Q CE).
  apply (equiv_on_trans sym_lt _ _ (D :: map o_folded ([] ++ occs) ++ C)).
  - apply (fold_all C occs [] OK).
    + change (simple_stmt D && simple_prog P' = true). rewrite SP', andb_true_r.
      unfold def_rule, aux_rule, auxlit. simpl. rewrite andb_true_r. exact SN.
    + apply prog_avoids_heads. exact AP'.
  - apply equiv_all_on. apply members_equiv_all. intro st. symmetry. apply MQ.
Qed.

(* with at least one occurrence, New is simple and avoids aux/k because its renamed copy in P does *)
Lemma New_from_occurrence (o: occ) (P: program) : In (o_orig o) P -> occ_ok o ->
  simple_prog P = true -> prog_avoids p P = true ->
  simple_body New = true /\ forallb (bodyelem_avoids p) New = true.
Proof.
  intros Hin [OB _] Simple Av.
  pose proof (simple_prog_stmt P _ Simple Hin) as S. unfold o_orig in S. apply simple_stmt_rule in S. destruct S as [_ [Sb _]].
  unfold prog_avoids in Av. rewrite forallb_forall in Av. pose proof (Av _ Hin) as A. unfold o_orig in A. simpl in A.
  apply andb_true_iff in A. destruct A as [_ Ab]. unfold simple_body in *. rewrite forallb_forall in Sb, Ab.
  split; apply forallb_forall; intros e He.
  - rewrite <- (simple_ren_bodyelem (o_r o) e). apply Sb. apply OB. apply in_or_app. left. apply in_map. exact He.
  - rewrite <- (bodyelem_avoids_ren p (o_r o) e). apply Ab. apply OB. apply in_or_app. left. apply in_map. exact He.
Qed.
End Step.

(* ---- the positional statement: a program is a list of items, each a statement that stays or an occurrence;
        the new rule is inserted anywhere (ngo inserts it in front of the first occurrence) ---- *)
Definition item := (stmt + occ)%type.
Definition i_src (i: item) : stmt := match i with inl st => st | inr o => o_orig o end.
Definition i_tgt (i: item) : stmt := match i with inl st => st | inr o => o_folded o end.
Definition i_occs (items: list item) : list occ := flat_map (fun i => match i with inl _ => [] | inr o => [o] end) items.
Definition i_rest (items: list item) : program := flat_map (fun i => match i with inl st => [st] | inr _ => [] end) items.

Lemma items_members (f: occ -> stmt) items st :
  In st (map (fun i => match i with inl s0 => s0 | inr o => f o end) items) <-> In st (map f (i_occs items) ++ i_rest items).
Proof.
  induction items as [|[s0|o] items IH]; simpl; [tauto| |]; rewrite ?in_app_iff in *; simpl; rewrite ?in_app_iff; tauto.
Qed.

Theorem duplication_step_sound (sym_lt: sym -> sym -> Prop) (aux: string) (ts: list string) (l0: nat) (New: list bodyelem)
        (items: list item) (Q1 Q2: program) :
  let p : pred := (aux, List.length ts) in
  let auxl (xs: list string) : lit := Lit NoSign (ASym (TFun aux (map TVar xs) false)) in
  let P := map i_src items in
  let Q := Q1 ++ [SRule l0 (HLit (auxl ts)) New] ++ Q2 in
  Q1 ++ Q2 = map i_tgt items ->
  (exists o, In (inr o) items) ->                                        (* k >= 1 *)
  (forall o, In (inr o) items ->                                         (* each occurrence is a fold of New[o_r] *)
     Permutation (o_B o) (map (ren_bodyelem (o_r o)) New ++ o_rest o) /\
     Permutation (o_B' o) (o_rest o ++ [BLit (auxl (map (o_r o) ts))])) ->
  simple_prog P = true ->
  prog_avoids p P = true ->                                              (* aux/k occurs nowhere in P *)
  (forall x, In x (flat_map vars_bodyelem New) -> In x ts) ->            (* ts lists every variable of New *)
  cons_ext sym_lt (fun q => q <> p) (fun a => ~ (fst a = aux /\ List.length (snd a) = List.length ts)) P Q.
Proof.
  intros p auxl P Q EQ [o0 Ho0] Occ Simple Av Cov.
  assert (OK: Forall (occ_ok aux ts false New) (i_occs items)).
  { apply Forall_forall. intros o Ho. unfold i_occs in Ho. apply in_flat_map in Ho. destruct Ho as [[s0|o'] [Hi Ho]]; [destruct Ho|].
    destruct Ho as [<-|[]]. destruct (Occ o' Hi) as [P1 P2]. split; intro e.
    - split; intro He; [apply (Permutation_in _ P1)|apply (Permutation_in _ (Permutation_sym P1))]; exact He.
    - split; intro He; [apply (Permutation_in _ P2)|apply (Permutation_in _ (Permutation_sym P2))]; exact He. }
  assert (MP: forall st, In st P <-> In st (map o_orig (i_occs items) ++ i_rest items)) by (intro st; apply (items_members o_orig)).
  assert (In0: In (o_orig o0) P) by (apply MP; apply in_or_app; left; apply in_map; unfold i_occs; apply in_flat_map; exists (inr o0); split; [exact Ho0|left; reflexivity]).
  assert (OK0: occ_ok aux ts false New o0).
  { rewrite Forall_forall in OK. apply OK. unfold i_occs. apply in_flat_map. exists (inr o0). split; [exact Ho0|left; reflexivity]. }
  destruct (New_from_occurrence aux ts false New o0 P In0 OK0 Simple Av) as [SN AN].
  apply (duplication_step_sound_members sym_lt aux ts false l0 New Cov (i_occs items) (i_rest items) P Q MP); try assumption.
  intro st. unfold Q.
  assert (M2: In st (map i_tgt items) <-> In st (map o_folded (i_occs items) ++ i_rest items)) by apply (items_members o_folded).
  rewrite <- EQ in M2. simpl. rewrite <- M2. unfold def_rule, aux_rule, auxlit. rewrite !in_app_iff. simpl. tauto.
Qed.

Print Assumptions duplication_step_sound_members.
Print Assumptions duplication_step_sound.

(* ================================================================================================ *)
(* 7. Refutations: the side conditions are necessary                                                *)
(* ================================================================================================ *)
Module Refutations.
Notation at_ := ProjectionSem.Example.at_.
Notation at_sat := ProjectionSem.Example.at_sat.

Section Witnesses.
Variable sym_lt : sym -> sym -> Prop.
Notation body_sat := (Sat.body_sat sym_lt).
Notation lit_sat := (Sat.lit_sat sym_lt).
Notation stable := (Sat.stable sym_lt).

Lemma bs1 G H T s l : body_sat G H T s [BLit l] <-> lit_sat G H T s l.
Proof. unfold Sat.body_sat. split; [intro F; inversion F; subst; assumption|intro L; repeat constructor; exact L]. Qed.
Lemma bs2 G H T s l1 l2 : body_sat G H T s [BLit l1; BLit l2] <-> lit_sat G H T s l1 /\ lit_sat G H T s l2.
Proof.
  unfold Sat.body_sat. split.
  - intro F. inversion F as [|? ? A F1]; subst. inversion F1 as [|? ? A2 _]; subst. split; assumption.
  - intros [A A2]. repeat constructor; assumption.
Qed.

(* (a) [covers] fails: ts = [X] omits the variable Y of New = a(X,Y), which the rest of the rule and the head use.
         __aux_1(X) :- a(X,Y).   h(Y) :- a(X,Y), b(Y).      versus      __aux_1(X) :- a(X,Y).   h(Y) :- b(Y), __aux_1(X).
       Facts a(1,2). b(2). b(3).: the first program derives h(2) only, the second also h(3).
       Every other hypothesis of fold_existing_sound holds (r = identity). *)
Definition dA : stmt := SRule 1 (HLit (at_ "__aux_1" ["X"])) [BLit (at_ "a" ["X"; "Y"])].
Definition ruA : stmt := SRule 2 (HLit (at_ "h" ["Y"])) [BLit (at_ "a" ["X"; "Y"]); BLit (at_ "b" ["Y"])].
Definition rfA : stmt := SRule 2 (HLit (at_ "h" ["Y"])) [BLit (at_ "b" ["Y"]); BLit (at_ "__aux_1" ["X"])].
Definition IA : list gatom := [("a", [SNum 1; SNum 2]); ("b", [SNum 2]); ("b", [SNum 3])].
Definition TA : interp := fun g => In g (IA ++ [("__aux_1", [SNum 1]); ("h", [SNum 2])]).
Definition sA (y: Z) : subst := fun x => if String.eqb x "X" then SNum 1 else SNum y.

Lemma TA_stable_unfolded : stable [dA; ruA] IA TA.
Proof.
  split; [split|].
  - intros st [<-|[<-|[]]]; simpl; intro s.
    + assert (X: body_sat (gvars_rule (HLit (at_ "__aux_1" ["X"])) [BLit (at_ "a" ["X"; "Y"])]) TA TA s [BLit (at_ "a" ["X"; "Y"])] ->
                 head_sat sym_lt (gvars_rule (HLit (at_ "__aux_1" ["X"])) [BLit (at_ "a" ["X"; "Y"])]) TA TA s (HLit (at_ "__aux_1" ["X"]))).
      { intro Bd. apply bs1 in Bd. rewrite at_sat in Bd. unfold head_sat. rewrite at_sat. simpl in Bd |- *.
        unfold TA, IA in Bd. simpl in Bd. destruct Bd as [E|[E|[E|[E|[E|[]]]]]]; try discriminate E.
        injection E as E1 _. rewrite <- E1. unfold TA. simpl. tauto. }
      split; exact X.
    + assert (X: body_sat (gvars_rule (HLit (at_ "h" ["Y"])) [BLit (at_ "a" ["X"; "Y"]); BLit (at_ "b" ["Y"])]) TA TA s
                          [BLit (at_ "a" ["X"; "Y"]); BLit (at_ "b" ["Y"])] ->
                 head_sat sym_lt (gvars_rule (HLit (at_ "h" ["Y"])) [BLit (at_ "a" ["X"; "Y"]); BLit (at_ "b" ["Y"])]) TA TA s (HLit (at_ "h" ["Y"]))).
      { intro Bd. apply bs2 in Bd. destruct Bd as [Bd _]. rewrite at_sat in Bd. unfold head_sat. rewrite at_sat. simpl in Bd |- *.
        unfold TA, IA in Bd. simpl in Bd. destruct Bd as [E|[E|[E|[E|[E|[]]]]]]; try discriminate E.
        injection E as _ E2. rewrite <- E2. unfold TA. simpl. tauto. }
      split; exact X.
  - intros a Ha. unfold TA. apply in_or_app. left. exact Ha.
  - intros H _ PS FS a Ta. unfold TA in Ta. simpl in Ta. destruct Ta as [<-|[<-|[<-|[<-|[<-|[]]]]]].
    + apply FS. simpl. tauto.
    + apply FS. simpl. tauto.
    + apply FS. simpl. tauto.
    + pose proof (PS dA (or_introl eq_refl)) as R. simpl in R. destruct (R (sA 2)) as [R1 _].
      unfold head_sat in R1. rewrite at_sat in R1. apply R1. apply bs1. rewrite at_sat. apply FS. simpl. tauto.
    + pose proof (PS ruA (or_intror (or_introl eq_refl))) as R. simpl in R. destruct (R (sA 2)) as [R1 _].
      unfold head_sat in R1. rewrite at_sat in R1. apply R1. apply bs2. rewrite !at_sat. split; apply FS; simpl; tauto.
Qed.

Lemma TA_not_model_folded : ~ stable [dA; rfA] IA TA.
Proof.
  intros [[PS _] _]. pose proof (PS rfA (or_intror (or_introl eq_refl))) as R. simpl in R. destruct (R (sA 3)) as [_ R2].
  unfold head_sat in R2. rewrite at_sat in R2.
  assert (X: TA ("h", map (sA 3) ["Y"])).
  { apply R2. apply bs2. rewrite !at_sat. unfold TA. simpl. tauto. }
  unfold TA in X. simpl in X. destruct X as [E|[E|[E|[E|[E|[]]]]]]; discriminate E.
Qed.

Theorem fold_missing_variable_refuted :
  let p : pred := ("__aux_1", 1) in
  let New := [BLit (at_ "a" ["X"; "Y"])] in
  let Rest := [BLit (at_ "b" ["Y"])] in
  simple_prog [dA; ruA] = true /\ heads_avoid p [ruA] = true /\
  Permutation [BLit (at_ "a" ["X"; "Y"]); BLit (at_ "b" ["Y"])] (map (ren_bodyelem (fun x => x)) New ++ Rest) /\
  facts_over (fun q => q <> p) IA /\
  ~ (forall x, In x (flat_map vars_bodyelem New) -> In x ["X"]) /\         (* the hypothesis that fails *)
  stable [dA; ruA] IA TA /\ ~ stable [dA; rfA] IA TA /\
  ~ equiv_on sym_lt (fun q => q <> p) [dA; ruA] [dA; rfA].
Proof.
  intros p New Rest.
  assert (FO: facts_over (fun q => q <> p) IA).
  { intros a [<-|[<-|[<-|[]]]]; simpl; discriminate. }
  split; [reflexivity|]. split; [reflexivity|]. split; [apply Permutation_refl|]. split; [exact FO|].
  split; [intro Cv; destruct (Cv "Y") as [E|[]]; [simpl; tauto|discriminate E]|].
  split; [exact TA_stable_unfolded|]. split; [exact TA_not_model_folded|].
  intro E. apply TA_not_model_folded. apply (E IA FO TA). exact TA_stable_unfolded.
Qed.

(* (b) facts over aux/k (or a second rule for it) break the fold: equiv_all does NOT hold.
         __aux_1(X) :- a(X).   h(X) :- a(X).      versus      __aux_1(X) :- a(X).   h(X) :- __aux_1(X).
       with the added fact __aux_1(1). *)
Definition dB : stmt := SRule 1 (HLit (at_ "__aux_1" ["X"])) [BLit (at_ "a" ["X"])].
Definition ruB : stmt := SRule 2 (HLit (at_ "h" ["X"])) [BLit (at_ "a" ["X"])].
Definition rfB : stmt := SRule 2 (HLit (at_ "h" ["X"])) [BLit (at_ "__aux_1" ["X"])].
Definition IB : list gatom := [("__aux_1", [SNum 1])].
Definition TB : interp := fun g => In g IB.

Theorem fold_aux_fact_refuted :
  stable [dB; ruB] IB TB /\ ~ stable [dB; rfB] IB TB /\ ~ equiv_all sym_lt [dB; ruB] [dB; rfB].
Proof.
  assert (S1: stable [dB; ruB] IB TB).
  { split; [split|].
    - assert (N: forall G s n, ~ body_sat G TB TB s [BLit (at_ "a" [n])]).
      { intros G s n Bd. apply bs1 in Bd. rewrite at_sat in Bd. unfold TB, IB in Bd. simpl in Bd. destruct Bd as [E|[]]. discriminate E. }
      intros st [<-|[<-|[]]]; simpl; intro s; split; intro Bd; exfalso; exact (N _ _ _ Bd).
    - intros a Ha. exact Ha.
    - intros H _ _ FS a Ta. apply FS. exact Ta. }
  assert (S2: ~ stable [dB; rfB] IB TB).
  { intros [[PS _] _]. pose proof (PS rfB (or_intror (or_introl eq_refl))) as R. simpl in R.
    destruct (R (fun _ => SNum 1)) as [_ R2]. unfold head_sat in R2. rewrite at_sat in R2.
    assert (X: TB ("h", map (fun _ : string => SNum 1) ["X"])).
    { apply R2. apply bs1. rewrite at_sat. unfold TB, IB. simpl. tauto. }
    unfold TB, IB in X. simpl in X. destruct X as [E|[]]. discriminate E. }
  split; [exact S1|]. split; [exact S2|]. intro E. apply S2. apply (E IB TB). exact S1.
Qed.
End Witnesses.
End Refutations.

Print Assumptions Refutations.fold_missing_variable_refuted.
Print Assumptions Refutations.fold_aux_fact_refuted.

(* ================================================================================================ *)
(* 8. The model (Model/Duplication.v, validated against ngo/literal_duplication.py) on concrete programs *)
(* ================================================================================================ *)
From NGO Require Model.Duplication.

Module ModelExamples.
Notation at_ := ProjectionSem.Example.at_.
Notation at_sat := ProjectionSem.Example.at_sat.
Definition base_stmt : stmt := SOther "ASTType.Program" "#program base.".

(* ---- A:   foo(X) :- a(X), b(X), c.   bar(Y) :- a(Y), b(Y), d.
        ~>   __aux_1(__AUX_0) :- a(__AUX_0), b(__AUX_0).   foo(X) :- c, __aux_1(X).   bar(Y) :- d, __aux_1(Y).  ---- *)
Definition exA_foo : stmt := SRule 1 (HLit (at_ "foo" ["X"])) [BLit (at_ "a" ["X"]); BLit (at_ "b" ["X"]); BLit (at_ "c" [])].
Definition exA_bar : stmt := SRule 1 (HLit (at_ "bar" ["Y"])) [BLit (at_ "a" ["Y"]); BLit (at_ "b" ["Y"]); BLit (at_ "d" [])].
Definition exA_in : program := [base_stmt; exA_foo; exA_bar].
Definition exA_New : list bodyelem := [BLit (at_ "a" ["__AUX_0"]); BLit (at_ "b" ["__AUX_0"])].
Definition exA_aux : stmt := SRule 1 (HLit (at_ "__aux_1" ["__AUX_0"])) exA_New.
Definition exA_foo' : stmt := SRule 1 (HLit (at_ "foo" ["X"])) [BLit (at_ "c" []); BLit (at_ "__aux_1" ["X"])].
Definition exA_bar' : stmt := SRule 1 (HLit (at_ "bar" ["Y"])) [BLit (at_ "d" []); BLit (at_ "__aux_1" ["Y"])].
Definition exA_out : program := [base_stmt; exA_aux; exA_foo'; exA_bar'].

(* the input as vlib/ser.py serialises the parsed and preprocessed program *)
Example exA_parsed : exA_in =
  [(SOther "ASTType.Program" "#program base."); (SRule 1 (HLit (Lit NoSign (ASym (TFun "foo" [(TVar "X")] false)))) [(BLit (Lit NoSign (ASym (TFun "a" [(TVar "X")] false)))); (BLit (Lit NoSign (ASym (TFun "b" [(TVar "X")] false)))); (BLit (Lit NoSign (ASym (TFun "c" [] false))))]); (SRule 1 (HLit (Lit NoSign (ASym (TFun "bar" [(TVar "Y")] false)))) [(BLit (Lit NoSign (ASym (TFun "a" [(TVar "Y")] false)))); (BLit (Lit NoSign (ASym (TFun "b" [(TVar "Y")] false)))); (BLit (Lit NoSign (ASym (TFun "d" [] false))))])].
Proof. reflexivity. Qed.

(* X = LiteralDuplicationTranslator(prg, []); X.execute(prg)  (the same value is observed from ngo) *)
Example exA_model : Duplication.execute exA_in [] = Ok exA_out.
Proof. vm_compute. reflexivity. Qed.

Definition exA_items : list item :=
  [inl base_stmt;
   inr (mk_occ 1 (HLit (at_ "foo" ["X"])) [BLit (at_ "a" ["X"]); BLit (at_ "b" ["X"]); BLit (at_ "c" [])]
               [BLit (at_ "c" []); BLit (at_ "__aux_1" ["X"])] [BLit (at_ "c" [])] (fun _ => "X"));
   inr (mk_occ 1 (HLit (at_ "bar" ["Y"])) [BLit (at_ "a" ["Y"]); BLit (at_ "b" ["Y"]); BLit (at_ "d" [])]
               [BLit (at_ "d" []); BLit (at_ "__aux_1" ["Y"])] [BLit (at_ "d" [])] (fun _ => "Y"))].

Theorem exA_pass_sound sym_lt : exists Q,
  Duplication.execute exA_in [] = Ok Q /\
  cons_ext sym_lt (fun q => q <> ("__aux_1", 1)) (fun a => ~ (fst a = "__aux_1" /\ List.length (snd a) = 1)) exA_in Q.
Proof.
  exists exA_out. split; [exact exA_model|].
  apply (duplication_step_sound sym_lt "__aux_1" ["__AUX_0"] 1 exA_New exA_items [base_stmt] [exA_foo'; exA_bar']).
  - reflexivity.
  - eexists. right. left. reflexivity.
  - intros o [E|[E|[E|[]]]]; try discriminate E; injection E as <-; split; vm_compute; apply Permutation_refl.
  - reflexivity.
  - reflexivity.
  - intros x Hx. simpl in Hx. simpl. tauto.
Qed.

(* ---- B: the anonymous variable.
             foo(X) :- a(X,_), b(X), c(_).   bar(Y) :- a(Y,_), b(Y), d.
        ~>   __aux_1(__AUX_0) :- a(__AUX_0,_), b(__AUX_0).   foo(X) :- c(_), __aux_1(X).   bar(Y) :- d, __aux_1(Y).
     Correct for gringo, where every "_" is a different variable.  Sem/Sat.v reads TVar "_" as ONE variable: "_" is
     a variable of New that is not among ts = [__AUX_0] ([covers] fails) and it also occurs in the rest of the rule,
     so under that reading the output is NOT a conservative extension: with the facts a(1,5). b(1). c(7). the input
     derives nothing, the output derives foo(1).  (Same artefact as ProjectionSem.Example.anonymous_variable_counterexample.) *)
Definition exB_foo : stmt := SRule 1 (HLit (at_ "foo" ["X"])) [BLit (at_ "a" ["X"; "_"]); BLit (at_ "b" ["X"]); BLit (at_ "c" ["_"])].
Definition exB_bar : stmt := SRule 1 (HLit (at_ "bar" ["Y"])) [BLit (at_ "a" ["Y"; "_"]); BLit (at_ "b" ["Y"]); BLit (at_ "d" [])].
Definition exB_in : program := [base_stmt; exB_foo; exB_bar].
Definition exB_aux : stmt := SRule 1 (HLit (at_ "__aux_1" ["__AUX_0"])) [BLit (at_ "a" ["__AUX_0"; "_"]); BLit (at_ "b" ["__AUX_0"])].
Definition exB_foo' : stmt := SRule 1 (HLit (at_ "foo" ["X"])) [BLit (at_ "c" ["_"]); BLit (at_ "__aux_1" ["X"])].
Definition exB_bar' : stmt := SRule 1 (HLit (at_ "bar" ["Y"])) [BLit (at_ "d" []); BLit (at_ "__aux_1" ["Y"])].
Definition exB_out : program := [base_stmt; exB_aux; exB_foo'; exB_bar'].

Example exB_model : Duplication.execute exB_in [] = Ok exB_out.
Proof. vm_compute. reflexivity. Qed.

Definition IB : list gatom := [("a", [SNum 1; SNum 5]); ("b", [SNum 1]); ("c", [SNum 7])].
Definition TB : interp := fun g => In g IB.

Lemma body3 sym_lt G H T s l1 l2 l3 : Sat.body_sat sym_lt G H T s [BLit l1; BLit l2; BLit l3] <->
  Sat.lit_sat sym_lt G H T s l1 /\ Sat.lit_sat sym_lt G H T s l2 /\ Sat.lit_sat sym_lt G H T s l3.
Proof.
  unfold Sat.body_sat. split.
  - intro F. inversion F as [|? ? A1 F1]; subst. inversion F1 as [|? ? A2 F2]; subst. inversion F2 as [|? ? A3 _]; subst. auto.
  - intros [A1 [A2 A3]]. repeat constructor; assumption.
Qed.

Lemma exB_in_stable sym_lt : Sat.stable sym_lt exB_in IB TB.
Proof.
  split; [split|].
  - intros st [<-|[<-|[<-|[]]]]; [exact Logic.I| |]; simpl; intro s.
    + assert (N: forall G, ~ Sat.body_sat sym_lt G TB TB s [BLit (at_ "a" ["X"; "_"]); BLit (at_ "b" ["X"]); BLit (at_ "c" ["_"])]).
      { intros G Bd. apply body3 in Bd. destruct Bd as [A [_ C]]. rewrite at_sat in A, C. unfold TB, IB in A, C. simpl in A, C.
        destruct A as [A|[A|[A|[]]]]; try discriminate A. destruct C as [C|[C|[C|[]]]]; try discriminate C.
        injection A as _ A. injection C as C. congruence. }
      split; intro Bd; exfalso; exact (N _ Bd).
    + assert (N: forall G, ~ Sat.body_sat sym_lt G TB TB s [BLit (at_ "a" ["Y"; "_"]); BLit (at_ "b" ["Y"]); BLit (at_ "d" [])]).
      { intros G Bd. apply body3 in Bd. destruct Bd as [_ [_ C]]. rewrite at_sat in C. unfold TB, IB in C. simpl in C.
        destruct C as [C|[C|[C|[]]]]; discriminate C. }
      split; intro Bd; exfalso; exact (N _ Bd).
  - intros a Ha. exact Ha.
  - intros H _ _ FS a Ta. apply FS. exact Ta.
Qed.

Theorem exB_anonymous_variable_refuted sym_lt :
  ~ cons_ext sym_lt (fun q => q <> ("__aux_1", 1)) (fun a => ~ (fst a = "__aux_1" /\ List.length (snd a) = 1)) exB_in exB_out.
Proof.
  intros CE.
  assert (FO: facts_over (fun q => q <> ("__aux_1", 1)) IB).
  { intros a [<-|[<-|[<-|[]]]]; simpl; discriminate. }
  destruct (CE IB FO) as [C1 _]. destruct (C1 TB (exB_in_stable sym_lt)) as [T' [[[PS FS] _] Same]].
  assert (Aux: T' ("__aux_1", [SNum 1])).
  { pose proof (PS exB_aux (or_intror (or_introl eq_refl))) as R. simpl in R.
    destruct (R (fun x => if String.eqb x "_" then SNum 5 else SNum 1)) as [_ R2].
    unfold head_sat in R2. rewrite at_sat in R2. apply R2.
    repeat constructor; simpl; rewrite at_sat; apply FS; simpl; tauto. }
  assert (Hh: T' ("foo", [SNum 1])).
  { pose proof (PS exB_foo' (or_intror (or_intror (or_introl eq_refl)))) as R. simpl in R.
    destruct (R (fun x => if String.eqb x "_" then SNum 7 else SNum 1)) as [_ R2].
    unfold head_sat in R2. rewrite at_sat in R2. apply R2.
    repeat constructor; simpl; rewrite at_sat; [apply FS; simpl; tauto|exact Aux]. }
  assert (X: TB ("foo", [SNum 1])).
  { apply Same. split; [|exact Hh]. simpl. intros [E _]. discriminate E. }
  unfold TB, IB in X. simpl in X. destruct X as [X|[X|[X|[]]]]; discriminate X.
Qed.
End ModelExamples.

Print Assumptions ModelExamples.exA_model.
Print Assumptions ModelExamples.exA_pass_sound.
Print Assumptions ModelExamples.exB_model.
Print Assumptions ModelExamples.exB_anonymous_variable_refuted.
