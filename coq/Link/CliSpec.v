(* Theorems over the *generated* Gen/Cli.v: what the --enable option list means (C19). *)
From Coq Require Import List String ZArith Bool Lia Permutation.
From NGO Require Import Syntax.Ast Gen.Cli.
Import ListNotations.
Open Scope string_scope. Open Scope list_scope.

Lemma mem_In (x: string) l : mem String.eqb x l = true <-> In x l.
Proof.
  unfold mem. rewrite existsb_exists. split.
  - intros [y [Hy E]]. apply String.eqb_eq in E. subst. exact Hy.
  - intros H. exists x. split; [exact H | apply String.eqb_refl].
Qed.

Lemma mem_false_In (x: string) l : mem String.eqb x l = false <-> ~ In x l.
Proof. rewrite <- mem_In. destruct (mem String.eqb x l); split; congruence. Qed.

Lemma In_remove_all x y l : In y (remove_all x l) <-> In y l /\ y <> x.
Proof.
  induction l as [|z l IH]; simpl.
  - tauto.
  - destruct (String.eqb_spec x z) as [E|N].
    + subst. rewrite IH. split; [tauto|]. intros [[E|H] Ny]; [congruence|tauto].
    + simpl. rewrite IH. split.
      * intros [E|[H Ny]]; [subst; split; [left; reflexivity | congruence] | tauto].
      * intros [[E|H] Ny]; [left; exact E | right; tauto].
Qed.

Lemma In_insert_string x y l : In y (insert_string x l) <-> y = x \/ In y l.
Proof.
  induction l as [|z l IH]; simpl.
  - split; [intros [E|[]]; left; congruence | intros [E|[]]; left; congruence].
  - destruct (string_leb x z); simpl.
    + split; [intros [E|H]; [left; congruence | right; exact H] | intros [E|H]; [left; congruence | right; exact H]].
    + rewrite IH. split; [intros [E|[E|H]]; tauto | intros [E|[E|H]]; tauto].
Qed.

Lemma In_sort_strings y l : In y (sort_strings l) <-> In y l.
Proof.
  induction l as [|z l IH]; simpl; [tauto|].
  rewrite In_insert_string, IH. split; [intros [E|H]; [left; congruence | right; exact H] | intros [E|H]; [left; congruence|right; exact H]].
Qed.

Lemma Permutation_insert x l : Permutation (x :: l) (insert_string x l).
Proof.
  induction l as [|z l IH]; simpl; [constructor; constructor|].
  destruct (string_leb x z); [apply Permutation_refl|].
  eapply perm_trans; [apply perm_swap|]. constructor. exact IH.
Qed.
Lemma Permutation_sort l : Permutation l (sort_strings l).
Proof.
  induction l as [|z l IH]; simpl; [constructor|].
  eapply perm_trans; [|apply Permutation_insert]. constructor. exact IH.
Qed.

(* the sort really sorts (so the observable list is canonical, as Python's sorted) *)
Inductive sorted_str : list string -> Prop :=
| ss_nil : sorted_str []
| ss_one x : sorted_str [x]
| ss_cons x y l : string_leb x y = true -> sorted_str (y :: l) -> sorted_str (x :: y :: l).

Lemma string_leb_total a b : string_leb a b = false -> string_leb b a = true.
Proof.
  unfold string_leb. rewrite (String.compare_antisym a b).
  destruct (String.compare b a); simpl; congruence.
Qed.

Lemma insert_sorted x l : sorted_str l -> sorted_str (insert_string x l).
Proof.
  induction 1 as [|y|y z l Hyz Hs IH]; simpl.
  - constructor.
  - destruct (string_leb x y) eqn:E; [constructor; [exact E|constructor]|].
    constructor; [apply string_leb_total; exact E | constructor].
  - destruct (string_leb x y) eqn:E.
    + constructor; [exact E|]. constructor; assumption.
    + simpl in IH. destruct (string_leb x z) eqn:E2.
      * constructor; [apply string_leb_total; exact E|]. exact IH.
      * constructor; [exact Hyz | exact IH].
Qed.
Lemma sort_strings_sorted l : sorted_str (sort_strings l).
Proof. induction l as [|x l IH]; simpl; [constructor | apply insert_sorted; exact IH]. Qed.

(* ---------------------------------------------------------------------------------- *)
(* which traits a token list enables: the documented expansion *)
Definition documented (vs: list string) (t: string) : Prop :=
  In "all" vs \/ (~ In "all" vs /\ (In t vs \/ (In "default" vs /\ In t DEFAULT_OPTIONS))).

Lemma default_not_trait : ~ In "default" ALL_OPTIONS.
Proof. apply mem_false_In. vm_compute. reflexivity. Qed.
Lemma all_not_trait : ~ In "all" ALL_OPTIONS.
Proof. apply mem_false_In. vm_compute. reflexivity. Qed.
Lemma none_not_trait : ~ In "none" ALL_OPTIONS.
Proof. apply mem_false_In. vm_compute. reflexivity. Qed.

Lemma enable_rejects vs : verify_enable vs = None <-> (1 < List.length vs /\ In "none" vs).
Proof.
  unfold verify_enable.
  destruct (Nat.ltb_spec 1 (List.length vs)) as [L|L]; simpl.
  - destruct (mem String.eqb "none" vs) eqn:E; simpl.
    + apply mem_In in E. tauto.
    + apply mem_false_In in E. split; [discriminate | tauto].
  - split; [discriminate | lia].
Qed.

Theorem enable_spec_proof : forall vs en, verify_enable vs = Some en ->
  forall t, In t ALL_OPTIONS -> (In t en <-> documented vs t).
Proof.
  intros vs en H t Ht. unfold documented.
  unfold verify_enable in H.
  destruct (Nat.ltb 1 (List.length vs) && mem String.eqb "none" vs); [discriminate|].
  destruct (mem String.eqb "all" vs) eqn:Eall.
  - apply mem_In in Eall.
    assert (Hd: mem String.eqb "default" ALL_OPTIONS = false) by (apply mem_false_In, default_not_trait).
    rewrite Hd in H. injection H as <-. tauto.
  - apply mem_false_In in Eall.
    destruct (mem String.eqb "default" vs) eqn:Edef.
    + apply mem_In in Edef. injection H as <-.
      rewrite In_sort_strings, in_app_iff, In_remove_all.
      assert (t <> "default") by (intro; subst; exact (default_not_trait Ht)).
      tauto.
    + apply mem_false_In in Edef. injection H as <-. tauto.
Qed.

Theorem enable_all_proof : forall vs en, verify_enable vs = Some en -> In "all" vs ->
  forall t, In t ALL_OPTIONS -> In t en.
Proof. intros vs en H Ha t Ht. apply (enable_spec_proof vs en H t Ht). left. exact Ha. Qed.

Theorem enable_none_proof :
  verify_enable ["none"] = Some ["none"] /\ forall t, In t ALL_OPTIONS -> ~ In t ["none"].
Proof.
  split; [reflexivity|]. intros t Ht [E|[]]. subst. exact (none_not_trait Ht).
Qed.

Theorem none_combined_rejected_proof : forall vs, In "none" vs -> 1 < List.length vs -> verify_enable vs = None.
Proof. intros vs H L. apply enable_rejects. tauto. Qed.

Theorem accepted_otherwise_proof : forall vs, ~ (In "none" vs /\ 1 < List.length vs) -> exists en, verify_enable vs = Some en.
Proof.
  intros vs H. destruct (verify_enable vs) eqn:E; [eauto|]. apply enable_rejects in E. tauto.
Qed.

Theorem enable_default_proof : forall t, In t ALL_OPTIONS ->
  (In t DEFAULT_OPTIONS <-> t <> "duplication").
Proof.
  assert (F: forallb (fun t => Bool.eqb (mem String.eqb t DEFAULT_OPTIONS) (negb (String.eqb t "duplication"))) ALL_OPTIONS = true)
    by (vm_compute; reflexivity).
  intros t Ht. rewrite forallb_forall in F. specialize (F t Ht). apply Bool.eqb_prop in F.
  rewrite <- mem_In, F. destruct (String.eqb_spec t "duplication"); simpl; split; congruence.
Qed.

Theorem enable_default_plus_proof : forall vs en, verify_enable vs = Some en -> In "default" vs -> ~ In "all" vs ->
  forall t, In t ALL_OPTIONS -> (In t en <-> In t vs \/ In t DEFAULT_OPTIONS).
Proof.
  intros vs en H Hd Ha t Ht. rewrite (enable_spec_proof vs en H t Ht). unfold documented. tauto.
Qed.

Theorem enable_names_proof : forall vs en, verify_enable vs = Some en -> ~ In "default" vs -> ~ In "all" vs ->
  en = vs.
Proof.
  intros vs en H Hd Ha. unfold verify_enable in H.
  destruct (Nat.ltb 1 (List.length vs) && mem String.eqb "none" vs); [discriminate|].
  apply mem_false_In in Hd, Ha. rewrite Ha, Hd in H. congruence.
Qed.

(* the option-less invocation *)
Theorem absent_enable_is_default_proof : enable_default = DEFAULT_OPTIONS.
Proof. reflexivity. Qed.

(* wiring between the parsed option list and optimize's keyword parameters *)
Definition flags_of (en: list string) : list (string * bool) :=
  map (fun kn => (fst kn, mem String.eqb (snd kn) en)) wiring.

Theorem wiring_identity_proof :
  map fst wiring = optimize_trait_params /\ (forall kw nm, In (kw, nm) wiring -> kw = nm /\ In nm ALL_OPTIONS).
Proof.
  split; [reflexivity|].
  intros kw nm H. unfold wiring in H. simpl in H.
  repeat (destruct H as [E|H]; [injection E as <- <-; split; [reflexivity | apply mem_In; vm_compute; reflexivity]|]).
  contradiction.
Qed.

Theorem nine_traits_proof :
  NoDup ALL_OPTIONS /\ List.length ALL_OPTIONS = 9 /\ Permutation ALL_OPTIONS optimize_trait_params.
Proof.
  split; [|split; [reflexivity|]].
  - unfold ALL_OPTIONS. repeat (constructor; [intro H; apply mem_In in H; vm_compute in H; discriminate|]). constructor.
  - unfold optimize_trait_params.
    apply NoDup_Permutation_bis.
    + unfold ALL_OPTIONS. repeat (constructor; [intro H; apply mem_In in H; vm_compute in H; discriminate|]). constructor.
    + simpl. lia.
    + assert (F: forallb (fun x => mem String.eqb x optimize_trait_params) ALL_OPTIONS = true) by (vm_compute; reflexivity).
      rewrite forallb_forall in F. intros x H. apply mem_In. exact (F x H).
Qed.

(* each flag passed to optimize is membership of the trait of the same name *)
Theorem flags_spec_proof : forall en kw b, In (kw, b) (flags_of en) -> b = mem String.eqb kw en.
Proof.
  intros en kw b H. unfold flags_of in H. apply in_map_iff in H. destruct H as [[k n] [E Hin]].
  simpl in E. injection E as <- <-. destruct (proj2 wiring_identity_proof _ _ Hin) as [-> _]. reflexivity.
Qed.

Theorem api_defaults_are_cli_defaults_proof :
  forall t d, In (t, d) optimize_trait_defaults -> d = mem String.eqb t DEFAULT_OPTIONS.
Proof.
  intros t d H. unfold optimize_trait_defaults in H. simpl in H.
  repeat (destruct H as [E|H]; [injection E as <- <-; vm_compute; reflexivity|]). contradiction.
Qed.

Theorem main_io_shape_proof :
  main_input_auto_detect = true /\ main_output_auto_detect = true /\ main_prints_each_statement = true /\
  main_reads_stdin = true /\ main_logs_to_stderr = true /\ main_no_other_output = true /\
  input_predicates_default = "auto" /\ output_predicates_default = "auto".
Proof. repeat split; reflexivity. Qed.

Theorem choices_proof : enable_choices = "all" :: "none" :: "default" :: ALL_OPTIONS.
Proof. reflexivity. Qed.

(* non-vacuity: a concrete accepted list with default + a name *)
Example enable_example :
  verify_enable ["default"; "duplication"] =
  Some ["cleanup"; "duplication"; "inline"; "math"; "minmax_chains"; "projection"; "sum_chains"; "symmetry"; "unused"].
Proof. vm_compute. reflexivity. Qed.

(* the pipeline of api.optimize: one guarded block per trait parameter, in the documented order, each pass
   constructed from the current program (and the declared predicates), framed by preprocess / exline_arithmetic /
   postprocess (the frame shape itself is recognised verbatim by the translator) *)
Theorem pipeline_order_proof :
  map fst pass_order = optimize_trait_params /\ pipeline_frame_ok = true /\
  map (fun x => fst (snd x)) pass_order =
    ["CleanupTranslator"; "UnusedTranslator"; "LiteralDuplicationTranslator"; "SymmetryTranslator"; "MinMaxAggregator";
     "SumAggregator"; "MathSimplification"; "InlineTranslator"; "ProjectionTranslator"].
Proof. repeat split; reflexivity. Qed.

(* every pass that needs the declared inputs/outputs receives them *)
Theorem pipeline_args_proof : forall f c args, In (f, (c, args)) pass_order ->
  (c = "CleanupTranslator" -> args = ["input_predicates"]) /\
  (c = "UnusedTranslator" \/ c = "InlineTranslator" -> args = ["input_"; "input_predicates"; "output_predicates"]) /\
  (c = "MathSimplification" -> args = ["input_"]).
Proof.
  intros f c args H. unfold pass_order in H. simpl in H.
  repeat (destruct H as [E|H]; [injection E as <- <- <-; repeat split; intros; try reflexivity; try discriminate;
    match goal with X: _ \/ _ |- _ => destruct X; discriminate | _ => idtac end|]).
  contradiction.
Qed.
