(* C17: what a Coq model can carry about purity. Python-set iteration order is the only hash-seed dependent
   ingredient of the modelled code; the results that reach optimize() use membership only. *)
From Coq Require Import List String ZArith Bool Permutation.
From NGO Require Import Syntax.Ast Model.Traverse Link.TraverseSpec.
Import ListNotations.

(* auto_detect_input returns sorted(all - derivable) ++ [p | p in all (SET ORDER), in_body p = in_head p]:
   any re-ordering of the second part (another PYTHONHASHSEED) leaves membership unchanged *)
Theorem auto_detect_input_membership_order_free_proof : forall prg tail' p,
  Permutation (snd (auto_detect_input_parts prg)) tail' ->
  (In p (auto_detect_input prg) <-> In p (fst (auto_detect_input_parts prg) ++ tail')).
Proof.
  intros prg tail' p Pm. unfold auto_detect_input. rewrite !in_app_iff. split; intros [H|H]; auto; right.
  - exact (Permutation_in _ Pm H).
  - exact (Permutation_in _ (Permutation_sym Pm) H).
Qed.

(* the first (sorted) part is the same for every iteration order of the underlying sets: it is sorted and
   duplicate free, hence determined by its members *)
Theorem auto_detect_output_canonical_proof : forall prg,
  NoDup (auto_detect_output prg) /\ psorted (auto_detect_output prg).
Proof. exact auto_detect_output_sorted_nodup_proof. Qed.
