(* Proofs about the model of the sympy glue (Model/Math.v).

   Part A  Goebner.sympy2ast
     sympy2ast_total            every tree gives Ok or Raise SympyApi/AssertionError/OverflowError
     sympy2ast_ok_iff           exactly which trees are translated to a term (boolean [okb])
     sympy2ast_ok_subexpr       a translated tree has only translated subtrees; corollaries:
     sympy2ast_rejects_rationals, sympy2ast_rejects_mod_floor_other, sympy2ast_rejects_big_int
     sympy2ast_sound            the term evaluates (Sem/Sym.v eval) to v iff the exact rational value of the
                                tree is the integer v  (assumption [pos_ok]: the exponents sympy claims to be
                                positive are positive; automatic for literal exponents, [lit_pows_pos_ok])
     sympy2ast_vars             variables of the term = variables of the symbols of the tree, in order
   Part B  Goebner._to_sympy_term
     to_sympy_term_sound        eval s t = v  ->  value of the sympy tree = v, PROVIDED every `/` and `\` has a
                                non-negative dividend and a positive divisor [divs_nonneg] and every `**` a
                                non-negative exponent [pows_nonneg]
     div_negative_refuted, mod_negative_refuted, mod_negdivisor_refuted, pow_negative_refuted
                                the provisos are necessary
     converse_refuted           sympy's value can be an integer where clingo's term is undefined
     to_sympy_term_registers    symbols of the tree are registered in _fo_vars/_constants, except `c()`
     fun0_not_registered        ... and the witness for the exception *)
From Coq Require Import List String ZArith Bool QArith Qround Qabs Qpower Lia.
From NGO Require Import Syntax.Ast Sem.Sym Sem.Sat Model.Math.
Import ListNotations.
Close Scope Q_scope.
Open Scope string_scope. Open Scope list_scope.

(* ------------------------------------------------------------------------------------------ *)
(* induction over sexpr, unfolding lemmas                                                       *)
(* ------------------------------------------------------------------------------------------ *)
Section Ind.
  Variable P : sexpr -> Prop.
  Hypothesis HI : forall z, P (SInt z).
  Hypothesis HR : forall p q, P (SRat p q).
  Hypothesis HS : forall k, P (SSym k).
  Hypothesis HA : forall f args, Forall P args -> P (SApp f args).
  Fixpoint sexpr_ind2 (e: sexpr) : P e :=
    match e with
    | SInt z => HI z
    | SRat p q => HR p q
    | SSym k => HS k
    | SApp f args =>
        HA f args ((fix go (l: list sexpr) : Forall P l :=
                      match l with
                      | [] => Forall_nil _
                      | x :: r => Forall_cons _ (sexpr_ind2 x) (go r)
                      end) args)
    end.
End Ind.

Lemma sympy2ast_app g f args :
  sympy2ast g (SApp f args) = rbind (sympy2ast_list g args) (fun asts => dispatch f (List.length args) asts).
Proof.
  simpl. f_equal. induction args as [|x r IH]; simpl; [reflexivity|]. rewrite IH. reflexivity.
Qed.

Lemma seval_app sg f args :
  seval sg (SApp f args) = match seval_list sg args with Some vs => apply_func f vs | None => None end.
Proof.
  simpl.
  assert (E: (fix go (l: list sexpr) : option (list Q) :=
               match l with
               | [] => Some []
               | x :: r => match seval sg x, go r with Some a, Some b => Some (a :: b) | _, _ => None end
               end) args = seval_list sg args).
  { induction args as [|x r IH]; simpl; [reflexivity|]. rewrite IH. reflexivity. }
  rewrite E. reflexivity.
Qed.

Inductive subexpr : sexpr -> sexpr -> Prop :=
| sub_refl e : subexpr e e
| sub_arg e f args a : In a args -> subexpr e a -> subexpr e (SApp f args).

Lemma subexpr_trans a b c : subexpr a b -> subexpr b c -> subexpr a c.
Proof.
  intros Hab Hbc. induction Hbc; [assumption|]. eapply sub_arg; eauto.
Qed.

(* ------------------------------------------------------------------------------------------ *)
(* A.2 totality                                                                                 *)
(* ------------------------------------------------------------------------------------------ *)
Definition good_kind (k: string) := k = "SympyApi" \/ k = "AssertionError" \/ k = "OverflowError".
Definition good {A} (r: result A) : Prop :=
  match r with Ok _ => True | Raise k => good_kind k | OutOfFragment => False | OutOfFuel => False end.

Lemma good_rbind {A B} (r: result A) (f: A -> result B) :
  good r -> (forall a, r = Ok a -> good (f a)) -> good (rbind r f).
Proof. destruct r; simpl; intros H K; auto. Qed.

Lemma split_len asts :
  (List.length (fst (split_asts asts)) + List.length (snd (split_asts asts)) = List.length asts)%nat.
Proof.
  induction asts as [|a r IH]; simpl; [reflexivity|].
  destruct a; destruct (split_asts r) as [ts ags]; simpl in *; lia.
Qed.

Lemma sum_more_good i l : good (sum_more i l).
Proof.
  revert i. induction l as [|[f es] r IH]; intros i; simpl; [exact Logic.I|].
  destruct (minmax f); [left; reflexivity|].
  apply good_rbind; [apply IH|]. intros; exact Logic.I.
Qed.

Lemma new_sum_good asts : good (new_sum asts).
Proof.
  unfold new_sum. destruct (Nat.ltb (List.length asts) 2) eqn:L; [right; left; reflexivity|].
  apply Nat.ltb_ge in L. pose proof (split_len asts) as S.
  destruct (split_asts asts) as [rest aggs]; simpl in S.
  destruct aggs as [|[f0 es0] more].
  - simpl in S. destruct rest as [|t r]; [simpl in S; lia|]. simpl. exact Logic.I.
  - destruct (minmax f0); [left; reflexivity|].
    apply good_rbind; [apply sum_more_good|]. intros; exact Logic.I.
Qed.

Lemma new_mul_good asts : good (new_mul asts).
Proof.
  unfold new_mul. destruct (Nat.ltb (List.length asts) 2) eqn:L; [right; left; reflexivity|].
  apply Nat.ltb_ge in L. pose proof (split_len asts) as S.
  destruct (split_asts asts) as [rest aggs]; simpl in S.
  destruct aggs as [|[f es] more].
  - simpl in S. destruct rest as [|t r]; [simpl in S; lia|]. simpl. exact Logic.I.
  - destruct more as [|x y]; [|left; reflexivity].
    destruct (minmax f); [left; reflexivity|].
    simpl in S. destruct rest as [|t r]; [simpl in S; lia|]. simpl. exact Logic.I.
Qed.

Lemma new_pow_good asts : good (new_pow asts).
Proof.
  unfold new_pow. destruct asts as [|a [|b [|c r]]]; try (left; reflexivity).
  destruct a, b; simpl; try exact Logic.I; left; reflexivity.
Qed.

Lemma new_abs_good asts : good (new_abs asts).
Proof.
  unfold new_abs. destruct asts as [|a [|b r]]; try (left; reflexivity).
  destruct a; simpl; try exact Logic.I; left; reflexivity.
Qed.

Lemma dispatch_good f n asts : good (dispatch f n asts).
Proof.
  destruct f; simpl; try (left; reflexivity).
  - apply new_sum_good.
  - apply new_mul_good.
  - destruct (Nat.eqb n 2 && exp_positive); [apply new_pow_good|left; reflexivity].
  - apply new_abs_good.
Qed.

Lemma lookup_good g k : good (lookup_sym g k).
Proof.
  unfold lookup_sym. destruct (assoc k (fo_vars g)); [exact Logic.I|].
  destruct (assoc k (sym2agg g)) as [[f es]|]; [exact Logic.I|].
  destruct (assoc k (constants g)); [exact Logic.I|]. right; left; reflexivity.
Qed.

(* Well-formedness is not needed: the model is total on ALL trees and never answers OutOfFuel/OutOfFragment;
   the only exceptions are the three kinds the Python can raise. *)
Theorem sympy2ast_total g e : good (sympy2ast g e).
Proof.
  induction e as [z|p q|k|f args IH] using sexpr_ind2.
  - simpl. destruct (int32 z); [exact Logic.I|]. right; right; reflexivity.
  - left; reflexivity.
  - apply lookup_good.
  - rewrite sympy2ast_app. apply good_rbind; [|intros; apply dispatch_good].
    induction IH as [|x r Hx Hr IHr]; simpl; [exact Logic.I|].
    apply good_rbind; [assumption|]. intros a _. apply good_rbind; [assumption|]. intros; exact Logic.I.
Qed.

(* ------------------------------------------------------------------------------------------ *)
(* inversion of the SApp case when the result is a term                                         *)
(* ------------------------------------------------------------------------------------------ *)
Lemma split_map_terms ts : split_asts (map RTerm ts) = (ts, []).
Proof. induction ts as [|t r IH]; simpl; [reflexivity|]. rewrite IH. reflexivity. Qed.

Lemma split_nil asts : snd (split_asts asts) = [] -> asts = map RTerm (fst (split_asts asts)).
Proof.
  induction asts as [|a r IH]; simpl; [reflexivity|].
  destruct a; destruct (split_asts r) as [ts ags]; simpl in *; intros H.
  - rewrite (IH H). reflexivity.
  - discriminate.
Qed.

Lemma list_ok_forall2 g args asts :
  sympy2ast_list g args = Ok asts -> Forall2 (fun a r => sympy2ast g a = Ok r) args asts.
Proof.
  revert asts. induction args as [|x r IH]; simpl; intros asts H.
  - inversion H. constructor.
  - destruct (sympy2ast g x) as [a| | |] eqn:E; simpl in H; try discriminate.
    destruct (sympy2ast_list g r) as [b| | |] eqn:E2; simpl in H; try discriminate.
    inversion H; subst. constructor; auto.
Qed.

Lemma forall2_list_ok g args asts :
  Forall2 (fun a r => sympy2ast g a = Ok r) args asts -> sympy2ast_list g args = Ok asts.
Proof.
  induction 1 as [|x a r rs Hx Hr IH]; simpl; [reflexivity|]. rewrite Hx. simpl. rewrite IH. reflexivity.
Qed.

Lemma forall2_map_terms g args ts :
  Forall2 (fun a r => sympy2ast g a = Ok r) args (map RTerm ts) ->
  Forall2 (fun a u => sympy2ast g a = Ok (RTerm u)) args ts.
Proof.
  revert args. induction ts as [|t r IH]; intros args H; inversion H; subst; constructor; auto.
Qed.

Lemma forall2_len {A B} (R: A -> B -> Prop) l l' : Forall2 R l l' -> List.length l = List.length l'.
Proof. induction 1; simpl; congruence. Qed.
Lemma forall2_in_l {A B} (R: A -> B -> Prop) l l' a :
  Forall2 R l l' -> In a l -> exists b, In b l' /\ R a b.
Proof.
  induction 1 as [|x y r r' Hxy Hr IH]; intros Ha; [destruct Ha|].
  destruct Ha as [<-|Ha]; [exists y; split; [left; reflexivity|assumption]|].
  destruct (IH Ha) as [b [Hb Rb]]. exists b. split; [right; assumption|assumption].
Qed.

Definition shape (f: sfunc) (ts: list term) (t: term) : Prop :=
  match f with
  | FAdd => exists t0 r, ts = t0 :: r /\ r <> [] /\ t = fold_left (fun acc x => TBin BPlus acc x) r t0
  | FMul => exists t0 r, ts = t0 :: r /\ r <> [] /\ t = fold_left (fun acc x => TBin BMul acc x) r t0
  | FPow pos => pos = true /\ exists x y, ts = [x; y] /\ t = TBin BPow x y
  | FAbs => exists x, ts = [x] /\ t = TUn UAbs x
  | _ => False
  end.

Lemma app_inv g f args t :
  sympy2ast g (SApp f args) = Ok (RTerm t) ->
  exists ts, Forall2 (fun a u => sympy2ast g a = Ok (RTerm u)) args ts /\ shape f ts t.
Proof.
  rewrite sympy2ast_app. destruct (sympy2ast_list g args) as [asts| | |] eqn:EL; simpl; try discriminate.
  intros D. apply list_ok_forall2 in EL.
  assert (Hlen: List.length args = List.length asts) by (eapply forall2_len; eauto).
  destruct f; simpl in D; try discriminate.
  - (* FAdd *)
    unfold new_sum in D. destruct (Nat.ltb (List.length asts) 2) eqn:L; [discriminate|].
    apply Nat.ltb_ge in L. pose proof (split_nil asts) as SN. pose proof (split_len asts) as SL.
    destruct (split_asts asts) as [rest aggs]; simpl in *.
    destruct aggs as [|[f0 es0] more].
    + specialize (SN eq_refl). subst asts. exists rest. split; [apply forall2_map_terms; assumption|].
      destruct rest as [|t0 r]; [simpl in *; lia|]. simpl in D. inversion D; subst.
      exists t0, r. repeat split. destruct r; [simpl in *; lia|discriminate].
    + destruct (minmax f0); [discriminate|]. destruct (sum_more 1 more); simpl in D; discriminate.
  - (* FMul *)
    unfold new_mul in D. destruct (Nat.ltb (List.length asts) 2) eqn:L; [discriminate|].
    apply Nat.ltb_ge in L. pose proof (split_nil asts) as SN. pose proof (split_len asts) as SL.
    destruct (split_asts asts) as [rest aggs]; simpl in *.
    destruct aggs as [|[f0 es0] more].
    + specialize (SN eq_refl). subst asts. exists rest. split; [apply forall2_map_terms; assumption|].
      destruct rest as [|t0 r]; [simpl in *; lia|]. simpl in D. inversion D; subst.
      exists t0, r. repeat split. destruct r; [simpl in *; lia|discriminate].
    + destruct more; [|discriminate]. destruct (minmax f0); [discriminate|].
      destruct (fold_bin BMul rest); simpl in D; discriminate.
  - (* FPow *)
    destruct (Nat.eqb (List.length args) 2 && exp_positive) eqn:C; [|discriminate].
    apply andb_true_iff in C. destruct C as [_ C]. subst exp_positive.
    unfold new_pow in D. destruct asts as [|a [|b [|c r]]]; try discriminate.
    destruct a as [x|]; [|discriminate]. destruct b as [y|]; [|discriminate]. inversion D; subst.
    exists [x; y]. split.
    + inversion EL as [|? ? ? ? H1 H2]; subst. inversion H2 as [|? ? ? ? H3 H4]; subst. inversion H4; subst.
      repeat constructor; assumption.
    + split; [reflexivity|]. exists x, y. split; reflexivity.
  - (* FAbs *)
    unfold new_abs in D. destruct asts as [|a [|b r]]; try discriminate.
    destruct a as [x|]; [|discriminate]. inversion D; subst.
    exists [x]. split.
    + inversion EL as [|? ? ? ? H1 H2]; subst. inversion H2; subst. repeat constructor; assumption.
    + exists x. split; reflexivity.
Qed.

(* ------------------------------------------------------------------------------------------ *)
(* A. exactly when is a tree translated to a term                                               *)
(* ------------------------------------------------------------------------------------------ *)
Definition is_term_result (r: result sast) : bool := match r with Ok (RTerm _) => true | _ => false end.

Definition arity_ok (f: sfunc) (n: nat) : bool :=
  match f with
  | FAdd | FMul => Nat.leb 2 n
  | FPow pos => andb pos (Nat.eqb n 2)
  | FAbs => Nat.eqb n 1
  | FMod | FFloor | FOther _ => false
  end.

Fixpoint okb (g: genv) (e: sexpr) : bool :=
  match e with
  | SInt z => int32 z
  | SRat _ _ => false
  | SSym k => is_term_result (lookup_sym g k)          (* bound to a variable or constant, not to an aggregate *)
  | SApp f args => andb (forallb (okb g) args) (arity_ok f (List.length args))
  end.


Theorem sympy2ast_ok_iff g e : (exists t, sympy2ast g e = Ok (RTerm t)) <-> okb g e = true.
Proof.
  induction e as [z|p q|k|f args IH] using sexpr_ind2.
  - simpl. destruct (int32 z); split; intros H; try reflexivity; try discriminate.
    + eexists; reflexivity.
    + destruct H; discriminate.
  - simpl. split; [intros [t H]; discriminate|discriminate].
  - simpl. destruct (lookup_sym g k) as [[t|f es]| | |]; simpl; split; intros H; try discriminate;
      try (destruct H; discriminate); try reflexivity. eexists; reflexivity.
  - split.
    + intros [t H]. apply app_inv in H. destruct H as [ts [F S]].
      simpl. apply andb_true_iff. split.
      * apply forallb_forall. intros a Ha. rewrite Forall_forall in IH. apply (IH a Ha).
        destruct (forall2_in_l _ _ _ _ F Ha) as [u [_ Hu]]. exists u; exact Hu.
      * pose proof (forall2_len _ _ _ F) as L. unfold arity_ok. destruct f; simpl in S; try contradiction.
        -- destruct S as [t0 [r [-> [Hr _]]]]. rewrite L. destruct r; [contradiction|reflexivity].
        -- destruct S as [t0 [r [-> [Hr _]]]]. rewrite L. destruct r; [contradiction|reflexivity].
        -- destruct S as [-> [x [y [-> _]]]]. rewrite L. reflexivity.
        -- destruct S as [x [-> _]]. rewrite L. reflexivity.
    + intros H. simpl in H. apply andb_true_iff in H. destruct H as [HA HF].
      assert (exists ts, Forall2 (fun a u => sympy2ast g a = Ok (RTerm u)) args ts) as [ts F].
      { clear HF. induction IH as [|x r Hx Hr IHr]; [exists []; constructor|].
        simpl in HA. apply andb_true_iff in HA. destruct HA as [H1 H2].
        destruct (proj2 Hx H1) as [u Hu]. destruct (IHr H2) as [us Hus]. exists (u :: us). constructor; assumption. }
      assert (EL: sympy2ast_list g args = Ok (map RTerm ts)).
      { apply forall2_list_ok. clear -F. induction F; simpl; constructor; auto. }
      pose proof (forall2_len _ _ _ F) as L.
      rewrite sympy2ast_app, EL. simpl.
      unfold arity_ok in HF. destruct f; try discriminate; simpl.
      * unfold new_sum. rewrite map_length, <- L, split_map_terms.
        apply Nat.leb_le in HF. destruct (Nat.ltb (List.length args) 2) eqn:C; [apply Nat.ltb_lt in C; lia|].
        destruct ts as [|t0 r]; [simpl in L; lia|]. simpl. eexists; reflexivity.
      * unfold new_mul. rewrite map_length, <- L, split_map_terms.
        apply Nat.leb_le in HF. destruct (Nat.ltb (List.length args) 2) eqn:C; [apply Nat.ltb_lt in C; lia|].
        destruct ts as [|t0 r]; [simpl in L; lia|]. simpl. eexists; reflexivity.
      * apply andb_true_iff in HF. destruct HF as [-> HF]. rewrite HF. simpl.
        apply Nat.eqb_eq in HF. rewrite L in HF.
        destruct ts as [|x [|y [|? ?]]]; simpl in HF; try lia. simpl. eexists; reflexivity.
      * apply Nat.eqb_eq in HF. rewrite L in HF.
        destruct ts as [|x [|? ?]]; simpl in HF; try lia. simpl. eexists; reflexivity.
Qed.

(* a translated tree has only translated subtrees *)
Lemma list_ok_in g args asts a :
  sympy2ast_list g args = Ok asts -> In a args -> exists r, sympy2ast g a = Ok r.
Proof.
  intros H Ha. apply list_ok_forall2 in H.
  destruct (forall2_in_l _ _ _ _ H Ha) as [u [_ Hu]]. exists u; exact Hu.
Qed.

Theorem sympy2ast_ok_subexpr g e e' r :
  sympy2ast g e = Ok r -> subexpr e' e -> exists r', sympy2ast g e' = Ok r'.
Proof.
  intros H S. revert r H. induction S as [e|e' f args a Ha S IH]; intros r H.
  - exists r; exact H.
  - rewrite sympy2ast_app in H. destruct (sympy2ast_list g args) as [asts| | |] eqn:EL; simpl in H; try discriminate.
    destruct (list_ok_in _ _ _ _ EL Ha) as [ra Hra]. eapply IH; eauto.
Qed.

(* A.1 corollary: a Rational (anything that is not an Integer: 1/2, 3/2, ...) ANYWHERE in the tree means
   the tree is not translated; by sympy2ast_total the call raises. *)
Corollary sympy2ast_rejects_rationals g e p q :
  subexpr (SRat p q) e -> forall r, sympy2ast g e <> Ok r.
Proof.
  intros S r H. destruct (sympy2ast_ok_subexpr _ _ _ _ H S) as [r' Hr']. discriminate.
Qed.

Corollary sympy2ast_rejects_mod_floor_other g e f args :
  subexpr (SApp f args) e -> match f with FMod | FFloor | FOther _ => True | _ => False end ->
  forall r, sympy2ast g e <> Ok r.
Proof.
  intros S Hf r H. destruct (sympy2ast_ok_subexpr _ _ _ _ H S) as [r' Hr'].
  rewrite sympy2ast_app in Hr'. destruct (sympy2ast_list g args); simpl in Hr'; try discriminate.
  destruct f; simpl in Hr'; try discriminate; contradiction.
Qed.

Corollary sympy2ast_rejects_big_int g e z :
  subexpr (SInt z) e -> int32 z = false -> forall r, sympy2ast g e <> Ok r.
Proof.
  intros S Hz r H. destruct (sympy2ast_ok_subexpr _ _ _ _ H S) as [r' Hr'].
  simpl in Hr'. rewrite Hz in Hr'. discriminate.
Qed.

(* negative / zero / symbolic exponents: only exponents sympy knows to be positive are translated *)
Corollary sympy2ast_rejects_nonpositive_pow g e args :
  subexpr (SApp (FPow false) args) e -> forall r, sympy2ast g e <> Ok r.
Proof.
  intros S r H. destruct (sympy2ast_ok_subexpr _ _ _ _ H S) as [r' Hr'].
  rewrite sympy2ast_app in Hr'. destruct (sympy2ast_list g args); simpl in Hr'; try discriminate.
  rewrite andb_false_r in Hr'. discriminate.
Qed.

(* ------------------------------------------------------------------------------------------ *)
(* A.1 soundness                                                                                *)
(* ------------------------------------------------------------------------------------------ *)
Definition is_int (q: Q) (z: Z) : Prop := (q == inject_Z z)%Q.

(* the substitution of the ASP variables and the integer assignment of the sympy symbols agree through the
   environment: what a symbol is bound to evaluates to the symbol's value.  (For a canonical environment
   X |-> Variable X this is  s "X" = SNum (sg X).)  A symbol bound to a symbolic constant `c` can never satisfy it:
   such constants are not integers for clingo unless a #const replaces them before grounding. *)
Definition env_agrees (g: genv) (s: subst) (sg: skey -> Z) : Prop :=
  forall k u, lookup_sym g k = Ok (RTerm u) -> eval s u = Some (SNum (sg k)).

(* sympy's is_positive answers that the model takes as given (the FPow flag) are right under sg *)
Definition pos_ok (sg: skey -> Z) (e: sexpr) : Prop :=
  forall b x, subexpr (SApp (FPow true) [b; x]) e -> exists q, seval sg x = Some q /\ (0 < q)%Q.

Lemma pos_ok_sub sg e e' : pos_ok sg e -> subexpr e' e -> pos_ok sg e'.
Proof. intros H S b x S'. apply (H b x). eapply subexpr_trans; eauto. Qed.

Lemma fold_plus_int qs zs : Forall2 is_int qs zs -> forall acc a, is_int acc a ->
  is_int (fold_left Qplus qs acc) (fold_left Z.add zs a).
Proof.
  induction 1 as [|q z qr zr Hq Hr IH]; intros acc a Ha; simpl; [assumption|].
  apply IH. unfold is_int in *. rewrite inject_Z_plus, Ha, Hq. reflexivity.
Qed.
Lemma fold_mult_int qs zs : Forall2 is_int qs zs -> forall acc a, is_int acc a ->
  is_int (fold_left Qmult qs acc) (fold_left Z.mul zs a).
Proof.
  induction 1 as [|q z qr zr Hq Hr IH]; intros acc a Ha; simpl; [assumption|].
  apply IH. unfold is_int in *. rewrite inject_Z_mult, Ha, Hq. reflexivity.
Qed.

Definition evals (s: subst) (t: term) (z: Z) : Prop := eval s t = Some (SNum z).

Lemma eval_fold_plus s ts zs : Forall2 (evals s) ts zs -> forall t0 z0, evals s t0 z0 ->
  evals s (fold_left (fun acc x => TBin BPlus acc x) ts t0) (fold_left Z.add zs z0).
Proof.
  induction 1 as [|t z tr zr Ht Hr IH]; intros t0 z0 H0; simpl; [assumption|].
  apply IH. unfold evals in *. simpl. rewrite H0, Ht. reflexivity.
Qed.
Lemma eval_fold_mult s ts zs : Forall2 (evals s) ts zs -> forall t0 z0, evals s t0 z0 ->
  evals s (fold_left (fun acc x => TBin BMul acc x) ts t0) (fold_left Z.mul zs z0).
Proof.
  induction 1 as [|t z tr zr Ht Hr IH]; intros t0 z0 H0; simpl; [assumption|].
  apply IH. unfold evals in *. simpl. rewrite H0, Ht. reflexivity.
Qed.

Lemma qpow_int b x zb n : is_int b zb -> is_int x n -> (0 <= n)%Z ->
  exists q, qpow b x = Some q /\ is_int q (zb ^ n).
Proof.
  unfold is_int. intros Hb Hx Hn. unfold qpow.
  assert (F: Qfloor x = n) by (rewrite Hx; apply Qfloor_Z). rewrite F.
  assert (E: Qeq_bool x (inject_Z n) = true) by (apply Qeq_bool_iff; exact Hx). rewrite E. simpl.
  assert (L: Z.leb 0 n = true) by (apply Z.leb_le; exact Hn). rewrite L.
  eexists. split; [reflexivity|]. rewrite Hb. symmetry. apply Zpower_Qpower. exact Hn.
Qed.

Lemma qabs_int q z : is_int q z -> is_int (Qabs q) (Z.abs z).
Proof. unfold is_int. intros H. rewrite H. reflexivity. Qed.

Lemma is_int_inj q a b : is_int q a -> is_int q b -> a = b.
Proof.
  unfold is_int. intros Ha Hb. rewrite Ha in Hb. unfold Qeq in Hb. simpl in Hb. lia.
Qed.

Section Sound.
Variables (g: genv) (s: subst) (sg: skey -> Z).
Hypothesis AG : env_agrees g s sg.

Definition sound_at (e: sexpr) : Prop :=
  forall t, sympy2ast g e = Ok (RTerm t) -> pos_ok sg e ->
    exists z, evals s t z /\ exists q, seval sg e = Some q /\ is_int q z.

Lemma args_sound args ts :
  Forall sound_at args -> Forall2 (fun a u => sympy2ast g a = Ok (RTerm u)) args ts ->
  (forall a, In a args -> pos_ok sg a) ->
  exists zs qs, Forall2 (evals s) ts zs /\ seval_list sg args = Some qs /\ Forall2 is_int qs zs.
Proof.
  intros IH F. induction F as [|a u ar ur Hau Hr IHr]; intros HP.
  - exists [], []. repeat split; constructor.
  - inversion IH as [|? ? Ha Har]; subst.
    destruct (Ha u Hau (HP a (or_introl eq_refl))) as [z [Hz [q [Hq Hqz]]]].
    destruct (IHr Har (fun a' H' => HP a' (or_intror H'))) as [zs [qs [H1 [H2 H3]]]].
    exists (z :: zs), (q :: qs). simpl. rewrite Hq, H2. repeat split; constructor; assumption.
Qed.

Lemma sound_core e : sound_at e.
Proof.
  induction e as [z|p q|k|f args IH] using sexpr_ind2; intros t H HP.
  - simpl in H. destruct (int32 z); [|discriminate]. inversion H; subst.
    exists z. split; [reflexivity|]. exists (inject_Z z). split; [reflexivity|]. unfold is_int. reflexivity.
  - discriminate.
  - simpl in H. exists (sg k). split; [apply AG; exact H|].
    exists (inject_Z (sg k)). split; [reflexivity|]. unfold is_int. reflexivity.
  - destruct (app_inv _ _ _ _ H) as [ts [F S]].
    assert (HPa: forall a, In a args -> pos_ok sg a).
    { intros a Ha. eapply pos_ok_sub; [exact HP|]. eapply sub_arg; [exact Ha|apply sub_refl]. }
    destruct (args_sound _ _ IH F HPa) as [zs [qs [E1 [E2 E3]]]].
    rewrite seval_app, E2.
    destruct f; simpl in S; try contradiction.
    + destruct S as [t0 [r [-> [_ ->]]]].
      inversion E1 as [|? z0 ? zr Hz0 Hzr]; subst. inversion E3 as [|q0 ? qr ? Hq0 Hqr]; subst.
      exists (fold_left Z.add zr z0). split; [apply eval_fold_plus; assumption|].
      simpl. eexists. split; [reflexivity|]. apply fold_plus_int; [assumption|].
      unfold is_int in *. rewrite Hq0. apply Qplus_0_l.
    + destruct S as [t0 [r [-> [_ ->]]]].
      inversion E1 as [|? z0 ? zr Hz0 Hzr]; subst. inversion E3 as [|q0 ? qr ? Hq0 Hqr]; subst.
      exists (fold_left Z.mul zr z0). split; [apply eval_fold_mult; assumption|].
      simpl. eexists. split; [reflexivity|]. apply fold_mult_int; [assumption|].
      unfold is_int in *. rewrite Hq0. apply Qmult_1_l.
    + destruct S as [-> [x [y [-> ->]]]].
      inversion F as [|b ? ar ? _ F2]; subst. inversion F2 as [|ex ? ar' ? _ F3]; subst. inversion F3; subst.
      inversion E1 as [|? zb ? zr Hzb Hzr]; subst. inversion Hzr as [|? ze ? zr' Hze Hnil]; subst. inversion Hnil; subst.
      inversion E3 as [|qb ? qr ? Hqb Hqr]; subst. inversion Hqr as [|qe ? qr' ? Hqe Hnil']; subst. inversion Hnil'; subst.
      destruct (HP b ex (sub_refl _)) as [q' [Hq' Hpos]].
      simpl in E2. destruct (seval sg b); [|discriminate]. rewrite Hq' in E2. inversion E2; subst.
      assert (Hze0: (0 < ze)%Z).
      { unfold is_int in Hqe. rewrite Hqe in Hpos. rewrite Zlt_Qlt. exact Hpos. }
      destruct (qpow_int _ _ _ _ Hqb Hqe (Z.lt_le_incl _ _ Hze0)) as [q [Hq Hqz]].
      exists (zb ^ ze)%Z. split.
      * unfold evals in *. simpl. rewrite Hzb, Hze. simpl.
        destruct (Z.ltb ze 0) eqn:C; [apply Z.ltb_lt in C; lia|reflexivity].
      * exists q. split; assumption.
    + destruct S as [x [-> ->]].
      inversion E1 as [|? z ? zr Hz Hzr]; subst. inversion Hzr; subst.
      inversion E3 as [|q ? qr ? Hq Hqr]; subst. inversion Hqr; subst.
      exists (Z.abs z). split.
      * unfold evals in *. simpl. rewrite Hz. reflexivity.
      * simpl. eexists. split; [reflexivity|]. apply qabs_int. assumption.
Qed.

(* THE statement.  Values are exact rationals (seval: option Q, None = not a finite rational: division by zero,
   irrational power, unknown function).  Because every tree that is translated at all is built from integers,
   symbols, Add, Mul, Abs and Pow with positive exponent, both sides are in fact always defined. *)
Theorem sympy2ast_sound e t v :
  sympy2ast g e = Ok (RTerm t) -> pos_ok sg e ->
  (eval s t = Some (SNum v) <-> exists q, seval sg e = Some q /\ (q == inject_Z v)%Q).
Proof.
  intros H HP. destruct (sound_core e t H HP) as [z [Hz [q [Hq Hqz]]]]. split.
  - intros Hv. unfold evals in Hz. rewrite Hz in Hv. inversion Hv; subst. exists q. split; assumption.
  - intros [q' [Hq' Hv]]. rewrite Hq in Hq'. inversion Hq'; subst.
    rewrite (is_int_inj _ _ _ Hv Hqz). exact Hz.
Qed.

Corollary sympy2ast_defined e t :
  sympy2ast g e = Ok (RTerm t) -> pos_ok sg e -> exists v, eval s t = Some (SNum v).
Proof. intros H HP. destruct (sound_core e t H HP) as [z [Hz _]]. exists z. exact Hz. Qed.
End Sound.

(* literal exponents: nothing has to be trusted *)
Fixpoint lit_pows (e: sexpr) : bool :=
  match e with
  | SApp f args =>
      andb (forallb lit_pows args)
        match f, args with
        | FPow true, [_; SInt n] => Z.ltb 0 n
        | FPow true, _ => false
        | _, _ => true
        end
  | _ => true
  end.

Lemma lit_pows_sub e e' : subexpr e' e -> lit_pows e = true -> lit_pows e' = true.
Proof.
  induction 1 as [e|e' f args a Ha S IH]; intros H; [assumption|].
  apply IH. simpl in H. apply andb_true_iff in H. destruct H as [H _].
  rewrite forallb_forall in H. apply H. exact Ha.
Qed.

Theorem lit_pows_pos_ok e : lit_pows e = true -> forall sg, pos_ok sg e.
Proof.
  intros H sg b x S. pose proof (lit_pows_sub _ _ S H) as H'.
  simpl in H'. apply andb_true_iff in H'. destruct H' as [_ H'].
  destruct x; try discriminate. apply Z.ltb_lt in H'.
  exists (inject_Z z). split; [reflexivity|]. change 0%Q with (inject_Z 0). rewrite <- Zlt_Qlt. exact H'.
Qed.

(* ------------------------------------------------------------------------------------------ *)
(* A.3 variables                                                                                *)
(* ------------------------------------------------------------------------------------------ *)
Definition sym_vars (g: genv) (k: skey) : list string :=
  match lookup_sym g k with Ok (RTerm u) => vars_term u | _ => [] end.

Lemma vars_fold o r : forall t0,
  vars_term (fold_left (fun acc x => TBin o acc x) r t0) = vars_term t0 ++ flat_map vars_term r.
Proof.
  induction r as [|x r IH]; intros t0; simpl; [rewrite app_nil_r; reflexivity|].
  rewrite IH. simpl. rewrite app_assoc. reflexivity.
Qed.

(* the variable occurrences of the term are, in order, those of the terms bound to the symbol occurrences *)
Theorem sympy2ast_vars g e : forall t,
  sympy2ast g e = Ok (RTerm t) -> vars_term t = flat_map (sym_vars g) (symbols e).
Proof.
  induction e as [z|p q|k|f args IH] using sexpr_ind2; intros t H.
  - simpl in H. destruct (int32 z); [|discriminate]. inversion H; reflexivity.
  - discriminate.
  - simpl in H. simpl. unfold sym_vars. rewrite H. rewrite app_nil_r. reflexivity.
  - destruct (app_inv _ _ _ _ H) as [ts [F S]].
    assert (A: flat_map vars_term ts = flat_map (sym_vars g) (flat_map symbols args)).
    { clear S H. induction F as [|a u ar ur Hau Hr IHr]; [reflexivity|].
      inversion IH as [|? ? Ha Har]; subst. simpl. rewrite flat_map_app, (Ha u Hau), (IHr Har). reflexivity. }
    simpl. rewrite <- A. destruct f; simpl in S; try contradiction.
    + destruct S as [t0 [r [-> [_ ->]]]]. apply vars_fold.
    + destruct S as [t0 [r [-> [_ ->]]]]. apply vars_fold.
    + destruct S as [_ [x [y [-> ->]]]]. simpl. rewrite app_nil_r. reflexivity.
    + destruct S as [x [-> ->]]. simpl. rewrite app_nil_r. reflexivity.
Qed.

(* canonical environments (what _to_sympy_term builds): variables X |-> Variable X, constants |-> SymbolicTerm *)
Definition key_var (k: skey) : list string := match k with KSym n _ => [n] | KDummy _ _ => [] end.
Definition canonical (g: genv) : Prop :=
  (forall k u, assoc k (fo_vars g) = Some u -> exists n, k = KSym n true /\ u = TVar n) /\
  sym2agg g = [] /\
  (forall k u, assoc k (constants g) = Some u -> exists c, u = TSym c).

Corollary sympy2ast_vars_canonical g e t :
  canonical g -> sympy2ast g e = Ok (RTerm t) ->
  vars_term t = flat_map (fun k => match assoc k (fo_vars g) with Some _ => key_var k | None => [] end) (symbols e).
Proof.
  intros [C1 [C2 C3]] H. rewrite (sympy2ast_vars _ _ _ H).
  induction (symbols e) as [|k r IH]; [reflexivity|]. simpl. rewrite IH. f_equal.
  unfold sym_vars, lookup_sym. rewrite C2. simpl.
  destruct (assoc k (fo_vars g)) as [u|] eqn:E.
  - destruct (C1 _ _ E) as [n [-> ->]]. reflexivity.
  - destruct (assoc k (constants g)) as [u|] eqn:E2; [|reflexivity].
    destruct (C3 _ _ E2) as [c ->]. reflexivity.
Qed.

(* ------------------------------------------------------------------------------------------ *)
(* B. _to_sympy_term: value of the (un-normalised) sympy tree versus clingo's evaluation        *)
(* ------------------------------------------------------------------------------------------ *)
(* clingo: `/` truncates toward zero, `\` is the matching remainder (sign of the dividend);
   sympy: floor(l/r) rounds down, Mod(l, r) has the sign of the divisor.  They agree iff ... *)
Fixpoint divs_nonneg (s: subst) (t: term) : Prop :=
  match t with
  | TUn _ a => divs_nonneg s a
  | TBin o l r =>
      divs_nonneg s l /\ divs_nonneg s r /\
      match o with
      | BDiv | BMod =>
          exists a b, eval s l = Some (SNum a) /\ eval s r = Some (SNum b) /\ (0 <= a)%Z /\ (0 < b)%Z
      | _ => True
      end
  | _ => True
  end.

(* clingo: `b ** x` with a negative exponent x is 0 (b <> 0) or undefined (b = 0); sympy: the rational b^x.
   They agree iff the exponent is non-negative. *)
Fixpoint pows_nonneg (s: subst) (t: term) : Prop :=
  match t with
  | TUn _ a => pows_nonneg s a
  | TBin o l r =>
      pows_nonneg s l /\ pows_nonneg s r /\
      match o with
      | BPow => forall b, eval s r = Some (SNum b) -> (0 <= b)%Z
      | _ => True
      end
  | _ => True
  end.

Definition vars_agree (s: subst) (sg: skey -> Z) (t: term) : Prop :=
  forall x, In x (vars_term t) -> s x = SNum (sg (KSym x true)).

Lemma seval_add2 sg a b qa qb : seval sg a = Some qa -> seval sg b = Some qb ->
  exists q, seval sg (SApp FAdd [a; b]) = Some q /\ (q == qa + qb)%Q.
Proof.
  intros Ha Hb. rewrite seval_app. simpl. rewrite Ha, Hb. simpl. eexists. split; [reflexivity|]. ring.
Qed.
Lemma seval_mul2 sg a b qa qb : seval sg a = Some qa -> seval sg b = Some qb ->
  exists q, seval sg (SApp FMul [a; b]) = Some q /\ (q == qa * qb)%Q.
Proof.
  intros Ha Hb. rewrite seval_app. simpl. rewrite Ha, Hb. simpl. eexists. split; [reflexivity|]. ring.
Qed.
Lemma seval_neg sg a qa : seval sg a = Some qa ->
  exists q, seval sg (sneg a) = Some q /\ (q == - qa)%Q.
Proof.
  intros Ha. unfold sneg. destruct (seval_mul2 sg (SInt (-1)) a _ _ eq_refl Ha) as [q [Hq E]].
  exists q. split; [assumption|]. rewrite E. simpl. ring.
Qed.

Lemma is_int_nonzero q b : is_int q b -> b <> 0%Z -> Qeq_bool q 0 = false.
Proof.
  unfold is_int. intros H Hb. destruct (Qeq_bool q 0) eqn:E; [|reflexivity].
  apply Qeq_bool_iff in E. rewrite E in H. unfold Qeq in H. simpl in H. lia.
Qed.

Lemma seval_floor sg a q : seval sg a = Some q -> seval sg (SApp FFloor [a]) = Some (inject_Z (Qfloor q)).
Proof. intros H. rewrite seval_app. simpl. rewrite H. reflexivity. Qed.

Lemma seval_inv sg er qb b : seval sg er = Some qb -> is_int qb b -> b <> 0%Z ->
  seval sg (SApp (FPow false) [er; SInt (-1)]) = Some (/ qb)%Q.
Proof.
  intros H I NZ. rewrite seval_app. simpl. rewrite H. simpl. unfold qpow. simpl.
  rewrite (is_int_nonzero _ _ I NZ). reflexivity.
Qed.

Lemma seval_mod sg a b qa qb zb : seval sg a = Some qa -> seval sg b = Some qb -> is_int qb zb -> zb <> 0%Z ->
  seval sg (SApp FMod [a; b]) = Some (qa - qb * inject_Z (Qfloor (qa / qb)))%Q.
Proof.
  intros Ha Hb I NZ. rewrite seval_app. simpl. rewrite Ha, Hb. simpl. unfold qmod.
  rewrite (is_int_nonzero _ _ I NZ). reflexivity.
Qed.

Lemma seval_pow2 sg a b qa qb : seval sg a = Some qa -> seval sg b = Some qb ->
  seval sg (SApp (FPow false) [a; b]) = qpow qa qb.
Proof. intros Ha Hb. rewrite seval_app. simpl. rewrite Ha, Hb. reflexivity. Qed.

Lemma floor_div_int qa qb a b : is_int qa a -> is_int qb b -> Qfloor (qa / qb) = (a / b)%Z.
Proof.
  unfold is_int. intros Ha Hb. rewrite Ha, Hb. symmetry. apply Zdiv_Qdiv.
Qed.

Theorem to_sympy_term_sound s sg t : forall st e st' v,
  to_sympy_term t st = Ok (Some e, st') ->
  vars_agree s sg t -> divs_nonneg s t -> pows_nonneg s t ->
  eval s t = Some (SNum v) ->
  exists q, seval sg e = Some q /\ (q == inject_Z v)%Q.
Proof.
  induction t as [x|c|o a IHa|o l IHl r IHr|l IHl r IHr|n args ext|alts]; intros st e st' v H VA DN PN Hev.
  - simpl in H. inversion H; subst. simpl in Hev. inversion Hev as [Hx].
    exists (inject_Z (sg (KSym x true))). split; [reflexivity|].
    rewrite (VA x (or_introl eq_refl)) in Hx. inversion Hx. reflexivity.
  - destruct c as [|z|str|name cargs pos|]; simpl in H; try discriminate.
    inversion H; subst. simpl in Hev. inversion Hev; subst. exists (inject_Z v). split; reflexivity.
  - simpl in H. destruct (to_sympy_term a st) as [[oe st1]| | |] eqn:Ea; simpl in H; try discriminate.
    destruct oe as [ea|]; [|discriminate].
    simpl in Hev. destruct (eval s a) as [[|z|str|fn fa fp|]|] eqn:Eva; try discriminate.
    2:{ destruct o; discriminate. }
    destruct (IHa _ _ _ _ Ea VA DN PN eq_refl) as [qa [Hqa Iqa]].
    destruct o; inversion H; subst; inversion Hev; subst.
    + destruct (seval_neg _ _ _ Hqa) as [qn [Hqn En]].
      destruct (seval_add2 sg (SInt 0) (sneg ea) _ _ eq_refl Hqn) as [q [Hq E]].
      exists q. split; [assumption|]. rewrite E, En, Iqa, inject_Z_opp. simpl. ring.
    + rewrite seval_app. simpl. rewrite Hqa. simpl. eexists. split; [reflexivity|]. apply qabs_int. exact Iqa.
  - simpl in DN. destruct DN as [DNl [DNr DNo]]. simpl in PN. destruct PN as [PNl [PNr PNo]].
    assert (VAl: vars_agree s sg l) by (intros x Hx; apply VA; simpl; apply in_or_app; left; exact Hx).
    assert (VAr: vars_agree s sg r) by (intros x Hx; apply VA; simpl; apply in_or_app; right; exact Hx).
    simpl in Hev. destruct (eval s l) as [[|a|?|? ? ?|]|] eqn:Evl; try discriminate.
    destruct (eval s r) as [[|b|?|? ? ?|]|] eqn:Evr; try discriminate.
    assert (K: forall el er st1 st2, to_sympy_term l st = Ok (Some el, st1) -> to_sympy_term r st1 = Ok (Some er, st2) ->
               exists qa qb, seval sg el = Some qa /\ is_int qa a /\ seval sg er = Some qb /\ is_int qb b).
    { intros el er st1 st2 H1 H2. destruct (IHl _ _ _ _ H1 VAl DNl PNl eq_refl) as [qa [A1 A2]].
      destruct (IHr _ _ _ _ H2 VAr DNr PNr eq_refl) as [qb [B1 B2]]. exists qa, qb. repeat split; assumption. }
    simpl in H.
    destruct o; try discriminate;
      (destruct (to_sympy_term l st) as [[ol st1]| | |] eqn:El; simpl in H; try discriminate;
       destruct (to_sympy_term r st1) as [[orr st2]| | |] eqn:Er; simpl in H; try discriminate;
       destruct ol as [el|]; try discriminate; destruct orr as [er|]; try discriminate;
       destruct (K _ _ _ _ eq_refl Er) as [qa [qb [Hqa [Iqa [Hqb Iqb]]]]]; simpl in Hev).
    + (* plus *) inversion H; subst. inversion Hev; subst.
      destruct (seval_add2 _ _ _ _ _ Hqa Hqb) as [q [Hq E]]. exists q. split; [assumption|].
      unfold is_int in *. rewrite E, Iqa, Iqb, inject_Z_plus. reflexivity.
    + (* minus *) inversion H; subst. inversion Hev; subst.
      destruct (seval_neg _ _ _ Hqb) as [qn [Hqn En]].
      destruct (seval_add2 _ _ _ _ _ Hqa Hqn) as [q [Hq E]]. exists q. split; [assumption|].
      unfold is_int in *. unfold Z.sub. rewrite E, En, Iqa, Iqb, inject_Z_plus, inject_Z_opp. reflexivity.
    + (* mul *) inversion H; subst. inversion Hev; subst.
      destruct (seval_mul2 _ _ _ _ _ Hqa Hqb) as [q [Hq E]]. exists q. split; [assumption|].
      unfold is_int in *. rewrite E, Iqa, Iqb, inject_Z_mult. reflexivity.
    + (* div *) inversion H; subst.
      destruct DNo as [a' [b' [X1 [X2 [Ha Hb]]]]]. inversion X1; inversion X2; subst a' b'.
      destruct (Z.eqb b 0) eqn:Eb; [apply Z.eqb_eq in Eb; lia|]. simpl in Hev. inversion Hev; subst.
      assert (NZ: b <> 0%Z) by lia.
      pose proof (seval_inv _ _ _ _ Hqb Iqb NZ) as Hi.
      destruct (seval_mul2 _ _ _ _ _ Hqa Hi) as [q1 [Hq1 E1]].
      rewrite (seval_floor _ _ _ Hq1). eexists. split; [reflexivity|].
      rewrite Z.quot_div_nonneg by lia. rewrite <- (floor_div_int _ _ _ _ Iqa Iqb).
      assert (E: (q1 == qa / qb)%Q) by (rewrite E1; unfold Qdiv; reflexivity).
      rewrite E. reflexivity.
    + (* mod *)
      destruct (mod_check er) as [[]| | |]; simpl in H; try discriminate. inversion H; subst.
      destruct DNo as [a' [b' [X1 [X2 [Ha Hb]]]]]. inversion X1; inversion X2; subst a' b'.
      destruct (Z.eqb b 0) eqn:Eb; [apply Z.eqb_eq in Eb; lia|]. simpl in Hev. inversion Hev; subst.
      assert (NZ: b <> 0%Z) by lia.
      rewrite (seval_mod _ _ _ _ _ _ Hqa Hqb Iqb NZ). eexists. split; [reflexivity|].
      rewrite (floor_div_int _ _ _ _ Iqa Iqb). unfold is_int in *. rewrite Iqa, Iqb.
      rewrite Z.rem_mod_nonneg by lia. rewrite Z.mod_eq by lia.
      unfold Z.sub. rewrite inject_Z_plus, inject_Z_opp, inject_Z_mult. unfold Qminus. reflexivity.
    + (* pow *) inversion H; subst.
      pose proof (PNo b eq_refl) as Eb.
      destruct (Z.ltb b 0) eqn:Eb'; [apply Z.ltb_lt in Eb'; lia|]. simpl in Hev. inversion Hev; subst.
      destruct (qpow_int _ _ _ _ Iqa Iqb Eb) as [q [Hq Iq]].
      rewrite (seval_pow2 _ _ _ _ _ Hqa Hqb). exists q. split; assumption.
  - simpl in H. discriminate.
  - destruct args; simpl in H.
    + destruct (String.eqb n "" && ext); [discriminate|]. simpl in Hev. discriminate.
    + discriminate.
  - simpl in H. discriminate.
Qed.

(* the proviso is necessary, in each of the three ways *)
Definition s0 : subst := fun _ => SNum 0.
Definition sg0 : skey -> Z := fun _ => 0%Z.
Definition value_is (t: term) (clingo: Z) (sympy: Z) : Prop :=
  eval s0 t = Some (SNum clingo) /\
  exists e st q, to_sympy_term t ([], []) = Ok (Some e, st) /\ seval sg0 e = Some q /\ Qeq_bool q (inject_Z sympy) = true.

(* (0-7)/2: clingo -3, sympy floor(-7/2) = -4 *)
Theorem div_negative_refuted :
  value_is (TBin BDiv (TBin BMinus (TSym (SNum 0)) (TSym (SNum 7))) (TSym (SNum 2))) (-3) (-4).
Proof. split; [reflexivity|]. do 3 eexists. split; [reflexivity|]. split; reflexivity. Qed.
(* (0-7)\2: clingo -1, sympy Mod(-7, 2) = 1 *)
Theorem mod_negative_refuted :
  value_is (TBin BMod (TBin BMinus (TSym (SNum 0)) (TSym (SNum 7))) (TSym (SNum 2))) (-1) 1.
Proof. split; [reflexivity|]. do 3 eexists. split; [reflexivity|]. split; reflexivity. Qed.
(* 7\(0-2): clingo 1, sympy Mod(7, -2) = -1;  7/(0-2): clingo -3, sympy -4 *)
Theorem mod_negdivisor_refuted :
  value_is (TBin BMod (TSym (SNum 7)) (TBin BMinus (TSym (SNum 0)) (TSym (SNum 2)))) 1 (-1).
Proof. split; [reflexivity|]. do 3 eexists. split; [reflexivity|]. split; reflexivity. Qed.
Theorem div_negdivisor_refuted :
  value_is (TBin BDiv (TSym (SNum 7)) (TBin BMinus (TSym (SNum 0)) (TSym (SNum 2)))) (-3) (-4).
Proof. split; [reflexivity|]. do 3 eexists. split; [reflexivity|]. split; reflexivity. Qed.

(* 2**(0-1): clingo 0 (negative exponent, non-zero base), sympy 1/2: the proviso [pows_nonneg] is necessary *)
Theorem pow_negative_refuted :
  let t := TBin BPow (TSym (SNum 2)) (TBin BMinus (TSym (SNum 0)) (TSym (SNum 1))) in
  eval s0 t = Some (SNum 0) /\ divs_nonneg s0 t /\ vars_agree s0 sg0 t /\ ~ pows_nonneg s0 t /\
  exists e st q, to_sympy_term t ([], []) = Ok (Some e, st) /\ seval sg0 e = Some q /\ Qeq_bool q (1 # 2) = true.
Proof.
  split; [reflexivity|]. split; [simpl; tauto|]. split; [intros x []|]. split.
  - intros (_ & _ & A). specialize (A (-1)%Z eq_refl). lia.
  - do 3 eexists. split; [reflexivity|]. split; reflexivity.
Qed.

(* no converse: 0 * c (c a symbolic constant) is undefined for clingo (the rule instance is dropped), 0 for
   sympy.  (With the old, wrong reading of `**` the witness was 0 * 2**(0-1); clingo evaluates that to 0.) *)
Theorem converse_refuted :
  let t := TBin BMul (TSym (SNum 0)) (TFun "c" [] false) in
  eval s0 t = None /\
  exists e st q, to_sympy_term t ([], []) = Ok (Some e, st) /\ seval sg0 e = Some q /\ Qeq_bool q (inject_Z 0) = true.
Proof. split; [reflexivity|]. do 3 eexists. split; [reflexivity|]. split; reflexivity. Qed.

(* ---------- registration: the link between B and the environment of A ---------- *)
Lemma skey_eqb_eq a b : skey_eqb a b = true <-> a = b.
Proof.
  destruct a as [n i|n i], b as [m j|m j]; simpl; split; intros H; try discriminate.
  - apply andb_true_iff in H. destruct H as [H1 H2]. apply String.eqb_eq in H1. apply Bool.eqb_prop in H2. congruence.
  - inversion H; subst. rewrite String.eqb_refl, Bool.eqb_reflx. reflexivity.
  - apply andb_true_iff in H. destruct H as [H1 H2]. apply String.eqb_eq in H1. apply Z.eqb_eq in H2. congruence.
  - inversion H; subst. rewrite String.eqb_refl, Z.eqb_refl. reflexivity.
Qed.

Lemma assoc_some_in {A} k (l: list (skey * A)) v : assoc k l = Some v -> In k (keys l).
Proof.
  induction l as [|[k' v'] r IH]; simpl; [discriminate|].
  destruct (skey_eqb k k') eqn:E; intros H.
  - left. symmetry. apply skey_eqb_eq. exact E.
  - right. apply IH. exact H.
Qed.

Lemma reg_in {A} k (v: A) l : In k (keys (reg k v l)).
Proof.
  unfold reg. destruct (assoc k l) eqn:E; [eapply assoc_some_in; eauto|].
  unfold keys. rewrite map_app. apply in_or_app. right. left. reflexivity.
Qed.
Lemma reg_mono {A} k (v: A) l k' : In k' (keys l) -> In k' (keys (reg k v l)).
Proof.
  unfold reg. destruct (assoc k l); [auto|]. intros H. unfold keys. rewrite map_app. apply in_or_app. left. exact H.
Qed.

Definition registered (st: tstate) (k: skey) : Prop := In k (keys (fst st)) \/ In k (keys (snd st)).

Lemma to_sympy_term_mono t : forall st oe st' k,
  to_sympy_term t st = Ok (oe, st') -> registered st k -> registered st' k.
Proof.
  induction t as [x|c|o a IHa|o l IHl r IHr|l IHl r IHr|n args ext|alts]; intros st oe st' k H R.
  - simpl in H. inversion H; subst. destruct R as [R|R]; [left; simpl; apply reg_mono; exact R|right; exact R].
  - destruct c as [|z|str|name cargs pos|]; simpl in H; try (inversion H; subst; exact R).
    destruct cargs; inversion H; subst; [|exact R].
    destruct R as [R|R]; [left; exact R|right; simpl; apply reg_mono; exact R].
  - simpl in H. destruct (to_sympy_term a st) as [[oa st1]| | |] eqn:Ea; simpl in H; try discriminate.
    pose proof (IHa _ _ _ _ Ea R) as R1.
    destruct oa; [destruct o|]; inversion H; subst; exact R1.
  - simpl in H.
    destruct o; try (inversion H; subst; exact R);
      (destruct (to_sympy_term l st) as [[ol st1]| | |] eqn:El; simpl in H; try discriminate;
       destruct (to_sympy_term r st1) as [[orr st2]| | |] eqn:Er; simpl in H; try discriminate;
       pose proof (IHr _ _ _ _ Er (IHl _ _ _ _ El R)) as R2;
       destruct ol as [el|], orr as [er|]; try (inversion H; subst; exact R2)).
    destruct (mod_check er); simpl in H; try discriminate. inversion H; subst; exact R2.
  - simpl in H. inversion H; subst; exact R.
  - destruct args; simpl in H.
    + destruct (String.eqb n "" && ext); [discriminate|]. inversion H; subst; exact R.
    + inversion H; subst; exact R.
  - simpl in H. inversion H; subst; exact R.
Qed.

(* terms without a zero-ary Function node `c()` / `@f()` *)
Fixpoint fun0_free (t: term) : Prop :=
  match t with
  | TFun _ [] _ => False
  | TUn _ a => fun0_free a
  | TBin _ l r => fun0_free l /\ fun0_free r
  | _ => True
  end.

(* every symbol of the produced expression is in _fo_vars or _constants, so that (sympy's normalisation never
   invents symbols) sympy2ast's lookup cannot hit `assert False, "Solve for t first ?"` for it *)
Theorem to_sympy_term_registers t : forall st e st',
  to_sympy_term t st = Ok (Some e, st') -> fun0_free t ->
  forall k, In k (symbols e) -> registered st' k.
Proof.
  induction t as [x|c|o a IHa|o l IHl r IHr|l IHl r IHr|n args ext|alts]; intros st e st' H FF k Hk.
  - simpl in H. inversion H; subst. simpl in Hk. destruct Hk as [<-|[]]. left. simpl. apply reg_in.
  - destruct c as [|z|str|name cargs pos|]; simpl in H; try discriminate.
    + inversion H; subst. destruct Hk.
    + destruct cargs; [|discriminate]. inversion H; subst. simpl in Hk. destruct Hk as [<-|[]].
      right. simpl. apply reg_in.
  - simpl in H. destruct (to_sympy_term a st) as [[oa st1]| | |] eqn:Ea; simpl in H; try discriminate.
    destruct oa as [ea|]; [|discriminate]. simpl in FF.
    destruct o; inversion H; subst; simpl in Hk; rewrite ?app_nil_r in Hk; eapply IHa; eauto.
  - simpl in H. simpl in FF. destruct FF as [FFl FFr].
    destruct o; try discriminate;
      (destruct (to_sympy_term l st) as [[ol st1]| | |] eqn:El; simpl in H; try discriminate;
       destruct (to_sympy_term r st1) as [[orr st2]| | |] eqn:Er; simpl in H; try discriminate;
       destruct ol as [el|]; try discriminate; destruct orr as [er|]; try discriminate);
      try (destruct (mod_check er); simpl in H; try discriminate);
      inversion H; subst; simpl in Hk; rewrite ?app_nil_r in Hk;
      (apply in_app_or in Hk; destruct Hk as [Hk|Hk];
       [eapply to_sympy_term_mono; [exact Er|eapply IHl; eauto]|eapply IHr; eauto]).
  - simpl in H. discriminate.
  - destruct args; simpl in FF; [contradiction|]. simpl in H. discriminate.
  - simpl in H. discriminate.
Qed.

(* ... and the exception: `c()` (ASTType.Function without arguments, a nocoverage line) becomes Symbol("c") but is
   registered nowhere.  If the symbol survives into a result, sympy2ast raises AssertionError (the statement is
   then left unchanged by the generic `except Exception`); if the constant `c` occurs as well, `c()` is
   silently printed as `c` (harmless: the two are the same ground term). *)
Theorem fun0_not_registered :
  exists e st, to_sympy_term (TFun "c" [] false) ([], []) = Ok (Some e, st) /\
    symbols e = [KSym "c" true] /\ ~ registered st (KSym "c" true) /\
    sympy2ast {| fo_vars := fst st; sym2agg := []; constants := snd st |} e = Raise "AssertionError".
Proof.
  do 2 eexists. split; [reflexivity|]. split; [reflexivity|]. split; [|reflexivity].
  intros [[]|[]].
Qed.

(* ------------------------------------------------------------------------------------------ *)
(* a worked instance: -2*X*Y + 3 + |X + -1*Y|**2 (the shape solve() returns)                    *)
(* ------------------------------------------------------------------------------------------ *)
Definition g_xy : genv :=
  {| fo_vars := [(KSym "X" true, TVar "X"); (KSym "Y" true, TVar "Y")]; sym2agg := []; constants := [] |}.
Definition e_xy : sexpr :=
  SApp FAdd [SInt 3; SApp FMul [SInt (-2); SSym (KSym "X" true); SSym (KSym "Y" true)];
             SApp (FPow true) [SApp FAbs [SApp FAdd [SSym (KSym "X" true); SApp FMul [SInt (-1); SSym (KSym "Y" true)]]]; SInt 2]].
Example sanity_xy :
  sympy2ast g_xy e_xy =
    Ok (RTerm (TBin BPlus (TBin BPlus (TSym (SNum 3)) (TBin BMul (TBin BMul (TSym (SNum (-2))) (TVar "X")) (TVar "Y")))
                 (TBin BPow (TUn UAbs (TBin BPlus (TVar "X") (TBin BMul (TSym (SNum (-1))) (TVar "Y")))) (TSym (SNum 2))))) /\
  lit_pows e_xy = true /\ okb g_xy e_xy = true.
Proof. repeat split; reflexivity. Qed.

(* ------------------------------------------------------------------------------------------ *)
(* aggregates: what the glue does to the aggregate FUNCTION (candidate findings, replayed with clingo) *)
(* ------------------------------------------------------------------------------------------ *)
Definition w_elem (t: term) : belem := ([t], [Lit NoSign (ASym (TFun "w" [TVar "W"] false))]).
Definition g_plus : genv :=
  {| fo_vars := [(KSym "Y" true, TVar "Y")];
     sym2agg := [(KDummy "agg5" 1, (FSumPlus, [w_elem (TVar "W")]))]; constants := [] |}.

(* new_mul keeps the function: -1 * (#sum+ {W : w(W)})  becomes  #sum+ { W*-1 : w(W) } whose value is 0 for
   positive W (clingo ignores negative weights in #sum+, "tuple ignored").  Reached by
   `a :- X = #sum+{W : w(W)}, q(Y), Y = 0 - X.` and, because #count is normalised to #sum+{1,..}, by
   `a :- X = #count{W : w(W)}, q(Y), Y = 0 - 2*X.` *)
Example new_mul_keeps_sumplus :
  sympy2ast g_plus (SApp FMul [SInt (-1); SSym (KDummy "agg5" 1)])
  = Ok (RAgg FSumPlus [w_elem (TBin BMul (TVar "W") (TSym (SNum (-1))))]).
Proof. reflexivity. Qed.
Theorem sumplus_scaling_refuted :
  Sem.Sat.sumplus_of [[SNum (1 * -1)]] <> (-1 * Sem.Sat.sumplus_of [[SNum 1]])%Z.
Proof. vm_compute. discriminate. Qed.

(* new_sum forces #sum:  (#sum+ {W : w(W)}) + Y  becomes  #sum { W,__agg(0) : w(W); Y,__agg(1) }.  Differs from the
   source only when some weight is negative, and then clingo already reports "tuple ignored" on the source. *)
Example new_sum_forgets_sumplus :
  sympy2ast g_plus (SApp FAdd [SSym (KSym "Y" true); SSym (KDummy "agg5" 1)])
  = Ok (RAgg FSum [([TVar "W"; agg_ident 0], [Lit NoSign (ASym (TFun "w" [TVar "W"] false))]);
                   ([TVar "Y"; agg_ident 1], [])]).
Proof. reflexivity. Qed.
Theorem sum_vs_sumplus_refuted : Sem.Sat.sum_of [[SNum (-2)]] <> Sem.Sat.sumplus_of [[SNum (-2)]].
Proof. vm_compute. discriminate. Qed.

Print Assumptions sympy2ast_total.
Print Assumptions sympy2ast_ok_iff.
Print Assumptions sympy2ast_ok_subexpr.
Print Assumptions sympy2ast_rejects_rationals.
Print Assumptions sympy2ast_rejects_mod_floor_other.
Print Assumptions sympy2ast_rejects_big_int.
Print Assumptions sympy2ast_rejects_nonpositive_pow.
Print Assumptions sympy2ast_sound.
Print Assumptions sympy2ast_defined.
Print Assumptions lit_pows_pos_ok.
Print Assumptions sympy2ast_vars.
Print Assumptions sympy2ast_vars_canonical.
Print Assumptions to_sympy_term_sound.
Print Assumptions div_negative_refuted.
Print Assumptions mod_negative_refuted.
Print Assumptions mod_negdivisor_refuted.
Print Assumptions div_negdivisor_refuted.
Print Assumptions converse_refuted.
Print Assumptions pow_negative_refuted.
Print Assumptions to_sympy_term_registers.
Print Assumptions fun0_not_registered.
Print Assumptions new_mul_keeps_sumplus.
Print Assumptions sumplus_scaling_refuted.
Print Assumptions new_sum_forgets_sumplus.
Print Assumptions sum_vs_sumplus_refuted.
