(* C17: audited census of the places in src/ngo whose behaviour can depend on PYTHONHASHSEED (iteration over a
   set, or over a sequence built from one without sorting) or on state that outlives one optimize() call.
   Gen/Purity.v is regenerated from the source on every run by vlib/census.py; the theorems below say that the
   source still has exactly the audited sites.  A change that adds, removes or alters a site breaks them; the
   C17 check then searches (fresh interpreters under many hash seeds, aliasing and history oracles) for an
   input on which two runs differ.
   audit: OrderFree = the order cannot reach the result (reason given); Modelled = the order is an explicit
   argument of the Coq model; Observed = the order may reach the result; exercised by the cross-process oracle. *)
From Coq Require Import List String.
From NGO Require Import Gen.Purity.
Import ListNotations.
Open Scope string_scope. Open Scope list_scope.

Inductive audit := OrderFree | Modelled | Observed.

Definition audited_set_iteration_sites : list ((string * string * string) * audit * string) :=
  [
(("cleanup.py", "CleanupTranslator._superseeded", "for self.superseeds"), OrderFree, "existential search: returns True iff some mapping fits");
   (("cleanup.py", "CleanupTranslator.transitive_closure", "for closure"), OrderFree, "builds a set; an IndexError is raised for some pair in every order or in none");
   (("literal_duplication.py", "LiteralCollector._filter_occurences", "combinations vars_"), OrderFree, "edges of an undirected graph; only connected components are read");
   (("literal_duplication.py", "LiteralDuplicationTranslator.execute", "for changed_rules"), OrderFree, "sets flags restore[index] := False");
   (("math_simplification.py", "Goebner.combine", "for common"), Observed, "math pass is not modelled; sympy symbol order");
   (("math_simplification.py", "Goebner.remove_unneeded_formulas", "for cast(set[Symbol], set(f.free_symbols)) & set(self._fo_vars.keys())"), Observed, "math pass is not modelled");
   (("math_simplification.py", "Goebner.remove_unneeded_formulas", "for set(var_stats.keys()) - needed_symbols"), Observed, "math pass is not modelled");
   (("math_simplification.py", "Goebner.simplify_equalities", "comp unbound"), Observed, "math pass is not modelled");
   (("math_simplification.py", "Goebner.simplify_equalities", "iter unbound"), Observed, "math pass is not modelled");
   (("math_simplification.py", "Goebner.simplify_equalities", "next iter(unbound)"), Observed, "math pass is not modelled; reached only with a singleton");
   (("minmax_aggregates.py", "MinMaxAggregator._replace_results_in_minimize", "comp set(chain.from_iterable((predicates(b, {Sign.NoSign, Sign.DoubleNegation}) for b in stm.body)))"), OrderFree, "the list is only used for membership tests (translation.oldpred in preds)");
   (("minmax_aggregates.py", "MinMaxAggregator._simple_translation", "comp lvars"), Observed, "fresh variable names are handed out in set order; differs only when two local variables compete for one fresh name");
   (("minmax_aggregates.py", "MinMaxAggregator._split_element", "comp set(chain.from_iterable((predicates(b, {Sign.NoSign, Sign.DoubleNegation}) for b in elem.condition)))"), OrderFree, "the list is only used for membership tests");
   (("sum_aggregates.py", "SumAggregator._calc_at_most", "for global_preds"), Modelled, "explicit `order` argument of Model.SumChains (observed, checked to be a permutation of the model's set)");
   (("sum_aggregates.py", "SumAggregator._calc_at_most_on_rule", "iter preds"), OrderFree, "guarded by len(preds) = 1");
   (("sum_aggregates.py", "SumAggregator._calc_at_most_on_rule", "next iter(preds)"), OrderFree, "guarded by len(preds) = 1");
   (("unused.py", "UnusedTranslator.Mapper.__init__", "for vars_"), Observed, "fresh variable names are handed out in set order; differs only when two variables compete for one fresh name");
   (("utils/globals.py", "auto_detect_input", "for all_preds"), OrderFree, "by theorem C17_auto_detect_input_membership_order_free: the declared lists are only used for membership")
].

Definition audited_process_state_sites : list ((string * string * string) * string) :=
  [
(("__init__.py", "<module>", "mutable __all__"), "constant list, never written");
   (("dependency.py", "_predicate", "decorator cache"), "functools.cache on a pure function of hashable arguments");
   (("math_simplification.py", "Goebner", "mutable ast2sympy_op"), "constant lookup table, never written");
   (("utils/parser.py", "<module>", "mutable ALL_OPTIONS"), "constant list (translated to Gen/Cli.v), never written");
   (("utils/parser.py", "<module>", "mutable DEFAULT_OPTIONS"), "constant list (translated to Gen/Cli.v), never written");
   (("utils/parser.py", "<module>", "mutable LEVELS"), "constant list, never written");
   (("utils/parser.py", "<module>", "mutable __all__"), "constant list, never written")
].

Theorem set_iteration_sites_audited_proof :
  set_iteration_sites = map (fun x => fst (fst x)) audited_set_iteration_sites.
Proof. vm_compute. reflexivity. Qed.

Theorem process_state_sites_audited_proof :
  process_state_sites = map fst audited_process_state_sites.
Proof. vm_compute. reflexivity. Qed.

(* how many audited sites can carry hash order into the result *)
Definition order_carrying : list (string * string * string) :=
  map (fun x => fst (fst x))
      (filter (fun x => match snd (fst x) with Observed => true | _ => false end) audited_set_iteration_sites).

Example order_carrying_count : List.length order_carrying = 8.
Proof. vm_compute. reflexivity. Qed.
