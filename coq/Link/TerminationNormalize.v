(* Termination ("the fuel is always enough") of the loops of Model/Normalize.v:
   no function of the model ever answers OutOfFuel, and exline_arithmetic is idempotent on its own
   output, so that the `while True` exline loop of ngo.api.optimize stops after at most two rounds. *)
From Coq Require Import List String ZArith Bool Arith Lia.
From NGO Require Import Syntax.Ast Gen.Names Model.Traverse Model.Globals Model.NormalizeCore Model.Normalize.
From NGO Require Import Link.GlobalsSpec.
From NGO Require Link.CleanupSpec.
From NGO Require Model.Binding.
Import ListNotations.
Open Scope string_scope. Open Scope list_scope.

(* ====================================================================================== *)
(** * 0. generic facts *)

Lemma tn_rbind_not_oof {A B} (r: result A) (f: A -> result B) :
  r <> OutOfFuel -> (forall a, r = Ok a -> f a <> OutOfFuel) -> rbind r f <> OutOfFuel.
Proof.
  destruct r as [a|k| |]; simpl; intros N F.
  - apply F. reflexivity.
  - discriminate.
  - discriminate.
  - exfalso. apply N. reflexivity.
Qed.

Lemma rmap_not_oof {A B} (f: A -> result B) (l: list A) :
  (forall x, In x l -> f x <> OutOfFuel) -> rmap f l <> OutOfFuel.
Proof.
  induction l as [|a l IH]; intros Hf; cbn [rmap]; [discriminate|].
  apply tn_rbind_not_oof; [apply Hf; left; reflexivity|]. intros y _.
  apply tn_rbind_not_oof; [apply IH; intros x Hx; apply Hf; right; exact Hx|].
  intros ys _. discriminate.
Qed.

Lemma rmap_not_oof_all {A B} (f: A -> result B) (l: list A) :
  (forall x, f x <> OutOfFuel) -> rmap f l <> OutOfFuel.
Proof. intros Hf. apply rmap_not_oof. intros x _. apply Hf. Qed.

Lemma filter_length_le {A} (p: A -> bool) (l: list A) : List.length (filter p l) <= List.length l.
Proof. induction l as [|a l IH]; simpl; [lia|]. destruct (p a); simpl; lia. Qed.

Lemma filter_remove_lt {A} (e: A -> A -> bool) (x: A) (l: list A) :
  e x x = true -> In x l -> List.length (filter (fun y => negb (e y x)) l) < List.length l.
Proof.
  intros Hr. induction l as [|a l IH]; intros Hin; [destruct Hin|].
  cbn [filter]. destruct Hin as [-> | Hin].
  - rewrite Hr. cbn [negb List.length]. pose proof (filter_length_le (fun y => negb (e y x)) l). lia.
  - specialize (IH Hin). destruct (negb (e a x)); cbn [List.length]; lia.
Qed.

Lemma list_eqb_length {A} (e: A -> A -> bool) : forall x y, list_eqb e x y = true -> List.length x = List.length y.
Proof.
  induction x as [|a x IH]; intros [|b y]; simpl; intros H; try discriminate; [reflexivity|].
  apply andb_true_iff in H. destruct H as [_ H]. f_equal. apply IH. exact H.
Qed.

(* ====================================================================================== *)
(** * 1. inline_rule *)

Lemma find_inline_In allvars : forall body blit v r,
  find_inline allvars body = Some (blit, v, r) -> In blit body.
Proof.
  induction body as [|b body IH]; intros blit v r H; cbn [find_inline] in H; [discriminate|].
  destruct (equality_bodyelem b) as [[var rest]|].
  - destruct (Nat.ltb 1 (count_name var allvars)).
    + injection H as <- _ _. left. reflexivity.
    + right. eapply IH. exact H.
  - right. eapply IH. exact H.
Qed.

Lemma inline_new_body_lt var rest blit body :
  In blit body ->
  List.length (map (inline_replace_bodyelem var rest) (filter (fun x => negb (bodyelem_eqb x blit)) body))
  < List.length body.
Proof.
  intros Hin. rewrite map_length. apply filter_remove_lt; [apply CleanupSpec.bodyelem_eqb_refl | exact Hin].
Qed.

Lemma inline_rule_fuel_enough : forall fuel stm,
  List.length (stmt_body stm) < fuel -> inline_rule_fuel fuel stm <> OutOfFuel.
Proof.
  induction fuel as [|fuel IH]; intros stm Hlen; [lia|].
  destruct stm as [ln h b|ln w p ts b|n a p|t b|k t]; cbn [inline_rule_fuel]; try discriminate.
  - destruct (negb _); [discriminate|]. destruct (opaque_vars _); [discriminate|].
    destruct (find_inline _ _) as [[[blit var] rest]|] eqn:Ef; [|discriminate].
    apply IH. cbn [stmt_body] in *. apply find_inline_In in Ef.
    pose proof (inline_new_body_lt var rest blit b Ef). lia.
  - destruct (negb _); [discriminate|]. destruct (opaque_vars _); [discriminate|].
    destruct (find_inline _ _) as [[[blit var] rest]|] eqn:Ef; [|discriminate].
    apply IH. cbn [stmt_body] in *. apply find_inline_In in Ef.
    pose proof (inline_new_body_lt var rest blit b Ef). lia.
Qed.

Theorem inline_rule_no_outoffuel : forall stm, inline_rule stm <> OutOfFuel.
Proof. intros stm. unfold inline_rule. apply inline_rule_fuel_enough. lia. Qed.

(* ====================================================================================== *)
(** * 2. inline_aggregate / inline_conditional *)

Lemma find_local_equality_In globals : forall cs c v r,
  find_local_equality globals cs = Some (c, v, r) -> In c cs.
Proof.
  induction cs as [|c0 cs IH]; intros c v r H; cbn [find_local_equality] in H; [discriminate|].
  destruct (equality c0) as [[var rest]|].
  - destruct (smem var globals).
    + right. eapply IH. exact H.
    + injection H as <- _ _. left. reflexivity.
  - right. eapply IH. exact H.
Qed.

Lemma find_elem_equality_In globals : forall es elem c v r,
  find_elem_equality globals es = Some (elem, c, v, r) -> In elem es /\ In c (snd elem).
Proof.
  induction es as [|e es IH]; intros elem c v r H; cbn [find_elem_equality] in H; [discriminate|].
  destruct (find_local_equality globals (snd e)) as [[[c0 v0] r0]|] eqn:El.
  - injection H as <- <- _ _. split; [left; reflexivity|]. eapply find_local_equality_In. exact El.
  - destruct (IH _ _ _ _ H) as [H1 H2]. split; [right; exact H1 | exact H2].
Qed.

Lemma belem_eqb_refl (e: belem) : belem_eqb e e = true.
Proof.
  unfold belem_eqb. rewrite (CleanupSpec.list_eqb_refl_all term_eqb CleanupSpec.term_eqb_refl).
  rewrite (CleanupSpec.list_eqb_refl_all lit_eqb CleanupSpec.lit_eqb_refl). reflexivity.
Qed.

Definition conds_total (es: list belem) : nat := List.length (flat_map (fun e : belem => snd e) es).

Lemma conds_total_cons e es : conds_total (e :: es) = List.length (snd e) + conds_total es.
Proof. unfold conds_total. cbn [flat_map]. rewrite app_length. reflexivity. Qed.

Lemma agg_step_lt (elem: belem) (nt: list term) (nc: list lit) : forall es,
  List.length nc < List.length (snd elem) -> In elem es ->
  conds_total (map (fun e => if belem_eqb e elem then (nt, nc) else e) es) < conds_total es.
Proof.
  intros es Hlt.
  assert (Hle: forall e: belem, List.length (snd (if belem_eqb e elem then (nt, nc) else e)) <= List.length (snd e)).
  { intros e. destruct (belem_eqb e elem) eqn:E; [|lia]. cbn [snd].
    unfold belem_eqb in E. apply andb_true_iff in E. destruct E as [_ E].
    apply list_eqb_length in E. lia. }
  assert (Hall: forall l, conds_total (map (fun e => if belem_eqb e elem then (nt, nc) else e) l) <= conds_total l).
  { induction l as [|a l IHl]; [cbn; lia|]. cbn [map]. rewrite !conds_total_cons. specialize (Hle a). lia. }
  induction es as [|a es IH]; intros Hin; [destruct Hin|].
  cbn [map]. rewrite !conds_total_cons. destruct Hin as [-> | Hin].
  - rewrite belem_eqb_refl. cbn [snd]. specialize (Hall es). lia.
  - specialize (IH Hin). specialize (Hle a). lia.
Qed.

Lemma inline_aggregate_fuel_enough globals : forall fuel sg lg f es rg,
  conds_total es < fuel ->
  inline_aggregate_fuel fuel (BLit (Lit sg (ABodyAgg lg f es rg))) globals <> OutOfFuel.
Proof.
  induction fuel as [|fuel IH]; intros sg lg f es rg Hlen; [lia|].
  cbn [inline_aggregate_fuel].
  destruct (find_elem_equality globals es) as [[[[elem c] var] rest]|] eqn:Ef; [|discriminate].
  apply find_elem_equality_In in Ef. destruct Ef as [Hel Hc].
  apply IH.
  assert (List.length (map (inline_replace_lit var rest) (filter (fun x => negb (lit_eqb x c)) (snd elem)))
          < List.length (snd elem)).
  { rewrite map_length. apply filter_remove_lt; [apply CleanupSpec.lit_eqb_refl | exact Hc]. }
  pose proof (agg_step_lt elem (map (inline_replace_term var rest) (fst elem)) _ es H Hel). lia.
Qed.

Theorem inline_aggregate_no_outoffuel : forall stm globals, inline_aggregate stm globals <> OutOfFuel.
Proof.
  intros stm globals. unfold inline_aggregate.
  destruct stm as [[sg a]|l c].
  - destruct a as [t|t gs|b|lg f es rg|lg es rg|s]; try (cbn; discriminate).
    apply inline_aggregate_fuel_enough. unfold agg_fuel, conds_total. apply le_n.
  - destruct (agg_fuel _); cbn; discriminate.
Qed.

Lemma inline_conditional_fuel_enough globals : forall fuel l cs,
  List.length cs < fuel -> inline_conditional_fuel fuel (BCond l cs) globals <> OutOfFuel.
Proof.
  induction fuel as [|fuel IH]; intros l cs Hlen; [lia|].
  cbn [inline_conditional_fuel].
  destruct (find_local_equality globals cs) as [[[c var] rest]|] eqn:Ef; [|discriminate].
  apply find_local_equality_In in Ef. apply IH. rewrite map_length.
  pose proof (filter_remove_lt lit_eqb c cs (CleanupSpec.lit_eqb_refl c) Ef). lia.
Qed.

Theorem inline_conditional_no_outoffuel : forall stm globals, inline_conditional stm globals <> OutOfFuel.
Proof.
  intros stm globals. unfold inline_conditional. destruct stm as [l|l c].
  - destruct (agg_fuel _); cbn; discriminate.
  - apply inline_conditional_fuel_enough. cbn [agg_fuel]. lia.
Qed.

(* ====================================================================================== *)
(** * 3. inline_arithmetic / postprocess *)

Section WithGvars.
  Variable gvars : list bodyelem -> result (list string).
  Hypothesis gvars_total : forall b, gvars b <> OutOfFuel.

  Lemma inline_body_with_no_outoffuel (f: bodyelem -> list string -> result bodyelem) body :
    (forall b g, f b g <> OutOfFuel) -> inline_body_with gvars f body <> OutOfFuel.
  Proof.
    intros Hf. destruct body as [|b0 body]; cbn [inline_body_with]; [discriminate|].
    apply tn_rbind_not_oof; [apply gvars_total|]. intros g _. apply rmap_not_oof_all. intros x. apply Hf.
  Qed.

  Theorem inline_aggregates_with_no_outoffuel : forall stm, inline_aggregates_with gvars stm <> OutOfFuel.
  Proof.
    intros [ln h b|ln w p ts b|n a p|t b|k t]; cbn [inline_aggregates_with]; try discriminate;
      (apply tn_rbind_not_oof;
       [apply inline_body_with_no_outoffuel; apply inline_aggregate_no_outoffuel | intros; discriminate]).
  Qed.

  Theorem inline_conditionals_with_no_outoffuel : forall stm, inline_conditionals_with gvars stm <> OutOfFuel.
  Proof.
    intros [ln h b|ln w p ts b|n a p|t b|k t]; cbn [inline_conditionals_with]; try discriminate;
      (apply tn_rbind_not_oof;
       [apply inline_body_with_no_outoffuel; apply inline_conditional_no_outoffuel | intros; discriminate]).
  Qed.
End WithGvars.

Section BindingTotal.
  Hypothesis gvars_nofuel : forall b, Binding.global_vars_inside_body b <> OutOfFuel.

  Theorem inline_aggregates_no_outoffuel : forall stm, inline_aggregates stm <> OutOfFuel.
  Proof. intros stm. apply inline_aggregates_with_no_outoffuel. exact gvars_nofuel. Qed.

  Theorem inline_conditionals_no_outoffuel : forall stm, inline_conditionals stm <> OutOfFuel.
  Proof. intros stm. apply inline_conditionals_with_no_outoffuel. exact gvars_nofuel. Qed.

  Theorem inline_arithmetic_stm_no_outoffuel : forall stm, inline_arithmetic_stm stm <> OutOfFuel.
  Proof.
    intros stm. unfold inline_arithmetic_stm.
    apply tn_rbind_not_oof; [apply inline_rule_no_outoffuel|]. intros s1 _.
    apply tn_rbind_not_oof; [apply inline_aggregates_no_outoffuel|]. intros s2 _.
    apply inline_conditionals_no_outoffuel.
  Qed.

  Theorem inline_arithmetic_no_outoffuel : forall prg, inline_arithmetic prg <> OutOfFuel.
  Proof. intros prg. apply rmap_not_oof_all. apply inline_arithmetic_stm_no_outoffuel. Qed.

  Theorem postprocess_no_outoffuel : forall prg, postprocess prg <> OutOfFuel.
  Proof. exact inline_arithmetic_no_outoffuel. Qed.
End BindingTotal.

(* ====================================================================================== *)
(** * 4. exline_arithmetic never runs out of fuel *)

(* "the result is not OutOfFuel, and the uvstate it carries is not OutOfFuel either" *)
Definition good {A} (proj: A -> uvstate) (r: result A) : Prop :=
  r <> OutOfFuel /\ forall a, r = Ok a -> proj a <> OutOfFuel.

Lemma good_ok {A} (proj: A -> uvstate) a : proj a <> OutOfFuel -> good proj (Ok a).
Proof. intros H. split; [discriminate|]. intros a' E. injection E as <-. exact H. Qed.
Lemma good_raise {A} (proj: A -> uvstate) k : good proj (Raise k).
Proof. split; [discriminate | intros a E; discriminate]. Qed.
Lemma good_oofrag {A} (proj: A -> uvstate) : good proj OutOfFragment.
Proof. split; [discriminate | intros a E; discriminate]. Qed.
Lemma good_bind {A B} (pa: A -> uvstate) (pb: B -> uvstate) (r: result A) (f: A -> result B) :
  good pa r -> (forall a, pa a <> OutOfFuel -> good pb (f a)) -> good pb (rbind r f).
Proof.
  intros [H1 H2] Hf. destruct r as [a|k| |]; cbn [rbind].
  - apply Hf. apply H2. reflexivity.
  - apply good_raise.
  - apply good_oofrag.
  - contradiction.
Qed.
Lemma good_bind_not_oof {A B} (pa: A -> uvstate) (r: result A) (f: A -> result B) :
  good pa r -> (forall a, pa a <> OutOfFuel -> f a <> OutOfFuel) -> rbind r f <> OutOfFuel.
Proof.
  intros [H1 H2] Hf. destruct r as [a|k| |]; cbn [rbind]; try discriminate.
  - apply Hf. apply H2. reflexivity.
  - contradiction.
Qed.

Lemma init_vars_not_oof s : init_vars s <> OutOfFuel.
Proof. unfold init_vars. destruct (opaque_vars s); discriminate. Qed.

Lemma make_unique_not_oof vars v : make_unique vars v <> OutOfFuel.
Proof. destruct (make_unique_total vars v) as [v' [vars' H]]. rewrite H. discriminate. Qed.

Lemma run_make_unique_not_oof vars vs : run_make_unique vars vs <> OutOfFuel.
Proof. destruct (vars_history_distinct vs vars) as [v' [outs [H _]]]. rewrite H. discriminate. Qed.

Lemma fresh_aux_good st : st <> OutOfFuel -> good fst (fresh_aux st).
Proof.
  intros Hst. unfold fresh_aux. destruct st as [av|k| |]; cbn [rbind].
  - destruct (make_unique_total av AUX_VAR_name) as [v' [vars' H]]. rewrite H. cbn [rbind fst snd].
    apply good_ok. cbn [fst]. discriminate.
  - apply good_raise.
  - apply good_oofrag.
  - contradiction.
Qed.

Lemma fresh_auxs_good st n : st <> OutOfFuel -> good fst (fresh_auxs st n).
Proof.
  intros Hst. destruct n as [|n]; cbn [fresh_auxs]; [apply good_ok; exact Hst|].
  destruct st as [av|k| |]; cbn [rbind].
  - destruct (vars_history_distinct (repeat AUX_VAR_name (S n)) av) as [v' [outs [H _]]].
    rewrite H. cbn [rbind fst snd]. apply good_ok. cbn [fst]. discriminate.
  - apply good_raise.
  - apply good_oofrag.
  - contradiction.
Qed.

Lemma exline_term_good t st : st <> OutOfFuel -> good snd (exline_term t st).
Proof.
  intros Hst.
  destruct t; cbn [exline_term]; try (apply good_ok; exact Hst);
    (eapply good_bind; [apply fresh_aux_good; exact Hst|]; intros [st' uv] H; apply good_ok; exact H).
Qed.

Lemma exline_terms_good : forall ts st, st <> OutOfFuel -> good snd (exline_terms ts st).
Proof.
  induction ts as [|t ts IH]; intros st Hst; cbn [exline_terms]; [apply good_ok; exact Hst|].
  eapply good_bind; [apply exline_term_good; exact Hst|]. intros [[t' c1] st1] H1. cbn [snd] in H1.
  eapply good_bind; [apply IH; exact H1|]. intros [[r' c2] st2] H2. apply good_ok. exact H2.
Qed.

Lemma exline_literal_good l st : st <> OutOfFuel -> good snd (exline_literal l st).
Proof.
  intros Hst. destruct l as [sg a].
  destruct a as [t|t gs|b|lg f es rg|lg es rg|s]; cbn [exline_literal]; try (apply good_ok; exact Hst).
  destruct t; try (apply good_ok; exact Hst).
  destruct (has_pool_lit _); [apply good_ok; exact Hst|].
  eapply good_bind; [apply exline_terms_good; exact Hst|]. intros [[a' r'] st'] H. apply good_ok. exact H.
Qed.

Lemma exline_condition_good : forall cs st, st <> OutOfFuel -> good snd (exline_condition cs st).
Proof.
  induction cs as [|c cs IH]; intros st Hst; cbn [exline_condition]; [apply good_ok; exact Hst|].
  eapply good_bind; [apply exline_literal_good; exact Hst|]. intros [[c' body] st1] H1. cbn [snd] in H1.
  eapply good_bind; [apply IH; exact H1|]. intros [r' st2] H2. apply good_ok. exact H2.
Qed.

Lemma exline_body_good : forall b st, st <> OutOfFuel -> good snd (exline_body b st).
Proof.
  induction b as [|x b IH]; intros st Hst; cbn [exline_body]; [apply good_ok; exact Hst|].
  destruct x as [l|l c].
  - eapply good_bind; [apply exline_literal_good; exact Hst|]. intros [[l' body] st1] H1. cbn [snd] in H1.
    eapply good_bind; [apply IH; exact H1|]. intros [r' st2] H2. apply good_ok. exact H2.
  - eapply good_bind; [apply exline_condition_good; exact Hst|]. intros [c' st1] H1. cbn [snd] in H1.
    eapply good_bind; [apply IH; exact H1|]. intros [r' st2] H2. apply good_ok. exact H2.
Qed.

Lemma exline_minimize_terms_not_oof stm : exline_minimize_terms stm <> OutOfFuel.
Proof.
  destruct stm as [ln h b|ln w p ts b|n a p|t b|k t]; cbn [exline_minimize_terms]; try discriminate.
  eapply good_bind_not_oof; [apply exline_term_good; apply init_vars_not_oof|]. intros [[w' c1] uv1] H1.
  cbn [snd] in H1.
  eapply good_bind_not_oof; [apply exline_term_good; exact H1|]. intros [[p' c2] uv2] H2. cbn [snd] in H2.
  eapply good_bind_not_oof; [apply exline_terms_good; exact H2|]. intros [[ts' c3] uv3] H3. discriminate.
Qed.

Theorem exline_arithmetic_rule_no_outoffuel : forall stm, exline_arithmetic_rule stm <> OutOfFuel.
Proof.
  intros stm. unfold exline_arithmetic_rule.
  pose proof (init_vars_not_oof stm) as Hst. revert Hst. generalize (init_vars stm). intros st Hst.
  destruct stm as [ln h b|ln w p ts b|n a p|t b|k t]; try discriminate.
  - eapply (good_bind_not_oof snd).
    + destruct h as [l|es|lg es rg|lg f es rg|s]; try (apply good_ok; exact Hst).
      eapply good_bind; [apply exline_literal_good; exact Hst|]. intros [[l' body] st1] H1. apply good_ok. exact H1.
    + intros [[nh body] st1] H1. cbn [snd] in H1.
      eapply good_bind_not_oof; [apply exline_body_good; exact H1|]. intros [nb st2] _. discriminate.
  - apply tn_rbind_not_oof; [apply exline_minimize_terms_not_oof|]. intros stm' _.
    destruct stm' as [ln' h' b'|ln' w' p' ts' b'|n a p'|t b'|k t]; try discriminate.
    eapply good_bind_not_oof; [apply exline_body_good; exact Hst|]. intros [nb st2] _. discriminate.
Qed.

Theorem exline_arithmetic_no_outoffuel : forall prg, exline_arithmetic prg <> OutOfFuel.
Proof. intros prg. apply rmap_not_oof_all. apply exline_arithmetic_rule_no_outoffuel. Qed.

(* ====================================================================================== *)
(** * 5. preprocess never runs out of fuel *)

Lemma exline_interval_good e st : st <> OutOfFuel -> good snd (exline_interval e st).
Proof.
  intros Hst. unfold exline_interval. destruct e as [l cs].
  eapply good_bind; [apply fresh_auxs_good; exact Hst|]. intros [st' names] H. cbn [fst] in H.
  destruct (fill_lit is_interval l (map TVar names)) as [l' n1].
  destruct (fill_list (fill_lit is_interval) cs n1) as [cs' n2].
  apply good_ok. exact H.
Qed.

Lemma convert_old_elems_good : forall es k st, st <> OutOfFuel -> good snd (convert_old_elems es k st).
Proof.
  induction es as [|old_elem rest IH]; intros k st Hst; cbn [convert_old_elems]; [apply good_ok; exact Hst|].
  destruct old_elem as [[s0 atom0] cs]. cbn [fst snd].
  destruct (negb (forallb simple_lit_b cs)); [apply good_oofrag|].
  destruct atom0 as [t|t gs|b|lg f es rg|lg es rg|s]; try apply good_raise.
  - eapply good_bind; [apply exline_interval_good; exact Hst|]. intros [[[sg a'] cond] st1] H1. cbn [snd] in H1.
    eapply (good_bind snd).
    + destruct sg; try (apply good_ok; exact H1);
        (eapply good_bind; [apply fresh_auxs_good; exact H1|]; intros [st2 names] H2; apply good_ok; exact H2).
    + intros [nl st2] H2. cbn [snd] in H2.
      eapply good_bind; [apply IH; exact H2|]. intros [r st3] H3. apply good_ok. exact H3.
  - eapply good_bind; [apply exline_interval_good; exact Hst|]. intros [[[sg a'] cond] st1] H1. cbn [snd] in H1.
    eapply good_bind; [apply IH; exact H1|]. intros [r st3] H3. apply good_ok. exact H3.
  - eapply good_bind; [apply exline_interval_good; exact Hst|]. intros [[[sg a'] cond] st1] H1. cbn [snd] in H1.
    eapply good_bind; [apply IH; exact H1|]. intros [r st3] H3. apply good_ok. exact H3.
Qed.

Lemma convert_old_agg_good lg es rg st : st <> OutOfFuel -> good snd (convert_old_agg lg es rg st).
Proof.
  intros Hst. unfold convert_old_agg.
  eapply good_bind; [apply convert_old_elems_good; exact Hst|]. intros [ne st'] H. apply good_ok. exact H.
Qed.

Lemma replace_old_body_not_oof : forall body st, st <> OutOfFuel -> replace_old_body body st <> OutOfFuel.
Proof.
  induction body as [|blit rest IH]; intros st Hst; cbn [replace_old_body]; [discriminate|].
  assert (Hdef: forall (g: list bodyelem -> result (list bodyelem)),
             (forall r, g r <> OutOfFuel) -> rbind (replace_old_body rest st) g <> OutOfFuel).
  { intros g Hg. apply tn_rbind_not_oof; [apply IH; exact Hst|]. intros r _. apply Hg. }
  destruct blit as [[sg a]|l c]; [|apply Hdef; intros; discriminate].
  destruct a as [t|t gs|b|lg f es rg|lg es rg|s]; try (apply Hdef; intros; discriminate).
  - destruct f; apply Hdef; intros; discriminate.
  - eapply good_bind_not_oof; [apply convert_old_agg_good; exact Hst|]. intros [a st'] H. cbn [snd] in H.
    apply tn_rbind_not_oof; [apply IH; exact H|]. intros; discriminate.
Qed.

Lemma replace_old_aggregates_stm_not_oof stm : replace_old_aggregates_stm stm <> OutOfFuel.
Proof.
  destruct stm as [ln h b|ln w p ts b|n a p|t b|k t]; cbn [replace_old_aggregates_stm]; try discriminate;
    (apply tn_rbind_not_oof; [apply replace_old_body_not_oof; apply init_vars_not_oof | intros; discriminate]).
Qed.

Theorem replace_old_aggregates_no_outoffuel : forall prg, replace_old_aggregates prg <> OutOfFuel.
Proof. intros prg. apply rmap_not_oof_all. apply replace_old_aggregates_stm_not_oof. Qed.

Lemma remove_bounds_stm_not_oof stm : remove_bounds_stm stm <> OutOfFuel.
Proof.
  destruct stm as [ln h b|ln w p ts b|n a p|t b|k t]; cbn [remove_bounds_stm]; try discriminate.
  destruct (andb _ _); discriminate.
Qed.

Theorem remove_unecessary_bounds_no_outoffuel : forall prg, remove_unecessary_bounds prg <> OutOfFuel.
Proof. intros prg. apply rmap_not_oof_all. apply remove_bounds_stm_not_oof. Qed.

Lemma unpool_stmt_not_oof s : unpool_stmt s <> OutOfFuel.
Proof. unfold unpool_stmt. destruct (unpool_opaque s); discriminate. Qed.

Theorem unpool_prg_no_outoffuel : forall prg, unpool_prg prg <> OutOfFuel.
Proof.
  intros prg. unfold unpool_prg.
  apply tn_rbind_not_oof; [apply rmap_not_oof_all; apply unpool_stmt_not_oof | intros; discriminate].
Qed.

Theorem normalize_no_outoffuel : forall prg, normalize prg <> OutOfFuel.
Proof.
  intros prg. unfold normalize.
  apply tn_rbind_not_oof; [apply replace_old_aggregates_no_outoffuel|]. intros p1 _.
  apply tn_rbind_not_oof; [apply remove_unecessary_bounds_no_outoffuel|]. intros p2 _.
  apply unpool_prg_no_outoffuel.
Qed.

Theorem preprocess_no_outoffuel : forall prg, preprocess prg <> OutOfFuel.
Proof. exact normalize_no_outoffuel. Qed.

(* ====================================================================================== *)
(** * 6. exline_arithmetic is idempotent on its own output *)

Definition is_arith (t: term) : bool := match t with TBin _ _ _ | TUn _ _ => true | _ => false end.
Definition no_arith (ts: list term) : bool := forallb (fun t => negb (is_arith t)) ts.

(* "no arithmetic argument left": the literal is not a pool-free predicate literal, or none of its
   arguments is a binary / unary operation *)
Definition exlined_lit (l: lit) : bool :=
  match l with
  | Lit sg (ASym (TFun n args e)) => orb (has_pool_lit l) (no_arith args)
  | _ => true
  end.
Definition exlined_bodyelem (b: bodyelem) : bool :=
  match b with
  | BLit l => exlined_lit l
  | BCond _ c => forallb exlined_lit c        (* the literal of a conditional literal is never touched *)
  end.
Definition exlined_stmt (s: stmt) : bool :=
  match s with
  | SRule _ h b => andb (match h with HLit l => exlined_lit l | _ => true end) (forallb exlined_bodyelem b)
  | SMin _ w p ts b =>
      andb (negb (is_arith w)) (andb (negb (is_arith p)) (andb (no_arith ts) (forallb exlined_bodyelem b)))
  | _ => true
  end.

Lemma exlined_assign uv t : exlined_lit (assign uv t) = true.
Proof. reflexivity. Qed.

(* ---- (a) what one round produces ---- *)
Lemma exline_term_out t st t' c st' :
  exline_term t st = Ok (t', c, st') -> is_arith t' = false /\ forallb exlined_lit c = true.
Proof.
  intros H.
  destruct t; cbn [exline_term] in H;
    try (injection H as <- <- _; split; reflexivity);
    (destruct (fresh_aux st) as [[st1 uv]|k| |]; cbn [rbind] in H; try discriminate;
     injection H as <- <- _; split; reflexivity).
Qed.

Lemma exline_terms_out : forall ts st ts' c st',
  exline_terms ts st = Ok (ts', c, st') -> no_arith ts' = true /\ forallb exlined_lit c = true.
Proof.
  induction ts as [|t ts IH]; intros st ts' c st' H; cbn [exline_terms] in H.
  - injection H as <- <- _. split; reflexivity.
  - destruct (exline_term t st) as [[[t1 c1] st1]|k| |] eqn:E1; cbn [rbind] in H; try discriminate.
    destruct (exline_terms ts st1) as [[[r1 c2] st2]|k| |] eqn:E2; cbn [rbind] in H; try discriminate.
    injection H as <- <- _.
    apply exline_term_out in E1. destruct E1 as [A1 B1].
    apply IH in E2. destruct E2 as [A2 B2].
    split.
    + unfold no_arith in *. cbn [forallb]. rewrite A1, A2. reflexivity.
    + rewrite forallb_app, B1, B2. reflexivity.
Qed.

Lemma exline_literal_out l st l' body st' :
  exline_literal l st = Ok (l', body, st') -> exlined_lit l' = true /\ forallb exlined_lit body = true.
Proof.
  intros H. destruct l as [sg a].
  destruct a as [t|t gs|b|lg f es rg|lg es rg|s]; cbn [exline_literal] in H;
    try (injection H as <- <- _; split; reflexivity).
  destruct t as [x|s|o t|o l r|l r|n args e|alts]; try (injection H as <- <- _; split; reflexivity).
  destruct (has_pool_lit (Lit sg (ASym (TFun n args e)))) eqn:Hp.
  - injection H as <- <- _. split; [|reflexivity]. cbn [exlined_lit]. rewrite Hp. reflexivity.
  - destruct (exline_terms args st) as [[[args' ret] st1]|k| |] eqn:E; cbn [rbind] in H; try discriminate.
    injection H as <- <- _. apply exline_terms_out in E. destruct E as [A B].
    split; [|exact B]. cbn [exlined_lit]. rewrite A. apply orb_true_r.
Qed.

Lemma exline_condition_out : forall cs st cs' st',
  exline_condition cs st = Ok (cs', st') -> forallb exlined_lit cs' = true.
Proof.
  induction cs as [|c cs IH]; intros st cs' st' H; cbn [exline_condition] in H.
  - injection H as <- _. reflexivity.
  - destruct (exline_literal c st) as [[[c1 body] st1]|k| |] eqn:E1; cbn [rbind] in H; try discriminate.
    destruct (exline_condition cs st1) as [[r1 st2]|k| |] eqn:E2; cbn [rbind] in H; try discriminate.
    injection H as <- _. apply exline_literal_out in E1. destruct E1 as [A1 B1]. apply IH in E2.
    cbn [forallb]. rewrite A1, forallb_app, B1, E2. reflexivity.
Qed.

Lemma forallb_map_BLit ls : forallb exlined_bodyelem (map BLit ls) = forallb exlined_lit ls.
Proof. induction ls as [|l ls IH]; cbn [map forallb exlined_bodyelem]; [reflexivity | rewrite IH; reflexivity]. Qed.

Lemma exline_body_out : forall b st b' st',
  exline_body b st = Ok (b', st') -> forallb exlined_bodyelem b' = true.
Proof.
  induction b as [|x b IH]; intros st b' st' H; cbn [exline_body] in H.
  - injection H as <- _. reflexivity.
  - destruct x as [l|l c].
    + destruct (exline_literal l st) as [[[l1 body] st1]|k| |] eqn:E1; cbn [rbind] in H; try discriminate.
      destruct (exline_body b st1) as [[r1 st2]|k| |] eqn:E2; cbn [rbind] in H; try discriminate.
      injection H as <- _. apply exline_literal_out in E1. destruct E1 as [A1 B1]. apply IH in E2.
      cbn [forallb exlined_bodyelem]. rewrite A1, forallb_app, forallb_map_BLit, B1, E2. reflexivity.
    + destruct (exline_condition c st) as [[c1 st1]|k| |] eqn:E1; cbn [rbind] in H; try discriminate.
      destruct (exline_body b st1) as [[r1 st2]|k| |] eqn:E2; cbn [rbind] in H; try discriminate.
      injection H as <- _. apply exline_condition_out in E1. apply IH in E2.
      cbn [forallb exlined_bodyelem]. rewrite E1, E2. reflexivity.
Qed.

Theorem exline_arithmetic_rule_exlined : forall stm stm',
  exline_arithmetic_rule stm = Ok stm' -> exlined_stmt stm' = true.
Proof.
  intros stm stm' H. unfold exline_arithmetic_rule in H.
  revert H. generalize (init_vars stm). intros st H.
  destruct stm as [ln h b|ln w p ts b|n a p|t b|k t]; try (injection H as <-; reflexivity).
  - match type of H with rbind ?hd _ = _ => destruct hd as [[[nh body] st1]|k| |] eqn:Eh end;
      cbn [rbind] in H; try discriminate.
    destruct (exline_body (b ++ map BLit body) st1) as [[nb st2]|k| |] eqn:Eb; cbn [rbind] in H; try discriminate.
    injection H as <-. apply exline_body_out in Eb. cbn [exlined_stmt]. rewrite Eb, andb_true_r.
    destruct h as [l|es|lg es rg|lg f es rg|s]; try (injection Eh as <- _ _; reflexivity).
    destruct (exline_literal l st) as [[[l1 bd] st3]|k| |] eqn:El; cbn [rbind] in Eh; try discriminate.
    injection Eh as <- _ _. apply exline_literal_out in El. apply El.
  - cbn [exline_minimize_terms] in H.
    destruct (exline_term w (init_vars (SMin ln w p ts b))) as [[[w' c1] uv1]|k| |] eqn:Ew;
      cbn [rbind] in H; try discriminate.
    destruct (exline_term p uv1) as [[[p' c2] uv2]|k| |] eqn:Ep; cbn [rbind] in H; try discriminate.
    destruct (exline_terms ts uv2) as [[[ts' c3] uv3]|k| |] eqn:Et; cbn [rbind] in H; try discriminate.
    match type of H with rbind (exline_body ?bb st) _ = _ =>
      destruct (exline_body bb st) as [[nb st2]|k| |] eqn:Eb end; cbn [rbind] in H; try discriminate.
    injection H as <-. apply exline_body_out in Eb.
    apply exline_term_out in Ew. apply exline_term_out in Ep. apply exline_terms_out in Et.
    destruct Ew as [Ew _], Ep as [Ep _], Et as [Et _].
    cbn [exlined_stmt]. rewrite Ew, Ep, Et, Eb. reflexivity.
Qed.

(* ---- (b) a round on an exlined statement changes nothing, whatever the uvstate ---- *)
Lemma exline_term_fix t st : is_arith t = false -> exline_term t st = Ok (t, [], st).
Proof. intros H. destruct t; cbn [is_arith] in H; try discriminate; reflexivity. Qed.

Lemma exline_terms_fix : forall ts st, no_arith ts = true -> exline_terms ts st = Ok (ts, [], st).
Proof.
  induction ts as [|t ts IH]; intros st H; cbn [exline_terms]; [reflexivity|].
  unfold no_arith in H. cbn [forallb] in H. apply andb_true_iff in H. destruct H as [H1 H2].
  apply negb_true_iff in H1. rewrite (exline_term_fix t st H1). cbn [rbind].
  rewrite (IH st H2). reflexivity.
Qed.

Lemma exline_literal_fix l st : exlined_lit l = true -> exline_literal l st = Ok (l, [], st).
Proof.
  intros H. destruct l as [sg a].
  destruct a as [t|t gs|b|lg f es rg|lg es rg|s]; try reflexivity.
  destruct t as [x|s|o t|o l r|l r|n args e|alts]; try reflexivity.
  cbn [exline_literal]. cbn [exlined_lit] in H.
  destruct (has_pool_lit (Lit sg (ASym (TFun n args e)))); [reflexivity|].
  cbn [orb] in H. rewrite (exline_terms_fix args st H). reflexivity.
Qed.

Lemma exline_condition_fix : forall cs st, forallb exlined_lit cs = true -> exline_condition cs st = Ok (cs, st).
Proof.
  induction cs as [|c cs IH]; intros st H; cbn [exline_condition]; [reflexivity|].
  cbn [forallb] in H. apply andb_true_iff in H. destruct H as [H1 H2].
  rewrite (exline_literal_fix c st H1). cbn [rbind]. rewrite (IH st H2). reflexivity.
Qed.

Lemma exline_body_fix : forall b st, forallb exlined_bodyelem b = true -> exline_body b st = Ok (b, st).
Proof.
  induction b as [|x b IH]; intros st H; cbn [exline_body]; [reflexivity|].
  cbn [forallb] in H. apply andb_true_iff in H. destruct H as [H1 H2].
  destruct x as [l|l c]; cbn [exlined_bodyelem] in H1.
  - rewrite (exline_literal_fix l st H1). cbn [rbind]. rewrite (IH st H2). reflexivity.
  - rewrite (exline_condition_fix c st H1). cbn [rbind]. rewrite (IH st H2). reflexivity.
Qed.

Theorem exline_arithmetic_rule_fix : forall stm, exlined_stmt stm = true -> exline_arithmetic_rule stm = Ok stm.
Proof.
  intros stm H. unfold exline_arithmetic_rule.
  destruct stm as [ln h b|ln w p ts b|n a p|t b|k t]; try reflexivity.
  - cbn [exlined_stmt] in H. apply andb_true_iff in H. destruct H as [Hh Hb].
    destruct h as [l|es|lg es rg|lg f es rg|s]; cbn [rbind];
      try (cbn [map]; rewrite app_nil_r, (exline_body_fix b _ Hb); reflexivity).
    rewrite (exline_literal_fix l _ Hh). cbn [rbind map]. rewrite app_nil_r, (exline_body_fix b _ Hb). reflexivity.
  - cbn [exlined_stmt] in H.
    apply andb_true_iff in H. destruct H as [Hw H]. apply andb_true_iff in H. destruct H as [Hp H].
    apply andb_true_iff in H. destruct H as [Ht Hb].
    apply negb_true_iff in Hw. apply negb_true_iff in Hp.
    cbn [exline_minimize_terms].
    rewrite (exline_term_fix w _ Hw). cbn [rbind].
    rewrite (exline_term_fix p _ Hp). cbn [rbind].
    rewrite (exline_terms_fix ts _ Ht). cbn [rbind map]. rewrite !app_nil_r.
    rewrite (exline_body_fix b _ Hb). reflexivity.
Qed.

Theorem exline_arithmetic_rule_idempotent : forall stm stm',
  exline_arithmetic_rule stm = Ok stm' -> exline_arithmetic_rule stm' = Ok stm'.
Proof. intros stm stm' H. apply exline_arithmetic_rule_fix. eapply exline_arithmetic_rule_exlined. exact H. Qed.

Lemma rmap_Ok_inv {A B} (f: A -> result B) : forall l r, rmap f l = Ok r -> Forall2 (fun x y => f x = Ok y) l r.
Proof.
  induction l as [|a l IH]; cbn [rmap]; intros r E.
  - injection E as <-. constructor.
  - destruct (f a) as [y| | |] eqn:Fa; cbn [rbind] in E; try discriminate.
    destruct (rmap f l) as [ys| | |] eqn:Fl; cbn [rbind] in E; try discriminate.
    injection E as <-. constructor; [exact Fa | apply IH; reflexivity].
Qed.

Theorem exline_arithmetic_idempotent : forall prg prg',
  exline_arithmetic prg = Ok prg' -> exline_arithmetic prg' = Ok prg'.
Proof.
  intros prg prg' H. unfold exline_arithmetic in *. apply rmap_Ok_inv in H.
  induction H as [|x y l r Hxy _ IH]; [reflexivity|].
  cbn [rmap]. rewrite (exline_arithmetic_rule_idempotent x y Hxy). cbn [rbind]. rewrite IH. reflexivity.
Qed.

(* ====================================================================================== *)
(** * 7. the `while True` exline loop of ngo.api.optimize stops after at most two rounds *)

Lemma condlit_eqb_refl (c: condlit) : condlit_eqb c c = true.
Proof.
  unfold condlit_eqb. rewrite CleanupSpec.lit_eqb_refl.
  rewrite (CleanupSpec.list_eqb_refl_all lit_eqb CleanupSpec.lit_eqb_refl). reflexivity.
Qed.
Lemma helem_eqb_refl (e: helem) : helem_eqb e e = true.
Proof.
  unfold helem_eqb. rewrite (CleanupSpec.list_eqb_refl_all term_eqb CleanupSpec.term_eqb_refl).
  rewrite condlit_eqb_refl. reflexivity.
Qed.
Lemma aggfun_eqb_refl f : aggfun_eqb f f = true.
Proof. destruct f; reflexivity. Qed.
Lemma head_eqb_refl (h: head) : head_eqb h h = true.
Proof.
  destruct h as [l|es|lg es rg|lg f es rg|s]; cbn [head_eqb].
  - apply CleanupSpec.lit_eqb_refl.
  - apply CleanupSpec.list_eqb_refl_all. apply condlit_eqb_refl.
  - rewrite !CleanupSpec.oguard_eqb_refl, (CleanupSpec.list_eqb_refl_all condlit_eqb condlit_eqb_refl). reflexivity.
  - rewrite !CleanupSpec.oguard_eqb_refl, aggfun_eqb_refl,
      (CleanupSpec.list_eqb_refl_all helem_eqb helem_eqb_refl). reflexivity.
  - apply String.eqb_refl.
Qed.
Lemma body_eqb_refl (b: list bodyelem) : list_eqb bodyelem_eqb b b = true.
Proof. apply CleanupSpec.list_eqb_refl_all. apply CleanupSpec.bodyelem_eqb_refl. Qed.

Lemma stmt_eqb_refl (s: stmt) : stmt_eqb s s = true.
Proof.
  destruct s as [ln h b|ln w p ts b|n a p|t b|k t]; cbn [stmt_eqb].
  - rewrite head_eqb_refl, body_eqb_refl. reflexivity.
  - rewrite !CleanupSpec.term_eqb_refl, body_eqb_refl,
      (CleanupSpec.list_eqb_refl_all term_eqb CleanupSpec.term_eqb_refl). reflexivity.
  - rewrite String.eqb_refl, Nat.eqb_refl. destruct p; reflexivity.
  - rewrite CleanupSpec.term_eqb_refl, body_eqb_refl. reflexivity.
  - rewrite !String.eqb_refl. reflexivity.
Qed.

Lemma prg_eqb_refl (prg: list stmt) : list_eqb stmt_eqb prg prg = true.
Proof. apply CleanupSpec.list_eqb_refl_all. apply stmt_eqb_refl. Qed.

(* on a fixpoint of exline_arithmetic one round of the loop is enough *)
Lemma exline_loop_fixpoint fuel prg :
  exline_arithmetic prg = Ok prg -> exline_loop (S fuel) prg = Ok prg.
Proof. intros H. cbn [exline_loop]. rewrite H. cbn [rbind]. rewrite prg_eqb_refl. reflexivity. Qed.

(* the loop returns after at most two rounds: its result is the result of the first round *)
Theorem exline_loop_two_rounds : forall fuel prg,
  2 <= fuel -> exline_loop fuel prg = exline_arithmetic prg.
Proof.
  intros fuel prg Hf. destruct fuel as [|[|fuel]]; try lia.
  cbn [exline_loop].
  destruct (exline_arithmetic prg) as [new|k| |] eqn:E; try reflexivity.
  change (rbind (Ok new) ?f) with (f new). cbv beta.
  destruct (list_eqb stmt_eqb new prg); [reflexivity|].
  apply (exline_loop_fixpoint fuel new). apply (exline_arithmetic_idempotent prg new E).
Qed.

Theorem exline_loop_no_outoffuel : forall fuel prg, 2 <= fuel -> exline_loop fuel prg <> OutOfFuel.
Proof. intros fuel prg Hf. rewrite (exline_loop_two_rounds fuel prg Hf). apply exline_arithmetic_no_outoffuel. Qed.

Section BindingTotal2.
  Hypothesis gvars_nofuel : forall b, Binding.global_vars_inside_body b <> OutOfFuel.

  Theorem optimize_none_fuel_no_outoffuel : forall fuel prg, 2 <= fuel -> optimize_none_fuel fuel prg <> OutOfFuel.
  Proof.
    intros fuel prg Hf. unfold optimize_none_fuel.
    apply tn_rbind_not_oof; [apply preprocess_no_outoffuel|]. intros input_ _.
    apply tn_rbind_not_oof; [apply exline_loop_no_outoffuel; exact Hf|]. intros p _.
    apply postprocess_no_outoffuel. exact gvars_nofuel.
  Qed.

  Theorem optimize_none_no_outoffuel : forall prg, optimize_none prg <> OutOfFuel.
  Proof. intros prg. unfold optimize_none. apply optimize_none_fuel_no_outoffuel. lia. Qed.
End BindingTotal2.

(* one round is not always enough (the loop needs its second round to notice the fixpoint):
   p(X+1).  ->  p(AUX) :- AUX = X+1. *)
Example exline_loop_fuel_1_insufficient :
  exline_loop 1 [SRule 1 (HLit (Lit NoSign (ASym (TFun "p" [TBin BPlus (TVar "X") (TSym (SNum 1))] false)))) []]
  = OutOfFuel.
Proof. vm_compute. reflexivity. Qed.

Print Assumptions inline_rule_no_outoffuel.
Print Assumptions inline_aggregate_no_outoffuel.
Print Assumptions inline_conditional_no_outoffuel.
Print Assumptions inline_aggregates_with_no_outoffuel.
Print Assumptions inline_conditionals_with_no_outoffuel.
Print Assumptions inline_arithmetic_no_outoffuel.
Print Assumptions postprocess_no_outoffuel.
Print Assumptions exline_arithmetic_no_outoffuel.
Print Assumptions preprocess_no_outoffuel.
Print Assumptions exline_arithmetic_rule_exlined.
Print Assumptions exline_arithmetic_rule_fix.
Print Assumptions exline_arithmetic_idempotent.
Print Assumptions exline_loop_two_rounds.
Print Assumptions exline_loop_no_outoffuel.
Print Assumptions optimize_none_fuel_no_outoffuel.
Print Assumptions optimize_none_no_outoffuel.
