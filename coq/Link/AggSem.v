(* G7 (part): aggregate algebra on tuple sets and its link to the non-ground semantics:
   #count { t : c } = #sum+ { 1,t : c }  (normalize._convert_count_to_sum, C05). *)
From Coq Require Import List String ZArith Bool Lia.
From NGO Require Import Syntax.Ast Sem.Sym Sem.Sat Model.NormalizeCore.
Import ListNotations.
Open Scope list_scope.

Section AggSem.
Variable sym_lt : sym -> sym -> Prop.
Notation lit_sat := (lit_sat sym_lt).
Notation atom_sat := (atom_sat sym_lt).
Notation agg_holds := (agg_holds sym_lt).
Notation agg_value := (agg_value sym_lt).

(* the tuple set of a body aggregate's elements, as used inside atom_sat *)
Definition elems_tuples (G: list string) (X T: interp) (s: subst) (es: list belem) : tupset := fun tv =>
  (fix ex_elem (es: list (list term * list lit)) : Prop :=
     match es with
     | [] => False
     | e :: es' =>
         (exists th, agree_on G s th /\ eval_list th (fst e) = Some tv /\
            (fix all (cs: list lit) : Prop :=
               match cs with [] => True | c :: cs' => lit_sat G X T th c /\ all cs' end) (snd e))
         \/ ex_elem es'
     end) es.

Lemma atom_sat_bodyagg G H T s sg lg f es rg :
  atom_sat G H T s sg (ABodyAgg lg f es rg) =
  apply_sign sg (agg_holds s lg f rg (elems_tuples G H T s es) /\ agg_holds s lg f rg (elems_tuples G T T s es))
                (agg_holds s lg f rg (elems_tuples G T T s es)).
Proof. reflexivity. Qed.

Definition tup_eq (S S': tupset) := forall tv, S tv <-> S' tv.

Lemma enumerates_ext S S' l : tup_eq S S' -> (enumerates S l <-> enumerates S' l).
Proof.
  intros E. unfold enumerates. split; intros [ND M]; (split; [exact ND|]); intro tv; rewrite (M tv); [apply E | symmetry; apply E].
Qed.

Lemma tup_eq_sym S S' : tup_eq S S' -> tup_eq S' S.
Proof. intros E tv. symmetry. apply E. Qed.

Lemma agg_value_ext_1 f S S' v : tup_eq S S' -> agg_value f S v -> agg_value f S' v.
Proof.
  intros E. destruct f; simpl.
  - intros [l [En V]]. exists l. split; [apply (proj1 (enumerates_ext S S' l E)); exact En | exact V].
  - intros [l [En V]]. exists l. split; [apply (proj1 (enumerates_ext S S' l E)); exact En | exact V].
  - intros [l [En V]]. exists l. split; [apply (proj1 (enumerates_ext S S' l E)); exact En | exact V].
  - unfold is_min. intros [[[tv [Stv Hd]] Mn]|[Emp V]].
    + left. split; [exists tv; split; [apply (proj1 (E tv)); exact Stv | exact Hd]|].
      intros tv' w Stv'. apply Mn. apply (proj2 (E tv')). exact Stv'.
    + right. split; [|exact V]. intros tv Stv. apply (Emp tv). apply (proj2 (E tv)). exact Stv.
  - unfold is_max. intros [[[tv [Stv Hd]] Mn]|[Emp V]].
    + left. split; [exists tv; split; [apply (proj1 (E tv)); exact Stv | exact Hd]|].
      intros tv' w Stv'. apply Mn. apply (proj2 (E tv')). exact Stv'.
    + right. split; [|exact V]. intros tv Stv. apply (Emp tv). apply (proj2 (E tv)). exact Stv.
Qed.

Lemma agg_value_ext f S S' v : tup_eq S S' -> (agg_value f S v <-> agg_value f S' v).
Proof. intro E. split; apply agg_value_ext_1; [exact E | apply tup_eq_sym; exact E]. Qed.

Lemma agg_holds_ext s lg f rg S S' : tup_eq S S' -> (agg_holds s lg f rg S <-> agg_holds s lg f rg S').
Proof.
  intros E. unfold Sat.agg_holds. split; intros [v [V G]]; exists v; (split; [|exact G]); apply (agg_value_ext f S S' v E); exact V.
Qed.

(* ---- prepending the weight 1 ---- *)
Definition prep1 (S: tupset) : tupset := fun tv => exists tv0, tv = SNum 1 :: tv0 /\ S tv0.

Lemma sumplus_map_cons1 l : sumplus_of (map (cons (SNum 1)) l) = Z.of_nat (List.length l).
Proof.
  induction l as [|a l IH]; [reflexivity|].
  change (sumplus_of (map (cons (SNum 1)) (a :: l))) with (Z.max 0 1 + sumplus_of (map (cons (SNum 1)) l))%Z.
  rewrite IH. change (List.length (a :: l)) with (S (List.length l)). rewrite Nat2Z.inj_succ.
  change (Z.max 0 1) with 1%Z. lia.
Qed.

Lemma NoDup_map_cons1 (l: list (list sym)) : NoDup l -> NoDup (map (cons (SNum 1)) l).
Proof.
  induction 1 as [|a l N ND IH]; simpl; constructor; [|exact IH].
  intro Hin. apply in_map_iff in Hin. destruct Hin as [b [Eb Hb]]. injection Eb as ->. exact (N Hb).
Qed.

Lemma enumerates_prep1 S l : enumerates S l -> enumerates (prep1 S) (map (cons (SNum 1)) l).
Proof.
  intros [ND M]. split; [apply NoDup_map_cons1; exact ND|].
  intro tv. split.
  - intro Hin. apply in_map_iff in Hin. destruct Hin as [tv0 [<- H0]]. exists tv0. split; [reflexivity | apply M; exact H0].
  - intros [tv0 [-> S0]]. apply in_map. apply M. exact S0.
Qed.

Lemma enumerates_prep1_inv S l' : enumerates (prep1 S) l' -> exists l, l' = map (cons (SNum 1)) l /\ enumerates S l.
Proof.
  intros [ND M]. exists (map (@tl sym) l').
  assert (Hd: forall tv, In tv l' -> tv = SNum 1 :: tl tv).
  { intros tv Hin. apply M in Hin. destruct Hin as [tv0 [-> _]]. reflexivity. }
  assert (E: l' = map (cons (SNum 1)) (map (@tl sym) l')).
  { clear ND M. induction l' as [|a l' IH]; simpl; [reflexivity|]. f_equal; [apply Hd; left; reflexivity|].
    apply IH. intros tv Hin. apply Hd. right. exact Hin. }
  split; [exact E|]. split.
  - clear M E. induction ND as [|a l' N ND IH]; simpl; constructor.
    + intro Hin. apply in_map_iff in Hin. destruct Hin as [b [Eb Hb]]. apply N.
      rewrite (Hd a (or_introl eq_refl)). rewrite <- Eb. rewrite <- (Hd b (or_intror Hb)). exact Hb.
    + apply IH. intros tv Hin. apply Hd. right. exact Hin.
  - intro tv0. split.
    + intro Hin. apply in_map_iff in Hin. destruct Hin as [tv [<- Htv]]. apply M in Htv.
      destruct Htv as [tv1 [-> S1]]. exact S1.
    + intro S0. apply in_map_iff. exists (SNum 1 :: tv0). split; [reflexivity|]. apply M. exists tv0. split; [reflexivity | exact S0].
Qed.

Theorem count_is_sumplus_of_ones S v : agg_value FCount S v <-> agg_value FSumPlus (prep1 S) v.
Proof.
  simpl. split.
  - intros [l [En V]]. exists (map (cons (SNum 1)) l). split; [apply enumerates_prep1; exact En|].
    rewrite sumplus_map_cons1. exact V.
  - intros [l' [En V]]. destruct (enumerates_prep1_inv S l' En) as [l [-> En']]. exists l. split; [exact En'|].
    rewrite sumplus_map_cons1 in V. exact V.
Qed.

(* the tuple set of the converted elements is prep1 of the original one *)
Lemma convert_count_tuples G X T s es :
  tup_eq (elems_tuples G X T s (convert_count_elems es)) (prep1 (elems_tuples G X T s es)).
Proof.
  intro tv. unfold prep1, elems_tuples, convert_count_elems. induction es as [|e es IH]; simpl.
  - split; [intros [] | intros [tv0 [_ []]]].
  - split.
    + intros [[th [A [Ev C]]]|R].
      * destruct (eval_list th (fst e)) as [vs|] eqn:Ee; [|discriminate]. injection Ev as <-.
        exists vs. split; [reflexivity|]. left. exists th. split; [exact A|]. split; [exact Ee | exact C].
      * destruct (proj1 IH R) as [tv0 [-> R0]]. exists tv0. split; [reflexivity | right; exact R0].
    + intros [tv0 [-> [[th [A [Ev C]]]|R]]].
      * left. exists th. split; [exact A|]. split; [rewrite Ev; reflexivity | exact C].
      * right. apply (proj2 IH). exists tv0. split; [reflexivity | exact R].
Qed.

Theorem count_to_sumplus_proof : forall G H T s sg lg es rg,
  atom_sat G H T s sg (ABodyAgg lg FCount es rg) <->
  atom_sat G H T s sg (ABodyAgg lg FSumPlus (convert_count_elems es) rg).
Proof.
  intros G H T s sg lg es rg. rewrite !atom_sat_bodyagg.
  assert (K: forall X, agg_holds s lg FCount rg (elems_tuples G X T s es) <->
                       agg_holds s lg FSumPlus rg (elems_tuples G X T s (convert_count_elems es))).
  { intro X. rewrite (agg_holds_ext s lg FSumPlus rg _ _ (convert_count_tuples G X T s es)).
    unfold Sat.agg_holds. split; intros [v [V Gd]]; exists v; (split; [|exact Gd]); apply count_is_sumplus_of_ones; exact V. }
  destruct sg; simpl; rewrite (K H), (K T) || rewrite (K T); tauto.
Qed.
End AggSem.
