(* The "mapping_meaning" link: the executable model of ngo/cleanup.py (Model/Cleanup.v) tied to the HT semantics
   (Sem/Sat.v) through the ground bridge (Link/Ground.v) and the cleanup meta-theorem (Meta/Cleanup.v).

   Main results (inside [Section CleanupSem], for an arbitrary order [sym_lt] on symbols):
     1. create_mappings_meaning(_frag)   every mapping of _compute_local_superseed p rule has head predicate p, is well
                                         formed and holds in every ground instance of its own rule
     2. find_superseeded_direct_meaning  every mapping of the intersection part of _find_superseeded ([direct_superseeds],
                                         the set handed to transitive_closure) satisfies [mapping_holds] (= impn 0),
                                         for every instance over the input predicates
     3. transitive_closure_meaning       the closure preserves [mapping_ok] (step-indexed [imp])
        find_superseeded_meaning         = 2 + 3 for the value returned by _find_superseeded inputs [] prg
     4. superseeded_meaning              _superseeded ss lhs rhs = Ok true: the ground literal of rhs is a copy of /
                                         the double negation of / implied by the ground atom of lhs
        remove_superseed_body_ok         a whole run of _remove_superseed_from_list on a body: every deleted ground
                                         literal stays justified by a KEPT positive atom (chains of removals)
        cleanup_nonground_del_nn         Ground.cleanup_nonground_del extended to deleted double negations
     5. execute_core_sound               frag_prog prg = true -> execute_core inputs prg = Ok prg' ->
                                         forall I, facts_over (in_inputs inputs) I -> forall T, stable prg I T <-> stable prg' I T

   Fragment of 5 ([frag_prog], boolean): heads = plain atom / constant / safe bound-free choice over condition-free
   atoms whose elements of one predicate have equal arguments; bodies = plain literals (symbolic atoms of any sign,
   comparisons), no conditional literal, no aggregate, no #true/#false, no argument "_".
   Axiom used: Classical_Prop.classic (through Link/Ground.v and Meta/Cleanup.v only). *)
From Coq Require Import List String ZArith Bool Arith Lia.
From NGO Require Import Syntax.Ast Sem.Sym Sem.Sat Model.Traverse Model.Cleanup.
From NGO Require Meta.Cleanup.
From NGO Require Import Link.Ground Link.CleanupSpec.
Import ListNotations.
Open Scope string_scope. Open Scope list_scope.

(* ================================================================================================ *)
(** * 0. Generic facts about the step-indexed implication of Meta/Cleanup.v *)
Section ImpGeneric.
Variables (atom F: Type) (pos: atom -> F).
Notation impn := (Meta.Cleanup.impn atom F pos).
Notation imp := (Meta.Cleanup.imp atom F pos).
Notation head_atom := (Meta.Cleanup.head_atom atom).
Notation hd := (Meta.Cleanup.hd atom F).
Notation bd := (Meta.Cleanup.bd atom F).

Lemma impn_0 P p l : impn P 0 p l <-> forall r, P r -> head_atom (hd r) p -> In l (bd r).
Proof. reflexivity. Qed.
Lemma impn_succ P n p l :
  impn P (S n) p l <->
  forall r, P r -> head_atom (hd r) p -> In l (bd r) \/ exists q, In (pos q) (bd r) /\ impn P n q l.
Proof. reflexivity. Qed.

Lemma impn_S P n : forall p l, impn P n p l -> impn P (S n) p l.
Proof.
  induction n as [|n IH]; intros p l H.
  - rewrite impn_succ. intros r Pr Ha. left. exact (H r Pr Ha).
  - rewrite impn_succ in H. rewrite impn_succ. intros r Pr Ha.
    destruct (H r Pr Ha) as [Hin|[q [Hq Hi]]]; [left; exact Hin|]. right. exists q. split; [exact Hq|]. apply IH. exact Hi.
Qed.

Lemma impn_le P n m p l : n <= m -> impn P n p l -> impn P m p l.
Proof. induction 1 as [|m _ IH]; intros H; [exact H|]. apply impn_S. apply IH. exact H. Qed.

Lemma impn_trans P q l n2 : impn P n2 q l -> forall n1 p, impn P n1 p (pos q) -> impn P (S (n1 + n2)) p l.
Proof.
  intros H2. induction n1 as [|k IH]; intros p H1.
  - rewrite impn_succ. intros r Pr Ha. right. exists q. split; [exact (H1 r Pr Ha) | exact H2].
  - rewrite impn_succ in H1. rewrite impn_succ. intros r Pr Ha.
    destruct (H1 r Pr Ha) as [Hin|[q' [Hq' Hi]]]; right.
    + exists q. split; [exact Hin|]. apply (impn_le P n2); [lia | exact H2].
    + exists q'. split; [exact Hq'|]. apply (IH q' Hi).
Qed.

Lemma imp_of_impn P n p l : impn P n p l -> imp P p l.
Proof. intros H. exists n. exact H. Qed.

(* composition through a POSITIVE intermediate atom *)
Lemma imp_trans P p q l : imp P p (pos q) -> imp P q l -> imp P p l.
Proof. intros [n1 H1] [n2 H2]. exists (S (n1 + n2)). apply (impn_trans P q l n2 H2 n1 p H1). Qed.
End ImpGeneric.

(* ================================================================================================ *)
(** * 1. Selecting values at mapped positions; evaluation of argument lists *)

(* the values of vs at the positions vm (the default is never used for well-formed mappings) *)
Definition select (vm: list nat) (vs: list sym) : list sym := map (fun i => nth i vs SInf) vm.

Lemma select_length vm vs : List.length (select vm vs) = List.length vm.
Proof. apply map_length. Qed.

Lemma nth_error_map_nth {A B} (f: A -> B) (d: B) : forall l n x, nth_error l n = Some x -> nth n (map f l) d = f x.
Proof.
  induction l as [|y l IH]; intros [|n] x E; simpl in *; try discriminate.
  - inversion E. reflexivity.
  - apply IH. exact E.
Qed.
Lemma nth_error_nth' {A} (d: A) : forall l n x, nth_error l n = Some x -> nth n l d = x.
Proof.
  induction l as [|y l IH]; intros [|n] x E; simpl in *; try discriminate.
  - inversion E. reflexivity.
  - apply IH. exact E.
Qed.

(* qargs picks its members from hargs at the positions vm *)
Definition picks (hargs qargs: list term) (vm: list nat) : Prop :=
  Forall2 (fun t i => nth_error hargs i = Some t) qargs vm.

Lemma picks_length hargs qargs vm : picks hargs qargs vm -> List.length vm = List.length qargs.
Proof. induction 1; simpl; congruence. Qed.

Lemma eval_list_length s : forall ts vs, eval_list s ts = Some vs -> List.length vs = List.length ts.
Proof.
  induction ts as [|t ts IH]; intros vs E; simpl in E.
  - inversion E. reflexivity.
  - destruct (eval s t); [|discriminate]. destruct (eval_list s ts) as [ws|]; [|discriminate].
    inversion E. simpl. f_equal. apply IH. reflexivity.
Qed.

Lemma eval_list_nth s : forall ts vs i t, eval_list s ts = Some vs -> nth_error ts i = Some t ->
  exists v, eval s t = Some v /\ nth_error vs i = Some v.
Proof.
  induction ts as [|u ts IH]; intros vs i t E N.
  - destruct i; discriminate.
  - simpl in E. destruct (eval s u) as [v|] eqn:Eu; [|discriminate].
    destruct (eval_list s ts) as [ws|] eqn:Ets; [|discriminate]. inversion E; subst.
    destruct i as [|i]; simpl in N.
    + inversion N; subst. exists v. split; [exact Eu | reflexivity].
    + apply (IH ws i t eq_refl N).
Qed.

(* the key fact: literal arguments that are syntactically among the head arguments evaluate to the
   selected head values; in particular they are defined whenever the head arguments are *)
Lemma picks_eval s hargs vs : eval_list s hargs = Some vs ->
  forall qargs vm, picks hargs qargs vm -> eval_list s qargs = Some (select vm vs).
Proof.
  intros E. induction 1 as [|t i qargs vm N _ IH]; [reflexivity|].
  simpl. destruct (eval_list_nth s hargs vs i t E N) as [v [Ev Nv]]. rewrite Ev, IH.
  rewrite (nth_error_nth' SInf vs i v Nv). reflexivity.
Qed.

(* ---------- ground bodies ---------- *)
Section GroundBody.
Variable sym_lt : sym -> sym -> Prop.
Notation ground_lit := (ground_lit sym_lt).
Notation ground_body := (ground_body sym_lt).

Lemma ground_body_in s : forall b fs l, ground_body s b = Some fs -> In (BLit l) b ->
  exists g, ground_lit s l = Some g /\ In g fs.
Proof.
  induction b as [|e b IH]; intros fs l E Hin; [destruct Hin|].
  simpl in E. destruct e as [l0|l0 c]; [|discriminate].
  destruct (ground_lit s l0) as [g0|] eqn:E0; [|discriminate].
  destruct (ground_body s b) as [gs|]; [|discriminate]. inversion E; subst.
  destruct Hin as [Eq|Hin].
  - inversion Eq; subst. exists g0. split; [exact E0 | left; reflexivity].
  - destruct (IH gs l eq_refl Hin) as [g [Eg Hg]]. exists g. split; [exact Eg | right; exact Hg].
Qed.

Lemma ground_lit_fun s sg n args e :
  ground_lit s (Lit sg (ASym (TFun n args e))) =
  match eval_list s args with Some vs => Some (sign_form sg (n, vs)) | None => None end.
Proof. simpl. rewrite gatom_of_fun. destruct (eval_list s args); reflexivity. Qed.
End GroundBody.

(* ================================================================================================ *)
(** * 2. Sets of mappings *)

Lemma Mapping_eqb_eq a b : Mapping_eqb a b = true <-> a = b.
Proof.
  destruct a as [hp bp vm], b as [hp' bp' vm']. unfold Mapping_eqb. simpl.
  rewrite !andb_true_iff, pred_eqb_eq.
  assert (S: spred_eqb bp bp' = true <-> bp = bp').
  { destruct bp as [sg p], bp' as [sg' p']. unfold spred_eqb. simpl.
    rewrite andb_true_iff, sign_eqb_eq, pred_eqb_eq. split; [intros [-> ->]; reflexivity | intros E; inversion E; auto]. }
  rewrite S, (list_eqb_eq Nat.eqb Nat.eqb_eq).
  split; [intros [[-> ->] ->]; reflexivity | intros E; inversion E; auto].
Qed.

Lemma mmem_In m s : mmem m s = true <-> In m s.
Proof.
  unfold mmem. rewrite existsb_exists. split.
  - intros [x [Hx E]]. apply Mapping_eqb_eq in E. subst. exact Hx.
  - intros Hin. exists m. split; [exact Hin | apply Mapping_eqb_eq; reflexivity].
Qed.

Lemma madd_In m s x : In x (madd m s) -> In x s \/ x = m.
Proof.
  unfold madd. destruct (mmem m s); [left; assumption|]. intros H. apply in_app_or in H.
  destruct H as [H|[<-|[]]]; auto.
Qed.

Lemma mupdate_In new : forall s x, In x (mupdate s new) -> In x s \/ In x new.
Proof.
  unfold mupdate. induction new as [|m new IH]; intros s x H; simpl in *; [left; exact H|].
  destruct (IH _ _ H) as [H1|H1]; [|right; right; exact H1].
  destruct (madd_In _ _ _ H1) as [H2| ->]; [left; exact H2 | right; left; reflexivity].
Qed.

Lemma mset_In l x : In x (mset l) -> In x l.
Proof. unfold mset. intros H. destruct (mupdate_In _ _ _ H) as [[]|H1]. exact H1. Qed.

Lemma mintersect_In s o x : In x (mintersect s o) -> In x s /\ In x o.
Proof. unfold mintersect. rewrite filter_In, mmem_In. tauto. Qed.

(* an invariant of all members is preserved by the set operations *)
Lemma Forall_mupdate (Q: Mapping -> Prop) s new : Forall Q s -> Forall Q new -> Forall Q (mupdate s new).
Proof.
  rewrite !Forall_forall. intros Hs Hn x H. destruct (mupdate_In _ _ _ H); auto.
Qed.

(* ================================================================================================ *)
(** * 3. The shape of the mappings produced by _create_mappings / _compute_local_superseed *)

Lemma index_of_spec arg : forall l k i, index_of arg l k = Some i -> k <= i /\ nth_error l (i - k) = Some arg.
Proof.
  induction l as [|x r IH]; intros k i E; simpl in E; [discriminate|].
  destruct (term_eqb x arg) eqn:Ex.
  - inversion E; subst. apply term_eqb_eq in Ex. subst. split; [lia|]. rewrite Nat.sub_diag. reflexivity.
  - destruct (IH _ _ E) as [Hle Hn]. split; [lia|]. replace (i - k) with (S (i - S k)) by lia. exact Hn.
Qed.

Definition arg_index (hargs: list term) (arg: term) : list nat :=
  match index_of arg hargs 0 with Some i => [i] | None => [] end.

Lemma arg_index_le hargs : forall args, List.length (flat_map (arg_index hargs) args) <= List.length args.
Proof.
  induction args as [|a args IH]; simpl; [lia|]. rewrite app_length. unfold arg_index at 1.
  destruct (index_of a hargs 0); simpl; lia.
Qed.

Lemma vm_picks hargs : forall args,
  List.length (flat_map (arg_index hargs) args) = List.length args -> picks hargs args (flat_map (arg_index hargs) args).
Proof.
  induction args as [|a args IH]; simpl; intros E; [constructor|].
  pose proof (arg_index_le hargs args) as Le. rewrite app_length in E. unfold arg_index at 1 in E. unfold arg_index at 1.
  destruct (index_of a hargs 0) as [i|] eqn:Ei; simpl in *; [|lia].
  constructor; [|apply IH; lia].
  destruct (index_of_spec _ _ _ _ Ei) as [_ N]. rewrite Nat.sub_0_r in N. exact N.
Qed.

Lemma create_mappings_In sy lits m : In m (_create_mappings sy lits) ->
  exists sg n args e vm, In (Lit sg (ASym (TFun n args e))) lits /\ picks (snd sy) args vm /\
     m = mkMapping (symbol_pred sy) (sg, (n, List.length args)) vm.
Proof.
  unfold _create_mappings. rewrite in_flat_map. intros [cond [Hc Hm]].
  destruct cond as [sg [t|t gs|b|lg f es rg|lg es rg|x]]; try (destruct Hm; fail).
  destruct t as [x|c|o u|o l r|l r|n args e|xs]; try (destruct Hm; fail).
  change (flat_map (fun arg => match index_of arg (snd sy) 0 with Some i => [i] | None => [] end) args)
    with (flat_map (arg_index (snd sy)) args) in Hm.
  destruct (Nat.eqb (List.length (flat_map (arg_index (snd sy)) args)) (List.length args)) eqn:El; [|destruct Hm].
  apply Nat.eqb_eq in El. destruct Hm as [<-|[]].
  exists sg, n, args, e, (flat_map (arg_index (snd sy)) args). split; [exact Hc|]. split; [apply vm_picks; exact El | reflexivity].
Qed.

Lemma collect_body_In body l : In l (_collect_top_level_body_symbols body) -> In (BLit l) body.
Proof.
  unfold _collect_top_level_body_symbols. rewrite in_flat_map. intros [b [Hb Hl]].
  destruct b as [l0|l0 c]; [|destruct Hl]. destruct (is_predicate l0); [|destruct Hl].
  destruct Hl as [<-|[]]. exact Hb.
Qed.

(* plain atom head: the local superseed is empty unless p is the head predicate, and then it consists of
   the mappings from the head symbol to top level body literals *)
Lemma local_superseed_plain p ln n hargs e body loc m :
  _compute_local_superseed p (SRule ln (HLit (Lit NoSign (ASym (TFun n hargs e)))) body) = Ok loc -> In m loc ->
  p = (n, List.length hargs) /\
  exists sg qn qargs qe vm, In (BLit (Lit sg (ASym (TFun qn qargs qe)))) body /\ picks hargs qargs vm /\
     m = mkMapping p (sg, (qn, List.length qargs)) vm.
Proof.
  unfold _compute_local_superseed. cbn [pred_symbol]. change (symbol_pred (n, hargs)) with (n, List.length hargs).
  destruct (pred_eqb p (n, List.length hargs)) eqn:Ep; cbn [fst snd fold_left]; intros E Hm; inversion E; subst; clear E.
  - apply pred_eqb_eq in Ep. split; [exact Ep|].
    destruct (mupdate_In _ _ _ Hm) as [[]|H1].
    destruct (create_mappings_In _ _ _ H1) as [sg [qn [qargs [qe [vm [Hl [Pk ->]]]]]]].
    exists sg, qn, qargs, qe, vm. split; [apply collect_body_In; exact Hl|]. split; [exact Pk|].
    unfold symbol_pred. simpl. rewrite Ep. reflexivity.
  - destruct Hm.
Qed.

(* constant head (constraints, #true/#false heads): no mapping at all *)
Lemma local_superseed_const p ln sg b body loc :
  _compute_local_superseed p (SRule ln (HLit (Lit sg (ABool b))) body) = Ok loc -> loc = [].
Proof. unfold _compute_local_superseed. simpl. intros E. inversion E. reflexivity. Qed.

(* choice head  { e1; ...; en }  whose elements carry no condition: the local superseed is the UNION over the
   elements of predicate p of the mappings from that element to the top level body literals *)
Lemma head_element_fold p : forall (es: list condlit) acc, (forall e, In e es -> snd e = []) ->
  snd (fold_left (head_element_step p) es acc) = snd acc /\
  forall sy, In sy (fst (fold_left (head_element_step p) es acc)) ->
     In sy (fst acc) \/ exists e, In e es /\ pred_symbol (fst e) = Some sy /\ p = symbol_pred sy.
Proof.
  induction es as [|e es IH]; intros acc NC; simpl; [split; [reflexivity | auto]|].
  destruct (IH (head_element_step p acc e) (fun e' H => NC e' (or_intror H))) as [A B].
  assert (S: snd (head_element_step p acc e) = snd acc /\
             forall sy, In sy (fst (head_element_step p acc e)) ->
               In sy (fst acc) \/ (pred_symbol (fst e) = Some sy /\ p = symbol_pred sy)).
  { unfold head_element_step. destruct (pred_symbol (fst e)) as [sy0|] eqn:Es; [|auto].
    destruct (pred_eqb p (symbol_pred sy0)) eqn:Ep; [|auto]. apply pred_eqb_eq in Ep. cbn [fst snd].
    rewrite (NC e (or_introl eq_refl)). split; [reflexivity|].
    intros sy Hsy. apply in_app_or in Hsy. destruct Hsy as [Hsy|[<-|[]]]; auto. }
  destruct S as [S1 S2]. split; [congruence|].
  intros sy Hsy. destruct (B sy Hsy) as [H1|[e' [He' X]]].
  - destruct (S2 sy H1) as [H2|[H2 H3]]; [left; exact H2|]. right. exists e. split; [left; reflexivity|auto].
  - right. exists e'. split; [right; exact He' | exact X].
Qed.

Lemma syms_fold_In bl m : forall (syms: list symbol) init,
  In m (fold_left (fun ls sy => mupdate ls (_create_mappings sy bl)) syms init) ->
  In m init \/ exists sy, In sy syms /\ In m (_create_mappings sy bl).
Proof.
  induction syms as [|sy syms IH]; intros init H; simpl in H; [left; exact H|].
  destruct (IH _ H) as [H1|[sy' [Hs Hm]]].
  - destruct (mupdate_In _ _ _ H1) as [H2|H2]; [left; exact H2|]. right. exists sy. split; [left; reflexivity | exact H2].
  - right. exists sy'. split; [right; exact Hs | exact Hm].
Qed.

Lemma local_superseed_choice p ln lg es rg body loc m :
  (forall e, In e es -> snd e = []) ->
  _compute_local_superseed p (SRule ln (HAgg lg es rg) body) = Ok loc -> In m loc ->
  exists e sy, In e es /\ pred_symbol (fst e) = Some sy /\ p = symbol_pred sy /\
               In m (_create_mappings sy (_collect_top_level_body_symbols body)).
Proof.
  intros NC E Hm. unfold _compute_local_superseed in E. inversion E; subst loc. clear E.
  destruct (head_element_fold p es ([], []) NC) as [A B].
  destruct (syms_fold_In _ _ _ _ Hm) as [H1|[sy [Hs Hc]]].
  - rewrite A in H1. destruct H1.
  - destruct (B sy Hs) as [[]|[e [He [Ep Es]]]]. exists e, sy. auto.
Qed.

(* ================================================================================================ *)
(** * 4. Meaning of one mapping *)
Section CleanupSem.
Variable sym_lt : sym -> sym -> Prop.
Notation ground_lit := (Ground.ground_lit sym_lt).
Notation ground_body := (Ground.ground_body sym_lt).
Notation ground_rule := (Ground.ground_rule sym_lt).
Notation ground_prog := (Ground.ground_prog sym_lt).
Notation grule := (Meta.Cleanup.rule gatom gF).
Notation gimpn := (Meta.Cleanup.impn gatom gF GPos).
Notation gimp := (Meta.Cleanup.imp gatom gF GPos).
Notation ghead_atom := (Meta.Cleanup.head_atom gatom).
Notation ghd := (Meta.Cleanup.hd gatom gF).
Notation gbd := (Meta.Cleanup.bd gatom gF).

(* the ground literal a mapping promises for the head values vs *)
Definition mapping_lit (m: Mapping) (vs: list sym) : gF :=
  sign_form (fst (body_pred m)) (fst (snd (body_pred m)), select (var_map m) vs).
(* var_map has one entry per argument of the body predicate *)
Definition mapping_wf (m: Mapping) : Prop := List.length (var_map m) = snd (snd (body_pred m)).

(* m holds in a set of ground rules: every rule whose head is an atom / choice atom  name(vs)  of the right
   arity has the promised literal in its body *)
Definition mapping_holds_in (GP: grule -> Prop) (m: Mapping) : Prop :=
  forall r vs, GP r -> ghead_atom (ghd r) (fst (head_pred m), vs) -> List.length vs = snd (head_pred m) ->
    In (mapping_lit m vs) (gbd r).
Definition mapping_holds (P: program) (I: list gatom) (m: Mapping) : Prop :=
  mapping_wf m /\ mapping_holds_in (ground_prog P I) m.
(* the step-indexed version: closed under composition through positive atoms *)
Definition mapping_ok (P: program) (I: list gatom) (m: Mapping) : Prop :=
  mapping_wf m /\
  forall vs, List.length vs = snd (head_pred m) -> gimp (ground_prog P I) (fst (head_pred m), vs) (mapping_lit m vs).

Lemma mapping_holds_impn0 P I m :
  mapping_holds_in (ground_prog P I) m <->
  forall vs, List.length vs = snd (head_pred m) -> gimpn (ground_prog P I) 0 (fst (head_pred m), vs) (mapping_lit m vs).
Proof.
  unfold mapping_holds_in. split.
  - intros H vs L. apply impn_0. intros r Pr Ha. exact (H r vs Pr Ha L).
  - intros H r vs Pr Ha L. exact (proj1 (impn_0 _ _ _ _ _ _) (H vs L) r Pr Ha).
Qed.

Lemma mapping_holds_ok P I m : mapping_holds P I m -> mapping_ok P I m.
Proof.
  intros [W H]. split; [exact W|]. intros vs L. exists 0. exact (proj1 (mapping_holds_impn0 P I m) H vs L).
Qed.

(* Step 1.  A rule with a plain atom head n(hargs): every mapping of _compute_local_superseed p rule has head
   predicate p = n/|hargs|, is well formed, and holds in every ground instance of THAT rule.
   No side condition on intervals/pools in the head is needed in Sem/Sat.v: such a head evaluates to None,
   its ground head is HFalse (Ground.ground_heads) and derives no atom at all. *)
Theorem create_mappings_meaning p ln n hargs e body loc m :
  _compute_local_superseed p (SRule ln (HLit (Lit NoSign (ASym (TFun n hargs e)))) body) = Ok loc -> In m loc ->
  p = (n, List.length hargs) /\ head_pred m = p /\ mapping_wf m /\
  mapping_holds_in (ground_rule (SRule ln (HLit (Lit NoSign (ASym (TFun n hargs e)))) body)) m.
Proof.
  intros E Hm. destruct (local_superseed_plain _ _ _ _ _ _ _ _ E Hm) as [Ep [sg [qn [qargs [qe [vm [Hl [Pk ->]]]]]]]].
  split; [exact Ep|]. split; [reflexivity|]. split.
  - unfold mapping_wf. simpl. apply (picks_length _ _ _ Pk).
  - intros r vs [s [fs [Eb [Hh Ebd]]]] HA _. subst p. cbn [head_pred fst snd] in HA.
    cbn [ground_heads] in Hh. destruct Hh as [Hh|[]]. rewrite gatom_of_fun in Hh.
    destruct (eval_list s hargs) as [vs0|] eqn:Ev; rewrite <- Hh in HA; simpl in HA; [|contradiction].
    inversion HA; subst vs0.
    destruct (ground_body_in sym_lt s body fs _ Eb Hl) as [g [Eg Hg]].
    rewrite ground_lit_fun, (picks_eval s hargs vs Ev qargs vm Pk) in Eg. inversion Eg; subst g.
    rewrite Ebd. exact Hg.
Qed.


(* ================================================================================================ *)
(** * 5. The intersection part of _find_superseeded *)

(* ---- pred2rules ---- *)
Definition hd_pairs_stmt (inputs: list pred) (stm: stmt) (i: nat) : list (pred * nat) :=
  flat_map (fun sp : spred => if pmem (snd sp) inputs then [] else [(snd sp, i)]) (headderivable stm).
Fixpoint hd_pairs (inputs: list pred) (prg: list stmt) (i: nat) : list (pred * nat) :=
  match prg with [] => [] | stm :: r => hd_pairs_stmt inputs stm i ++ hd_pairs inputs r (S i) end.
Definition dict_step (d: list (pred * list nat)) (pi: pred * nat) := dict_append d (fst pi) (snd pi).

Lemma build_pred2rules_flat inputs : forall prg i d,
  build_pred2rules inputs prg i d = fold_left dict_step (hd_pairs inputs prg i) d.
Proof.
  induction prg as [|stm prg IH]; intros i d; simpl; [reflexivity|].
  rewrite fold_left_app, IH. f_equal. unfold hd_pairs_stmt.
  generalize (headderivable stm) as l. intros l. revert d.
  induction l as [|sp l IHl]; intros d; simpl; [reflexivity|].
  rewrite fold_left_app, IHl. destruct (pmem (snd sp) inputs); reflexivity.
Qed.

Lemma hd_pairs_not_input inputs : forall prg k p i, In (p, i) (hd_pairs inputs prg k) -> pmem p inputs = false.
Proof.
  induction prg as [|stm prg IH]; intros k p i H; simpl in H; [destruct H|].
  apply in_app_or in H. destruct H as [H|H]; [|exact (IH _ _ _ H)].
  unfold hd_pairs_stmt in H. apply in_flat_map in H. destruct H as [sp [_ H]].
  destruct (pmem (snd sp) inputs) eqn:E; [destruct H|]. destruct H as [H|[]]. inversion H; subst. exact E.
Qed.

Lemma hd_pairs_complete inputs : forall prg k j st sp, nth_error prg j = Some st -> In sp (headderivable st) ->
  pmem (snd sp) inputs = false -> In (snd sp, k + j) (hd_pairs inputs prg k).
Proof.
  induction prg as [|stm prg IH]; intros k j st sp N Hsp NI; [destruct j; discriminate|].
  simpl. apply in_or_app. destruct j as [|j]; simpl in N.
  - inversion N; subst. left. unfold hd_pairs_stmt. apply in_flat_map. exists sp. split; [exact Hsp|].
    rewrite NI, Nat.add_0_r. left. reflexivity.
  - right. replace (k + S j) with (S k + j) by lia. apply (IH (S k) j st sp N Hsp NI).
Qed.

Definition dict_inv (d: list (pred * list nat)) (done: list (pred * nat)) : Prop :=
  (forall p i, In (p, i) done -> exists ids, In (p, ids) d) /\
  (forall p ids i, In (p, ids) d -> In (p, i) done -> In i ids) /\
  (forall p ids, In (p, ids) d -> exists i, In (p, i) done).

Lemma existsb_key_false (d: list (pred * list nat)) p :
  existsb (fun kv => pred_eqb (fst kv) p) d = false -> forall ids, ~ In (p, ids) d.
Proof.
  intros E ids Hin. assert (X: existsb (fun kv => pred_eqb (fst kv) p) d = true).
  { apply existsb_exists. exists (p, ids). split; [exact Hin|]. apply pred_eqb_eq. reflexivity. }
  congruence.
Qed.

Lemma dict_step_inv d done p i : dict_inv d done -> dict_inv (dict_step d (p, i)) (done ++ [(p, i)]).
Proof.
  intros [I1 [I2 I3]]. unfold dict_step, dict_append. cbn [fst snd].
  destruct (existsb (fun kv => pred_eqb (fst kv) p) d) eqn:Ex.
  - (* p is a key: i is appended to every entry of p *)
    assert (M: forall q ids', In (q, ids') (map (fun kv => if pred_eqb (fst kv) p then (fst kv, snd kv ++ [i]) else kv) d) ->
               exists ids, In (q, ids) d /\ ids' = if pred_eqb q p then ids ++ [i] else ids).
    { intros q ids' H. apply in_map_iff in H. destruct H as [[q0 ids0] [E H]]. cbn [fst snd] in E.
      exists ids0. destruct (pred_eqb q0 p) eqn:Eq; inversion E; subst; rewrite Eq; auto. }
    assert (K: forall q ids, In (q, ids) d -> exists ids', In (q, ids') (map (fun kv => if pred_eqb (fst kv) p then (fst kv, snd kv ++ [i]) else kv) d)).
    { intros q ids H. exists (if pred_eqb q p then ids ++ [i] else ids). apply in_map_iff. exists (q, ids). split; [|exact H].
      cbn [fst snd]. destruct (pred_eqb q p); reflexivity. }
    split; [|split].
    + intros q j H. apply in_app_or in H. destruct H as [H|[H|[]]].
      * destruct (I1 _ _ H) as [ids Hd]. exact (K _ _ Hd).
      * inversion H; subst. apply existsb_exists in Ex. destruct Ex as [[q1 ids1] [Hd E]]. cbn [fst] in E.
        apply pred_eqb_eq in E. subst q1. exact (K _ _ Hd).
    + intros q ids' j H Hj. destruct (M _ _ H) as [ids [Hd ->]]. apply in_app_or in Hj. destruct Hj as [Hj|[Hj|[]]].
      * pose proof (I2 _ _ _ Hd Hj). destruct (pred_eqb q p); [apply in_or_app; left|]; assumption.
      * inversion Hj; subst. replace (pred_eqb q q) with true by (symmetry; apply pred_eqb_eq; reflexivity).
        apply in_or_app. right. left. reflexivity.
    + intros q ids' H. destruct (M _ _ H) as [ids [Hd _]]. destruct (I3 _ _ Hd) as [j Hj]. exists j. apply in_or_app. left. exact Hj.
  - (* p is new *)
    pose proof (existsb_key_false d p Ex) as NK.
    split; [|split].
    + intros q j H. apply in_app_or in H. destruct H as [H|[H|[]]].
      * destruct (I1 _ _ H) as [ids Hd]. exists ids. apply in_or_app. left. exact Hd.
      * inversion H; subst. exists [j]. apply in_or_app. right. left. reflexivity.
    + intros q ids j H Hj. apply in_app_or in H. apply in_app_or in Hj. destruct H as [H|[H|[]]].
      * destruct Hj as [Hj|[Hj|[]]]; [exact (I2 _ _ _ H Hj)|]. inversion Hj; subst. exfalso. exact (NK _ H).
      * inversion H; subst. destruct Hj as [Hj|[Hj|[]]].
        -- exfalso. destruct (I1 _ _ Hj) as [ids Hd]. exact (NK _ Hd).
        -- inversion Hj; subst. left. reflexivity.
    + intros q ids H. apply in_app_or in H. destruct H as [H|[H|[]]].
      * destruct (I3 _ _ H) as [j Hj]. exists j. apply in_or_app. left. exact Hj.
      * inversion H; subst. exists i. apply in_or_app. right. left. reflexivity.
Qed.

Lemma dict_fold_inv : forall pairs d done, dict_inv d done -> dict_inv (fold_left dict_step pairs d) (done ++ pairs).
Proof.
  induction pairs as [|[p i] pairs IH]; intros d done Inv; simpl.
  - rewrite app_nil_r. exact Inv.
  - replace (done ++ (p, i) :: pairs) with ((done ++ [(p, i)]) ++ pairs) by (rewrite <- app_assoc; reflexivity).
    apply IH. apply dict_step_inv. exact Inv.
Qed.

(* what is needed about pred2rules: keys are not input predicates, every key has a rule, and the entry of a key
   lists EVERY statement that can derive it *)
Lemma pred2rules_spec inputs prg p ids : In (p, ids) (build_pred2rules inputs prg 0 []) ->
  pmem p inputs = false /\ ids <> [] /\
  forall j st sp, nth_error prg j = Some st -> In sp (headderivable st) -> snd sp = p -> In j ids.
Proof.
  rewrite build_pred2rules_flat. intros H.
  assert (Inv: dict_inv (fold_left dict_step (hd_pairs inputs prg 0) []) ([] ++ hd_pairs inputs prg 0)).
  { apply dict_fold_inv. split; [|split]; intros; contradiction. }
  simpl app in Inv. destruct Inv as [_ [I2 I3]].
  destruct (I3 _ _ H) as [i Hi]. pose proof (hd_pairs_not_input _ _ _ _ _ Hi) as NI.
  split; [exact NI|]. split.
  - intros ->. exact (I2 _ _ _ H Hi).
  - intros j st sp N Hsp <-. apply (I2 _ _ _ H). exact (hd_pairs_complete inputs prg 0 j st sp N Hsp NI).
Qed.

(* ---- superseed_of_pred: the intersection over rule_ids ---- *)
Definition sup_step (prg: list stmt) (p: pred) (acc: result (option (list Mapping))) (id_: nat) :=
  rbind acc (fun superseed =>
    match nth_error prg id_ with
    | None => Raise "IndexError"
    | Some rule =>
        rbind (_compute_local_superseed p rule) (fun loc =>
          Ok (Some (match superseed with None => loc | Some s => mintersect s loc end)))
    end).

Lemma superseed_of_pred_eq prg p ids : superseed_of_pred prg p ids = fold_left (sup_step prg p) ids (Ok None).
Proof. reflexivity. Qed.

Lemma sup_fold_ok prg p : forall ids acc x, fold_left (sup_step prg p) ids acc = Ok x -> exists y, acc = Ok y.
Proof.
  induction ids as [|i ids IH]; intros acc x E; simpl in E; [eauto|].
  destruct (IH _ _ E) as [y Ey]. unfold sup_step in Ey. apply rbind_ok in Ey. destruct Ey as [a [-> _]]. eauto.
Qed.

Lemma sup_fold_In prg p m : forall ids acc s, fold_left (sup_step prg p) ids acc = Ok (Some s) -> In m s ->
  (forall a, acc = Ok (Some a) -> In m a) /\
  forall i, In i ids -> exists rule loc, nth_error prg i = Some rule /\ _compute_local_superseed p rule = Ok loc /\ In m loc.
Proof.
  induction ids as [|i ids IH]; intros acc s E Hm; simpl in E.
  - split; [|intros i []]. intros a Ea. rewrite E in Ea. inversion Ea; subst. exact Hm.
  - destruct (IH _ _ E Hm) as [A B]. destruct (sup_fold_ok _ _ _ _ _ E) as [y Ey].
    pose proof Ey as Ey'. unfold sup_step in Ey'. apply rbind_ok in Ey'. destruct Ey' as [sup [Eacc Ey']].
    destruct (nth_error prg i) as [rule|] eqn:N; [|discriminate].
    apply rbind_ok in Ey'. destruct Ey' as [loc [Eloc Ey']]. inversion Ey'; subst y. clear Ey'.
    specialize (A _ Ey). split.
    + intros a Ea. rewrite Eacc in Ea. inversion Ea; subst sup. apply mintersect_In in A. tauto.
    + intros j [<-|Hj]; [|exact (B j Hj)]. exists rule, loc. split; [exact N|]. split; [exact Eloc|].
      destruct sup as [s0|]; [apply mintersect_In in A; tauto | exact A].
Qed.

(* ---- the union over the predicates ---- *)
Definition union_step (prg: list stmt) (acc: result (list Mapping)) (kv: pred * list nat) : result (list Mapping) :=
  rbind acc (fun sups =>
    rbind (superseed_of_pred prg (fst kv) (snd kv)) (fun o =>
      match o with
      | Some s => Ok (mupdate sups s)
      | None => Raise "AssertionError"
      end)).

(* the value handed to transitive_closure *)
Definition direct_superseeds (inputs: list pred) (superseeds: list Mapping) (prg: list stmt) : result (list Mapping) :=
  fold_left (union_step prg) (build_pred2rules inputs prg 0 []) (Ok superseeds).

Lemma find_superseeded_eq inputs superseeds prg :
  _find_superseeded inputs superseeds prg = rbind (direct_superseeds inputs superseeds prg) transitive_closure.
Proof. reflexivity. Qed.

Lemma union_fold_Forall (Q: Mapping -> Prop) prg : forall d acc U,
  fold_left (union_step prg) d acc = Ok U ->
  (forall a, acc = Ok a -> Forall Q a) ->
  (forall kv s, In kv d -> superseed_of_pred prg (fst kv) (snd kv) = Ok (Some s) -> Forall Q s) ->
  Forall Q U.
Proof.
  induction d as [|kv d IH]; intros acc U E HA HS; simpl in E; [exact (HA _ E)|].
  apply (IH _ _ E).
  - intros a Ea. unfold union_step in Ea. apply rbind_ok in Ea. destruct Ea as [sups [-> Ea]].
    apply rbind_ok in Ea. destruct Ea as [o [Eo Ea]]. destruct o as [s|]; [|discriminate]. inversion Ea; subst.
    apply Forall_mupdate; [apply HA; reflexivity | apply (HS kv s); [left; reflexivity | exact Eo]].
  - intros kv' s Hin. apply HS. right. exact Hin.
Qed.


(* ---- the fragment of the heads ---- *)
(* the elements of a choice head that share a predicate have the same arguments (in particular: pairwise
   distinct predicates).  Without it the model unites the mappings of different elements of one predicate
   (the known "union of element mappings" defect):  {p(X); p(Y)} :- q(X), r(Y).  yields p->q and p->r. *)
Definition choice_elems_distinct (es: list condlit) : bool :=
  forallb (fun e1 => forallb (fun e2 =>
    match pred_symbol (fst e1), pred_symbol (fst e2) with
    | Some s1, Some s2 => negb (pred_eqb (symbol_pred s1) (symbol_pred s2)) || list_eqb term_eqb (snd s1) (snd s2)
    | _, _ => true
    end) es) es.
(* plain atom head  n(args),  constant head (constraints  :- body.  are  #false :- body.),  or a bound-free
   choice over condition-free positive atoms of pairwise distinct predicates *)
Definition frag_head (h: head) : bool :=
  match h with
  | HLit (Lit NoSign (ASym (TFun _ _ _))) => true
  | HLit (Lit _ (ABool _)) => true
  | HAgg None es None => forallb simple_choice_elem es && choice_elems_distinct es
  | _ => false
  end.
Definition head_stmt_ok (st: stmt) : bool := match st with SRule _ h _ => frag_head h | _ => true end.
Definition heads_ok (P: program) : bool := forallb head_stmt_ok P.
(* the instances range over the declared input predicates *)
Definition in_inputs (inputs: list pred) (p: string * nat) : Prop := pmem p inputs = true.

(* the head can derive atoms  n(hargs sigma) *)
Definition head_has (h: head) (n: string) (hargs: list term) : Prop :=
  match h with
  | HLit (Lit NoSign (ASym (TFun n' args _))) => n' = n /\ args = hargs
  | HAgg None es None => exists e, In (Lit NoSign (ASym (TFun n hargs e)), []) es
  | _ => False
  end.

Lemma frag_head_cases h : frag_head h = true ->
  (exists n hargs e, h = HLit (Lit NoSign (ASym (TFun n hargs e)))) \/ (exists sg c, h = HLit (Lit sg (ABool c))) \/
  (exists es, h = HAgg None es None /\ forallb simple_choice_elem es = true /\ choice_elems_distinct es = true).
Proof.
  destruct h as [[sg a]|es|lg es rg|lg f es rg|tx]; try discriminate.
  - destruct a as [t|t gs|c| | |]; try (destruct sg; discriminate).
    + destruct sg; try discriminate. destruct t; try discriminate. intros _. left. eauto.
    + intros _. right. left. eauto.
  - destruct lg; try discriminate. destruct rg; try discriminate. simpl. rewrite andb_true_iff. intros [A B].
    right. right. eauto.
Qed.

Lemma heads_ok_stmt P st : heads_ok P = true -> In st P -> head_stmt_ok st = true.
Proof. unfold heads_ok. rewrite forallb_forall. auto. Qed.

Lemma simple_elems_nocond es : forallb simple_choice_elem es = true -> forall e, In e es -> snd e = [].
Proof.
  rewrite forallb_forall. intros H e He. destruct (simple_choice_elem_inv e (H e He)) as [n [args [x ->]]]. reflexivity.
Qed.

Lemma local_superseed_frag p ln h body loc m : frag_head h = true ->
  _compute_local_superseed p (SRule ln h body) = Ok loc -> In m loc ->
  exists n hargs, head_has h n hargs /\ p = (n, List.length hargs) /\
  exists sg qn qargs qe vm, In (BLit (Lit sg (ASym (TFun qn qargs qe)))) body /\ picks hargs qargs vm /\
     m = mkMapping p (sg, (qn, List.length qargs)) vm.
Proof.
  intros Fh E Hm. destruct (frag_head_cases h Fh) as [[n [hargs [e ->]]]|[[sg [c ->]]|[es [-> [Si _]]]]].
  - destruct (local_superseed_plain _ _ _ _ _ _ _ _ E Hm) as [Ep X]. exists n, hargs. simpl. auto.
  - rewrite (local_superseed_const _ _ _ _ _ _ E) in Hm. destruct Hm.
  - destruct (local_superseed_choice _ _ _ _ _ _ _ _ (simple_elems_nocond es Si) E Hm) as [e [sy [He [Es [Ep Hc]]]]].
    rewrite forallb_forall in Si. destruct (simple_choice_elem_inv e (Si e He)) as [n [args [x ->]]].
    simpl in Es. inversion Es; subst sy. exists n, args. split; [simpl; eauto|]. split; [exact Ep|].
    destruct (create_mappings_In _ _ _ Hc) as [sg [qn [qargs [qe [vm [Hl [Pk ->]]]]]]].
    exists sg, qn, qargs, qe, vm. split; [apply collect_body_In; exact Hl|]. split; [exact Pk|].
    rewrite Ep. reflexivity.
Qed.

Lemma head_has_unique h n a1 a2 : frag_head h = true -> head_has h n a1 -> head_has h n a2 ->
  List.length a1 = List.length a2 -> a1 = a2.
Proof.
  intros Fh H1 H2 L. destruct (frag_head_cases h Fh) as [[n0 [hargs [e ->]]]|[[sg [c ->]]|[es [-> [_ Di]]]]].
  - simpl in H1, H2. destruct H1 as [_ <-], H2 as [_ <-]. reflexivity.
  - destruct sg; destruct H1.
  - simpl in H1, H2. destruct H1 as [e1 H1], H2 as [e2 H2].
    unfold choice_elems_distinct in Di. rewrite forallb_forall in Di. specialize (Di _ H1).
    rewrite forallb_forall in Di. specialize (Di _ H2). cbn [fst pred_symbol] in Di.
    unfold symbol_pred in Di. cbn [fst snd] in Di. rewrite L in Di.
    replace (pred_eqb (n, List.length a2) (n, List.length a2)) with true in Di by (symmetry; apply pred_eqb_eq; reflexivity).
    simpl in Di. apply list_eqb_term_eq. exact Di.
Qed.

Lemma head_has_derivable ln h b n hargs : head_has h n hargs ->
  In (NoSign, (n, List.length hargs)) (headderivable (SRule ln h b)).
Proof.
  destruct h as [[sg a]|es|lg es rg|lg f es rg|tx]; simpl; try contradiction.
  - destruct sg; try contradiction. destruct a as [t| | | | |]; try contradiction. destruct t; try contradiction.
    intros [<- <-]. simpl. left. reflexivity.
  - destruct lg; try contradiction. destruct rg; try contradiction. intros [e He].
    apply in_flat_map. exists (Lit NoSign (ASym (TFun n hargs e)), []). split; [exact He|]. simpl. left. reflexivity.
Qed.

Lemma ground_head_frag s h gh a : frag_head h = true -> In gh (ground_heads s h) -> ghead_atom gh a ->
  exists n hargs vs, head_has h n hargs /\ eval_list s hargs = Some vs /\ a = (n, vs).
Proof.
  intros Fh Hh HA. destruct (frag_head_cases h Fh) as [[n [hargs [e ->]]]|[[sg [c ->]]|[es [-> [Si _]]]]].
  - cbn [ground_heads] in Hh. destruct Hh as [Hh|[]]. rewrite gatom_of_fun in Hh.
    destruct (eval_list s hargs) as [vs|] eqn:Ev; rewrite <- Hh in HA; simpl in HA; [|contradiction].
    exists n, hargs, vs. simpl. auto.
  - exfalso.
    assert (Eh: ground_heads s (HLit (Lit sg (ABool c))) = if bool_lit_true sg c then [] else [Meta.Cleanup.HFalse gatom])
      by (destruct sg; reflexivity).
    rewrite Eh in Hh. destruct (bool_lit_true sg c); [destruct Hh|]. destruct Hh as [Hh|[]]. rewrite <- Hh in HA. exact HA.
  - cbn [ground_heads] in Hh. apply in_flat_map in Hh. destruct Hh as [e [He Hgh]].
    rewrite forallb_forall in Si. destruct (simple_choice_elem_inv e (Si e He)) as [n [args [x ->]]].
    simpl in Hgh. destruct (eval_list s args) as [vs|] eqn:Ev; [|destruct Hgh]. destruct Hgh as [<-|[]].
    simpl in HA. exists n, args, vs. split; [simpl; eauto|]. auto.
Qed.

(* Step 1 for every head of the fragment *)
Theorem create_mappings_meaning_frag p ln h body loc m : frag_head h = true ->
  _compute_local_superseed p (SRule ln h body) = Ok loc -> In m loc ->
  head_pred m = p /\ mapping_wf m /\ mapping_holds_in (ground_rule (SRule ln h body)) m.
Proof.
  intros Fh E Hm.
  destruct (local_superseed_frag _ _ _ _ _ _ Fh E Hm) as [n [hargs [HH [Ep [sg [qn [qargs [qe [vm [Hl [Pk ->]]]]]]]]]]].
  split; [reflexivity|]. split; [unfold mapping_wf; simpl; apply (picks_length _ _ _ Pk)|].
  intros r vs [s [fs [Eb [Hh Ebd]]]] HA L. subst p. cbn [head_pred fst snd] in HA, L.
  destruct (ground_head_frag s h _ _ Fh Hh HA) as [n' [hargs' [vs' [HH' [Ev Ea]]]]]. inversion Ea; subst n' vs'.
  assert (hargs' = hargs) as ->.
  { apply (head_has_unique h n _ _ Fh HH' HH). rewrite <- L. symmetry. apply (eval_list_length _ _ _ Ev). }
  destruct (ground_body_in sym_lt s body fs _ Eb Hl) as [g [Eg Hg]].
  rewrite ground_lit_fun, (picks_eval s hargs vs Ev qargs vm Pk) in Eg. inversion Eg; subst g.
  rewrite Ebd. exact Hg.
Qed.

(* Step 2.  Every mapping of the intersection part of _find_superseeded (the set handed to transitive_closure)
   holds in the ground program, for every instance over the input predicates: the instance contributes fact
   rules only for input predicates, which get no mappings; a predicate without any rule gets no mappings. *)
Theorem find_superseeded_direct_meaning inputs prg I U :
  heads_ok prg = true -> facts_over (in_inputs inputs) I ->
  direct_superseeds inputs [] prg = Ok U ->
  Forall (mapping_holds prg I) U.
Proof.
  intros Pl FO E. apply (union_fold_Forall _ prg _ _ _ E).
  - intros a Ea. inversion Ea. constructor.
  - intros [p ids] s Hkv Es. cbn [fst snd] in Es. apply Forall_forall. intros m Hm.
    destruct (pred2rules_spec _ _ _ _ Hkv) as [NI [NE Compl]].
    rewrite superseed_of_pred_eq in Es. destruct (sup_fold_In _ _ m _ _ _ Es Hm) as [_ All].
    (* the shape of m, from the first rule of p *)
    destruct ids as [|i0 ids0]; [congruence|].
    destruct (All i0 (or_introl eq_refl)) as [rule0 [loc0 [N0 [E0 H0]]]].
    pose proof (heads_ok_stmt _ _ Pl (nth_error_In _ _ N0)) as Pl0.
    destruct rule0 as [ln0 h0 b0| | | |]; try discriminate.
    destruct (create_mappings_meaning_frag _ _ _ _ _ _ Pl0 E0 H0) as [Hp [W _]].
    split; [exact W|]. unfold mapping_holds_in. rewrite Hp.
    intros r vs [[st [Hin GR]]|[a [Hin ->]]] HA L.
    + (* a ground instance of a statement: that statement is listed under p *)
      destruct st as [ln h b| | | |]; try (simpl in GR; contradiction).
      pose proof (heads_ok_stmt _ _ Pl Hin) as Plst. simpl in Plst.
      pose proof GR as [s0 [fs [Eb [Hh Ebd]]]].
      destruct (ground_head_frag s0 h _ _ Plst Hh HA) as [n [hargs [vs0 [HH [Ev Ea]]]]]. inversion Ea; subst vs0.
      assert (Ep: p = (n, List.length hargs)).
      { destruct p as [pn pa]. simpl in *. subst pn. f_equal. rewrite <- L. apply (eval_list_length _ _ _ Ev). }
      destruct (In_nth_error _ _ Hin) as [j Nj].
      assert (Hj: In j (i0 :: ids0)).
      { apply (Compl j _ (NoSign, (n, List.length hargs)) Nj); [|symmetry; exact Ep]. apply head_has_derivable. exact HH. }
      destruct (All j Hj) as [rule [loc [N [El Hl]]]]. rewrite Nj in N. inversion N; subst rule.
      destruct (create_mappings_meaning_frag _ _ _ _ _ _ Plst El Hl) as [_ [_ Holds]].
      apply (Holds r vs GR); rewrite Hp; assumption.
    + (* a fact of the instance: its predicate is an input predicate, p is not *)
      exfalso. simpl in HA. subst a. specialize (FO _ Hin). unfold in_inputs in FO. cbn [fst snd] in FO.
      rewrite L in FO. destruct p as [pn pa]. cbn [fst snd] in FO. congruence.
Qed.

(* ================================================================================================ *)
(** * 6. transitive_closure *)

Lemma compose_select lv vs : forall rv vm, compose_var_map lv rv = Ok vm ->
  select rv (select lv vs) = select vm vs /\ List.length vm = List.length rv.
Proof.
  induction rv as [|j rv IH]; intros vm E; simpl in E.
  - inversion E. split; reflexivity.
  - destruct (nth_error lv j) as [x|] eqn:N; [|discriminate].
    apply rbind_ok in E. destruct E as [t [Et E]]. inversion E; subst vm. destruct (IH _ Et) as [A B].
    split; [|simpl; congruence]. simpl. f_equal; [|exact A].
    unfold select at 1. apply (nth_error_map_nth (fun i => nth i vs SInf) SInf lv j x N).
Qed.

(* composition of two meaningful mappings through a POSITIVE intermediate predicate *)
Lemma compose_ok P I lhs rhs vm : mapping_ok P I lhs -> mapping_ok P I rhs ->
  fst (body_pred lhs) = NoSign -> snd (body_pred lhs) = head_pred rhs ->
  compose_var_map (var_map lhs) (var_map rhs) = Ok vm ->
  mapping_ok P I (mkMapping (head_pred lhs) (body_pred rhs) vm).
Proof.
  intros [Wl Hl] [Wr Hr] Sg Pr Ec. split.
  - unfold mapping_wf in *. simpl. destruct (compose_select _ [] _ _ Ec) as [_ L]. congruence.
  - intros vs L. cbn [head_pred] in *. specialize (Hl vs L).
    unfold mapping_lit in Hl. rewrite Sg in Hl. cbn [sign_form] in Hl.
    assert (L2: List.length (select (var_map lhs) vs) = snd (head_pred rhs)).
    { rewrite select_length. unfold mapping_wf in Wl. rewrite Wl, Pr. reflexivity. }
    specialize (Hr _ L2). rewrite <- Pr in Hr at 1.
    pose proof (imp_trans _ _ _ _ _ _ _ Hl Hr) as X.
    unfold mapping_lit in *. cbn [body_pred var_map]. destruct (compose_select _ vs _ _ Ec) as [<- _]. exact X.
Qed.

Definition nr_inner (lhs: Mapping) (acc: result (list Mapping)) (rhs: Mapping) : result (list Mapping) :=
  rbind acc (fun nr =>
    if sign_eqb (fst (body_pred lhs)) NoSign && pred_eqb (snd (body_pred lhs)) (head_pred rhs)
    then rbind (compose_var_map (var_map lhs) (var_map rhs))
               (fun vm => Ok (madd (mkMapping (head_pred lhs) (body_pred rhs) vm) nr))
    else Ok nr).

Lemma new_relations_eq closure :
  new_relations closure = fold_left (fun acc lhs => fold_left (nr_inner lhs) closure acc) closure (Ok []).
Proof. reflexivity. Qed.

Section ClosureInv.
Variables (P: program) (I: list gatom).
Notation Q := (mapping_ok P I).
Definition RQ (x: result (list Mapping)) : Prop := forall a, x = Ok a -> Forall Q a.

Lemma nr_inner_inv lhs acc rhs : RQ acc -> Q lhs -> Q rhs -> RQ (nr_inner lhs acc rhs).
Proof.
  intros HA Ql Qr a Ea. unfold nr_inner in Ea. apply rbind_ok in Ea. destruct Ea as [nr [-> Ea]].
  specialize (HA nr eq_refl).
  destruct (sign_eqb (fst (body_pred lhs)) NoSign && pred_eqb (snd (body_pred lhs)) (head_pred rhs)) eqn:C.
  - apply andb_true_iff in C. destruct C as [C1 C2]. apply sign_eqb_eq in C1. apply pred_eqb_eq in C2.
    apply rbind_ok in Ea. destruct Ea as [vm [Ec Ea]]. inversion Ea; subst a.
    apply Forall_forall. intros x Hx. destruct (madd_In _ _ _ Hx) as [Hx'| ->].
    + rewrite Forall_forall in HA. exact (HA x Hx').
    + exact (compose_ok P I lhs rhs vm Ql Qr C1 C2 Ec).
  - inversion Ea; subst a. exact HA.
Qed.

Lemma nr_inner_fold_inv lhs : forall l acc, RQ acc -> Q lhs -> Forall Q l -> RQ (fold_left (nr_inner lhs) l acc).
Proof.
  induction l as [|rhs l IH]; intros acc HA Ql Hl; simpl; [exact HA|].
  inversion Hl; subst. apply IH; [apply nr_inner_inv; assumption | assumption | assumption].
Qed.

Lemma nr_outer_fold_inv cl' : Forall Q cl' -> forall cl acc, RQ acc -> Forall Q cl ->
  RQ (fold_left (fun acc lhs => fold_left (nr_inner lhs) cl' acc) cl acc).
Proof.
  intros Hcl'. induction cl as [|lhs cl IH]; intros acc HA Hcl; simpl; [exact HA|].
  inversion Hcl; subst. apply IH; [|assumption]. apply nr_inner_fold_inv; assumption.
Qed.

Lemma new_relations_inv closure nr : Forall Q closure -> new_relations closure = Ok nr -> Forall Q nr.
Proof.
  intros Hc E. rewrite new_relations_eq in E.
  apply (nr_outer_fold_inv closure Hc closure (Ok [])); [|exact Hc|exact E].
  intros a Ea. inversion Ea. constructor.
Qed.

Lemma closure_loop_inv : forall fuel closure out, Forall Q closure -> closure_loop fuel closure = Ok out -> Forall Q out.
Proof.
  induction fuel as [|f IH]; intros closure out Hc E; simpl in E; [discriminate|].
  apply rbind_ok in E. destruct E as [nr [En E]].
  pose proof (new_relations_inv _ _ Hc En) as Hn.
  destruct (Nat.eqb (List.length (mupdate closure nr)) (List.length closure)).
  - inversion E; subst. exact Hc.
  - apply (IH _ _ (Forall_mupdate _ _ _ Hc Hn) E).
Qed.

(* Step 3.  The closure composes only through positive mappings, so every member of the closed set satisfies
   the step-indexed implication. *)
Theorem transitive_closure_meaning a cl : Forall Q a -> transitive_closure a = Ok cl -> Forall Q cl.
Proof.
  intros Ha E. unfold transitive_closure in E.
  apply (closure_loop_inv (closure_fuel (mset a)) (mset a) cl); [|exact E].
  apply Forall_forall. intros x Hx. rewrite Forall_forall in Ha. apply Ha. apply mset_In. exact Hx.
Qed.
End ClosureInv.

(* Steps 2 + 3: the value of self.superseeds after _find_superseeded of a fresh translator *)
Theorem find_superseeded_meaning inputs prg I sups :
  heads_ok prg = true -> facts_over (in_inputs inputs) I ->
  _find_superseeded inputs [] prg = Ok sups -> Forall (mapping_ok prg I) sups.
Proof.
  intros Pl FO E. rewrite find_superseeded_eq in E. apply rbind_ok in E. destruct E as [U [EU E]].
  apply (transitive_closure_meaning prg I U sups); [|exact E].
  eapply Forall_impl; [|exact (find_superseeded_direct_meaning _ _ _ _ Pl FO EU)].
  intros m. apply mapping_holds_ok.
Qed.


(* ================================================================================================ *)
(** * 7. _superseeded *)

(* the loop over self.superseeds of the derived branch, named *)
Definition ss_loop (lsy rsy: symbol) (rsign: sign) : list Mapping -> result bool :=
  fix loop (ms: list Mapping) : result bool :=
    match ms with
    | [] => Ok false
    | m :: ms' =>
        if pred_eqb (head_pred m) (symbol_pred lsy) && pred_eqb (snd (body_pred m)) (symbol_pred rsy)
           && sign_eqb (fst (body_pred m)) rsign
        then rbind (fits_loop (snd rsy) (snd lsy) 0 (var_map m) true)
                   (fun fits => if fits then Ok true else loop ms')
        else loop ms'
    end.

Lemma superseeded_unfold ss lhs rhs :
  _superseeded ss lhs rhs =
  match pred_symbol lhs, pred_symbol rhs with
  | Some lsy, Some rsy =>
      if negb (sign_eqb (lit_sign lhs) NoSign) then Ok false
      else if pred_eqb (symbol_pred lsy) (symbol_pred rsy)
           then (if sign_eqb (lit_sign rhs) Neg then Ok false else Ok (same_pred_args (snd lsy) (snd rsy)))
           else ss_loop lsy rsy (lit_sign rhs) ss
  | _, _ => Ok false
  end.
Proof. reflexivity. Qed.

Lemma ss_loop_true lsy rsy rsign : forall ss, ss_loop lsy rsy rsign ss = Ok true ->
  exists m, In m ss /\ head_pred m = symbol_pred lsy /\ snd (body_pred m) = symbol_pred rsy /\
            fst (body_pred m) = rsign /\ fits_loop (snd rsy) (snd lsy) 0 (var_map m) true = Ok true.
Proof.
  induction ss as [|m ss IH]; intros E; [discriminate|].
  cbn [ss_loop] in E. fold (ss_loop lsy rsy rsign) in E.
  destruct (pred_eqb (head_pred m) (symbol_pred lsy) && pred_eqb (snd (body_pred m)) (symbol_pred rsy)
            && sign_eqb (fst (body_pred m)) rsign) eqn:C.
  - apply rbind_ok in E. destruct E as [fits [Ef E]]. destruct fits.
    + rewrite !andb_true_iff, !pred_eqb_eq, sign_eqb_eq in C. destruct C as [[C1 C2] C3].
      exists m. split; [left; reflexivity|]. auto.
    + destruct (IH E) as [m' [Hin X]]. exists m'. split; [right; exact Hin | exact X].
  - destruct (IH E) as [m' [Hin X]]. exists m'. split; [right; exact Hin | exact X].
Qed.

Lemma fits_loop_true rargs largs : forall vm k fits, fits_loop rargs largs k vm fits = Ok true ->
  fits = true /\
  forall j i, nth_error vm j = Some i -> exists t, nth_error rargs (k + j) = Some t /\ nth_error largs i = Some t.
Proof.
  induction vm as [|i vm IH]; intros k fits E; simpl in E.
  - inversion E. split; [reflexivity|]. intros [|j] i0 N; discriminate.
  - destruct (nth_error rargs k) as [r|] eqn:Nr; [|discriminate].
    destruct (nth_error largs i) as [l|] eqn:Nl; [|discriminate].
    destruct (IH _ _ E) as [F All]. destruct (term_eqb r l) eqn:Erl; [|discriminate].
    apply term_eqb_eq in Erl. subst l. split; [exact F|].
    intros [|j] i0 N; simpl in N.
    + inversion N; subst i0. exists r. rewrite Nat.add_0_r. auto.
    + replace (k + S j) with (S k + j) by lia. exact (All j i0 N).
Qed.

Lemma picks_of_nth largs : forall rargs vm, List.length vm = List.length rargs ->
  (forall j i, nth_error vm j = Some i -> exists t, nth_error rargs j = Some t /\ nth_error largs i = Some t) ->
  picks largs rargs vm.
Proof.
  induction rargs as [|r rargs IH]; intros [|i vm] L H; simpl in L; try discriminate; [constructor|].
  constructor.
  - destruct (H 0 i eq_refl) as [t [N1 N2]]. simpl in N1. inversion N1; subst. exact N2.
  - apply IH; [lia|]. intros j i0 N. exact (H (S j) i0 N).
Qed.

(* Step 4.  _superseeded ss lhs rhs = Ok true for meaningful mappings ss and an rhs without the anonymous variable:
   lhs is a positive atom, rhs an atom literal whose arguments are defined whenever those of lhs are, and the
   ground literal of rhs is
     - the atom of lhs itself under a sign other than `not` (same-predicate branch), or
     - implied (step-indexed imp of Meta/Cleanup.v) by the ground atom of lhs (derived branch). *)
Theorem superseeded_meaning P I ss lhs rhs :
  Forall (mapping_ok P I) ss -> no_anon rhs = true -> _superseeded ss lhs rhs = Ok true ->
  exists ln largs le sg rn rargs re,
    lhs = Lit NoSign (ASym (TFun ln largs le)) /\ rhs = Lit sg (ASym (TFun rn rargs re)) /\
    (forall t, In t rargs -> In t largs) /\
    forall s vs, eval_list s largs = Some vs ->
      exists ws, eval_list s rargs = Some ws /\
        (((rn, ws) = (ln, vs) /\ sg <> Neg /\ same_pred lhs rhs = true) \/
         gimp (ground_prog P I) (ln, vs) (sign_form sg (rn, ws))).
Proof.
  intros Hss NA E. destruct (same_pred lhs rhs) eqn:SP.
  - destruct (superseeded_same_pred_inv ss lhs rhs SP (no_anon_guarded lhs rhs NA) E) as [n [args [e [e' [sg [El [Er NN]]]]]]].
    exists n, args, e, sg, n, args, e'. split; [exact El|]. split; [exact Er|]. split; [auto|].
    intros s vs Ev. exists vs. split; [exact Ev|]. left. auto.
  - rewrite superseeded_unfold in E. unfold same_pred in SP.
    destruct (pred_symbol lhs) as [[ln largs]|] eqn:EL; [|discriminate].
    destruct (pred_symbol rhs) as [[rn rargs]|] eqn:ER; [|discriminate].
    rewrite SP in E.
    apply pred_symbol_some in EL. destruct EL as [sgl [le ->]].
    apply pred_symbol_some in ER. destruct ER as [sg [re ->]]. cbn [fst snd lit_sign] in *.
    destruct sgl; try discriminate. cbn [sign_eqb negb] in E.
    destruct (ss_loop_true _ _ _ _ E) as [m [Hin [Hh [Hb [Hs Hf]]]]]. cbn [fst snd] in Hf.
    rewrite Forall_forall in Hss. destruct (Hss m Hin) as [W Imp].
    destruct (fits_loop_true _ _ _ _ _ Hf) as [_ Nth].
    unfold symbol_pred in Hh, Hb. cbn [fst snd] in Hh, Hb.
    assert (Pk: picks largs rargs (var_map m)).
    { apply picks_of_nth; [unfold mapping_wf in W; rewrite W, Hb; reflexivity | exact Nth]. }
    exists ln, largs, le, sg, rn, rargs, re. split; [reflexivity|]. split; [reflexivity|]. split.
    { clear -Pk. induction Pk as [|t i qa vm N _ IH]; intros t0 H0; [destruct H0|].
      destruct H0 as [<-|H0]; [exact (nth_error_In _ _ N) | exact (IH t0 H0)]. }
    intros s vs Ev. exists (select (var_map m) vs). split; [exact (picks_eval s largs vs Ev rargs _ Pk)|].
    right. assert (L: List.length vs = snd (head_pred m)) by (rewrite Hh; apply (eval_list_length _ _ _ Ev)).
    specialize (Imp vs L). unfold mapping_lit in Imp. rewrite Hh, Hb, Hs in Imp. exact Imp.
Qed.

(* the same in terms of ground literals *)
Corollary superseeded_ground P I ss lhs rhs s gl :
  Forall (mapping_ok P I) ss -> no_anon rhs = true -> _superseeded ss lhs rhs = Ok true ->
  ground_lit s lhs = Some gl ->
  exists a g, gl = GPos a /\ ground_lit s rhs = Some g /\
    (g = GPos a \/ (g = GNN a /\ lit_sign lhs = NoSign /\ lit_sign rhs = NegNeg /\ same_pred lhs rhs = true)
     \/ gimp (ground_prog P I) a g).
Proof.
  intros Hss NA E Eg.
  destruct (superseeded_meaning P I ss lhs rhs Hss NA E) as [ln [largs [le [sg [rn [rargs [re [-> [-> [_ H]]]]]]]]]].
  rewrite ground_lit_fun in Eg. destruct (eval_list s largs) as [vs|] eqn:Ev; [|discriminate].
  inversion Eg; subst gl. destruct (H s vs Ev) as [ws [Ew D]].
  exists (ln, vs), (sign_form sg (rn, ws)). split; [reflexivity|]. split; [rewrite ground_lit_fun, Ew; reflexivity|].
  destruct D as [[Eq [NN SP]]|Imp]; [|right; right; exact Imp].
  rewrite Eq. destruct sg; [left; reflexivity | contradiction NN; reflexivity | right; left; auto].
Qed.


(* ================================================================================================ *)
(** * 8. _remove_superseed_from_list on a body of plain literals *)

(* ---- justification of deleted ground literals; closed under chains of removals ---- *)
(* A deleted ground literal f is justified by the shortened ground body fs' when it is still there, or a KEPT
   positive atom p implies it (Meta.Cleanup.imp), or it is the double negation  not not q  of the kept atom
   itself or of a positive atom q that the kept atom implies (the same-predicate branch of _superseeded
   removes  not not q(t)  next to  q(t);  q(t) itself may be removed later). *)
Definition just (GP: grule -> Prop) (fs fs': list gF) : Prop :=
  forall f, In f fs -> In f fs' \/
    exists p, In (GPos p) fs' /\ (gimp GP p f \/ exists q, f = GNN q /\ (q = p \/ gimp GP p (GPos q))).

Lemma just_refl GP fs : just GP fs fs.
Proof. intros f Hf. left. exact Hf. Qed.

(* a literal justified by a positive atom that is itself deleted later stays justified: transitivity of imp *)
Lemma just_trans GP fs fs' fs'' : just GP fs fs' -> just GP fs' fs'' -> just GP fs fs''.
Proof.
  intros J1 J2 f Hf. destruct (J1 f Hf) as [H1|[p [Hp Ip]]]; [exact (J2 f H1)|].
  destruct (J2 _ Hp) as [H2|[p' [Hp' [Ip'|[q [Eq _]]]]]]; [right; exists p; auto| |discriminate Eq].
  right. exists p'. split; [exact Hp'|].
  destruct Ip as [Ip|[q [Ef [->|Iq]]]].
  - left. exact (imp_trans _ _ _ _ _ _ _ Ip' Ip).
  - right. exists p. auto.
  - right. exists q. split; [exact Ef|]. right. exact (imp_trans _ _ _ _ _ _ _ Ip' Iq).
Qed.

(* the body part of Ground.del_ok, with the more general justification *)
Definition body_ok (GP: grule -> Prop) (b b': list bodyelem) : Prop :=
  del_body b b' /\
  forall s fs', ground_body s b' = Some fs' -> exists fs, ground_body s b = Some fs /\ just GP fs fs'.

Lemma del_body_refl b : del_body b b.
Proof. induction b; [apply del_nil | apply del_keep; assumption]. Qed.

Lemma del_body_trans a b : del_body a b -> forall c, del_body b c -> del_body a c.
Proof.
  induction 1 as [|e a b D IH|e a b D IH]; intros c Dc.
  - exact Dc.
  - inversion Dc; subst; [apply del_keep | apply del_drop]; apply IH; assumption.
  - apply del_drop. apply IH. exact Dc.
Qed.

Lemma body_ok_refl GP b : body_ok GP b b.
Proof. split; [apply del_body_refl|]. intros s fs' E. exists fs'. split; [exact E | apply just_refl]. Qed.

Lemma body_ok_trans GP b b' b'' : body_ok GP b b' -> body_ok GP b' b'' -> body_ok GP b b''.
Proof.
  intros [D1 J1] [D2 J2]. split; [exact (del_body_trans _ _ D1 _ D2)|].
  intros s fs'' E. destruct (J2 s fs'' E) as [fs' [E' Jb]]. destruct (J1 s fs' E') as [fs [E0 Ja]].
  exists fs. split; [exact E0 | exact (just_trans _ _ _ _ Ja Jb)].
Qed.

(* ---- list.remove on bodies ---- *)
Lemma bodyelem_eqb_sym_eq y sg t : bodyelem_eqb y (BLit (Lit sg (ASym t))) = true -> y = BLit (Lit sg (ASym t)).
Proof.
  destruct y as [[sg' a]|l c]; [|discriminate]. simpl.
  destruct a as [t'|t' gs|b|lg f es rg|lg es rg|x]; try (rewrite andb_false_r; discriminate).
  rewrite andb_true_iff, sign_eqb_eq. simpl. rewrite term_eqb_eq. intros [-> ->]. reflexivity.
Qed.

Lemma remove_first_In {A} (eqb: A -> A -> bool) r l x : In x (remove_first eqb r l) -> In x l.
Proof. apply subseq_In. apply remove_first_subseq. Qed.

Lemma remove_first_del r : forall b, del_body b (remove_first bodyelem_eqb r b).
Proof.
  induction b as [|y b IH]; simpl; [apply del_nil|].
  destruct (bodyelem_eqb y r); [apply del_drop; apply del_body_refl | apply del_keep; exact IH].
Qed.

Lemma remove_first_keeps {A} (eqb: A -> A -> bool) r :
  eqb r r = true -> (forall y, eqb y r = true -> y = r) ->
  forall l i j x, nth_error l i = Some x -> nth_error l j = Some r -> i <> j -> In x (remove_first eqb r l).
Proof.
  intros Hr Heq. induction l as [|y l IH]; intros i j x Ni Nj Ne; [destruct i; discriminate|].
  simpl. destruct (eqb y r) eqn:Ey.
  - apply Heq in Ey. subst y. destruct i as [|i]; simpl in Ni.
    + inversion Ni; subst x. destruct j as [|j]; [congruence|]. simpl in Nj. exact (nth_error_In _ _ Nj).
    + exact (nth_error_In _ _ Ni).
  - destruct i as [|i]; simpl in Ni.
    + inversion Ni; subst. left. reflexivity.
    + destruct j as [|j]; simpl in Nj.
      * inversion Nj; subst y. congruence.
      * right. apply (IH i j x Ni Nj). congruence.
Qed.

Lemma ground_body_remove_first s sg t g :
  ground_lit s (Lit sg (ASym t)) = Some g ->
  forall b fs', ground_body s (remove_first bodyelem_eqb (BLit (Lit sg (ASym t))) b) = Some fs' ->
  exists fs, ground_body s b = Some fs /\ forall f, In f fs -> f = g \/ In f fs'.
Proof.
  intros Eg. induction b as [|y b IH]; intros fs' E.
  - exists []. split; [reflexivity|]. intros f [].
  - cbn [remove_first] in E. destruct (bodyelem_eqb y (BLit (Lit sg (ASym t)))) eqn:Ey.
    + apply bodyelem_eqb_sym_eq in Ey. subst y. exists (g :: fs'). split.
      * cbn [Ground.ground_body]. rewrite Eg, E. reflexivity.
      * intros f [<-|Hf]; auto.
    + cbn [Ground.ground_body] in E. destruct y as [l0|l0 c]; [|discriminate].
      destruct (ground_lit s l0) as [g0|] eqn:E0; [|discriminate].
      destruct (ground_body s (remove_first bodyelem_eqb (BLit (Lit sg (ASym t))) b)) as [gs|] eqn:Er; [|discriminate].
      inversion E; subst fs'. destruct (IH gs eq_refl) as [fs0 [Ef0 Sub]].
      exists (g0 :: fs0). split.
      * cbn [Ground.ground_body]. rewrite E0, Ef0. reflexivity.
      * intros f [<-|Hf]; [right; left; reflexivity|]. destruct (Sub f Hf); [left | right; right]; assumption.
Qed.

(* ---- find_rhs / find_pair return a superseeded pair at two different positions ---- *)
Section FindSpec.
  Context {A: Type} (as_lit: A -> option lit) (ss: list Mapping).

  Lemma find_rhs_spec lhs i : forall l j r, find_rhs as_lit ss lhs i j l = Ok (Some r) ->
    exists k, nth_error l k = Some r /\ j + k <> i /\ superseeded_elem as_lit ss lhs r = Ok true.
  Proof.
    induction l as [|y l IH]; intros j r E; simpl in E; [discriminate|].
    destruct (Nat.eqb i j) eqn:Eij.
    - destruct (IH _ _ E) as [k [N [Ne HS]]]. exists (S k). split; [exact N|]. split; [lia | exact HS].
    - apply Nat.eqb_neq in Eij. apply rbind_ok in E. destruct E as [b [Eb E]]. destruct b.
      + inversion E; subst y. exists 0. split; [reflexivity|]. split; [lia | exact Eb].
      + destruct (IH _ _ E) as [k [N [Ne HS]]]. exists (S k). split; [exact N|]. split; [lia | exact HS].
  Qed.

  Lemma find_pair_spec whole : forall rest i r,
    (forall k x, nth_error rest k = Some x -> nth_error whole (i + k) = Some x) ->
    find_pair as_lit ss whole i rest = Ok (Some r) ->
    exists i' j' lhs, nth_error whole i' = Some lhs /\ nth_error whole j' = Some r /\ i' <> j' /\
                      superseeded_elem as_lit ss lhs r = Ok true.
  Proof.
    induction rest as [|lhs rest IH]; intros i r H E; simpl in E; [discriminate|].
    apply rbind_ok in E. destruct E as [o [Eo E]]. destruct o as [r'|].
    - inversion E; subst r'. destruct (find_rhs_spec _ _ _ _ _ Eo) as [k [N [Ne HS]]].
      exists i, k, lhs. split; [|split; [exact N|split; [lia|exact HS]]].
      specialize (H 0 lhs eq_refl). rewrite Nat.add_0_r in H. exact H.
    - apply (IH (S i) r); [|exact E]. intros k x N. replace (S i + k) with (i + S k) by lia. apply H. exact N.
  Qed.
End FindSpec.

Lemma superseeded_elem_body ss x y : superseeded_elem bodyelem_as_lit ss x y = Ok true ->
  exists lhs rhs, x = BLit lhs /\ y = BLit rhs /\ _superseeded ss lhs rhs = Ok true.
Proof.
  unfold superseeded_elem. destruct x as [l|l c]; [|discriminate]. destruct y as [r|r c]; [|discriminate].
  simpl. intros E. eauto.
Qed.

(* ---- the invariant of the bodies of the fragment ---- *)
Definition body_inv (b: list bodyelem) : Prop := forall l, In (BLit l) b -> no_anon l = true.

Lemma body_inv_incl b b' : (forall x, In x b' -> In x b) -> body_inv b -> body_inv b'.
Proof. intros Sub A l Hl. apply A. apply Sub. exact Hl. Qed.

(* one removal *)
Lemma step_body_ok P I ss b lhs rhs :
  Forall (mapping_ok P I) ss -> body_inv b ->
  In (BLit lhs) b -> In (BLit rhs) b -> In (BLit lhs) (remove_first bodyelem_eqb (BLit rhs) b) ->
  _superseeded ss lhs rhs = Ok true ->
  body_ok (ground_prog P I) b (remove_first bodyelem_eqb (BLit rhs) b).
Proof.
  intros Hss NA Hl Hr Hl' E. split; [apply remove_first_del|].
  intros s fs' Eb'.
  destruct (ground_body_in sym_lt s _ fs' lhs Eb' Hl') as [gl [Egl Hgl]].
  destruct (superseeded_ground P I ss lhs rhs s gl Hss (NA _ Hr) E Egl) as [a [g [-> [Eg D]]]].
  destruct (superseeded_meaning P I ss lhs rhs Hss (NA _ Hr) E) as [ln [largs [le [sg [rn [rargs [re [El [Er _]]]]]]]]].
  subst rhs.
  destruct (ground_body_remove_first s _ _ g Eg b fs' Eb') as [fs [Eb Sub]].
  exists fs. split; [exact Eb|]. intros f Hf. destruct (Sub f Hf) as [->|Hf']; [|left; exact Hf'].
  destruct D as [->|[[-> _]|Imp]].
  - left. exact Hgl.
  - right. exists a. split; [exact Hgl|]. right. exists a. auto.
  - right. exists a. auto.
Qed.

Lemma nth_error_self {A} (l: list A) : forall k x, nth_error l k = Some x -> nth_error l (0 + k) = Some x.
Proof. intros k x H. exact H. Qed.

(* the global variables of the body are preserved: a removed literal has its arguments among those of the
   literal that superseeds it (needed for the safety of choice heads, Ground.head_safe) *)
Definition vars_ok (b b': list bodyelem) : Prop :=
  forall x, In x (flat_map gvars_bodyelem b) -> In x (flat_map gvars_bodyelem b').

Lemma remove_first_or r : (forall y, bodyelem_eqb y r = true -> y = r) ->
  forall b x, In x b -> x = r \/ In x (remove_first bodyelem_eqb r b).
Proof.
  intros Heq. induction b as [|y b IH]; intros x Hx; [destruct Hx|]. simpl.
  destruct (bodyelem_eqb y r) eqn:Ey.
  - destruct Hx as [<-|Hx]; [left; apply Heq; exact Ey | right; exact Hx].
  - destruct Hx as [<-|Hx]; [right; left; reflexivity|]. destruct (IH x Hx); [left | right; right]; assumption.
Qed.

Lemma step_vars_ok P I ss b lhs rhs :
  Forall (mapping_ok P I) ss -> no_anon rhs = true ->
  In (BLit lhs) (remove_first bodyelem_eqb (BLit rhs) b) -> _superseeded ss lhs rhs = Ok true ->
  vars_ok b (remove_first bodyelem_eqb (BLit rhs) b).
Proof.
  intros Hss NA Hl' E x Hx.
  destruct (superseeded_meaning P I ss lhs rhs Hss NA E) as [ln [largs [le [sg [rn [rargs [re [El [Er [Incl _]]]]]]]]]].
  subst lhs rhs. apply in_flat_map in Hx. destruct Hx as [y [Hy Hxy]].
  destruct (remove_first_or (BLit (Lit sg (ASym (TFun rn rargs re)))) (fun y0 => bodyelem_eqb_sym_eq y0 sg _) b y Hy) as [->|Hy'].
  - apply in_flat_map. exists (BLit (Lit NoSign (ASym (TFun ln largs le)))). split; [exact Hl'|].
    simpl in *. apply in_flat_map in Hxy. destruct Hxy as [t [Ht Hxt]]. apply in_flat_map. exists t. auto.
  - apply in_flat_map. exists y. auto.
Qed.

(* the whole loop *)
Lemma remove_loop_body_ok P I ss : Forall (mapping_ok P I) ss ->
  forall fuel b upd b' u, body_inv b ->
  remove_loop bodyelem_as_lit bodyelem_eqb ss fuel b upd = Ok (b', u) ->
  body_ok (ground_prog P I) b b' /\ vars_ok b b'.
Proof.
  intros Hss. induction fuel as [|f IH]; intros b upd b' u Inv E; simpl in E; [discriminate|].
  apply rbind_ok in E. destruct E as [o [Eo E]]. destruct o as [r|].
  - destruct (find_pair_spec bodyelem_as_lit ss b b 0 r (nth_error_self b) Eo) as [i' [j' [x [Ni [Nj [Ne S]]]]]].
    destruct (superseeded_elem_body _ _ _ S) as [lhs [rhs [-> [-> Es]]]].
    pose proof (Inv _ (nth_error_In _ _ Nj)) as NA.
    destruct (superseeded_meaning P I ss lhs rhs Hss NA Es)
      as [ln [largs [le [sg [rn [rargs [re [El [Er _]]]]]]]]].
    assert (Keep: In (BLit lhs) (remove_first bodyelem_eqb (BLit rhs) b)).
    { apply (remove_first_keeps bodyelem_eqb (BLit rhs) (bodyelem_eqb_refl _)) with (i := i') (j := j'); try assumption.
      rewrite Er. intros y. apply bodyelem_eqb_sym_eq. }
    destruct (IH _ _ _ _ (body_inv_incl _ _ (remove_first_In _ _ _) Inv) E) as [B2 V2]. split.
    + apply (body_ok_trans _ b (remove_first bodyelem_eqb (BLit rhs) b) b'); [|exact B2].
      apply (step_body_ok P I ss b lhs rhs Hss Inv (nth_error_In _ _ Ni) (nth_error_In _ _ Nj) Keep Es).
    + intros v Hv. apply V2. exact (step_vars_ok P I ss b lhs rhs Hss NA Keep Es v Hv).
  - inversion E; subst. split; [apply body_ok_refl | intros v Hv; exact Hv].
Qed.

Theorem remove_superseed_body_ok P I ss b b' u : Forall (mapping_ok P I) ss -> body_inv b ->
  remove_superseed_body ss b = Ok (b', u) -> body_ok (ground_prog P I) b b' /\ vars_ok b b'.
Proof. intros Hss Inv E. exact (remove_loop_body_ok P I ss Hss _ _ _ _ _ Inv E). Qed.


(* ================================================================================================ *)
(** * 8b. The cleanup meta-theorem for the more general justification *)
(* Meta.Cleanup.shortened has no case for a deleted  not not q.  Instead of re-proving the meta-theorem, both
   ground programs are saturated: every body gets  not not a  for each of its positive atoms a.  Saturation keeps
   the stable models (a and  a, not not a  are HT-equivalent for H <= T), and between the saturated programs
   every deletion justified by [just] IS an instance of Meta.Cleanup.shortened. *)
Notation gbsat := (Meta.Cleanup.bsat gatom gF gsat).
Notation grsat := (Meta.Cleanup.rsat gatom gF gsat).
Notation gpsat := (Meta.Cleanup.psat gatom gF gsat).
Notation gstable := (Meta.Cleanup.stable gatom gF gsat).
Notation gshortened := (Meta.Cleanup.shortened gatom gF GPos).
Notation mkrule := (Meta.Cleanup.Build_rule gatom gF).
Notation gsubi := (Meta.Cleanup.subi gatom).

Definition nn_of (f: gF) : list gF := match f with GPos a => [GNN a] | _ => [] end.
Definition nnsat (fs: list gF) : list gF := fs ++ flat_map nn_of fs.

Lemma in_nnsat f fs : In f (nnsat fs) <-> In f fs \/ exists a, f = GNN a /\ In (GPos a) fs.
Proof.
  unfold nnsat. rewrite in_app_iff, in_flat_map. split.
  - intros [H|[g [Hg Hf]]]; [left; exact H|]. destruct g; simpl in Hf; try contradiction.
    destruct Hf as [<-|[]]. right. eauto.
  - intros [H|[a [-> H]]]; [left; exact H|]. right. exists (GPos a). split; [exact H|]. left. reflexivity.
Qed.

Definition sat_rule (r: grule) : grule := mkrule (ghd r) (nnsat (gbd r)).
Definition sat_prog (GP: grule -> Prop) : grule -> Prop := fun r' => exists r, GP r /\ r' = sat_rule r.

Lemma bsat_nnsat (H T: interp) fs : gsubi H T -> (gbsat H T (nnsat fs) <-> gbsat H T fs).
Proof.
  intros S. unfold Meta.Cleanup.bsat. split.
  - intros B f Hf. apply B. apply in_nnsat. left. exact Hf.
  - intros B f Hf. apply in_nnsat in Hf. destruct Hf as [Hf|[a [-> Ha]]]; [exact (B f Hf)|].
    simpl. apply S. exact (B _ Ha).
Qed.

Lemma rsat_sat (H T: interp) r : gsubi H T -> (grsat H T (sat_rule r) <-> grsat H T r).
Proof.
  intros S. unfold Meta.Cleanup.rsat, sat_rule. simpl.
  pose proof (bsat_nnsat H T (gbd r) S) as A. pose proof (bsat_nnsat T T (gbd r) (fun a h => h)) as B. tauto.
Qed.

Lemma psat_sat (H T: interp) GP : gsubi H T -> (gpsat H T (sat_prog GP) <-> gpsat H T GP).
Proof.
  intros S. unfold Meta.Cleanup.psat, sat_prog. split.
  - intros A r Pr. apply (rsat_sat H T r S). apply A. exists r. auto.
  - intros A r' [r [Pr ->]]. apply (rsat_sat H T r S). apply A. exact Pr.
Qed.

Lemma stable_sat GP (T: interp) : gstable GP T <-> gstable (sat_prog GP) T.
Proof.
  unfold Meta.Cleanup.stable. pose proof (psat_sat T T GP (fun a h => h)) as X.
  split; intros [A B]; (split; [apply X; exact A|]); intros H S PS; apply B; auto; apply (psat_sat H T GP S); exact PS.
Qed.

(* implications survive saturation, and an implied positive atom yields its double negation *)
Lemma impn_sat GP n : forall p f f', gimpn GP n p f -> (f' = f \/ exists q, f = GPos q /\ f' = GNN q) ->
  gimpn (sat_prog GP) n p f'.
Proof.
  assert (L0: forall (r: grule) f f', In f (gbd r) -> (f' = f \/ exists q, f = GPos q /\ f' = GNN q) ->
              In f' (gbd (sat_rule r))).
  { intros r f f' Hin L. simpl. apply in_nnsat. destruct L as [->|[q [-> ->]]]; [left; exact Hin | right; eauto]. }
  induction n as [|n IH]; intros p f f' H L.
  - apply impn_0. intros r' [r [Pr ->]] Ha. simpl in Ha.
    exact (L0 r f f' (proj1 (impn_0 _ _ _ _ _ _) H r Pr Ha) L).
  - apply impn_succ. intros r' [r [Pr ->]] Ha. simpl in Ha.
    destruct (proj1 (impn_succ _ _ _ _ _ _ _) H r Pr Ha) as [Hin|[q0 [Hq0 Hi]]].
    + left. exact (L0 r f f' Hin L).
    + right. exists q0. split; [simpl; apply in_nnsat; left; exact Hq0 | exact (IH _ _ _ Hi L)].
Qed.

Lemma just_shortened GP fs fs' h : (forall f, In f fs' -> In f fs) -> just GP fs fs' ->
  gshortened (sat_prog GP) (sat_rule (mkrule h fs)) (sat_rule (mkrule h fs')).
Proof.
  intros Sub J. unfold Meta.Cleanup.shortened, sat_rule. simpl. split; [reflexivity|]. split.
  - intros f Hf. apply in_nnsat in Hf. apply in_nnsat.
    destruct Hf as [Hf|[a [-> Ha]]]; [left; auto | right; exists a; auto].
  - intros l Hl. apply in_nnsat in Hl.
    assert (K: forall f, In f fs -> forall f', (f' = f \/ exists q, f = GPos q /\ f' = GNN q) ->
               In f' (nnsat fs') \/ exists p, In (GPos p) (nnsat fs') /\ gimp (sat_prog GP) p f').
    { intros f Hf f' L. destruct (J f Hf) as [H1|[p [Hp D]]].
      - left. apply in_nnsat. destruct L as [->|[q [-> ->]]]; [left; exact H1 | right; eauto].
      - destruct D as [[n Ip]|[q [Ef D]]].
        + right. exists p. split; [apply in_nnsat; left; exact Hp|]. exists n. exact (impn_sat GP n p f f' Ip L).
        + subst f. destruct L as [->|[q' [Eq _]]]; [|discriminate Eq].
          destruct D as [->|[n Iq]].
          * left. apply in_nnsat. right. eauto.
          * right. exists p. split; [apply in_nnsat; left; exact Hp|]. exists n.
            apply (impn_sat GP n p (GPos q) (GNN q) Iq). right. eauto. }
    destruct Hl as [Hl|[a [-> Ha]]].
    + apply (K l Hl l). left. reflexivity.
    + apply (K (GPos a) Ha (GNN a)). right. eauto.
Qed.

(* Ground.del_ok with [just] in place of its last clause (Ground.del_ok implies del_ok_nn) *)
Definition del_ok_nn (P: program) (I: list gatom) (st st': stmt) : Prop :=
  match st, st' with
  | SRule _ h b, SRule _ h' b' => h = h' /\ body_ok (ground_prog P I) b b'
  | SRule _ _ _, _ => False
  | _, SRule _ _ _ => False
  | _, _ => True
  end.

Lemma shortened_refl GP r : gshortened GP r r.
Proof. split; [reflexivity|]. split; [auto|]. intros l Hl. left. exact Hl. Qed.

Lemma del_fwd_nn P P' I : Forall2 (del_ok_nn P I) P P' ->
  forall r, sat_prog (ground_prog P I) r ->
  exists r', sat_prog (ground_prog P' I) r' /\ gshortened (sat_prog (ground_prog P I)) r r'.
Proof.
  intros D r [r0 [[[st [Hin GR]]|[a [Hin ->]]] ->]].
  - destruct (Forall2_in_l _ _ _ _ D Hin) as [st' [Hin' OK]].
    destruct st as [line h b| | | |]; try (simpl in GR; contradiction).
    destruct st' as [line' h' b'| | | |]; try (simpl in OK; contradiction).
    destruct OK as [<- [Del OK]]. destruct GR as [s [fs [Eb [Hh Ebd]]]].
    destruct (ground_body_del sym_lt s b b' Del fs Eb) as [fs' [Eb' Sub]].
    exists (sat_rule (mkrule (ghd r0) fs')). split.
    + exists (mkrule (ghd r0) fs'). split; [|reflexivity]. left. exists (SRule line' h b'). split; [exact Hin'|].
      exists s, fs'. simpl. auto.
    + destruct (OK s fs' Eb') as [fs0 [Eb0 J]]. rewrite Eb in Eb0. inversion Eb0; subst fs0.
      destruct r0 as [rh rb]. simpl in Ebd. subst rb. simpl. apply just_shortened; assumption.
  - exists (sat_rule (fact_rule a)). split; [|apply shortened_refl].
    exists (fact_rule a). split; [right; exists a; auto | reflexivity].
Qed.

Lemma del_bwd_nn P P' I : Forall2 (del_ok_nn P I) P P' ->
  forall r', sat_prog (ground_prog P' I) r' ->
  exists r, sat_prog (ground_prog P I) r /\ gshortened (sat_prog (ground_prog P I)) r r'.
Proof.
  intros D r' [r0 [[[st' [Hin' GR]]|[a [Hin ->]]] ->]].
  - destruct (Forall2_in_r _ _ _ _ D Hin') as [st [Hin OK]].
    destruct st' as [line' h' b'| | | |]; try (simpl in GR; contradiction).
    destruct st as [line h b| | | |]; try (simpl in OK; contradiction).
    destruct OK as [<- [Del OK]]. destruct GR as [s [fs' [Eb' [Hh Ebd]]]].
    destruct (OK s fs' Eb') as [fs [Eb J]].
    destruct (ground_body_del sym_lt s b b' Del fs Eb) as [fs0 [Eb0 Sub]]. rewrite Eb' in Eb0. inversion Eb0; subst fs0.
    exists (sat_rule (mkrule (ghd r0) fs)). split.
    + exists (mkrule (ghd r0) fs). split; [|reflexivity]. left. exists (SRule line h b). split; [exact Hin|].
      exists s, fs. simpl. auto.
    + destruct r0 as [rh rb]. simpl in Ebd. subst rb. simpl. apply just_shortened; assumption.
  - exists (sat_rule (fact_rule a)). split; [|apply shortened_refl].
    exists (fact_rule a). split; [right; exists a; auto | reflexivity].
Qed.

(* Ground.cleanup_nonground_del for the more general justification *)
Theorem cleanup_nonground_del_nn P P' I : simple_prog P = true -> simple_prog P' = true ->
  Forall2 (del_ok_nn P I) P P' ->
  forall T, stable sym_lt P I T <-> stable sym_lt P' I T.
Proof.
  intros S S' D T.
  rewrite (ground_stable_iff sym_lt P S I T), (ground_stable_iff sym_lt P' S' I T).
  rewrite (stable_sat (ground_prog P I) T), (stable_sat (ground_prog P' I) T). split.
  - exact (Meta.Cleanup.cleanup_fwd gatom gF gsat GPos gsat_pos gsat_persist _ _ (del_fwd_nn P P' I D) (del_bwd_nn P P' I D) T).
  - exact (Meta.Cleanup.cleanup_bwd gatom gF gsat GPos gsat_pos gsat_mono _ _ (del_fwd_nn P P' I D) (del_bwd_nn P P' I D) T).
Qed.

(* ================================================================================================ *)
(** * 9. _apply_superseeding, remove_boolean and execute_core on the fragment *)

(* The fragment of step 5 (all conditions are boolean):
   - heads ([frag_head]): plain atom  n(args),  a constant (constraints), or a bound-free choice over
     condition-free positive atoms in which elements of the same predicate have the same arguments, and which is
     safe (Ground.head_safe: its variables occur in the body; part of Ground.simple_prog).  No disjunction, no
     head aggregate, no conditions in choice elements (known defect: union of the element mappings);
   - bodies of rules: plain literals only (symbolic atoms of any sign, comparisons); no conditional literals,
     no aggregates, no #true / #false;
   - no body literal has the anonymous variable "_" as an argument ("_" is an ordinary variable in Sem/Sat.v);
   - bodies of minimize statements: plain literals only (they carry no meaning for stable models; the condition
     only makes remove_boolean keep the statement);
   - other statements: arbitrary. *)
Definition frag_lit (l: lit) : bool :=
  match l with Lit _ (ASym _) => true | Lit _ (ACmp _ _) => true | _ => false end.
Definition elem_ok (e: bodyelem) : bool := match e with BLit l => frag_lit l | BCond _ _ => false end.
Definition anon_ok (e: bodyelem) : bool := match e with BLit l => no_anon l | BCond _ _ => true end.
Definition frag_body (b: list bodyelem) : bool := forallb elem_ok b && forallb anon_ok b.
Definition frag_stmt (st: stmt) : bool :=
  match st with
  | SRule _ h b => frag_head h && frag_body b && head_safe h b
  | SMin _ _ _ _ b => forallb elem_ok b
  | _ => true
  end.
Definition frag_prog (P: program) : bool := forallb frag_stmt P.

Lemma frag_body_inv b : frag_body b = true -> forallb elem_ok b = true /\ body_inv b.
Proof.
  unfold frag_body. rewrite !andb_true_iff, !forallb_forall. intros [A B]. split; [exact A|].
  intros l Hl. exact (B _ Hl).
Qed.

Lemma frag_prog_heads P : frag_prog P = true -> heads_ok P = true.
Proof.
  unfold frag_prog, heads_ok. rewrite !forallb_forall. intros H st Hin. specialize (H st Hin).
  destruct st; try reflexivity. simpl in *. rewrite !andb_true_iff in H. tauto.
Qed.

Lemma elem_ok_simple b : forallb elem_ok b = true -> simple_body b = true.
Proof.
  unfold simple_body. rewrite !forallb_forall. intros H e He. specialize (H e He).
  destruct e as [[sg a]|]; [|discriminate]. destruct a; try discriminate; reflexivity.
Qed.

Lemma frag_head_simple h : frag_head h = true -> simple_head h = true.
Proof.
  intros Fh. destruct (frag_head_cases h Fh) as [[n [hargs [e ->]]]|[[sg [c ->]]|[es [-> [Si _]]]]]; try reflexivity.
  - destruct sg; reflexivity.
  - exact Si.
Qed.

(* the safety of a choice head survives the removals: the global variables of the body are preserved *)
Lemma head_safe_mono h b b' : vars_ok b b' -> head_safe h b = true -> head_safe h b' = true.
Proof.
  intros V. destruct h as [l|es|lg es rg|lg f es rg|tx]; try (intros _; reflexivity).
  unfold head_safe. rewrite !forallb_forall. intros H x Hx. specialize (H x Hx).
  apply existsb_exists in H. destruct H as [y [Hy Exy]]. apply existsb_exists. exists y. split; [|exact Exy].
  unfold gvars_rule in *. apply in_app_or in Hy. apply in_or_app. destruct Hy as [Hy|Hy]; [left; exact Hy | right; apply V; exact Hy].
Qed.

Lemma frag_prog_simple P : frag_prog P = true -> simple_prog P = true.
Proof.
  unfold frag_prog, simple_prog. rewrite !forallb_forall. intros H st Hin. specialize (H st Hin).
  destruct st as [ln h b| | | |]; try reflexivity. simpl in *. rewrite !andb_true_iff in H. destruct H as [[Ph Fb] Hs].
  rewrite (frag_head_simple h Ph), Hs. destruct (frag_body_inv b Fb) as [Eo _].
  rewrite (elem_ok_simple b Eo). reflexivity.
Qed.

(* plain literals are left alone by the aggregate / conditional part of _apply_superseeding ... *)
Lemma mapM_upd_plain sups : forall b, forallb elem_ok b = true -> mapM_upd (apply_blit sups) b = Ok (b, false).
Proof.
  induction b as [|e b IH]; intros H; [reflexivity|]. simpl in H. apply andb_true_iff in H. destruct H as [He Hb].
  cbn [mapM_upd]. rewrite (IH Hb).
  destruct e as [[sg a]|]; [|discriminate]. destruct a; try discriminate; reflexivity.
Qed.

(* ... and by remove_boolean *)
Lemma boolean_cleanup_plain : forall b, forallb elem_ok b = true ->
  remove_true_literals (cleanup_boolean_conditionals (cleanup_boolean_aggregates b)) = b /\ contains_false b = false.
Proof.
  induction b as [|e b IH]; intros H; [split; reflexivity|]. simpl in H. apply andb_true_iff in H. destruct H as [He Hb].
  destruct (IH Hb) as [A B]. unfold remove_true_literals, cleanup_boolean_conditionals, cleanup_boolean_aggregates, contains_false in *.
  destruct e as [[sg a]|]; [|discriminate]. destruct a; try discriminate; simpl; rewrite A, B; split; reflexivity.
Qed.

Lemma remove_boolean_rule ln h b : forallb elem_ok b = true -> remove_boolean (SRule ln h b) = Some (SRule ln h b).
Proof.
  intros H. unfold remove_boolean. cbn [stmt_body]. destruct (boolean_cleanup_plain b H) as [A B].
  rewrite A, B. reflexivity.
Qed.
Lemma remove_boolean_min ln w p ts b : forallb elem_ok b = true -> remove_boolean (SMin ln w p ts b) = Some (SMin ln w p ts b).
Proof.
  intros H. unfold remove_boolean. cbn [stmt_body]. destruct (boolean_cleanup_plain b H) as [A B].
  rewrite A, B. reflexivity.
Qed.

Lemma elem_ok_sub b b' : (forall x, In x b' -> In x b) -> forallb elem_ok b = true -> forallb elem_ok b' = true.
Proof. rewrite !forallb_forall. intros Sub H x Hx. apply H. apply Sub. exact Hx. Qed.

(* _apply_superseeding on a statement with a body of plain literals: only _remove_superseed_from_list acts *)
Lemma apply_superseeding_plain sups stm b s : stmt_body stm = Some b -> forallb elem_ok b = true ->
  _apply_superseeding sups stm = Ok s ->
  exists b' u, remove_superseed_body sups b = Ok (b', u) /\ s = stmt_update_body stm b' /\ forallb elem_ok b' = true.
Proof.
  intros Eb Ok_b E. unfold _apply_superseeding in E. rewrite Eb in E.
  apply rbind_ok in E. destruct E as [[b' u] [Er E]]. cbn [fst snd] in E.
  destruct (remove_superseed_only_removes_proof _ _ _ _ _ _ Er) as [_ [Sub [_ Same]]].
  pose proof (elem_ok_sub b b' Sub Ok_b) as Ok_b'.
  rewrite (mapM_upd_plain sups b' Ok_b') in E. cbn [rbind fst snd] in E. rewrite orb_false_r in E.
  exists b', u. split; [exact Er|]. split; [|exact Ok_b'].
  destruct u; inversion E; subst s; [reflexivity|].
  rewrite (Same eq_refl). destruct stm; simpl in Eb; inversion Eb; subst; reflexivity.
Qed.

Lemma exec_fold_Forall2 (R: stmt -> stmt -> Prop) sups : forall prg acc out,
  (forall stm s, In stm prg -> _apply_superseeding sups stm = Ok s -> remove_boolean s = Some s /\ R stm s) ->
  fold_left (exec_step sups) prg (Ok acc) = Ok out -> exists out', out = acc ++ out' /\ Forall2 R prg out'.
Proof.
  induction prg as [|stm prg IH]; intros acc out H E; simpl in E.
  - inversion E; subst. exists []. split; [rewrite app_nil_r; reflexivity | constructor].
  - destruct (exec_fold_filter _ _ _ _ E) as [acc' [E' _]]. rewrite E' in E.
    unfold exec_step in E'. cbn [rbind] in E'. apply rbind_ok in E'. destruct E' as [s [Es E']].
    destruct (H stm s (or_introl eq_refl) Es) as [RB Rs]. rewrite RB in E'. inversion E'; subst acc'.
    destruct (IH _ _ (fun stm' s' Hin => H stm' s' (or_intror Hin)) E) as [out' [-> F]].
    exists (s :: out'). split; [rewrite <- app_assoc; reflexivity | constructor; assumption].
Qed.

(* one statement of the fragment *)
Lemma apply_superseeding_del_ok P I sups stm s :
  Forall (mapping_ok P I) sups -> frag_stmt stm = true -> _apply_superseeding sups stm = Ok s ->
  remove_boolean s = Some s /\ del_ok_nn P I stm s /\ simple_stmt s = true.
Proof.
  intros Hss Fr E. destruct stm as [ln h b|ln w p ts b|n a pos|t b|k x].
  - simpl in Fr. rewrite !andb_true_iff in Fr. destruct Fr as [[Ph Fb] Hs]. destruct (frag_body_inv b Fb) as [Eo Inv].
    destruct (apply_superseeding_plain sups (SRule ln h b) b s eq_refl Eo E) as [b' [u [Er [-> Eo']]]]. cbn [stmt_update_body].
    split; [apply remove_boolean_rule; exact Eo'|].
    pose proof (remove_superseed_body_ok P I sups b b' u Hss Inv Er) as [[D J] VO]. split.
    + simpl. split; [reflexivity|]. split; [exact D | exact J].
    + simpl. rewrite (frag_head_simple h Ph), (head_safe_mono h b b' VO Hs), (elem_ok_simple b' Eo'). reflexivity.
  - simpl in Fr. destruct (apply_superseeding_plain sups (SMin ln w p ts b) b s eq_refl Fr E) as [b' [u [Er [-> Eo']]]]. cbn [stmt_update_body].
    split; [apply remove_boolean_min; exact Eo'|]. split; [exact Logic.I | reflexivity].
  - inversion E; subst. split; [reflexivity|]. split; [exact Logic.I | reflexivity].
  - inversion E; subst. split; [reflexivity|]. split; [exact Logic.I | reflexivity].
  - inversion E; subst. split; [reflexivity|]. split; [exact Logic.I | reflexivity].
Qed.

Lemma Forall2_impl' {A B} (R R': A -> B -> Prop) l l' : (forall a b, R a b -> R' a b) -> Forall2 R l l' -> Forall2 R' l l'.
Proof. intros H. induction 1; constructor; auto. Qed.

(* Step 5.  The program returned by the model has the same stable models as its input, for every instance
   over the declared input predicates. *)
Theorem execute_core_sound inputs prg prg' :
  frag_prog prg = true -> execute_core inputs prg = Ok prg' ->
  forall I, facts_over (in_inputs inputs) I ->
  forall T, stable sym_lt prg I T <-> stable sym_lt prg' I T.
Proof.
  intros Fr E I FO.
  unfold execute_core, execute_core_state in E.
  apply rbind_ok in E. destruct E as [[out sups'] [E E2]]. inversion E2; subst prg'. clear E2. cbn [fst].
  apply rbind_ok in E. destruct E as [sups [Ef E]].
  apply rbind_ok in E. destruct E as [r [El E]]. inversion E; subst out sups'. clear E.
  pose proof (find_superseeded_meaning inputs prg I sups (frag_prog_heads _ Fr) FO Ef) as Hss.
  rewrite execute_loop_eq in El.
  destruct (exec_fold_Forall2 (fun stm s => del_ok_nn prg I stm s /\ simple_stmt s = true) sups prg [] r) as [out' [Eo F]].
  { intros stm s Hin Es. apply (apply_superseeding_del_ok prg I sups stm s Hss); [|exact Es].
    unfold frag_prog in Fr. rewrite forallb_forall in Fr. exact (Fr stm Hin). }
  { exact El. }
  simpl in Eo. subst out'.
  apply cleanup_nonground_del_nn.
  - apply frag_prog_simple. exact Fr.
  - unfold simple_prog. apply forallb_forall. intros s Hs.
    destruct (Forall2_in_r _ _ _ _ F Hs) as [stm [_ [_ X]]]. exact X.
  - apply (Forall2_impl' _ _ _ _ (fun a b (H: _ /\ _) => proj1 H) F).
Qed.

End CleanupSem.

(* ================================================================================================ *)
(** * 10. Sanity check: the theorem applies to a run of the model with a chain of removals *)
(*      p(X) :- q(X).   q(X) :- r(X).   a(X) :- q(X), p(X), r(X).          inputs: r/1
      the model first removes r(X) (implied by q(X)), then q(X) (implied by p(X)): the literal that justified
      the first removal is itself removed, and r(X) ends up justified by p(X) through the closure. *)
Module CleanupExample.
Definition at1 (n: string) : lit := Lit NoSign (ASym (TFun n [TVar "X"] false)).
Definition r1 : stmt := SRule 1 (HLit (at1 "p")) [BLit (at1 "q")].
Definition r2 : stmt := SRule 2 (HLit (at1 "q")) [BLit (at1 "r")].
Definition r3 : stmt := SRule 3 (HLit (at1 "a")) [BLit (at1 "q"); BLit (at1 "p"); BLit (at1 "r")].
Definition r3' : stmt := SRule 3 (HLit (at1 "a")) [BLit (at1 "p")].

Example run : execute_core [("r", 1)] [r1; r2; r3] = Ok [r1; r2; r3'].
Proof. vm_compute. reflexivity. Qed.

Example run_sound sym_lt I T : facts_over (in_inputs [("r", 1)]) I ->
  stable sym_lt [r1; r2; r3] I T <-> stable sym_lt [r1; r2; r3'] I T.
Proof. intros FO. apply (execute_core_sound sym_lt [("r", 1)] [r1; r2; r3] [r1; r2; r3'] eq_refl run I FO). Qed.

(* a safe choice head:   {p(X)} :- q(X).   a(X) :- p(X), q(X).   inputs: q/1 *)
Definition c1 : stmt := SRule 1 (HAgg None [(at1 "p", [])] None) [BLit (at1 "q")].
Definition c2 : stmt := SRule 2 (HLit (at1 "a")) [BLit (at1 "p"); BLit (at1 "q")].
Definition c2' : stmt := SRule 2 (HLit (at1 "a")) [BLit (at1 "p")].
Example run_choice : execute_core [("q", 1)] [c1; c2] = Ok [c1; c2'].
Proof. vm_compute. reflexivity. Qed.
Example run_choice_sound sym_lt I T : facts_over (in_inputs [("q", 1)]) I ->
  stable sym_lt [c1; c2] I T <-> stable sym_lt [c1; c2'] I T.
Proof. intros FO. apply (execute_core_sound sym_lt [("q", 1)] [c1; c2] [c1; c2'] eq_refl run_choice I FO). Qed.

(* outside the fragment (known defect, union of element mappings):  {p(X); p(Y)} :- q(X), r(Y).  a(X) :- p(X), q(X).
   The model drops q(X) although p(2) can be chosen through the second element with r(2) and without q(2). *)
Definition d1 : stmt :=
  SRule 1 (HAgg None [(Lit NoSign (ASym (TFun "p" [TVar "X"] false)), []); (Lit NoSign (ASym (TFun "p" [TVar "Y"] false)), [])] None)
          [BLit (at1 "q"); BLit (Lit NoSign (ASym (TFun "r" [TVar "Y"] false)))].
Example defect_union_outside_fragment :
  frag_prog [d1; c2] = false /\ execute_core [("q", 1); ("r", 1)] [d1; c2] = Ok [d1; c2'].
Proof. split; vm_compute; reflexivity. Qed.
End CleanupExample.

Print Assumptions create_mappings_meaning.
Print Assumptions create_mappings_meaning_frag.
Print Assumptions find_superseeded_direct_meaning.
Print Assumptions transitive_closure_meaning.
Print Assumptions find_superseeded_meaning.
Print Assumptions superseeded_meaning.
Print Assumptions remove_superseed_body_ok.
Print Assumptions cleanup_nonground_del_nn.
Print Assumptions execute_core_sound.
Print Assumptions CleanupExample.run_sound.
Print Assumptions CleanupExample.run_choice_sound.
