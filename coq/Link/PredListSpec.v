(* C19: the name/arity lists given on the command line are parsed entry by entry, in order, nothing merged. *)
From Coq Require Import List String Ascii ZArith Bool Lia.
From NGO Require Import Syntax.Ast Gen.Cli Model.PredList.
Import ListNotations.
Open Scope string_scope. Open Scope list_scope.

(* the constants the translator read off PredicateList.__call__ *)
Theorem predlist_constants_proof :
  predlist_auto_token = "auto" /\ predlist_sep = "," /\ predlist_arity_sep = "/" /\ predlist_strip = " " /\ predlist_parts = 2.
Proof. repeat split; reflexivity. Qed.

Definition entry_of (p: string) : option (string * Z) :=
  let sl := split_on (first_char predlist_arity_sep) p in
  if negb (Nat.eqb (List.length sl) predlist_parts) then None
  else match py_int (nth 1 sl EmptyString) with
       | None => None
       | Some a => Some (strip (first_char predlist_strip) (nth 0 sl EmptyString), a)
       end.

(* every part yields exactly one entry, in the order given; one bad part rejects the whole list *)
Theorem parse_parts_spec_proof : forall parts l,
  parse_parts parts = Ok l <-> map entry_of parts = map Some l.
Proof.
  induction parts as [|p rest IH]; intros l; cbn [parse_parts map].
  - split; intros H.
    + injection H as <-. reflexivity.
    + destruct l; [reflexivity|discriminate].
  - unfold entry_of at 1.
    destruct (negb (Nat.eqb (List.length (split_on (first_char predlist_arity_sep) p)) predlist_parts)) eqn:E.
    + split; intros H; [discriminate|]. destruct l; discriminate.
    + destruct (py_int (nth 1 (split_on (first_char predlist_arity_sep) p) "")) as [a|] eqn:Ea.
      * destruct (parse_parts rest) as [l'| | |] eqn:Er.
        -- split; intros H.
           ++ injection H as <-. cbn [map]. f_equal. apply IH. reflexivity.
           ++ destruct l as [|x l0]; [discriminate|]. cbn [map] in H. injection H as Hx Hl.
              apply IH in Hl. injection Hl as ->. subst x. reflexivity.
        -- split; intros H; [discriminate|]. destruct l as [|x l0]; [discriminate|]. cbn [map] in H.
           injection H as _ Hl. apply IH in Hl. discriminate.
        -- split; intros H; [discriminate|]. destruct l as [|x l0]; [discriminate|]. cbn [map] in H.
           injection H as _ Hl. apply IH in Hl. discriminate.
        -- split; intros H; [discriminate|]. destruct l as [|x l0]; [discriminate|]. cbn [map] in H.
           injection H as _ Hl. apply IH in Hl. discriminate.
      * split; intros H; [discriminate|]. destruct l; discriminate.
Qed.

Theorem parse_parts_length_proof : forall parts l, parse_parts parts = Ok l -> List.length l = List.length parts.
Proof.
  intros parts l H. apply parse_parts_spec_proof in H.
  rewrite <- (map_length Some l), <- H, map_length. reflexivity.
Qed.

Theorem parse_parts_never_out_of_fuel_proof : forall parts,
  parse_parts parts <> OutOfFuel /\ parse_parts parts <> OutOfFragment.
Proof.
  induction parts as [|p rest [IH1 IH2]]; cbn [parse_parts]; [split; discriminate|].
  destruct (negb _); [split; discriminate|]. destruct (py_int _); [|split; discriminate].
  destruct (parse_parts rest); split; try discriminate; congruence.
Qed.

(* the whole value: "auto" and "" are the only special values *)
Theorem parse_predicate_list_spec_proof : forall v l,
  v <> predlist_auto_token -> v <> "" ->
  (parse_predicate_list v = Ok (PLList l) <-> map entry_of (split_on (first_char predlist_sep) v) = map Some l).
Proof.
  intros v l Ha He. unfold parse_predicate_list.
  destruct (String.eqb_spec v predlist_auto_token); [contradiction|].
  destruct (String.eqb_spec v ""); [contradiction|].
  rewrite <- parse_parts_spec_proof.
  destruct (parse_parts (split_on (first_char predlist_sep) v)); split; intros H; try discriminate; congruence.
Qed.

(* one name with two arities stays two entries *)
Example same_name_two_arities :
  parse_predicate_list "p/1,p/2" = Ok (PLList [("p", 1%Z); ("p", 2%Z)]) /\
  parse_predicate_list "e/2, e/1" = Ok (PLList [("e", 2%Z); ("e", 1%Z)]) /\
  parse_predicate_list "zero/0, another/14" = Ok (PLList [("zero", 0%Z); ("another", 14%Z)]) /\
  parse_predicate_list "auto" = Ok PLAuto /\ parse_predicate_list "" = Ok (PLList []) /\
  parse_predicate_list "a/b" = Raise "ArgumentTypeError" /\ parse_predicate_list "a" = Raise "ArgumentTypeError".
Proof. vm_compute. repeat split; reflexivity. Qed.
