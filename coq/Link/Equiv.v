(* Algebra of the equivalence notions (Sem/Sat.v) used to compose per-pass results (C01, C02, C06)
   and the lifting of statement-level HT-equivalence to programs (G1 at the non-ground level). *)
From Coq Require Import List String ZArith Bool.
From NGO Require Import Syntax.Ast Sem.Sym Sem.Sat.
Import ListNotations.

Section Equiv.
Variable sym_lt : sym -> sym -> Prop.
Notation stable := (stable sym_lt).
Notation equiv_all := (equiv_all sym_lt).
Notation equiv_out := (equiv_out sym_lt).
Notation cons_ext := (cons_ext sym_lt).
Notation stmt_sat := (stmt_sat sym_lt).
Notation prog_sat := (prog_sat sym_lt).

Lemma equiv_all_refl P : equiv_all P P.
Proof. intros I T. tauto. Qed.
Lemma equiv_all_sym P Q : equiv_all P Q -> equiv_all Q P.
Proof. intros E I T. symmetry. apply E. Qed.
Lemma equiv_all_trans P Q R : equiv_all P Q -> equiv_all Q R -> equiv_all P R.
Proof. intros A B I T. rewrite (A I T). apply B. Qed.

Lemma equiv_out_refl IN OUT P : equiv_out IN OUT P P.
Proof. intros I _ S. tauto. Qed.
Lemma equiv_out_sym IN OUT P Q : equiv_out IN OUT P Q -> equiv_out IN OUT Q P.
Proof. intros E I F S. symmetry. apply E. exact F. Qed.
Lemma equiv_out_trans IN OUT P Q R : equiv_out IN OUT P Q -> equiv_out IN OUT Q R -> equiv_out IN OUT P R.
Proof. intros A B I F S. rewrite (A I F S). apply B. exact F. Qed.

Lemma equiv_all_out IN OUT P Q : equiv_all P Q -> equiv_out IN OUT P Q.
Proof.
  intros E I _ S. split; intros [T [St Sa]]; exists T; (split; [|exact Sa]); apply (E I T); exact St.
Qed.

Lemma same_trans (A B C: interp) : same A B -> same B C -> same A C.
Proof. intros X Y a. rewrite (X a). apply Y. Qed.
Lemma same_sym (A B: interp) : same A B -> same B A.
Proof. intros X a. symmetry. apply X. Qed.

Lemma restr_restr (V OUT: gatom -> Prop) T : (forall a, OUT a -> V a) -> same (restr OUT (restr V T)) (restr OUT T).
Proof. intros Sub a. unfold restr. split; [tauto|]. intros [Oa Ta]. split; [exact Oa|]. split; [apply Sub; exact Oa | exact Ta]. Qed.

Lemma same_restr (OUT: gatom -> Prop) A B : same A B -> same (restr OUT A) (restr OUT B).
Proof. intros X a. unfold restr. rewrite (X a). tauto. Qed.

(* a conservative extension over a vocabulary that contains the outputs preserves the output answer sets *)
Lemma cons_ext_out IN (V OUT: gatom -> Prop) P Q : (forall a, OUT a -> V a) -> cons_ext IN V P Q -> equiv_out IN OUT P Q.
Proof.
  intros Sub CE I F S. destruct (CE I F) as [A [B _]]. split.
  - intros [T [St Sa]]. destruct (A T St) as [T' [St' Sa']]. exists T'. split; [exact St'|].
    eapply same_trans; [|exact Sa]. eapply same_trans; [apply same_sym, (restr_restr V OUT T' Sub)|].
    apply same_restr. exact Sa'.
  - intros [T' [St' Sa']]. exists (restr V T'). split; [apply B; exact St'|].
    eapply same_trans; [apply (restr_restr V OUT T' Sub)|exact Sa'].
Qed.

(* composition of a pipeline of passes w.r.t. any preorder on programs *)
Section Pipeline.
  Variable R : program -> program -> Prop.
  Hypothesis R_refl : forall P, R P P.
  Hypothesis R_trans : forall P Q S, R P Q -> R Q S -> R P S.
  Variable pass : Type.
  Variable run : pass -> program -> program.
  Variable passes : list pass.
  Hypothesis sound : forall p, In p passes -> forall P, R P (run p P).

  Lemma pipeline_once : forall P, R P (fold_left (fun acc p => run p acc) passes P).
  Proof.
    revert sound. generalize passes. intro l. induction l as [|p l IH]; intros Hs P; simpl; [apply R_refl|].
    eapply R_trans; [apply Hs; left; reflexivity|]. apply IH. intros q Hq. apply Hs. right. exact Hq.
  Qed.

  (* any number of iterations of the outer loop *)
  Fixpoint iterate (n: nat) (P: program) : program :=
    match n with O => P | S n' => iterate n' (fold_left (fun acc p => run p acc) passes P) end.
  Theorem pipeline_preserves : forall n P, R P (iterate n P).
  Proof.
    induction n as [|n IH]; intro P; simpl; [apply R_refl|].
    eapply R_trans; [apply pipeline_once | apply IH].
  Qed.
End Pipeline.

(* ---- lifting statement-level HT-equivalence to programs ---- *)
Definition stmts_equiv (l1 l2: list stmt) :=
  forall H T, subi H T -> ((forall st, In st l1 -> stmt_sat H T st) <-> (forall st, In st l2 -> stmt_sat H T st)).

Lemma subi_refl (T: interp) : subi T T. Proof. intros a Ha; exact Ha. Qed.

Theorem stmts_equiv_equiv_all P Q : stmts_equiv P Q -> equiv_all P Q.
Proof.
  intros E I T. unfold Sat.stable, Sat.prog_sat. split; intros [[M Fa] Min]; (split; [split; [|exact Fa]|]).
  - apply (E T T (subi_refl T)). exact M.
  - intros H S PS FH. apply Min; [exact S | apply (E H T S); exact PS | exact FH].
  - apply (E T T (subi_refl T)). exact M.
  - intros H S PS FH. apply Min; [exact S | apply (E H T S); exact PS | exact FH].
Qed.

(* replace each statement by a list of statements with the same HT-models, in any context *)
Theorem flat_map_equiv (f: stmt -> list stmt) P :
  (forall st, In st P -> stmts_equiv [st] (f st)) -> equiv_all P (flat_map f P).
Proof.
  intros E. apply stmts_equiv_equiv_all. intros H T S. split.
  - intros A st Hst. apply in_flat_map in Hst. destruct Hst as [s0 [Hs0 Hin]].
    apply (proj1 (E s0 Hs0 H T S)); [|exact Hin]. intros st' [<-|[]]. apply A. exact Hs0.
  - intros A st Hst. apply (proj2 (E st Hst H T S)); [|left; reflexivity].
    intros st' Hin. apply A. apply in_flat_map. exists st. split; assumption.
Qed.

Theorem map_equiv (f: stmt -> stmt) P :
  (forall st, In st P -> forall H T, subi H T -> (stmt_sat H T st <-> stmt_sat H T (f st))) -> equiv_all P (map f P).
Proof.
  intros E. apply stmts_equiv_equiv_all. intros H T S. split.
  - intros A st Hst. apply in_map_iff in Hst. destruct Hst as [s0 [<- Hs0]]. apply (E s0 Hs0 H T S). apply A. exact Hs0.
  - intros A st Hst. apply (E st Hst H T S). apply A. apply in_map. exact Hst.
Qed.
End Equiv.
