(* The meaning of the generated order encoding of a unary domain predicate (C20):

      mn(X)   :- X = #min { L : dom(L) }; dom(_).
      nx(P,N) :- mn(P);   dom(N); N > P; not dom(B) : dom(B), P < B < N.
      nx(P,N) :- nx(_,P); dom(N); N > P; not dom(B) : dom(B), P < B < N.

   as produced by Model.Dependency.create_next_pred_for_annotated_pred, in the here-and-there semantics of
   Sem/Sat.v:  in every stable model  mn  holds exactly for the least element of dom's extension and
   nx  is exactly the successor relation of the sym_lt-sorted extension of dom.

   Contents
     1. supported_general : supportedness for programs with ARBITRARY bodies (conditional literals, aggregates)
        and atom / constant / condition-free choice heads with ARBITRARY bounds (Sem/Sat.v evaluates the bounds
        of a choice in the total interpretation only, as clingo does, so they play no role for supportedness).
     2. the AST of the three rules, and the model run on concrete programs.
     3. next_rules_meaning (uses Meta.Chain.next_exact).
     4. min_rule_meaning, and the combination next_pred_meaning.
   Axiom used: Classical_Prop.classic. *)
From Coq Require Import List String ZArith Bool Classical Sorted Permutation.
From NGO Require Import Syntax.Ast Sem.Sym Sem.Sat.
From NGO Require Meta.Chain Meta.Count Link.Ground Link.CleanupSpec.
From NGO Require Import Gen.Names Model.Globals Model.Dependency.
Import ListNotations.
Open Scope string_scope.
Open Scope list_scope.

(* ================================================================================================ *)
(* 1. Supportedness with arbitrary bodies                                                           *)
(* ================================================================================================ *)

(* the heads of the fragment *)
Inductive gen_head : head -> Prop :=
| GH_atom n args e : gen_head (HLit (Lit NoSign (ASym (TFun n args e))))
| GH_bool sg b : gen_head (HLit (Lit sg (ABool b)))
| GH_choice lg es rg :
    (forall c, In c es -> exists n args e, c = (Lit NoSign (ASym (TFun n args e)), [])) ->
    gen_head (HAgg lg es rg).

(* decidable version *)
Definition gen_headb (h: head) : bool :=
  match h with
  | HLit (Lit NoSign (ASym (TFun _ _ _))) => true
  | HLit (Lit _ (ABool _)) => true
  | HAgg _ es _ => forallb Ground.simple_choice_elem es
  | _ => false
  end.
Definition gen_stmtb (st: stmt) : bool := match st with SRule _ h _ => gen_headb h | _ => true end.
Definition gen_progb (P: program) : bool := forallb gen_stmtb P.

Lemma gen_headb_spec h : gen_headb h = true -> gen_head h.
Proof.
  destruct h as [[sg a]|es|lg es rg|lg f es rg|tx]; try discriminate.
  - destruct a as [t|t gs|b| | |]; try (destruct sg; discriminate).
    + destruct sg; try discriminate. destruct t; try discriminate. intros _. constructor.
    + intros _. constructor.
  - simpl. intro F.
    constructor. rewrite forallb_forall in F. intros c Hc. apply Ground.simple_choice_elem_inv. apply F. exact Hc.
Qed.

Lemma gen_progb_spec P : gen_progb P = true -> forall line h b, In (SRule line h b) P -> gen_head h.
Proof.
  unfold gen_progb. rewrite forallb_forall. intros F line h b Hin. apply gen_headb_spec. exact (F _ Hin).
Qed.

(* head h derives the ground atom a under s (G = the global variables of the rule; the local variables of a
   choice element range over all substitutions th that agree with s on G) *)
Inductive head_derives (G: list string) (s: subst) : head -> gatom -> Prop :=
| HD_atom n args e vs : eval_list s args = Some vs ->
    head_derives G s (HLit (Lit NoSign (ASym (TFun n args e)))) (n, vs)
| HD_choice lg es rg n args e th vs : In (Lit NoSign (ASym (TFun n args e)), []) es -> agree_on G s th ->
    eval_list th args = Some vs -> head_derives G s (HAgg lg es rg) (n, vs).

(* the predicates (name, arity) a head can derive *)
Definition condlit_names (c: condlit) : list (string * nat) :=
  match fst c with Lit _ (ASym (TFun n args _)) => [(n, List.length args)] | _ => [] end.
Definition head_names (h: head) : list (string * nat) :=
  match h with
  | HLit (Lit _ (ASym (TFun n args _))) => [(n, List.length args)]
  | HAgg _ es _ => flat_map condlit_names es
  | _ => []
  end.

Lemma eval_list_length s ts : forall vs, eval_list s ts = Some vs -> List.length vs = List.length ts.
Proof.
  induction ts as [|t ts IH]; simpl; intros vs E.
  - injection E as <-. reflexivity.
  - destruct (eval s t); [|discriminate]. destruct (eval_list s ts) as [ws|]; [|discriminate].
    injection E as <-. simpl. f_equal. apply IH. reflexivity.
Qed.

Lemma head_derives_names G s h n vs : head_derives G s h (n, vs) -> In (n, List.length vs) (head_names h).
Proof.
  intros D. inversion D as [n0 args e vs0 Ev|lg es rg n0 args e th vs0 Hin Ag Ev]; subst.
  - simpl. left. rewrite (eval_list_length _ _ _ Ev). reflexivity.
  - simpl. apply in_flat_map. exists (Lit NoSign (ASym (TFun n args e)), []). split; [exact Hin|].
    unfold condlit_names. simpl. left. rewrite (eval_list_length _ _ _ Ev). reflexivity.
Qed.

Section General.
Variable sym_lt : sym -> sym -> Prop.
Notation lit_sat := (lit_sat sym_lt).
Notation lits_sat := (lits_sat sym_lt).
Notation bodyelem_sat := (bodyelem_sat sym_lt).
Notation body_sat := (body_sat sym_lt).
Notation head_sat := (head_sat sym_lt).
Notation rule_sat := (rule_sat sym_lt).
Notation stmt_sat := (stmt_sat sym_lt).
Notation prog_sat := (prog_sat sym_lt).
Notation choice_tuples := (choice_tuples sym_lt).

(* ---- unfolding lemmas (simpl does not unfold the mutual fixpoint) ---- *)
Lemma lit_sat_sym G H T s sg t : lit_sat G H T s (Lit sg (ASym t)) = sym_atom_sat H T s sg t.
Proof. reflexivity. Qed.
Lemma lit_sat_cmp G H T s sg t gs :
  lit_sat G H T s (Lit sg (ACmp t gs)) =
  (cmp_def s t gs /\ apply_sign sg (cmp_true sym_lt s t gs) (cmp_true sym_lt s t gs)).
Proof. reflexivity. Qed.
Lemma lit_sat_bool G H T s sg b : lit_sat G H T s (Lit sg (ABool b)) = apply_sign sg (b = true) (b = true).
Proof. reflexivity. Qed.

Lemma lit_sat_fun G H T s sg n args e :
  lit_sat G H T s (Lit sg (ASym (TFun n args e))) <->
  exists vs, eval_list s args = Some vs /\ apply_sign sg (H (n, vs)) (T (n, vs)).
Proof.
  rewrite lit_sat_sym. unfold sym_atom_sat. rewrite eval_fun. destruct (eval_list s args) as [vs|].
  - split; [intro X; exists vs; split; [reflexivity|exact X]|]. intros [ws [E X]]. injection E as <-. exact X.
  - split; [intros []|]. intros [ws [E _]]. discriminate.
Qed.

(* ---- persistence of arbitrary body elements ---- *)
Lemma bodyelem_sat_persist G H T s b : subi H T -> bodyelem_sat G H T s b -> bodyelem_sat G T T s b.
Proof.
  intros S. destruct b as [l|l c]; simpl.
  - apply CleanupSpec.lit_sat_persist_all_proof. exact S.
  - intros X th Ag. destruct (X th Ag) as [_ B]. split; exact B.
Qed.

Lemma body_sat_persist G H T s b : subi H T -> body_sat G H T s b -> body_sat G T T s b.
Proof.
  intros S F. unfold Sat.body_sat in *. eapply Forall_impl; [|exact F].
  intros e. apply bodyelem_sat_persist. exact S.
Qed.

Theorem supported_general P I T a :
  (forall line h b, In (SRule line h b) P -> gen_head h) ->
  Sat.stable sym_lt P I T -> T a ->
  In a I \/
  exists line h b s, In (SRule line h b) P /\ head_derives (gvars_rule h b) s h a /\
                     body_sat (gvars_rule h b) T T s b.
Proof.
  intros Frag [[PT FT] Min] Ta. apply NNPP. intro Hno.
  set (H := fun b : gatom => T b /\ b <> a).
  assert (S: subi H T) by (intros b [Tb _]; exact Tb).
  assert (Keep: forall line h b s x, In (SRule line h b) P -> body_sat (gvars_rule h b) T T s b ->
            head_derives (gvars_rule h b) s h x -> T x -> H x).
  { intros line h b s x Hin B D Tx. split; [exact Tx|]. intros ->. apply Hno. right.
    exists line, h, b, s. split; [exact Hin|]. split; assumption. }
  assert (PS: prog_sat H T P).
  { intros st Hin. destruct st as [line h b| | | |]; try exact Logic.I.
    pose proof (PT _ Hin) as RT. simpl in RT. simpl. intros s. destruct (RT s) as [_ RTs]. split; [|exact RTs].
    intros BH. pose proof (body_sat_persist _ _ _ _ _ S BH) as BT. specialize (RTs BT).
    pose proof (Frag _ _ _ Hin) as GH. set (G := gvars_rule h b) in *.
    inversion GH as [n args e E|sg c E|lg es rg Simple E]; subst h.
    - (* atom head *)
      change (lit_sat G H T s (Lit NoSign (ASym (TFun n args e)))).
      change (lit_sat G T T s (Lit NoSign (ASym (TFun n args e)))) in RTs.
      apply lit_sat_fun in RTs. destruct RTs as [vs [Ev Tv]]. simpl in Tv.
      apply lit_sat_fun. exists vs. split; [exact Ev|]. simpl.
      apply (Keep line _ b s (n, vs) Hin BT); [constructor; exact Ev | exact Tv].
    - (* constant head *)
      change (lit_sat G H T s (Lit sg (ABool c))). change (lit_sat G T T s (Lit sg (ABool c))) in RTs.
      rewrite lit_sat_bool in *. exact RTs.
    - (* choice head *)
      simpl in RTs. destruct RTs as [_ AT]. simpl. split; [|exact AT].
      intros c th Hc Ag _. destruct (Simple c Hc) as [n [args [e ->]]]. simpl fst.
      destruct (classic (lit_sat G T T th (Lit NoSign (ASym (TFun n args e))))) as [Y|N]; [left|right; exact N].
      apply lit_sat_fun in Y. destruct Y as [vs [Ev Tv]]. simpl in Tv.
      apply lit_sat_fun. exists vs. split; [exact Ev|]. simpl.
      apply (Keep line _ b s (n, vs) Hin BT); [|exact Tv].
      eapply HD_choice; eauto. }
  assert (FH: facts_sat H I).
  { intros x Hx. split; [apply FT; exact Hx|]. intros ->. apply Hno. left. exact Hx. }
  destruct (Min H S PS FH a Ta) as [_ Ne]. apply Ne. reflexivity.
Qed.
End General.

(* ================================================================================================ *)
(* 2. The generated rules                                                                           *)
(* ================================================================================================ *)
Definition at1 (sg: sign) (n: string) (x: string) : lit := Lit sg (ASym (TFun n [TVar x] false)).
Definition at2 (n: string) (x y: string) : lit := Lit NoSign (ASym (TFun n [TVar x; TVar y] false)).

(* X = #min { L : dom(L) }   (f = FMin)   /   X = #max { L : dom(L) }   (f = FMax) *)
Definition agg_lit (f: aggfun) (dom: string) : lit :=
  Lit NoSign (ABodyAgg (Some (CEq, TVar "X")) f [([TVar "L"], [at1 NoSign dom "L"])] None).

(* mn(X) :- X = #min { L : dom(L) }; dom(_). *)
Definition min_rule (dom mn: string) : stmt :=
  SRule 1 (HLit (at1 NoSign mn "X")) [BLit (agg_lit FMin dom); BLit (at1 NoSign dom "_")].
Definition max_rule (dom mx: string) : stmt :=
  SRule 1 (HLit (at1 NoSign mx "X")) [BLit (agg_lit FMax dom); BLit (at1 NoSign dom "_")].

(* dom(N); N > P; not dom(B) : dom(B), P < B < N.      The chain P < B < N is ONE comparison with two guards. *)
Definition between_cond (dom: string) : bodyelem :=
  BCond (at1 Neg dom "B")
        [at1 NoSign dom "B"; Lit NoSign (ACmp (TVar "P") [(CLt, TVar "B"); (CLt, TVar "N")])].
Definition next_tail (dom: string) : list bodyelem :=
  [BLit (at1 NoSign dom "N"); BLit (Lit NoSign (ACmp (TVar "N") [(CGt, TVar "P")])); between_cond dom].

(* nx(P,N) :- mn(P); tail.        nx(P,N) :- nx(_,P); tail. *)
Definition next_rule_base (dom mn nx: string) : stmt :=
  SRule 1 (HLit (at2 nx "P" "N")) (BLit (at1 NoSign mn "P") :: next_tail dom).
Definition next_rule_step (dom nx: string) : stmt :=
  SRule 1 (HLit (at2 nx "P" "N")) (BLit (at2 nx "_" "P") :: next_tail dom).

(* ---- the validated model returns exactly these rules ---- *)
Module ModelRun.
Definition fact (n: string) (z: Z) : stmt := SRule 1 (HLit (Lit NoSign (ASym (TFun n [TSym (SNum z)] false)))) [].

(* (a) a static domain: the program  dom(1). dom(2).  ; DomainPredicates.domain_predicate(dom/1) = dom/1 *)
Definition prg_static : program := [fact "dom" 1; fact "dom" 2].
Example model_static :
  match dp_init (init_names prg_static []) prg_static with
  | Ok st => snd (create_next_pred_for_annotated_pred (("dom", 1%nat), [0%nat]) 0 st)
  | _ => Raise "init"
  end
  = Ok [min_rule "dom" "__min_0_0dom"; max_rule "dom" "__max_0_0dom";
        next_rule_base "dom" "__min_0_0dom" "__next_0_0dom"; next_rule_step "dom" "__next_0_0dom"].
Proof. vm_compute. reflexivity. Qed.

(* (b) a choice predicate:  { a(X) } :- d(X).   with input d/1 ; domain_predicate(a/1) = __dom_a/1 *)
Definition prg_choice : program :=
  [SRule 1 (HAgg None [(at1 NoSign "a" "X", [])] None) [BLit (at1 NoSign "d" "X")]].
Example model_choice :
  match dp_init (init_names prg_choice [("d", 1%nat)]) prg_choice with
  | Ok st => snd (create_next_pred_for_annotated_pred (("a", 1%nat), [0%nat]) 0 st)
  | _ => Raise "init"
  end
  = Ok [min_rule "__dom_a" "__min_0_0__dom_a"; max_rule "__dom_a" "__max_0_0__dom_a";
        next_rule_base "__dom_a" "__min_0_0__dom_a" "__next_0_0__dom_a";
        next_rule_step "__dom_a" "__next_0_0__dom_a"].
Proof. vm_compute. reflexivity. Qed.
End ModelRun.

(* ================================================================================================ *)
(* 3. The meaning of the next-rules                                                                 *)
(* ================================================================================================ *)
(* s[x := v] *)
Definition upd (s: subst) (x: string) (v: sym) : subst := fun y => if String.eqb y x then v else s y.

Lemma agree_upd G s x v : ~ In x G -> agree_on G s (upd s x v).
Proof.
  intros N y Hy. unfold upd. destruct (String.eqb_spec y x) as [->|_]; [contradiction|reflexivity].
Qed.

Section Meaning.
Variable sym_lt : sym -> sym -> Prop.
Notation lit_sat := (lit_sat sym_lt).
Notation lits_sat := (lits_sat sym_lt).
Notation bodyelem_sat := (bodyelem_sat sym_lt).
Notation body_sat := (body_sat sym_lt).
Notation head_sat := (head_sat sym_lt).
Notation rule_sat := (rule_sat sym_lt).
Notation stmt_sat := (stmt_sat sym_lt).
Notation prog_sat := (prog_sat sym_lt).

(* ---- the literals of the rules ---- *)
Lemma at1_sat G H T s sg n x : lit_sat G H T s (at1 sg n x) <-> apply_sign sg (H (n, [s x])) (T (n, [s x])).
Proof.
  unfold at1. rewrite lit_sat_fun. simpl. split.
  - intros [vs [E X]]. injection E as <-. exact X.
  - intro X. eexists. split; [reflexivity|exact X].
Qed.
Lemma at2_sat G H T s n x y : lit_sat G H T s (at2 n x y) <-> H (n, [s x; s y]).
Proof.
  unfold at2. rewrite lit_sat_fun. simpl. split.
  - intros [vs [E X]]. injection E as <-. exact X.
  - intro X. eexists. split; [reflexivity|exact X].
Qed.
Lemma gt_sat G H T s x y : lit_sat G H T s (Lit NoSign (ACmp (TVar x) [(CGt, TVar y)])) <-> sym_lt (s y) (s x).
Proof.
  rewrite lit_sat_cmp. unfold cmp_def, cmp_true. simpl. split.
  - intros [_ [L _]]. exact L.
  - intro L. repeat split; try discriminate. exact L.
Qed.
Lemma between_sat G H T s p b n :
  lit_sat G H T s (Lit NoSign (ACmp (TVar p) [(CLt, TVar b); (CLt, TVar n)])) <->
  sym_lt (s p) (s b) /\ sym_lt (s b) (s n).
Proof.
  rewrite lit_sat_cmp. unfold cmp_def, cmp_true. simpl. split.
  - intros [_ [L1 [L2 _]]]. split; assumption.
  - intros [L1 L2]. repeat split; try discriminate; assumption.
Qed.

Definition no_between (T: interp) (dom: string) (p n: sym) : Prop :=
  forall b, T (dom, [b]) -> sym_lt p b -> sym_lt b n -> False.

Lemma subi_refl (T: interp) : subi T T.
Proof. intros a X. exact X. Qed.

(* the conditional literal  not dom(B) : dom(B), P < B < N  says: no dom value lies strictly between P and N
   (in T; for H <= T the H-part is implied by the T-part) *)
Lemma between_cond_sat_HT G H T s dom : subi H T -> In "P" G -> In "N" G -> ~ In "B" G ->
  (bodyelem_sat G H T s (between_cond dom) <-> no_between T dom (s "P") (s "N")).
Proof.
  intros HT GP GN GB. unfold between_cond. simpl. split.
  - intros C b Tb L1 L2.
    destruct (C (upd s "B" b) (agree_upd G s "B" b GB)) as [_ C2].
    assert (Cs: lits_sat G T T (upd s "B" b)
                  [at1 NoSign dom "B"; Lit NoSign (ACmp (TVar "P") [(CLt, TVar "B"); (CLt, TVar "N")])]).
    { constructor; [|constructor; [|constructor]].
      - apply at1_sat. simpl. exact Tb.
      - apply between_sat. split; [exact L1|exact L2]. }
    apply C2 in Cs. apply at1_sat in Cs. simpl in Cs. apply Cs. exact Tb.
  - intros NB th Ag.
    assert (EP: th "P" = s "P") by (symmetry; apply Ag; exact GP).
    assert (EN: th "N" = s "N") by (symmetry; apply Ag; exact GN).
    split; intros Cs; exfalso; inversion Cs as [|? ? C1 Cs']; subst; inversion Cs' as [|? ? C2 _]; subst;
      apply at1_sat in C1; simpl in C1; apply between_sat in C2; destruct C2 as [L1 L2];
      rewrite EP in L1; rewrite EN in L2.
    + exact (NB _ (HT _ C1) L1 L2).
    + exact (NB _ C1 L1 L2).
Qed.

Lemma next_tail_sat_HT G H T s dom : subi H T -> In "P" G -> In "N" G -> ~ In "B" G ->
  (body_sat G H T s (next_tail dom) <->
   H (dom, [s "N"]) /\ sym_lt (s "P") (s "N") /\ no_between T dom (s "P") (s "N")).
Proof.
  intros HT GP GN GB. unfold next_tail, Sat.body_sat. split.
  - intros F. inversion F as [|? ? A F1]; subst. inversion F1 as [|? ? B F2]; subst. inversion F2 as [|? ? C _]; subst.
    split; [|split].
    + exact (proj1 (at1_sat G H T s NoSign dom "N") A).
    + exact (proj1 (gt_sat G H T s "N" "P") B).
    + exact (proj1 (between_cond_sat_HT G H T s dom HT GP GN GB) C).
  - intros [A [B C]]. constructor; [|constructor; [|constructor; [|constructor]]].
    + exact (proj2 (at1_sat G H T s NoSign dom "N") A).
    + exact (proj2 (gt_sat G H T s "N" "P") B).
    + exact (proj2 (between_cond_sat_HT G H T s dom HT GP GN GB) C).
Qed.

(* global variables of the two rules *)
Definition G_base : list string := ["P"; "N"; "P"; "N"; "N"; "P"].
Definition G_step : list string := ["P"; "N"; "_"; "P"; "N"; "N"; "P"].
Lemma gvars_base dom mn nx :
  gvars_rule (HLit (at2 nx "P" "N")) (BLit (at1 NoSign mn "P") :: next_tail dom) = G_base.
Proof. reflexivity. Qed.
Lemma gvars_step dom nx :
  gvars_rule (HLit (at2 nx "P" "N")) (BLit (at2 nx "_" "P") :: next_tail dom) = G_step.
Proof. reflexivity. Qed.

Lemma G_base_ok : In "P" G_base /\ In "N" G_base /\ ~ In "B" G_base.
Proof. unfold G_base. simpl. repeat split; auto. intuition discriminate. Qed.
Lemma G_step_ok : In "P" G_step /\ In "N" G_step /\ ~ In "B" G_step.
Proof. unfold G_step. simpl. repeat split; auto. intuition discriminate. Qed.

(* the bodies of the two rules, in an HT interpretation (H,T) with H <= T *)
Lemma base_body_sat_HT H T s dom mn : subi H T ->
  (body_sat G_base H T s (BLit (at1 NoSign mn "P") :: next_tail dom) <->
   H (mn, [s "P"]) /\ H (dom, [s "N"]) /\ sym_lt (s "P") (s "N") /\ no_between T dom (s "P") (s "N")).
Proof.
  intros HT. destruct G_base_ok as [GP [GN GB]]. unfold Sat.body_sat. split.
  - intros F. inversion F as [|? ? A F1]; subst. split; [exact (proj1 (at1_sat G_base H T s NoSign mn "P") A)|].
    exact (proj1 (next_tail_sat_HT G_base H T s dom HT GP GN GB) F1).
  - intros [A B]. constructor; [exact (proj2 (at1_sat G_base H T s NoSign mn "P") A)|].
    exact (proj2 (next_tail_sat_HT G_base H T s dom HT GP GN GB) B).
Qed.
Lemma step_body_sat_HT H T s dom nx : subi H T ->
  (body_sat G_step H T s (BLit (at2 nx "_" "P") :: next_tail dom) <->
   H (nx, [s "_"; s "P"]) /\ H (dom, [s "N"]) /\ sym_lt (s "P") (s "N") /\ no_between T dom (s "P") (s "N")).
Proof.
  intros HT. destruct G_step_ok as [GP [GN GB]]. unfold Sat.body_sat. split.
  - intros F. inversion F as [|? ? A F1]; subst. split; [exact (proj1 (at2_sat G_step H T s nx "_" "P") A)|].
    exact (proj1 (next_tail_sat_HT G_step H T s dom HT GP GN GB) F1).
  - intros [A B]. constructor; [exact (proj2 (at2_sat G_step H T s nx "_" "P") A)|].
    exact (proj2 (next_tail_sat_HT G_step H T s dom HT GP GN GB) B).
Qed.

Lemma base_body_sat T s dom mn :
  body_sat G_base T T s (BLit (at1 NoSign mn "P") :: next_tail dom) <->
  T (mn, [s "P"]) /\ T (dom, [s "N"]) /\ sym_lt (s "P") (s "N") /\ no_between T dom (s "P") (s "N").
Proof. apply base_body_sat_HT. apply subi_refl. Qed.
Lemma step_body_sat T s dom nx :
  body_sat G_step T T s (BLit (at2 nx "_" "P") :: next_tail dom) <->
  T (nx, [s "_"; s "P"]) /\ T (dom, [s "N"]) /\ sym_lt (s "P") (s "N") /\ no_between T dom (s "P") (s "N").
Proof. apply step_body_sat_HT. apply subi_refl. Qed.

(* closure: what the satisfaction of the two rules by the total interpretation T means *)
Lemma base_closed T dom mn nx : stmt_sat T T (next_rule_base dom mn nx) ->
  forall p n, T (mn, [p]) -> T (dom, [n]) -> sym_lt p n -> no_between T dom p n -> T (nx, [p; n]).
Proof.
  unfold next_rule_base. intros R p n A B C D. simpl in R. rewrite gvars_base in R.
  destruct (R (fun x => if String.eqb x "P" then p else n)) as [_ R2].
  assert (Bd: body_sat G_base T T (fun x => if String.eqb x "P" then p else n) (BLit (at1 NoSign mn "P") :: next_tail dom)).
  { apply base_body_sat. simpl. repeat split; assumption. }
  apply R2 in Bd. change (lit_sat G_base T T (fun x => if String.eqb x "P" then p else n) (at2 nx "P" "N")) in Bd.
  apply at2_sat in Bd. exact Bd.
Qed.
Lemma step_closed T dom nx : stmt_sat T T (next_rule_step dom nx) ->
  forall q p n, T (nx, [q; p]) -> T (dom, [n]) -> sym_lt p n -> no_between T dom p n -> T (nx, [p; n]).
Proof.
  unfold next_rule_step. intros R q p n A B C D. simpl in R. rewrite gvars_step in R.
  set (s := fun x => if String.eqb x "P" then p else if String.eqb x "N" then n else q).
  destruct (R s) as [_ R2].
  assert (Bd: body_sat G_step T T s (BLit (at2 nx "_" "P") :: next_tail dom)).
  { apply step_body_sat. simpl. repeat split; assumption. }
  apply R2 in Bd. change (lit_sat G_step T T s (at2 nx "P" "N")) in Bd.
  apply at2_sat in Bd. exact Bd.
Qed.

(* ---- sorted lists: the head is the least element ---- *)
Lemma least_is_head (Ord: sym_order sym_lt) D p : StronglySorted sym_lt D -> In p D ->
  (forall w, In w D -> p = w \/ sym_lt p w) -> hd_error D = Some p.
Proof.
  intros S Hp Least. destruct D as [|d r]; [contradiction|]. simpl. f_equal.
  inversion S as [|? ? _ F]; subst. rewrite Forall_forall in F.
  destruct Hp as [E|Hp]; [exact E|]. pose proof (F p Hp) as L.
  destruct (Least d (or_introl eq_refl)) as [E|L']; [symmetry; exact E|].
  exfalso. exact (lt_irrefl _ Ord _ (lt_trans _ Ord _ _ _ L L')).
Qed.
Lemma head_is_least D p : StronglySorted sym_lt D -> hd_error D = Some p ->
  In p D /\ forall w, In w D -> p = w \/ sym_lt p w.
Proof.
  intros S Hh. destruct D as [|d r]; [discriminate|]. injection Hh as ->.
  inversion S as [|? ? _ F]; subst. rewrite Forall_forall in F.
  split; [left; reflexivity|]. intros w [E|Hw]; [left; exact E|right; apply F; exact Hw].
Qed.

Definition least_in (T: interp) (dom: string) (v: sym) : Prop :=
  T (dom, [v]) /\ forall w, T (dom, [w]) -> v = w \/ sym_lt v w.

(* Hypotheses:
   - sym_lt is a strict total order (only irreflexivity and transitivity are used here; totality is needed to
     obtain the sorted list D, see [dom_sorted_exists]);
   - every rule head of P is an atom, a constant or a condition-free choice (any bounds);
   - the two next-rules are in P and they are the only rules whose head mentions nx/2; no nx-facts in I;
   - D is the strictly sorted list of dom's extension in T (arbitrary symbols);
   - mn holds in T exactly for the least element of dom (discharged by [min_rule_meaning]).
   The predicate names dom, mn, nx need NOT be assumed distinct: nx/2 is separated from dom/1 and mn/1 by its
   arity, and the hypothesis on mn is semantic. *)
Theorem next_rules_meaning dom mn nx P I T D :
  sym_order sym_lt ->
  (forall line h b, In (SRule line h b) P -> gen_head h) ->
  In (next_rule_base dom mn nx) P -> In (next_rule_step dom nx) P ->
  (forall line h b, In (SRule line h b) P -> In (nx, 2%nat) (head_names h) ->
     SRule line h b = next_rule_base dom mn nx \/ SRule line h b = next_rule_step dom nx) ->
  (forall p n, ~ In (nx, [p; n]) I) ->
  Sat.stable sym_lt P I T ->
  StronglySorted sym_lt D -> (forall v, T (dom, [v]) <-> In v D) ->
  (forall v, T (mn, [v]) <-> least_in T dom v) ->
  forall p n, T (nx, [p; n]) <-> Chain.consecutive sym D p n.
Proof.
  intros Ord Frag Hb Hs Only NoF St SD DomD Mn.
  pose proof St as [[PT _] _].
  assert (NB: forall p n, (forall b, In b D -> sym_lt p b -> sym_lt b n -> False) <-> no_between T dom p n).
  { intros p n. split; intros X b Hb'; apply X; apply DomD; exact Hb'. }
  apply (Chain.next_exact sym sym_lt (lt_irrefl _ Ord) (lt_trans _ Ord) D SD (fun p n => T (nx, [p; n]))).
  - (* closed *)
    intros p n Stp Hn L Nb. apply NB in Nb. apply DomD in Hn. destruct Stp as [Hh|[q Nq]].
    + apply (base_closed T dom mn nx (PT _ Hb)); try assumption.
      apply Mn. destruct (head_is_least D p SD Hh) as [Hp Least]. split; [apply DomD; exact Hp|].
      intros w Tw. apply Least. apply DomD. exact Tw.
    + exact (step_closed T dom nx (PT _ Hs) q p n Nq Hn L Nb).
  - (* supported *)
    intros p n Tpn.
    destruct (supported_general sym_lt P I T (nx, [p; n]) Frag St Tpn) as [Hin|[line [h [b [s [Hin [HD Bd]]]]]]].
    + exfalso. exact (NoF p n Hin).
    + pose proof (head_derives_names _ _ _ _ _ HD) as Hn. simpl in Hn.
      destruct (Only line h b Hin Hn) as [E|E]; injection E as _ -> ->.
      * rewrite gvars_base in HD, Bd. inversion HD as [? ? ? ? Ev|]; subst. simpl in Ev. injection Ev as <- <-.
        apply base_body_sat in Bd. destruct Bd as [A [B [C Dn]]].
        apply Mn in A. destruct A as [Tp Least]. split; [|split; [|split]].
        -- left. apply (least_is_head Ord D _ SD); [apply DomD; exact Tp|].
           intros w Hw. apply Least. apply DomD. exact Hw.
        -- apply DomD. exact B.
        -- exact C.
        -- apply NB. exact Dn.
      * rewrite gvars_step in HD, Bd. inversion HD as [? ? ? ? Ev|]; subst. simpl in Ev. injection Ev as <- <-.
        apply step_body_sat in Bd. destruct Bd as [A [B [C Dn]]]. split; [|split; [|split]].
        -- right. exists (s "_"). exact A.
        -- apply DomD. exact B.
        -- exact C.
        -- apply NB. exact Dn.
Qed.

(* a finite extension can be sorted *)
Lemma dom_sorted_exists (Ord: sym_order sym_lt) (T: interp) dom :
  (exists l, forall v, T (dom, [v]) <-> In v l) ->
  exists D, StronglySorted sym_lt D /\ forall v, T (dom, [v]) <-> In v D.
Proof.
  intros [l E].
  destruct (Ground.finite_enum l (fun v => In v l) (fun x X => X)) as [l' [ND E']].
  destruct (Count.sort_nodup sym sym_lt (lt_trans _ Ord) (lt_total _ Ord) l' ND) as [D [Pm S]].
  exists D. split; [exact S|]. intro v. rewrite E, <- E'. split.
  - apply Permutation_in. exact Pm.
  - apply Permutation_in. apply Permutation_sym. exact Pm.
Qed.
End Meaning.

(* ================================================================================================ *)
(* 4. The meaning of the min-rule                                                                   *)
(* ================================================================================================ *)
Section MinMeaning.
Variable sym_lt : sym -> sym -> Prop.
Notation lit_sat := (lit_sat sym_lt).
Notation body_sat := (body_sat sym_lt).
Notation stmt_sat := (stmt_sat sym_lt).
Notation agg_holds := (agg_holds sym_lt).
Notation elems_tuples := (CleanupSpec.elems_tuples sym_lt).
Notation least_in := (least_in sym_lt).

(* the tuple set of  { L : dom(L) }  is { [v] | dom(v) }  (L is local: not among the global variables G) *)
Lemma dom_tuples G (X T: interp) s dom : ~ In "L" G ->
  forall tv, elems_tuples G X T s [([TVar "L"], [at1 NoSign dom "L"])] tv <-> exists v, tv = [v] /\ X (dom, [v]).
Proof.
  intros GL tv. unfold CleanupSpec.elems_tuples. split.
  - intros [[th [Ag [Ev [L _]]]]|[]]. simpl in Ev. injection Ev as <-.
    exists (th "L"). split; [reflexivity|]. exact (proj1 (at1_sat sym_lt G X T th NoSign dom "L") L).
  - intros [v [-> Xv]]. left. exists (upd s "L" v). split; [apply agree_upd; exact GL|].
    split; [reflexivity|]. split; [|exact I].
    exact (proj2 (at1_sat sym_lt G X T (upd s "L" v) NoSign dom "L") Xv).
Qed.

(* X = #min { L : dom(L) } : X is the least dom value, or dom is empty and X = #sup *)
Definition min_or_sup (X: interp) (dom: string) (v: sym) : Prop :=
  least_in X dom v \/ ((forall w, ~ X (dom, [w])) /\ v = SSup).

Lemma min_agg_holds G X T s dom : ~ In "L" G ->
  (agg_holds s (Some (CEq, TVar "X")) FMin None (elems_tuples G X T s [([TVar "L"], [at1 NoSign dom "L"])]) <->
   min_or_sup X dom (s "X")).
Proof.
  intros GL. pose proof (dom_tuples G X T s dom GL) as TU.
  set (S := elems_tuples G X T s [([TVar "L"], [at1 NoSign dom "L"])]) in *.
  unfold Sat.agg_holds, min_or_sup. simpl. split.
  - intros [v [AV [Gd _]]]. subst v. destruct AV as [[[tv [Stv Hd]] Mn]|[Emp V]].
    + left. apply TU in Stv. destruct Stv as [v [-> Xv]]. simpl in Hd. injection Hd as Hd. rewrite <- Hd in *.
      split; [exact Xv|]. intros w Tw. apply (Mn [w] w); [|reflexivity]. apply TU. exists w. split; [reflexivity|exact Tw].
    + right. split; [|exact V]. intros w Tw. apply (Emp [w]). apply TU. exists w. split; [reflexivity|exact Tw].
  - intros A. exists (s "X"). split; [|split; [reflexivity|exact I]]. destruct A as [[Tx Least]|[Emp V]].
    + left. split.
      * exists [s "X"]. split; [|reflexivity]. apply TU. exists (s "X"). split; [reflexivity|exact Tx].
      * intros tv w Stv Hd. apply TU in Stv. destruct Stv as [v [-> Xv]]. simpl in Hd. injection Hd as <-.
        apply Least. exact Xv.
    + right. split; [|exact V]. intros tv Stv. apply TU in Stv. destruct Stv as [v [_ Xv]]. exact (Emp v Xv).
Qed.

Lemma min_lit_sat_HT G H T s dom : ~ In "L" G ->
  (lit_sat G H T s (agg_lit FMin dom) <-> min_or_sup H dom (s "X") /\ min_or_sup T dom (s "X")).
Proof.
  intros GL. unfold agg_lit. rewrite CleanupSpec.lit_sat_bodyagg. simpl apply_sign.
  rewrite (min_agg_holds G H T s dom GL), (min_agg_holds G T T s dom GL). reflexivity.
Qed.
Lemma min_lit_sat G T s dom : ~ In "L" G -> (lit_sat G T T s (agg_lit FMin dom) <-> min_or_sup T dom (s "X")).
Proof. intros GL. rewrite (min_lit_sat_HT G T T s dom GL). tauto. Qed.

Definition G_min : list string := ["X"; "X"; "_"].
Lemma gvars_min dom mn :
  gvars_rule (HLit (at1 NoSign mn "X")) [BLit (agg_lit FMin dom); BLit (at1 NoSign dom "_")] = G_min.
Proof. reflexivity. Qed.
Lemma G_min_ok : ~ In "L" G_min.
Proof. unfold G_min. simpl. intuition discriminate. Qed.

(* the body of the min-rule: because of dom(_) the #sup case of an empty domain is excluded *)
Lemma min_body_sat_HT H T s dom : subi H T ->
  (body_sat G_min H T s [BLit (agg_lit FMin dom); BLit (at1 NoSign dom "_")] <->
   least_in H dom (s "X") /\ least_in T dom (s "X") /\ H (dom, [s "_"])).
Proof.
  intros HT. unfold Sat.body_sat. split.
  - intros F. inversion F as [|? ? A F1]; subst. inversion F1 as [|? ? B _]; subst.
    pose proof (proj1 (at1_sat sym_lt G_min H T s NoSign dom "_") B) as B'. simpl in B'.
    destruct (proj1 (min_lit_sat_HT G_min H T s dom G_min_ok) A) as [[LH|[Emp _]] [LT|[Emp' _]]].
    + split; [exact LH|]. split; [exact LT|exact B'].
    + exfalso. exact (Emp' _ (HT _ B')).
    + exfalso. exact (Emp _ B').
    + exfalso. exact (Emp _ B').
  - intros [LH [LT B]]. constructor; [|constructor; [|constructor]].
    + apply (proj2 (min_lit_sat_HT G_min H T s dom G_min_ok)). split; left; assumption.
    + exact (proj2 (at1_sat sym_lt G_min H T s NoSign dom "_") B).
Qed.
Lemma min_body_sat T s dom :
  body_sat G_min T T s [BLit (agg_lit FMin dom); BLit (at1 NoSign dom "_")] <->
  least_in T dom (s "X") /\ T (dom, [s "_"]).
Proof. rewrite (min_body_sat_HT T T s dom (subi_refl T)). tauto. Qed.

(* Hypotheses: rule heads in the fragment; the min-rule is in P and is the only rule whose head mentions mn/1;
   no mn-facts in I.  NOT needed: an order property of sym_lt (least_in is phrased with sym_lt as it stands),
   finiteness of dom's extension, distinctness of the names dom and mn.
   When dom's extension is empty, mn is empty (least_in requires T (dom,[v])): this is what the body literal
   dom(_) achieves; without it mn(#sup) would be derived. *)
Theorem min_rule_meaning dom mn P I T :
  (forall line h b, In (SRule line h b) P -> gen_head h) ->
  In (min_rule dom mn) P ->
  (forall line h b, In (SRule line h b) P -> In (mn, 1%nat) (head_names h) -> SRule line h b = min_rule dom mn) ->
  (forall v, ~ In (mn, [v]) I) ->
  Sat.stable sym_lt P I T ->
  forall v, T (mn, [v]) <-> least_in T dom v.
Proof.
  intros Frag Hm Only NoF St v. pose proof St as [[PT _] _]. split.
  - intros Tv.
    destruct (supported_general sym_lt P I T (mn, [v]) Frag St Tv) as [Hin|[line [h [b [s [Hin [HD Bd]]]]]]].
    + exfalso. exact (NoF v Hin).
    + pose proof (head_derives_names _ _ _ _ _ HD) as Hn. simpl in Hn.
      pose proof (Only line h b Hin Hn) as E. injection E as _ -> ->.
      rewrite gvars_min in HD, Bd. inversion HD as [? ? ? ? Ev|]; subst. simpl in Ev. injection Ev as <-.
      apply min_body_sat in Bd. exact (proj1 Bd).
  - intros L. pose proof (PT _ Hm) as R. unfold min_rule in R. simpl in R. rewrite gvars_min in R.
    destruct (R (fun _ => v)) as [_ R2].
    assert (Bd: body_sat G_min T T (fun _ => v) [BLit (agg_lit FMin dom); BLit (at1 NoSign dom "_")]).
    { apply min_body_sat. split; [exact L|exact (proj1 L)]. }
    apply R2 in Bd. change (lit_sat G_min T T (fun _ : string => v) (at1 NoSign mn "X")) in Bd.
    exact (proj1 (at1_sat sym_lt G_min T T (fun _ => v) NoSign mn "X") Bd).
Qed.

(* ---- 3 + 4: the three rules together ---- *)
Theorem next_pred_meaning dom mn nx P I T :
  sym_order sym_lt ->
  (forall line h b, In (SRule line h b) P -> gen_head h) ->
  In (min_rule dom mn) P -> In (next_rule_base dom mn nx) P -> In (next_rule_step dom nx) P ->
  (forall line h b, In (SRule line h b) P -> In (mn, 1%nat) (head_names h) -> SRule line h b = min_rule dom mn) ->
  (forall line h b, In (SRule line h b) P -> In (nx, 2%nat) (head_names h) ->
     SRule line h b = next_rule_base dom mn nx \/ SRule line h b = next_rule_step dom nx) ->
  (forall v, ~ In (mn, [v]) I) -> (forall p n, ~ In (nx, [p; n]) I) ->
  Sat.stable sym_lt P I T ->
  (exists l, forall v, T (dom, [v]) <-> In v l) ->
  exists D, StronglySorted sym_lt D /\ (forall v, T (dom, [v]) <-> In v D) /\
    (forall v, T (mn, [v]) <-> hd_error D = Some v) /\
    (forall p n, T (nx, [p; n]) <-> Chain.consecutive sym D p n).
Proof.
  intros Ord Frag Hm Hb Hs OnlyM OnlyN NoM NoN St Fin.
  destruct (dom_sorted_exists sym_lt Ord T dom Fin) as [D [SD DomD]].
  pose proof (min_rule_meaning dom mn P I T Frag Hm OnlyM NoM St) as Mn.
  exists D. split; [exact SD|]. split; [exact DomD|]. split.
  - intro v. rewrite Mn. split.
    + intros [Tv Least]. apply (least_is_head sym_lt Ord D v SD); [apply DomD; exact Tv|].
      intros w Hw. apply Least. apply DomD. exact Hw.
    + intros Hh. destruct (head_is_least sym_lt D v SD Hh) as [Hv Least]. split; [apply DomD; exact Hv|].
      intros w Tw. apply Least. apply DomD. exact Tw.
  - exact (next_rules_meaning sym_lt dom mn nx P I T D Ord Frag Hb Hs OnlyN NoN St SD DomD Mn).
Qed.
End MinMeaning.

(* ================================================================================================ *)
(* 5. Sanity: the hypotheses of the theorems are jointly satisfiable                                *)
(*    P3 = the three rules, instance dom(1). dom(2). dom(3).;                                       *)
(*    T3 = facts + mn(1) + nx(1,2) + nx(2,3) is a stable model and next_pred_meaning applies.       *)
(* ================================================================================================ *)
Module Sanity.
Section S.
Variable sym_lt : sym -> sym -> Prop.
Hypothesis Ord : sym_order sym_lt.

Definition v1 : sym := SNum 1.
Definition v2 : sym := SNum 2.
Definition v3 : sym := SNum 3.
Definition P3 : program := [min_rule "dom" "mn"; next_rule_base "dom" "mn" "nx"; next_rule_step "dom" "nx"].
Definition I3 : list gatom := [("dom", [v1]); ("dom", [v2]); ("dom", [v3])].
Definition T3 : interp := fun a => In a (I3 ++ [("mn", [v1]); ("nx", [v1; v2]); ("nx", [v2; v3])]).

Lemma dom3 v : T3 ("dom", [v]) <-> v = v1 \/ v = v2 \/ v = v3.
Proof.
  unfold T3. simpl. split.
  - intros [E|[E|[E|[E|[E|[E|[]]]]]]]; try discriminate; injection E as <-; auto.
  - intros [->|[->| ->]]; auto.
Qed.
Lemma mn3 v : T3 ("mn", [v]) <-> v = v1.
Proof.
  unfold T3. simpl. split.
  - intros [E|[E|[E|[E|[E|[E|[]]]]]]]; try discriminate; injection E as <-; auto.
  - intros ->. auto.
Qed.
Lemma nx3 p n : T3 ("nx", [p; n]) <-> (p = v1 /\ n = v2) \/ (p = v2 /\ n = v3).
Proof.
  unfold T3. simpl. split.
  - intros [E|[E|[E|[E|[E|[E|[]]]]]]]; try discriminate; injection E as <- <-; auto.
  - intros [[-> ->]|[-> ->]]; auto 10.
Qed.

Lemma lt12 : sym_lt v1 v2. Proof. apply (lt_num _ Ord). reflexivity. Qed.
Lemma lt23 : sym_lt v2 v3. Proof. apply (lt_num _ Ord). reflexivity. Qed.
Lemma lt13 : sym_lt v1 v3. Proof. apply (lt_num _ Ord). reflexivity. Qed.
Lemma nlt (x y: Z) : (y <= x)%Z -> ~ sym_lt (SNum x) (SNum y).
Proof. intros L X. apply (lt_num _ Ord) in X. apply (proj1 (Z.le_ngt _ _) L). exact X. Qed.

Lemma least3 v : least_in sym_lt T3 "dom" v <-> v = v1.
Proof.
  split.
  - intros [Tv Least]. apply dom3 in Tv. destruct Tv as [->|[->| ->]]; [reflexivity| |].
    + destruct (Least v1 (proj2 (dom3 v1) (or_introl eq_refl))) as [E|L]; [discriminate|].
      exfalso. revert L. apply nlt. discriminate.
    + destruct (Least v1 (proj2 (dom3 v1) (or_introl eq_refl))) as [E|L]; [discriminate|].
      exfalso. revert L. apply nlt. discriminate.
  - intros ->. split; [apply dom3; auto|]. intros w Tw. apply dom3 in Tw.
    destruct Tw as [->|[->| ->]]; [left; reflexivity|right; exact lt12|right; exact lt13].
Qed.

Lemma nb12 : no_between sym_lt T3 "dom" v1 v2.
Proof.
  intros b Tb L1 L2. apply dom3 in Tb. destruct Tb as [->|[->| ->]]; revert L1 L2.
  - intros L _. revert L. apply nlt. discriminate.
  - intros _ L. revert L. apply nlt. discriminate.
  - intros _ L. revert L. apply nlt. discriminate.
Qed.
Lemma nb23 : no_between sym_lt T3 "dom" v2 v3.
Proof.
  intros b Tb L1 L2. apply dom3 in Tb. destruct Tb as [->|[->| ->]]; revert L1 L2.
  - intros L _. revert L. apply nlt. discriminate.
  - intros L _. revert L. apply nlt. discriminate.
  - intros _ L. revert L. apply nlt. discriminate.
Qed.

(* which (p, n) satisfy the common tail of the next-rules *)
Lemma tail3 p n : T3 ("dom", [n]) -> sym_lt p n -> no_between sym_lt T3 "dom" p n ->
  (p = v1 -> n = v2) /\ (p = v2 -> n = v3) /\ (p = v3 -> False).
Proof.
  intros Tn L NB. apply dom3 in Tn. split; [|split]; intros ->; destruct Tn as [->|[->| ->]]; try reflexivity; exfalso.
  - revert L. apply nlt. discriminate.
  - exact (NB v2 (proj2 (dom3 v2) (or_intror (or_introl eq_refl))) lt12 lt23).
  - revert L. apply nlt. discriminate.
  - revert L. apply nlt. discriminate.
  - revert L. apply nlt. discriminate.
  - revert L. apply nlt. discriminate.
  - revert L. apply nlt. discriminate.
Qed.

Lemma T3_model : Sat.prog_sat sym_lt T3 T3 P3.
Proof.
  intros st [<-|[<-|[<-|[]]]].
  - (* min *)
    unfold min_rule. simpl. rewrite gvars_min. intros s.
    assert (X: Sat.body_sat sym_lt G_min T3 T3 s [BLit (agg_lit FMin "dom"); BLit (at1 NoSign "dom" "_")] ->
               Sat.head_sat sym_lt G_min T3 T3 s (HLit (at1 NoSign "mn" "X"))).
    { intros Bd. apply min_body_sat in Bd. destruct Bd as [L _]. apply least3 in L.
      apply (proj2 (at1_sat sym_lt G_min T3 T3 s NoSign "mn" "X")). simpl. apply mn3. exact L. }
    split; exact X.
  - (* base *)
    unfold next_rule_base. simpl. rewrite gvars_base. intros s.
    assert (X: Sat.body_sat sym_lt G_base T3 T3 s (BLit (at1 NoSign "mn" "P") :: next_tail "dom") ->
               Sat.head_sat sym_lt G_base T3 T3 s (HLit (at2 "nx" "P" "N"))).
    { intros Bd. apply base_body_sat in Bd. destruct Bd as [A [B [C D]]]. apply mn3 in A.
      destruct (tail3 _ _ B C D) as [X1 _].
      apply (proj2 (at2_sat sym_lt G_base T3 T3 s "nx" "P" "N")). apply nx3. left. split; [exact A|exact (X1 A)]. }
    split; exact X.
  - (* step *)
    unfold next_rule_step. simpl. rewrite gvars_step. intros s.
    assert (X: Sat.body_sat sym_lt G_step T3 T3 s (BLit (at2 "nx" "_" "P") :: next_tail "dom") ->
               Sat.head_sat sym_lt G_step T3 T3 s (HLit (at2 "nx" "P" "N"))).
    { intros Bd. apply step_body_sat in Bd. destruct Bd as [A [B [C D]]]. apply nx3 in A.
      destruct (tail3 _ _ B C D) as [_ [X2 X3]].
      apply (proj2 (at2_sat sym_lt G_step T3 T3 s "nx" "P" "N")). apply nx3.
      destruct A as [[_ A]|[_ A]]; [right; split; [exact A|exact (X2 A)]|exfalso; exact (X3 A)]. }
    split; exact X.
Qed.

Theorem T3_stable : Sat.stable sym_lt P3 I3 T3.
Proof.
  split; [split; [exact T3_model|]|].
  - intros a Ha. unfold T3. apply in_or_app. left. exact Ha.
  - intros H HT PS FH.
    assert (D1: H ("dom", [v1])) by (apply FH; simpl; auto).
    assert (D2: H ("dom", [v2])) by (apply FH; simpl; auto).
    assert (D3: H ("dom", [v3])) by (apply FH; simpl; auto).
    assert (M1: H ("mn", [v1])).
    { pose proof (PS (min_rule "dom" "mn") (or_introl eq_refl)) as R. unfold min_rule in R. simpl in R.
      rewrite gvars_min in R. destruct (R (fun _ => v1)) as [R1 _].
      apply (proj1 (at1_sat sym_lt G_min H T3 (fun _ => v1) NoSign "mn" "X")). apply R1.
      apply (min_body_sat_HT sym_lt H T3 (fun _ => v1) "dom" HT). simpl.
      pose proof (proj2 (least3 v1) eq_refl) as [_ LT]. split; [|split; [apply least3; reflexivity|exact D1]].
      split; [exact D1|]. intros w Hw. apply LT. apply HT. exact Hw. }
    assert (N12: H ("nx", [v1; v2])).
    { pose proof (PS (next_rule_base "dom" "mn" "nx") (or_intror (or_introl eq_refl))) as R.
      unfold next_rule_base in R. simpl in R. rewrite gvars_base in R.
      set (s := fun x : string => if String.eqb x "P" then v1 else v2).
      destruct (R s) as [R1 _].
      apply (proj1 (at2_sat sym_lt G_base H T3 s "nx" "P" "N")). apply R1.
      apply (base_body_sat_HT sym_lt H T3 s "dom" "mn" HT). simpl.
      split; [exact M1|]. split; [exact D2|]. split; [exact lt12|exact nb12]. }
    assert (N23: H ("nx", [v2; v3])).
    { pose proof (PS (next_rule_step "dom" "nx") (or_intror (or_intror (or_introl eq_refl)))) as R.
      unfold next_rule_step in R. simpl in R. rewrite gvars_step in R.
      set (s := fun x : string => if String.eqb x "P" then v2 else if String.eqb x "N" then v3 else v1).
      destruct (R s) as [R1 _].
      apply (proj1 (at2_sat sym_lt G_step H T3 s "nx" "P" "N")). apply R1.
      apply (step_body_sat_HT sym_lt H T3 s "dom" "nx" HT). simpl.
      split; [exact N12|]. split; [exact D3|]. split; [exact lt23|exact nb23]. }
    intros a Ta. unfold T3 in Ta. simpl in Ta.
    destruct Ta as [<-|[<-|[<-|[<-|[<-|[<-|[]]]]]]]; assumption.
Qed.

(* all hypotheses of next_pred_meaning hold for P3, I3, T3 *)
Theorem sanity_instance :
  exists D, StronglySorted sym_lt D /\ (forall v, T3 ("dom", [v]) <-> In v D) /\
    (forall v, T3 ("mn", [v]) <-> hd_error D = Some v) /\
    (forall p n, T3 ("nx", [p; n]) <-> Chain.consecutive sym D p n).
Proof.
  apply (next_pred_meaning sym_lt "dom" "mn" "nx" P3 I3 T3 Ord).
  - apply gen_progb_spec. reflexivity.
  - simpl; auto.
  - simpl; auto.
  - simpl; auto.
  - intros line h b [E|[E|[E|[]]]] Hn; injection E as <- <- <-; simpl in Hn.
    + reflexivity.
    + destruct Hn as [Hn|[]]. discriminate.
    + destruct Hn as [Hn|[]]. discriminate.
  - intros line h b [E|[E|[E|[]]]] Hn; injection E as <- <- <-; simpl in Hn.
    + destruct Hn as [Hn|[]]. discriminate.
    + left. reflexivity.
    + right. reflexivity.
  - intros v [E|[E|[E|[]]]]; discriminate.
  - intros p n [E|[E|[E|[]]]]; discriminate.
  - exact T3_stable.
  - exists [v1; v2; v3]. intro v. rewrite dom3. simpl. split.
    + intros [->|[->| ->]]; auto.
    + intros [<-|[<-|[<-|[]]]]; auto.
Qed.
End S.
End Sanity.

Print Assumptions supported_general.
Print Assumptions next_rules_meaning.
Print Assumptions min_rule_meaning.
Print Assumptions next_pred_meaning.
Print Assumptions Sanity.sanity_instance.
