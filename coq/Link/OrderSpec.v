(* Proofs about Syntax/Order.v: sym_compare (the model of clingo.Symbol.__lt__) is a strict total
   order:   sym_compare a b = Eq <-> a = b,
            sym_compare a b = CompOpp (sym_compare b a),
            Lt is transitive (hence Gt too),
   and sort_by returns a permutation of its input that is sorted w.r.t. the comparison. *)
From Coq Require Import List String ZArith Bool Arith Lia OrderedTypeEx Permutation Sorted.
From NGO Require Import Syntax.Ast Syntax.Order.
Import ListNotations.
Open Scope list_scope.

(* ---------- lexicographic combination ---------- *)
Definition lex (c1 c2: comparison) : comparison := c1 >>> c2.

Lemma lex_eq c1 c2 : lex c1 c2 = Eq <-> c1 = Eq /\ c2 = Eq.
Proof. destruct c1; simpl; intuition discriminate. Qed.

Lemma lex_opp c1 c1' c2 c2' :
  c1 = CompOpp c1' -> c2 = CompOpp c2' -> lex c1 c2 = CompOpp (lex c1' c2').
Proof. intros -> ->. destruct c1'; reflexivity. Qed.

Lemma lex_trans_key {K} (ck: K -> K -> comparison) (kx ky kz: K) (r1 r2 r3: comparison) :
  (forall x y, ck x y = Eq <-> x = y) ->
  (ck kx ky = Lt -> ck ky kz = Lt -> ck kx kz = Lt) ->
  (r1 = Lt -> r2 = Lt -> r3 = Lt) ->
  lex (ck kx ky) r1 = Lt -> lex (ck ky kz) r2 = Lt -> lex (ck kx kz) r3 = Lt.
Proof.
  intros Heq Htr Hr. unfold lex.
  destruct (ck kx ky) eqn:E1; destruct (ck ky kz) eqn:E2; try discriminate; intros H1 H2.
  - apply Heq in E1. apply Heq in E2. subst. rewrite (proj2 (Heq kz kz) eq_refl). auto.
  - apply Heq in E1. subst. rewrite E2. reflexivity.
  - apply Heq in E2. subst. rewrite E1. reflexivity.
  - rewrite (Htr eq_refl eq_refl). reflexivity.
Qed.

(* ---------- properties of a comparison at one (left) argument ---------- *)
Definition eq_at {A} (c: A -> A -> comparison) (x: A) : Prop := forall y, c x y = Eq <-> x = y.
Definition opp_at {A} (c: A -> A -> comparison) (x: A) : Prop := forall y, c x y = CompOpp (c y x).
Definition trans_at {A} (c: A -> A -> comparison) (x: A) : Prop :=
  forall y z, c x y = Lt -> c y z = Lt -> c x z = Lt.

Section ListLemmas.
  Context {A: Type} (c: A -> A -> comparison).

  Lemma list_compare_eq_at xs : Forall (eq_at c) xs -> eq_at (list_compare c) xs.
  Proof.
    induction 1 as [|x xs Hx _ IH]; intros [|y ys]; simpl; try (split; (reflexivity || discriminate)).
    change (lex (c x y) (list_compare c xs ys) = Eq <-> x :: xs = y :: ys).
    rewrite lex_eq, (Hx y), (IH ys). split.
    - intros [-> ->]. reflexivity.
    - intros H. inversion H. auto.
  Qed.

  Lemma list_compare_eq_local xs :
    Forall (eq_at c) xs -> forall ys, list_compare c xs ys = Eq <-> xs = ys.
  Proof. exact (list_compare_eq_at xs). Qed.

  Lemma list_compare_opp_at xs : Forall (opp_at c) xs -> opp_at (list_compare c) xs.
  Proof.
    induction 1 as [|x xs Hx _ IH]; intros [|y ys]; simpl; try reflexivity.
    apply (lex_opp (c x y) (c y x)); [apply Hx | apply IH].
  Qed.

  Lemma list_compare_trans_at xs :
    (forall x y, c x y = Eq <-> x = y) ->
    Forall (trans_at c) xs -> trans_at (list_compare c) xs.
  Proof.
    intros Heq. induction 1 as [|x xs Hx _ IH]; intros [|y ys] [|z zs]; simpl; try discriminate; try reflexivity.
    apply (lex_trans_key c x y z); auto.
    - apply Hx.
    - apply IH.
  Qed.
End ListLemmas.

(* ---------- sym_compare as a lexicographic order on a key ---------- *)
Definition s_num (a: sym) : Z := match a with SNum z => z | _ => 0%Z end.
Definition s_neg (a: sym) : bool := match a with SFun _ _ p => negb p | _ => false end.
Definition s_args (a: sym) : list sym := match a with SFun _ xs _ => xs | _ => [] end.
Definition s_text (a: sym) : string := match a with SStr s => s | SFun n _ _ => n | _ => EmptyString end.

Definition key_compare (a b: sym) : comparison :=
  lex (Nat.compare (sym_rank a) (sym_rank b))
 (lex (Z.compare (s_num a) (s_num b))
 (lex (bool_compare (s_neg a) (s_neg b))
 (lex (Nat.compare (List.length (s_args a)) (List.length (s_args b)))
 (lex (String.compare (s_text a) (s_text b))
      (list_compare sym_compare (s_args a) (s_args b)))))).

Lemma Zcompare_0 : Z.compare 0 0 = Eq. Proof. reflexivity. Qed.

Lemma sym_compare_key a b : sym_compare a b = key_compare a b.
Proof.
  destruct a as [|x|s|n xs p|], b as [|y|t|m ys q|];
    try reflexivity;
    try (destruct xs, p; reflexivity);
    try (destruct ys, q; reflexivity).
  all: try (destruct xs, ys, p, q; reflexivity).
  - unfold key_compare, lex; simpl. destruct (Z.compare x y); reflexivity.
  - unfold key_compare, lex; simpl. destruct (String.compare s t); reflexivity.
Qed.

Lemma sym_args_ind (P: sym -> Prop) : (forall a, Forall P (s_args a) -> P a) -> forall a, P a.
Proof.
  intros H. fix IH 1. intros a. apply H.
  destruct a as [|z|s|n xs p|]; simpl; try apply Forall_nil.
  induction xs as [|x xs IHxs]; constructor; [apply IH | apply IHxs].
Qed.

Lemma bool_compare_eq x y : bool_compare x y = Eq <-> x = y.
Proof. destruct x, y; simpl; split; (reflexivity || discriminate). Qed.
Lemma bool_compare_opp x y : bool_compare x y = CompOpp (bool_compare y x).
Proof. destruct x, y; reflexivity. Qed.
Lemma bool_compare_trans x y z : bool_compare x y = Lt -> bool_compare y z = Lt -> bool_compare x z = Lt.
Proof. destruct x, y, z; simpl; auto; discriminate. Qed.

Lemma nat_compare_trans x y z : Nat.compare x y = Lt -> Nat.compare y z = Lt -> Nat.compare x z = Lt.
Proof. rewrite !Nat.compare_lt_iff. lia. Qed.
Lemma Z_compare_trans x y z : Z.compare x y = Lt -> Z.compare y z = Lt -> Z.compare x z = Lt.
Proof. rewrite !Z.compare_lt_iff. lia. Qed.
Lemma string_compare_eq x y : String.compare x y = Eq <-> x = y.
Proof. apply String_as_OT.cmp_eq. Qed.
Lemma string_compare_trans x y z :
  String.compare x y = Lt -> String.compare y z = Lt -> String.compare x z = Lt.
Proof.
  intros H1 H2. apply String_as_OT.cmp_lt. apply String_as_OT.cmp_lt in H1. apply String_as_OT.cmp_lt in H2.
  eapply String_as_OT.lt_trans; eassumption.
Qed.

(* the key determines the symbol *)
Lemma key_inj a b :
  sym_rank a = sym_rank b -> s_num a = s_num b -> s_neg a = s_neg b -> s_text a = s_text b ->
  s_args a = s_args b -> a = b.
Proof.
  destruct a as [|x|s|n xs p|], b as [|y|t|m ys q|]; simpl; intros Hr Hn Hs Ht Ha;
    try discriminate;
    try (destruct xs, p; discriminate); try (destruct ys, q; discriminate);
    subst; try reflexivity.
  destruct p, q; try discriminate; reflexivity.
Qed.

(* ---------- the three properties ---------- *)
Theorem sym_compare_eq_iff : forall a b, sym_compare a b = Eq <-> a = b.
Proof.
  apply (sym_args_ind (eq_at sym_compare)). intros a IH b.
  rewrite sym_compare_key. unfold key_compare. rewrite !lex_eq.
  rewrite !Nat.compare_eq_iff, Z.compare_eq_iff, bool_compare_eq, string_compare_eq.
  rewrite (list_compare_eq_at sym_compare (s_args a) IH (s_args b)).
  split.
  - intros (Hr & Hn & Hs & _ & Ht & Ha). apply key_inj; assumption.
  - intros ->. repeat split; reflexivity.
Qed.

Theorem sym_compare_antisym : forall a b, sym_compare a b = CompOpp (sym_compare b a).
Proof.
  apply (sym_args_ind (opp_at sym_compare)). intros a IH b.
  rewrite !sym_compare_key. unfold key_compare.
  repeat apply lex_opp.
  - apply Nat.compare_antisym.
  - apply Z.compare_antisym.
  - apply bool_compare_opp.
  - apply Nat.compare_antisym.
  - apply String.compare_antisym.
  - apply (list_compare_opp_at sym_compare (s_args a) IH).
Qed.

Theorem sym_compare_lt_trans :
  forall a b c, sym_compare a b = Lt -> sym_compare b c = Lt -> sym_compare a c = Lt.
Proof.
  apply (sym_args_ind (trans_at sym_compare)). intros a IH b c.
  rewrite !sym_compare_key. unfold key_compare.
  apply lex_trans_key; [apply Nat.compare_eq_iff | apply nat_compare_trans |].
  apply lex_trans_key; [apply Z.compare_eq_iff | apply Z_compare_trans |].
  apply lex_trans_key; [apply bool_compare_eq | apply bool_compare_trans |].
  apply lex_trans_key; [apply Nat.compare_eq_iff | apply nat_compare_trans |].
  apply lex_trans_key; [apply string_compare_eq | apply string_compare_trans |].
  apply (list_compare_trans_at sym_compare (s_args a) sym_compare_eq_iff IH).
Qed.

Corollary sym_compare_refl a : sym_compare a a = Eq.
Proof. apply sym_compare_eq_iff. reflexivity. Qed.

Corollary sym_compare_gt_lt a b : sym_compare a b = Gt <-> sym_compare b a = Lt.
Proof. rewrite (sym_compare_antisym a b). destruct (sym_compare b a); simpl; split; (reflexivity || discriminate). Qed.

Corollary sym_compare_gt_trans a b c :
  sym_compare a b = Gt -> sym_compare b c = Gt -> sym_compare a c = Gt.
Proof. rewrite !sym_compare_gt_lt. intros H1 H2. exact (sym_compare_lt_trans c b a H2 H1). Qed.

(* exactly one of  a < b,  a = b,  b < a *)
Corollary sym_compare_total a b : sym_compare a b = Lt \/ a = b \/ sym_compare b a = Lt.
Proof.
  destruct (sym_compare a b) eqn:E.
  - right; left. apply sym_compare_eq_iff. exact E.
  - left. reflexivity.
  - right; right. apply sym_compare_gt_lt. exact E.
Qed.

(* ---------- sort_by ---------- *)
Section Sort.
  Context {A: Type} (c: A -> A -> comparison).

  Lemma insert_by_perm x l : Permutation (insert_by c x l) (x :: l).
  Proof.
    induction l as [|y r IH]; simpl; [reflexivity|].
    destruct (c x y); try reflexivity.
    rewrite IH. apply perm_swap.
  Qed.

  Theorem sort_by_perm l : Permutation (sort_by c l) l.
  Proof.
    induction l as [|x l IH]; simpl; [reflexivity|].
    unfold sort_by in *. simpl. rewrite insert_by_perm. constructor. exact IH.
  Qed.

  (* "not greater" *)
  Definition le_by (x y: A) : Prop := c x y <> Gt.

  Hypothesis c_opp : forall x y, c x y = CompOpp (c y x).
  Hypothesis c_trans : forall x y z, c x y = Lt -> c y z = Lt -> c x z = Lt.
  Hypothesis c_eq : forall x y, c x y = Eq -> x = y.

  Lemma le_by_trans x y z : le_by x y -> le_by y z -> le_by x z.
  Proof.
    unfold le_by. intros H1 H2.
    destruct (c x y) eqn:E1; [apply c_eq in E1; subst; exact H2| |congruence].
    destruct (c y z) eqn:E2; [apply c_eq in E2; subst; congruence| |congruence].
    rewrite (c_trans _ _ _ E1 E2). discriminate.
  Qed.

  Lemma insert_by_sorted x l : Sorted le_by l -> Sorted le_by (insert_by c x l).
  Proof.
    induction 1 as [|y r Hr IH Hy]; simpl; [repeat constructor|].
    destruct (c x y) eqn:E.
    - constructor; [constructor; assumption|]. constructor. unfold le_by. congruence.
    - constructor; [constructor; assumption|]. constructor. unfold le_by. congruence.
    - constructor; [exact IH|].
      assert (Hyx: le_by y x). { unfold le_by. rewrite c_opp, E. discriminate. }
      destruct r as [|z r]; simpl; [constructor; exact Hyx|].
      destruct (c x z); constructor; try exact Hyx; inversion Hy; assumption.
  Qed.

  Theorem sort_by_sorted l : Sorted le_by (sort_by c l).
  Proof.
    induction l as [|x l IH]; [constructor|]. unfold sort_by in *. simpl. apply insert_by_sorted. exact IH.
  Qed.
End Sort.

Theorem sort_syms_perm l : Permutation (sort_syms l) l.
Proof. apply sort_by_perm. Qed.

Theorem sort_syms_sorted l : Sorted (le_by sym_compare) (sort_syms l).
Proof.
  apply sort_by_sorted. apply sym_compare_antisym.
Qed.


(* ================= terms ================= *)
Ltac fold_lex :=
  repeat match goal with
  | |- context [match ?c1 with Eq => ?c2 | Lt => Lt | Gt => Gt end] =>
      change (match c1 with Eq => c2 | Lt => Lt | Gt => Gt end) with (lex c1 c2)
  end.

Section ListGlobal.
  Context {A: Type} (c: A -> A -> comparison).
  Lemma Forall_all (P: A -> Prop) (H: forall x, P x) xs : Forall P xs.
  Proof. induction xs; constructor; auto. Qed.
  Lemma list_compare_eq_iff : (forall x y, c x y = Eq <-> x = y) ->
    forall xs ys, list_compare c xs ys = Eq <-> xs = ys.
  Proof. intros H xs. apply list_compare_eq_at. apply Forall_all. exact H. Qed.
  Lemma list_compare_antisym : (forall x y, c x y = CompOpp (c y x)) ->
    forall xs ys, list_compare c xs ys = CompOpp (list_compare c ys xs).
  Proof. intros H xs. apply list_compare_opp_at. apply Forall_all. exact H. Qed.
  Lemma list_compare_lt_trans : (forall x y, c x y = Eq <-> x = y) ->
    (forall x y z, c x y = Lt -> c y z = Lt -> c x z = Lt) ->
    forall xs ys zs, list_compare c xs ys = Lt -> list_compare c ys zs = Lt -> list_compare c xs zs = Lt.
  Proof. intros He H xs. apply list_compare_trans_at; [exact He|]. apply Forall_all. exact H. Qed.
  Lemma option_compare_eq_iff : (forall x y, c x y = Eq <-> x = y) ->
    forall x y, option_compare c x y = Eq <-> x = y.
  Proof.
    intros H [x|] [y|]; simpl; try (split; (reflexivity || discriminate)).
    rewrite H. split; [intros ->; reflexivity | intros E; inversion E; reflexivity].
  Qed.
  Lemma option_compare_antisym : (forall x y, c x y = CompOpp (c y x)) ->
    forall x y, option_compare c x y = CompOpp (option_compare c y x).
  Proof. intros H [x|] [y|]; simpl; auto. Qed.
  Lemma option_compare_lt_trans : (forall x y z, c x y = Lt -> c y z = Lt -> c x z = Lt) ->
    forall x y z, option_compare c x y = Lt -> option_compare c y z = Lt -> option_compare c x z = Lt.
  Proof. intros H [x|] [y|] [z|]; simpl; try discriminate; auto. apply H. Qed.
End ListGlobal.

(* comparisons that are Nat.compare on an injective code *)
Section ByVal.
  Context {A: Type} (v: A -> nat) (v_inj: forall x y, v x = v y -> x = y).
  Let c x y := Nat.compare (v x) (v y).
  Lemma byval_eq x y : c x y = Eq <-> x = y.
  Proof. unfold c. rewrite Nat.compare_eq_iff. split; [apply v_inj | intros ->; reflexivity]. Qed.
  Lemma byval_opp x y : c x y = CompOpp (c y x).
  Proof. apply Nat.compare_antisym. Qed.
  Lemma byval_trans x y z : c x y = Lt -> c y z = Lt -> c x z = Lt.
  Proof. apply nat_compare_trans. Qed.
End ByVal.

Lemma sign_val_inj x y : sign_val x = sign_val y -> x = y.
Proof. destruct x, y; simpl; intros H; (reflexivity || discriminate). Qed.
Lemma cmp_val_inj x y : cmp_val x = cmp_val y -> x = y.
Proof. destruct x, y; simpl; intros H; (reflexivity || discriminate). Qed.
Lemma binop_val_inj x y : binop_val x = binop_val y -> x = y.
Proof. destruct x, y; simpl; intros H; (reflexivity || discriminate). Qed.
Lemma unop_val_inj x y : unop_val x = unop_val y -> x = y.
Proof. destruct x, y; simpl; intros H; (reflexivity || discriminate). Qed.
Lemma aggfun_val_inj x y : aggfun_val x = aggfun_val y -> x = y.
Proof. destruct x, y; simpl; intros H; (reflexivity || discriminate). Qed.

Lemma sign_compare_eq x y : sign_compare x y = Eq <-> x = y.
Proof. apply (byval_eq sign_val sign_val_inj). Qed.
Lemma cmp_compare_eq x y : cmp_compare x y = Eq <-> x = y.
Proof. apply (byval_eq cmp_val cmp_val_inj). Qed.
Lemma binop_compare_eq x y : binop_compare x y = Eq <-> x = y.
Proof. apply (byval_eq binop_val binop_val_inj). Qed.
Lemma unop_compare_eq x y : unop_compare x y = Eq <-> x = y.
Proof. apply (byval_eq unop_val unop_val_inj). Qed.
Lemma aggfun_compare_eq x y : aggfun_compare x y = Eq <-> x = y.
Proof. apply (byval_eq aggfun_val aggfun_val_inj). Qed.

Lemma term_ind' (P: term -> Prop) :
  (forall x, P (TVar x)) -> (forall s, P (TSym s)) -> (forall o t, P t -> P (TUn o t)) ->
  (forall o l r, P l -> P r -> P (TBin o l r)) -> (forall l r, P l -> P r -> P (TInterval l r)) ->
  (forall n xs e, Forall P xs -> P (TFun n xs e)) -> (forall xs, Forall P xs -> P (TPool xs)) ->
  forall t, P t.
Proof.
  intros HV HS HU HB HI HF HP. fix IH 1. intros t.
  destruct t as [x|s|o t|o l r|l r|n xs e|xs].
  - apply HV.
  - apply HS.
  - apply HU, IH.
  - apply HB; apply IH.
  - apply HI; apply IH.
  - apply HF. induction xs as [|x xs IHxs]; constructor; [apply IH | apply IHxs].
  - apply HP. induction xs as [|x xs IHxs]; constructor; [apply IH | apply IHxs].
Qed.

Ltac inj_both := split; [intuition (subst; reflexivity) | intros HH; inversion HH; subst; auto].

Theorem term_compare_eq_iff : forall a b, term_compare a b = Eq <-> a = b.
Proof.
  induction a as [x|s|o t IHt|o l r IHl IHr|l r IHl IHr|n xs e IHxs|xs IHxs] using term_ind';
    intros b; destruct b; simpl; try (split; discriminate); fold_lex; rewrite ?lex_eq.
  - rewrite string_compare_eq. inj_both.
  - rewrite sym_compare_eq_iff. inj_both.
  - rewrite unop_compare_eq, IHt. inj_both.
  - rewrite binop_compare_eq, IHl, IHr. inj_both.
  - rewrite IHl, IHr. inj_both.
  - rewrite string_compare_eq, bool_compare_eq, (list_compare_eq_local term_compare xs IHxs). inj_both.
  - rewrite (list_compare_eq_local term_compare xs IHxs). inj_both.
Qed.

Theorem term_compare_antisym : forall a b, term_compare a b = CompOpp (term_compare b a).
Proof.
  induction a as [x|s|o t IHt|o l r IHl IHr|l r IHl IHr|n xs e IHxs|xs IHxs] using term_ind';
    intros b; destruct b; simpl; try reflexivity; fold_lex.
  - apply String.compare_antisym.
  - apply sym_compare_antisym.
  - apply lex_opp; [apply Nat.compare_antisym | apply IHt].
  - apply lex_opp; [apply Nat.compare_antisym |]. apply lex_opp; [apply IHl | apply IHr].
  - apply lex_opp; [apply IHl | apply IHr].
  - apply lex_opp; [apply String.compare_antisym |].
    apply lex_opp; [apply (list_compare_opp_at term_compare xs IHxs) | apply bool_compare_opp].
  - apply (list_compare_opp_at term_compare xs IHxs).
Qed.

Theorem term_compare_lt_trans :
  forall a b c, term_compare a b = Lt -> term_compare b c = Lt -> term_compare a c = Lt.
Proof.
  induction a as [x|s|o t IHt|o l r IHl IHr|l r IHl IHr|n xs e IHxs|xs IHxs] using term_ind';
    intros b c; destruct b; simpl; try (intros; discriminate);
    destruct c; simpl; try (intros; discriminate); try (intros; reflexivity); fold_lex.
  - apply string_compare_trans.
  - apply sym_compare_lt_trans.
  - apply (lex_trans_key unop_compare); [apply unop_compare_eq | apply nat_compare_trans | apply IHt].
  - apply (lex_trans_key binop_compare); [apply binop_compare_eq | apply nat_compare_trans |].
    apply (lex_trans_key term_compare); [apply term_compare_eq_iff | apply IHl | apply IHr].
  - apply (lex_trans_key term_compare); [apply term_compare_eq_iff | apply IHl | apply IHr].
  - apply (lex_trans_key String.compare); [apply string_compare_eq | apply string_compare_trans |].
    apply (lex_trans_key (list_compare term_compare));
      [apply list_compare_eq_iff, term_compare_eq_iff
      | apply (list_compare_trans_at term_compare xs term_compare_eq_iff IHxs)
      | apply bool_compare_trans].
  - apply (list_compare_trans_at term_compare xs term_compare_eq_iff IHxs).
Qed.

Theorem sort_terms_perm l : Permutation (sort_terms l) l.
Proof. apply sort_by_perm. Qed.
Theorem sort_terms_sorted l : Sorted (le_by term_compare) (sort_terms l).
Proof. apply sort_by_sorted. apply term_compare_antisym. Qed.


(* ================= guards, atoms, literals, body elements ================= *)
Lemma guard_compare_eq_iff x y : guard_compare x y = Eq <-> x = y.
Proof.
  unfold guard_compare. fold_lex. rewrite lex_eq, cmp_compare_eq, term_compare_eq_iff.
  destruct x, y; simpl. inj_both.
Qed.
Lemma guard_compare_antisym x y : guard_compare x y = CompOpp (guard_compare y x).
Proof. unfold guard_compare. fold_lex. apply lex_opp; [apply Nat.compare_antisym | apply term_compare_antisym]. Qed.
Lemma guard_compare_lt_trans x y z : guard_compare x y = Lt -> guard_compare y z = Lt -> guard_compare x z = Lt.
Proof.
  unfold guard_compare. fold_lex.
  apply (lex_trans_key cmp_compare); [apply cmp_compare_eq | apply nat_compare_trans | apply term_compare_lt_trans].
Qed.
Lemma oguard_compare_eq_iff x y : oguard_compare x y = Eq <-> x = y.
Proof. apply option_compare_eq_iff, guard_compare_eq_iff. Qed.
Lemma oguard_compare_antisym x y : oguard_compare x y = CompOpp (oguard_compare y x).
Proof. apply option_compare_antisym, guard_compare_antisym. Qed.
Lemma oguard_compare_lt_trans x y z : oguard_compare x y = Lt -> oguard_compare y z = Lt -> oguard_compare x z = Lt.
Proof. apply option_compare_lt_trans, guard_compare_lt_trans. Qed.

Definition lit_atom (l: lit) : atom := match l with Lit _ a => a end.

Lemma atom_ind' (P: atom -> Prop) :
  (forall t, P (ASym t)) -> (forall t gs, P (ACmp t gs)) -> (forall b, P (ABool b)) ->
  (forall lg f es rg,
      Forall (fun e : list term * list lit => Forall (fun l => P (lit_atom l)) (snd e)) es ->
      P (ABodyAgg lg f es rg)) ->
  (forall lg es rg,
      Forall (fun e : lit * list lit => P (lit_atom (fst e)) /\ Forall (fun l => P (lit_atom l)) (snd e)) es ->
      P (AAgg lg es rg)) ->
  (forall s, P (ATheory s)) ->
  forall a, P a.
Proof.
  intros HS HC HB HBA HA HT. fix IH 1. intros a.
  destruct a as [t|t gs|b|lg f es rg|lg es rg|s].
  - apply HS.
  - apply HC.
  - apply HB.
  - apply HBA. induction es as [|[ts cs] r IHr]; constructor; [|apply IHr]. simpl.
    induction cs as [|[s a'] q IHq]; constructor; [apply IH | apply IHq].
  - apply HA. induction es as [|[[s0 a0] cs] r IHr]; constructor; [|apply IHr]. simpl. split; [apply IH|].
    induction cs as [|[s a'] q IHq]; constructor; [apply IH | apply IHq].
  - apply HT.
Qed.

Lemma atom_compare_bodyagg lg f es rg lg' f' es' rg' :
  atom_compare (ABodyAgg lg f es rg) (ABodyAgg lg' f' es' rg') =
  lex (oguard_compare lg lg') (lex (aggfun_compare f f') (lex (list_compare belem_compare es es') (oguard_compare rg rg'))).
Proof. reflexivity. Qed.
Lemma atom_compare_agg lg es rg lg' es' rg' :
  atom_compare (AAgg lg es rg) (AAgg lg' es' rg') =
  lex (oguard_compare lg lg') (lex (list_compare condlit_compare es es') (oguard_compare rg rg')).
Proof. reflexivity. Qed.
Lemma lit_compare_unfold s a s' a' :
  lit_compare (Lit s a) (Lit s' a') = lex (sign_compare s s') (atom_compare a a').
Proof. reflexivity. Qed.
Lemma belem_compare_unfold e e' :
  belem_compare e e' = lex (list_compare term_compare (fst e) (fst e')) (list_compare lit_compare (snd e) (snd e')).
Proof. reflexivity. Qed.
Lemma condlit_compare_unfold e e' :
  condlit_compare e e' = lex (lit_compare (fst e) (fst e')) (list_compare lit_compare (snd e) (snd e')).
Proof. reflexivity. Qed.

(* --- equality --- *)
Lemma lit_eq_at l : eq_at atom_compare (lit_atom l) -> eq_at lit_compare l.
Proof.
  destruct l as [s a]. simpl. intros H [s' a']. unfold eq_at in H.
  rewrite lit_compare_unfold, lex_eq, sign_compare_eq, H. inj_both.
Qed.
Lemma lits_eq_at cs : Forall (fun l => eq_at atom_compare (lit_atom l)) cs -> eq_at (list_compare lit_compare) cs.
Proof. intros H. apply list_compare_eq_at. eapply Forall_impl; [|exact H]. apply lit_eq_at. Qed.
Lemma belem_eq_at e : eq_at (list_compare lit_compare) (snd e) -> eq_at belem_compare e.
Proof.
  intros H e'. unfold eq_at in H.
  rewrite belem_compare_unfold, lex_eq, (list_compare_eq_iff term_compare term_compare_eq_iff), H.
  destruct e, e'; simpl. inj_both.
Qed.
Lemma condlit_eq_at e : eq_at lit_compare (fst e) -> eq_at (list_compare lit_compare) (snd e) -> eq_at condlit_compare e.
Proof.
  intros H1 H2 e'. unfold eq_at in H1, H2.
  rewrite condlit_compare_unfold, lex_eq, H1, H2. destruct e, e'; simpl. inj_both.
Qed.

Theorem atom_compare_eq_iff : forall a b, atom_compare a b = Eq <-> a = b.
Proof.
  apply (atom_ind' (eq_at atom_compare)).
  - intros t b; destruct b; try (simpl; split; discriminate). simpl. rewrite term_compare_eq_iff. inj_both.
  - intros t gs b; destruct b; try (simpl; split; discriminate). simpl. fold_lex.
    rewrite lex_eq, term_compare_eq_iff, (list_compare_eq_iff guard_compare guard_compare_eq_iff). inj_both.
  - intros x b; destruct b; try (simpl; split; discriminate). simpl. rewrite bool_compare_eq. inj_both.
  - intros lg f es rg IH b; destruct b; try (simpl; split; discriminate).
    assert (Hes: Forall (eq_at belem_compare) es).
    { eapply Forall_impl; [|exact IH]. intros e He. apply belem_eq_at, lits_eq_at, He. }
    rewrite atom_compare_bodyagg, !lex_eq, !oguard_compare_eq_iff, aggfun_compare_eq,
      (list_compare_eq_local belem_compare es Hes). inj_both.
  - intros lg es rg IH b; destruct b; try (simpl; split; discriminate).
    assert (Hes: Forall (eq_at condlit_compare) es).
    { eapply Forall_impl; [|exact IH]. intros e [H1 H2]. apply condlit_eq_at; [apply lit_eq_at, H1 | apply lits_eq_at, H2]. }
    rewrite atom_compare_agg, !lex_eq, !oguard_compare_eq_iff, (list_compare_eq_local condlit_compare es Hes). inj_both.
  - intros s b; destruct b; try (simpl; split; discriminate). simpl. rewrite string_compare_eq. inj_both.
Qed.

Theorem lit_compare_eq_iff : forall a b, lit_compare a b = Eq <-> a = b.
Proof. intros a. apply lit_eq_at. intros b. apply atom_compare_eq_iff. Qed.

(* --- antisymmetry --- *)
Lemma lit_opp_at l : opp_at atom_compare (lit_atom l) -> opp_at lit_compare l.
Proof.
  destruct l as [s a]. simpl. intros H [s' a']. rewrite !lit_compare_unfold.
  apply lex_opp; [apply Nat.compare_antisym | apply H].
Qed.
Lemma lits_opp_at cs : Forall (fun l => opp_at atom_compare (lit_atom l)) cs -> opp_at (list_compare lit_compare) cs.
Proof. intros H. apply list_compare_opp_at. eapply Forall_impl; [|exact H]. apply lit_opp_at. Qed.
Lemma belem_opp_at e : opp_at (list_compare lit_compare) (snd e) -> opp_at belem_compare e.
Proof.
  intros H e'. rewrite !belem_compare_unfold.
  apply lex_opp; [apply list_compare_antisym, term_compare_antisym | apply H].
Qed.
Lemma condlit_opp_at e : opp_at lit_compare (fst e) -> opp_at (list_compare lit_compare) (snd e) -> opp_at condlit_compare e.
Proof. intros H1 H2 e'. rewrite !condlit_compare_unfold. apply lex_opp; [apply H1 | apply H2]. Qed.

Theorem atom_compare_antisym : forall a b, atom_compare a b = CompOpp (atom_compare b a).
Proof.
  apply (atom_ind' (opp_at atom_compare)).
  - intros t b; destruct b; try reflexivity. simpl. apply term_compare_antisym.
  - intros t gs b; destruct b; try reflexivity. simpl. fold_lex.
    apply lex_opp; [apply term_compare_antisym | apply list_compare_antisym, guard_compare_antisym].
  - intros x b; destruct b; try reflexivity. simpl. apply bool_compare_opp.
  - intros lg f es rg IH b; destruct b; try reflexivity.
    assert (Hes: Forall (opp_at belem_compare) es).
    { eapply Forall_impl; [|exact IH]. intros e He. apply belem_opp_at, lits_opp_at, He. }
    rewrite !atom_compare_bodyagg.
    apply lex_opp; [apply oguard_compare_antisym|]. apply lex_opp; [apply Nat.compare_antisym|].
    apply lex_opp; [apply (list_compare_opp_at belem_compare es Hes) | apply oguard_compare_antisym].
  - intros lg es rg IH b; destruct b; try reflexivity.
    assert (Hes: Forall (opp_at condlit_compare) es).
    { eapply Forall_impl; [|exact IH]. intros e [H1 H2]. apply condlit_opp_at; [apply lit_opp_at, H1 | apply lits_opp_at, H2]. }
    rewrite !atom_compare_agg.
    apply lex_opp; [apply oguard_compare_antisym|].
    apply lex_opp; [apply (list_compare_opp_at condlit_compare es Hes) | apply oguard_compare_antisym].
  - intros s b; destruct b; try reflexivity. simpl. apply String.compare_antisym.
Qed.

Theorem lit_compare_antisym : forall a b, lit_compare a b = CompOpp (lit_compare b a).
Proof. intros a. apply lit_opp_at. intros b. apply atom_compare_antisym. Qed.

(* --- transitivity --- *)
Lemma lit_trans_at l : trans_at atom_compare (lit_atom l) -> trans_at lit_compare l.
Proof.
  destruct l as [s a]. simpl. intros H [s1 a1] [s2 a2]. rewrite !lit_compare_unfold.
  apply (lex_trans_key sign_compare); [apply sign_compare_eq | apply nat_compare_trans | apply H].
Qed.
Lemma lits_trans_at cs :
  Forall (fun l => trans_at atom_compare (lit_atom l)) cs -> trans_at (list_compare lit_compare) cs.
Proof.
  intros H. apply list_compare_trans_at; [apply lit_compare_eq_iff|].
  eapply Forall_impl; [|exact H]. apply lit_trans_at.
Qed.
Lemma belem_trans_at e : trans_at (list_compare lit_compare) (snd e) -> trans_at belem_compare e.
Proof.
  intros H e1 e2. rewrite !belem_compare_unfold.
  apply (lex_trans_key (list_compare term_compare));
    [apply list_compare_eq_iff, term_compare_eq_iff
    | apply list_compare_lt_trans; [apply term_compare_eq_iff | apply term_compare_lt_trans]
    | apply H].
Qed.
Lemma condlit_trans_at e :
  trans_at lit_compare (fst e) -> trans_at (list_compare lit_compare) (snd e) -> trans_at condlit_compare e.
Proof.
  intros H1 H2 e1 e2. rewrite !condlit_compare_unfold.
  apply (lex_trans_key lit_compare); [apply lit_compare_eq_iff | apply H1 | apply H2].
Qed.

Lemma condlit_compare_eq_iff x y : condlit_compare x y = Eq <-> x = y.
Proof.
  apply condlit_eq_at; [intros b; apply lit_compare_eq_iff | intros b; apply list_compare_eq_iff, lit_compare_eq_iff].
Qed.
Lemma belem_compare_eq_iff x y : belem_compare x y = Eq <-> x = y.
Proof. apply belem_eq_at. intros b. apply list_compare_eq_iff, lit_compare_eq_iff. Qed.

Theorem atom_compare_lt_trans :
  forall a b c, atom_compare a b = Lt -> atom_compare b c = Lt -> atom_compare a c = Lt.
Proof.
  apply (atom_ind' (trans_at atom_compare)).
  - intros t b c; destruct b; try (simpl; intros; discriminate);
      destruct c; try (simpl; intros; discriminate); try (simpl; intros; reflexivity).
    simpl. apply term_compare_lt_trans.
  - intros t gs b c; destruct b; try (simpl; intros; discriminate);
      destruct c; try (simpl; intros; discriminate); try (simpl; intros; reflexivity).
    simpl. fold_lex.
    apply (lex_trans_key term_compare); [apply term_compare_eq_iff | apply term_compare_lt_trans |].
    apply list_compare_lt_trans; [apply guard_compare_eq_iff | apply guard_compare_lt_trans].
  - intros x b c; destruct b; try (simpl; intros; discriminate);
      destruct c; try (simpl; intros; discriminate); try (simpl; intros; reflexivity).
    simpl. apply bool_compare_trans.
  - intros lg f es rg IH b c; destruct b; try (simpl; intros; discriminate);
      destruct c; try (simpl; intros; discriminate); try (simpl; intros; reflexivity).
    assert (Hes: Forall (trans_at belem_compare) es).
    { eapply Forall_impl; [|exact IH]. intros e He. apply belem_trans_at, lits_trans_at, He. }
    rewrite !atom_compare_bodyagg.
    apply (lex_trans_key oguard_compare); [apply oguard_compare_eq_iff | apply oguard_compare_lt_trans |].
    apply (lex_trans_key aggfun_compare); [apply aggfun_compare_eq | apply nat_compare_trans |].
    apply (lex_trans_key (list_compare belem_compare));
      [apply list_compare_eq_iff, belem_compare_eq_iff
      | apply (list_compare_trans_at belem_compare es belem_compare_eq_iff Hes)
      | apply oguard_compare_lt_trans].
  - intros lg es rg IH b c; destruct b; try (simpl; intros; discriminate);
      destruct c; try (simpl; intros; discriminate); try (simpl; intros; reflexivity).
    assert (Hes: Forall (trans_at condlit_compare) es).
    { eapply Forall_impl; [|exact IH]. intros e [H1 H2].
      apply condlit_trans_at; [apply lit_trans_at, H1 | apply lits_trans_at, H2]. }
    rewrite !atom_compare_agg.
    apply (lex_trans_key oguard_compare); [apply oguard_compare_eq_iff | apply oguard_compare_lt_trans |].
    apply (lex_trans_key (list_compare condlit_compare));
      [apply list_compare_eq_iff, condlit_compare_eq_iff
      | apply (list_compare_trans_at condlit_compare es condlit_compare_eq_iff Hes)
      | apply oguard_compare_lt_trans].
  - intros s b c; destruct b; try (simpl; intros; discriminate);
      destruct c; try (simpl; intros; discriminate); try (simpl; intros; reflexivity).
    simpl. apply string_compare_trans.
Qed.

Theorem lit_compare_lt_trans :
  forall a b c, lit_compare a b = Lt -> lit_compare b c = Lt -> lit_compare a c = Lt.
Proof. intros a. apply lit_trans_at. intros b c. apply atom_compare_lt_trans. Qed.

(* body elements *)
Lemma condlit_compare_antisym x y : condlit_compare x y = CompOpp (condlit_compare y x).
Proof.
  apply condlit_opp_at; [intros b; apply lit_compare_antisym | intros b; apply list_compare_antisym, lit_compare_antisym].
Qed.
Lemma condlit_compare_lt_trans x y z :
  condlit_compare x y = Lt -> condlit_compare y z = Lt -> condlit_compare x z = Lt.
Proof.
  apply condlit_trans_at; [intros b c; apply lit_compare_lt_trans |].
  intros b c. apply list_compare_lt_trans; [apply lit_compare_eq_iff | apply lit_compare_lt_trans].
Qed.

Theorem bodyelem_compare_eq_iff a b : bodyelem_compare a b = Eq <-> a = b.
Proof.
  destruct a as [x|l c], b as [y|l' c']; simpl; try (split; discriminate).
  - rewrite lit_compare_eq_iff. inj_both.
  - rewrite (condlit_compare_eq_iff (l, c) (l', c')).
    split; intros H; inversion H; reflexivity.
Qed.
Theorem bodyelem_compare_antisym a b : bodyelem_compare a b = CompOpp (bodyelem_compare b a).
Proof.
  destruct a as [x|l c], b as [y|l' c']; simpl; try reflexivity.
  - apply lit_compare_antisym.
  - apply (condlit_compare_antisym (l, c) (l', c')).
Qed.
Theorem bodyelem_compare_lt_trans a b c :
  bodyelem_compare a b = Lt -> bodyelem_compare b c = Lt -> bodyelem_compare a c = Lt.
Proof.
  destruct a as [x|l k], b as [y|l' k'], c as [z|l'' k'']; simpl; try discriminate; try reflexivity.
  - apply lit_compare_lt_trans.
  - apply (condlit_compare_lt_trans (l, k) (l', k') (l'', k'')).
Qed.

Theorem sort_lits_perm l : Permutation (sort_lits l) l.
Proof. apply sort_by_perm. Qed.
Theorem sort_lits_sorted l : Sorted (le_by lit_compare) (sort_lits l).
Proof. apply sort_by_sorted. apply lit_compare_antisym. Qed.
Theorem sort_bodyelems_perm l : Permutation (sort_bodyelems l) l.
Proof. apply sort_by_perm. Qed.
Theorem sort_bodyelems_sorted l : Sorted (le_by bodyelem_compare) (sort_bodyelems l).
Proof. apply sort_by_sorted. apply bodyelem_compare_antisym. Qed.

(* sorting Variable nodes = sorting their names *)
Lemma sort_by_map {A B} (f: A -> B) (ca: A -> A -> comparison) (cb: B -> B -> comparison) :
  (forall x y, cb (f x) (f y) = ca x y) -> forall l, sort_by cb (map f l) = map f (sort_by ca l).
Proof.
  intros H. assert (Hi: forall x l, insert_by cb (f x) (map f l) = map f (insert_by ca x l)).
  { intros x l. induction l as [|y r IH]; simpl; [reflexivity|]. rewrite H. destruct (ca x y); simpl; try reflexivity.
    rewrite IH. reflexivity. }
  induction l as [|x l IH]; [reflexivity|]. unfold sort_by in *. simpl. rewrite IH. apply Hi.
Qed.
Theorem sort_vars_by_name l : sort_terms (map TVar l) = map TVar (sort_strings_as_vars l).
Proof. apply sort_by_map. reflexivity. Qed.

Print Assumptions sym_compare_eq_iff.
Print Assumptions sym_compare_antisym.
Print Assumptions sym_compare_lt_trans.
Print Assumptions sort_syms_sorted.
Print Assumptions term_compare_eq_iff.
Print Assumptions term_compare_antisym.
Print Assumptions term_compare_lt_trans.
Print Assumptions lit_compare_eq_iff.
Print Assumptions lit_compare_antisym.
Print Assumptions lit_compare_lt_trans.
Print Assumptions bodyelem_compare_lt_trans.
