(* G7: merging several #sum aggregates into one by tagging their tuples with distinct identifiers
   (math_simplification.new_sum appends __agg(i) to the tuples of the i-th aggregate), and the integer
   slack encoding of comparisons (math_simplification.to_sympy). No axioms. *)
From Coq Require Import List String ZArith Bool Lia Permutation.
From NGO Require Import Syntax.Ast Sem.Sym Sem.Sat Link.CostAlg.
Import ListNotations.
Open Scope list_scope.

Definition tag (x: sym) (S: tupset) : tupset := fun tv => exists tv0, tv = tv0 ++ [x] /\ S tv0.

Lemma app_last_inj {A} (l l': list A) x y : l ++ [x] = l' ++ [y] -> l = l' /\ x = y.
Proof. intro E. apply app_inj_tail in E. exact E. Qed.

Theorem tags_disjoint_proof (x y: sym) (S1 S2: tupset) : x <> y -> forall tv, tag x S1 tv -> tag y S2 tv -> False.
Proof.
  intros N tv [a [Ea _]] [b [Eb _]]. rewrite Ea in Eb. apply app_last_inj in Eb. destruct Eb as [_ E]. exact (N E).
Qed.

Lemma weight_app (tv: list sym) x : tv <> [] -> weight (tv ++ [x]) = weight tv.
Proof. destruct tv as [|a r]; [congruence|]. intros _. reflexivity. Qed.

Lemma enumerates_tag x S l : enumerates S l -> enumerates (tag x S) (map (fun t => t ++ [x]) l).
Proof.
  intros [ND M]. split.
  - clear M. induction ND as [|a l N ND IH]; simpl; constructor; [|exact IH].
    intro Hin. apply in_map_iff in Hin. destruct Hin as [b [Eb Hb]]. apply app_last_inj in Eb. destruct Eb as [-> _]. exact (N Hb).
  - intro tv. split.
    + intro Hin. apply in_map_iff in Hin. destruct Hin as [tv0 [<- H0]]. exists tv0. split; [reflexivity | apply M; exact H0].
    + intros [tv0 [-> S0]]. apply in_map_iff. exists tv0. split; [reflexivity | apply M; exact S0].
Qed.

Lemma sum_of_tag x l : Forall (fun t => t <> []) l -> sum_of (map (fun t => t ++ [x]) l) = sum_of l.
Proof.
  unfold sum_of. induction 1 as [|a l Na F IH]; simpl; [reflexivity|]. rewrite IH, (weight_app a x Na). reflexivity.
Qed.

(* the merged aggregate sums to the sum of the parts (tuples of every part are non-empty: they carry a weight) *)
Theorem new_sum_two_proof (x y: sym) (S1 S2: tupset) l1 l2 :
  x <> y -> enumerates S1 l1 -> enumerates S2 l2 -> Forall (fun t => t <> []) l1 -> Forall (fun t => t <> []) l2 ->
  exists l, enumerates (fun tv => tag x S1 tv \/ tag y S2 tv) l /\ sum_of l = (sum_of l1 + sum_of l2)%Z.
Proof.
  intros N E1 E2 F1 F2.
  destruct (sum_disjoint_union_proof (tag x S1) (tag y S2) _ _ (enumerates_tag x S1 l1 E1) (enumerates_tag y S2 l2 E2)
              (tags_disjoint_proof x y S1 S2 N)) as [En Sum].
  eexists. split; [exact En|]. rewrite Sum, (sum_of_tag x l1 F1), (sum_of_tag y l2 F2). reflexivity.
Qed.

(* without the tags the merge is wrong: coinciding tuples of different aggregates are counted once *)
Theorem untagged_merge_refuted_proof :
  let S := fun tv : list sym => tv = [SNum 1; SNum 7] in
  enumerates (fun tv => S tv \/ S tv) [[SNum 1; SNum 7]] /\ sum_of [[SNum 1; SNum 7]] <> (1 + 1)%Z.
Proof.
  split; [|unfold sum_of; simpl; lia].
  split; [constructor; [intros []|constructor]|]. intro tv. simpl. split; [intros [<-|[]]; left; reflexivity | intros [->| ->]; left; reflexivity].
Qed.

(* ---- slack encoding over the integers:  l op r  <->  exists s, l - r - s = 0 /\ s op 0 ---- *)
Definition cmpZ (o: cmp) (a b: Z) : Prop :=
  match o with CEq => a = b | CNe => a <> b | CLt => (a < b)%Z | CLe => (a <= b)%Z | CGt => (a > b)%Z | CGe => (a >= b)%Z end.

Theorem slack_encoding_proof : forall o l r, cmpZ o l r <-> exists s, (l - r - s = 0)%Z /\ cmpZ o s 0%Z.
Proof.
  intros o l r. split.
  - intro H. exists (l - r)%Z. split; [lia|]. destruct o; simpl in *; lia.
  - intros [s [E H]]. destruct o; simpl in *; lia.
Qed.

(* solving a linear equation for a variable with a non-unit coefficient is NOT exact over the integers:
   X = Y*3 constrains X to multiples of 3 (math drops it: known finding) *)
Theorem mul_eq_not_always_solvable_proof : ~ (forall x: Z, exists y: Z, x = (y * 3)%Z).
Proof. intro H. destruct (H 4%Z) as [y E]. lia. Qed.
