(* Semantic soundness of ngo's projection rewrite (ngo/projection.py) on the simple fragment.

   Splitting a rule     h :- B
   into                 aux(t1..tk) :- New      and      h :- Rest, aux(t1..tk)
   where  New ++ Rest  has the same members as B, aux/k occurs nowhere else and t1..tk are variables
   containing every variable of New that also occurs in Rest or in h (interface condition),
   is a CONSERVATIVE EXTENSION (Sat.cons_ext): for every instance without aux facts, dropping the
   aux atoms is a bijection from the stable models of the split program onto those of the original.

   Proof route:  Sat.stable  <-(Ground.ground_stable_iff)->  Cleanup.stable of the ground program
                 <-(adapters of section 2)->  Fold.stableP / Fold.stableQ
                 and Meta/Fold.v (fold_fwd, fold_bwd, fold_restrict_ext).

   Sections
     1. ground programs up to order / multiplicity of body formulas          (gstable_members)
     2. adapters Meta/Cleanup.v <-> Meta/Fold.v                              (stableP_iff_gstable, stableQ_iff_gstable)
     3. grounding: coincidence, concatenation, bodies with the same members  (ground_body_agree, ground_body_app, ...)
     4. "aux/k does not occur" as a decidable predicate                      (prog_avoids, ground_prog_clean)
     5. the split of one rule: premises of Meta/Fold.v                       (folded_sound, complete, split_fwd/bwd/inj)
     6. the theorem                                                          (projection_split_sound[_members|_atom_head])
     7. the model of projection.py performs such a split                     (project_rule_sound[_known])
     8. witnesses: a closed instance, and the counterexample for "_"         (module Example)

   Remarks on the hypotheses
     * The head h is ANY head of the simple fragment (plain atom, #false / constant, safe bound-free choice),
       not only a plain atom.
     * [New ++ Rest] only needs the same MEMBERS as B (implied by Permutation): ngo computes
       rest = [x for x in body if x not in new], which drops every ==-copy of a chosen literal, so
       new ++ rest is in general not a permutation of a body with duplicate literals.
     * The second half of the interface condition of the task ("every ti occurs in New") is NOT needed:
       Sem/Sat.v gives meaning to unsafe rules (all substitutions), and folding is sound regardless.
       Negative literals and undefined terms need no extra hypothesis either: an instance of the original
       rule is defined iff both parts are, and the head stays where it is.
     * For the corollary about the model one extra hypothesis IS needed: the anonymous variable "_" must
       not occur in the rule. Sem/Sat.v reads TVar "_" as one ordinary variable, ngo (like gringo) reads
       each "_" as a different variable and never puts it among t1..tk; see
       Example.anonymous_variable_counterexample for a split performed by the model that is not a
       conservative extension under the reading of Sem/Sat.v.
   Axiom used: Classical_Prop.classic (through Meta/Fold.v, Meta/Cleanup.v, Link/Ground.v). *)
From Coq Require Import List String ZArith Bool Classical Permutation Arith Lia.
From NGO Require Import Syntax.Ast Sem.Sym Sem.Sat Link.Ground.
From NGO Require Meta.Cleanup Meta.Fold.
Import ListNotations.
Open Scope list_scope.

Local Notation grule := (Meta.Cleanup.rule gatom gF).
Local Notation ghead := (Meta.Cleanup.head gatom).
Local Notation GAtom := (Meta.Cleanup.HAtom gatom).
Local Notation GChoice := (Meta.Cleanup.HChoice gatom).
Local Notation GDisj := (Meta.Cleanup.HDisj gatom).
Local Notation GFalse := (Meta.Cleanup.HFalse gatom).
Local Notation mkrule := (Meta.Cleanup.Build_rule gatom gF).
Local Notation ghd := (Meta.Cleanup.hd gatom gF).
Local Notation gbd := (Meta.Cleanup.bd gatom gF).
Local Notation gbsat := (Meta.Cleanup.bsat gatom gF gsat).
Local Notation ghsat := (Meta.Cleanup.hsat gatom).
Local Notation grsat := (Meta.Cleanup.rsat gatom gF gsat).
Local Notation gpsat := (Meta.Cleanup.psat gatom gF gsat).
Local Notation gstable := (Meta.Cleanup.stable gatom gF gsat).

Local Notation frule := (Meta.Fold.rule gF ghead).
Local Notation ftrule := (Meta.Fold.trule gatom gF ghead).
Local Notation mkfrule := (Meta.Fold.Build_rule gF ghead).
Local Notation fhd := (Meta.Fold.hd gF ghead).
Local Notation fbd := (Meta.Fold.bd gF ghead).
Local Notation FPlain := (Meta.Fold.TPlain gatom gF ghead).
Local Notation FFolded := (Meta.Fold.TFolded gatom gF ghead).
Local Notation FDef := (Meta.Fold.TDef gatom gF ghead).

(* ================================================================================================ *)
(* 1. Ground programs up to the order / multiplicity of body formulas                               *)
(* ================================================================================================ *)
Lemma gpsat_members (G G': Meta.Cleanup.prog gatom gF) H T :
  (forall r, G r -> exists r', G' r' /\ ghd r = ghd r' /\ forall f, In f (gbd r) <-> In f (gbd r')) ->
  gpsat H T G' -> gpsat H T G.
Proof.
  intros M PS r Gr. destruct (M r Gr) as [r' [Gr' [Eh Eb]]]. destruct (PS r' Gr') as [A B].
  unfold Meta.Cleanup.rsat, Meta.Cleanup.bsat in *. rewrite Eh. split; intro Bd.
  - apply A. intros f Hf. apply Bd. apply Eb. exact Hf.
  - apply B. intros f Hf. apply Bd. apply Eb. exact Hf.
Qed.

Lemma gstable_psat_iff (G G': Meta.Cleanup.prog gatom gF) :
  (forall H T, gpsat H T G <-> gpsat H T G') -> forall T, gstable G T <-> gstable G' T.
Proof.
  intros E T. unfold Meta.Cleanup.stable. split; intros [M Min]; (split; [apply E; exact M|]);
    intros H S PS; apply Min; [exact S| apply E; exact PS | exact S | apply E; exact PS].
Qed.

Lemma gstable_members (G G': Meta.Cleanup.prog gatom gF) :
  (forall r, G r -> exists r', G' r' /\ ghd r = ghd r' /\ forall f, In f (gbd r) <-> In f (gbd r')) ->
  (forall r', G' r' -> exists r, G r /\ ghd r' = ghd r /\ forall f, In f (gbd r') <-> In f (gbd r)) ->
  forall T, gstable G T <-> gstable G' T.
Proof.
  intros A B. apply gstable_psat_iff. intros H T. split; apply gpsat_members; assumption.
Qed.

(* ================================================================================================ *)
(* 2. Adapters between Meta/Cleanup.v and Meta/Fold.v                                               *)
(* ================================================================================================ *)
Section Adapter.
Variable aux : gatom -> Prop.

(* satisfaction that ignores the aux atoms by construction: Fold's [fsat_base]/[hsat_base] hold for
   EVERY ground formula / head, and on formulas / heads without aux atoms it is plain [gsat]/[hsat]. *)
Definition mask (X: interp) : interp := fun a => ~ aux a /\ X a.
Definition fsatM (H T: interp) (f: gF) : Prop := gsat (mask H) (mask T) f.
Definition hsatM (H T: interp) (h: ghead) : Prop := ghsat (mask H) (mask T) h.

Lemma gsat_ext (H T H' T': interp) f : (forall a, H a <-> H' a) -> (forall a, T a <-> T' a) ->
  (gsat H T f <-> gsat H' T' f).
Proof. intros A B. destruct f as [a|a|a|p]; simpl; [apply A | rewrite B; tauto | apply B | tauto]. Qed.

Lemma ghsat_ext (H T H' T': interp) h : (forall a, H a <-> H' a) -> (forall a, T a <-> T' a) ->
  (ghsat H T h <-> ghsat H' T' h).
Proof.
  intros A B. destruct h as [a|a|l|]; simpl; [apply A | rewrite A, B; tauto | | tauto].
  split; intros [a [Hin Ha]]; exists a; (split; [exact Hin | apply A; exact Ha]).
Qed.

Lemma mask_agree X Y : Meta.Fold.agree_base gatom aux X Y -> forall a, mask X a <-> mask Y a.
Proof. intros A a. unfold mask. split; intros [Na Xa]; (split; [exact Na | apply (A a Na); exact Xa]). Qed.

Lemma fsatM_base H T H' T' f : Meta.Fold.agree_base gatom aux H H' -> Meta.Fold.agree_base gatom aux T T' ->
  (fsatM H T f <-> fsatM H' T' f).
Proof. intros A B. apply gsat_ext; apply mask_agree; assumption. Qed.

Lemma hsatM_base H T H' T' h : Meta.Fold.agree_base gatom aux H H' -> Meta.Fold.agree_base gatom aux T T' ->
  (hsatM H T h <-> hsatM H' T' h).
Proof. intros A B. apply ghsat_ext; apply mask_agree; assumption. Qed.

Lemma fsatM_persist H T f : Meta.Fold.subi gatom H T -> fsatM H T f -> fsatM T T f.
Proof. intros S. apply gsat_persist. intros a [Na Ha]. split; [exact Na | apply S; exact Ha]. Qed.

(* formulas / heads without aux atoms *)
Definition f_clean (f: gF) : Prop :=
  match f with GPos a | GNeg a | GNN a => ~ aux a | GConst _ => True end.
Definition h_clean (h: ghead) : Prop :=
  match h with
  | Meta.Cleanup.HAtom _ a | Meta.Cleanup.HChoice _ a => ~ aux a
  | Meta.Cleanup.HDisj _ l => forall a, In a l -> ~ aux a
  | Meta.Cleanup.HFalse _ => True
  end.
Definition b_clean (b: list gF) : Prop := forall f, In f b -> f_clean f.

Lemma fsatM_clean H T f : f_clean f -> (fsatM H T f <-> gsat H T f).
Proof. destruct f as [a|a|a|p]; unfold fsatM, mask; simpl; tauto. Qed.

Lemma hsatM_clean H T h : h_clean h -> (hsatM H T h <-> ghsat H T h).
Proof.
  destruct h as [a|a|l|]; unfold hsatM, mask; simpl; try tauto.
  intros C. split.
  - intros [a [Hin [_ Ha]]]. exists a. auto.
  - intros [a [Hin Ha]]. exists a. split; [exact Hin|]. split; [apply C; exact Hin | exact Ha].
Qed.

Lemma bsatM_clean H T b : b_clean b -> (Meta.Fold.bsat gatom gF fsatM H T b <-> gbsat H T b).
Proof.
  intros C. unfold Meta.Fold.bsat, Meta.Cleanup.bsat. rewrite Forall_forall.
  split; intros X f Hf; [apply fsatM_clean | apply (fsatM_clean H T f)]; auto.
Qed.

Lemma head_atom_clean h a : h_clean h -> Meta.Cleanup.head_atom gatom h a -> ~ aux a.
Proof. destruct h as [b|b|l|]; simpl; intros C E; [subst; exact C | subst; exact C | apply C; exact E | destruct E]. Qed.

(* the two record types of rules *)
Definition toC (r: frule) : grule := mkrule (fhd r) (fbd r).
Definition ofC (r: grule) : frule := mkfrule (ghd r) (gbd r).
Lemma toC_ofC r : toC (ofC r) = r. Proof. destruct r; reflexivity. Qed.
Lemma ofC_toC r : ofC (toC r) = r. Proof. destruct r; reflexivity. Qed.

(* a folded rule carries its aux atom at the END of the body, as ngo writes it *)
Definition toCt (tr: ftrule) : grule :=
  match tr with
  | Meta.Fold.TPlain _ _ _ r => toC r
  | Meta.Fold.TFolded _ _ _ h a rest => mkrule h (rest ++ [GPos a])
  | Meta.Fold.TDef _ _ _ a beta => mkrule (GAtom a) beta
  end.

Definition r_clean (r: grule) : Prop := h_clean (ghd r) /\ b_clean (gbd r).
Definition t_clean (tr: ftrule) : Prop :=
  match tr with
  | Meta.Fold.TPlain _ _ _ r => h_clean (fhd r) /\ b_clean (fbd r)
  | Meta.Fold.TFolded _ _ _ h _ rest => h_clean h /\ b_clean rest
  | Meta.Fold.TDef _ _ _ _ beta => b_clean beta
  end.

Lemma rsat_toC H T r : h_clean (fhd r) -> b_clean (fbd r) ->
  (Meta.Fold.rsat gatom gF fsatM ghead hsatM H T r <-> grsat H T (toC r)).
Proof.
  intros Ch Cb. unfold Meta.Fold.rsat, Meta.Cleanup.rsat. simpl.
  rewrite (bsatM_clean H T _ Cb), (bsatM_clean T T _ Cb), (hsatM_clean H T _ Ch), (hsatM_clean T T _ Ch). tauto.
Qed.

Lemma gbsat_snoc H T rest a : gbsat H T (rest ++ [GPos a]) <-> H a /\ gbsat H T rest.
Proof.
  unfold Meta.Cleanup.bsat. split.
  - intros X. split; [apply (X (GPos a)); apply in_or_app; right; left; reflexivity|].
    intros f Hf. apply X. apply in_or_app. left. exact Hf.
  - intros [Ha X] f Hf. apply in_app_or in Hf. destruct Hf as [Hf|[<-|[]]]; [apply X; exact Hf | exact Ha].
Qed.

Lemma tsat_toCt H T tr : t_clean tr ->
  (Meta.Fold.tsat gatom gF fsatM ghead hsatM H T tr <-> grsat H T (toCt tr)).
Proof.
  destruct tr as [r|h a rest|a beta]; simpl.
  - intros [Ch Cb]. apply rsat_toC; assumption.
  - intros [Ch Cb]. unfold Meta.Cleanup.rsat. simpl. rewrite !gbsat_snoc.
    rewrite (bsatM_clean H T _ Cb), (bsatM_clean T T _ Cb), (hsatM_clean H T _ Ch), (hsatM_clean T T _ Ch). tauto.
  - intros Cb. unfold Meta.Cleanup.rsat. simpl. rewrite (bsatM_clean H T _ Cb), (bsatM_clean T T _ Cb). tauto.
Qed.

(* Adapter 1: a clean ground program seen as a Fold source program *)
Theorem stableP_iff_gstable (P: frule -> Prop) (G: Meta.Cleanup.prog gatom gF) :
  (forall r, P r -> h_clean (fhd r) /\ b_clean (fbd r)) ->
  (forall c, G c <-> exists r, P r /\ c = toC r) ->
  forall T, Meta.Fold.stableP gatom gF fsatM ghead hsatM P T <-> gstable G T.
Proof.
  intros Cl E T.
  assert (PS: forall H T, Meta.Fold.psat gatom gF fsatM ghead hsatM P H T <-> gpsat H T G).
  { intros H T0. unfold Meta.Fold.psat, Meta.Cleanup.psat. split.
    - intros X c Gc. apply E in Gc. destruct Gc as [r [Pr ->]]. destruct (Cl r Pr) as [Ch Cb].
      apply rsat_toC; auto.
    - intros X r Pr. destruct (Cl r Pr) as [Ch Cb]. apply rsat_toC; auto. apply X. apply E. exists r. auto. }
  unfold Meta.Fold.stableP, Meta.Cleanup.stable, Meta.Fold.subi, Meta.Cleanup.subi.
  split; intros [M Min]; (split; [apply PS; exact M|]); intros H S X; apply Min; try exact S; apply PS; exact X.
Qed.

(* Adapter 2: the Fold target program and the ground program whose rules are its [toCt] images *)
Theorem stableQ_iff_gstable (Q: ftrule -> Prop) (G: Meta.Cleanup.prog gatom gF) :
  (forall tr, Q tr -> t_clean tr) ->
  (forall c, G c <-> exists tr, Q tr /\ c = toCt tr) ->
  forall T, Meta.Fold.stableQ gatom gF fsatM ghead hsatM Q T <-> gstable G T.
Proof.
  intros Cl E T.
  assert (QS: forall H T, Meta.Fold.qsat gatom gF fsatM ghead hsatM Q H T <-> gpsat H T G).
  { intros H T0. unfold Meta.Fold.qsat, Meta.Cleanup.psat. split.
    - intros X c Gc. apply E in Gc. destruct Gc as [tr [Qr ->]]. apply tsat_toCt; auto.
    - intros X tr Qr. apply tsat_toCt; auto. apply X. apply E. exists tr. auto. }
  unfold Meta.Fold.stableQ, Meta.Cleanup.stable, Meta.Fold.subi, Meta.Cleanup.subi.
  split; intros [M Min]; (split; [apply QS; exact M|]); intros H S X; apply Min; try exact S; apply QS; exact X.
Qed.

(* a stable model of a clean ground program has no aux atoms (supportedness) *)
Lemma gstable_noaux (G: Meta.Cleanup.prog gatom gF) T :
  (forall r, G r -> h_clean (ghd r)) -> gstable G T -> Meta.Fold.noaux gatom aux T.
Proof.
  intros Cl St a Ta. destruct (Meta.Cleanup.supported gatom gF gsat gsat_persist G T a St Ta) as [r [Gr [HA _]]].
  exact (head_atom_clean _ _ (Cl r Gr) HA).
Qed.
End Adapter.

(* ================================================================================================ *)
(* 3. Grounding: coincidence, concatenation, bodies with the same members                           *)
(* ================================================================================================ *)
Section GroundFacts.
Variable sym_lt : sym -> sym -> Prop.
Notation ground_lit := (ground_lit sym_lt).
Notation ground_body := (ground_body sym_lt).
Notation ground_rule := (ground_rule sym_lt).
Notation ground_prog := (ground_prog sym_lt).

Lemma chain_holds_agree s s' gs : (forall x, In x (flat_map vars_guard gs) -> s x = s' x) ->
  forall v, chain_holds sym_lt s v gs = chain_holds sym_lt s' v gs.
Proof.
  induction gs as [|[o t] gs IH]; intros A v; simpl; [reflexivity|].
  rewrite (eval_agree s s' t); [|intros x Hx; apply A; simpl; apply in_or_app; left; exact Hx].
  destruct (eval s' t) as [w|]; [|reflexivity]. rewrite IH; [reflexivity|].
  intros x Hx. apply A. simpl. apply in_or_app. right. exact Hx.
Qed.

Lemma chain_definedb_agree s s' gs : (forall x, In x (flat_map vars_guard gs) -> s x = s' x) ->
  chain_definedb s gs = chain_definedb s' gs.
Proof.
  induction gs as [|[o t] gs IH]; intros A; simpl; [reflexivity|].
  rewrite (eval_agree s s' t); [|intros x Hx; apply A; simpl; apply in_or_app; left; exact Hx].
  destruct (eval s' t) as [w|]; [|reflexivity]. apply IH.
  intros x Hx. apply A. simpl. apply in_or_app. right. exact Hx.
Qed.

Lemma ground_lit_agree s s' l : (forall x, In x (vars_lit l) -> s x = s' x) -> ground_lit s l = ground_lit s' l.
Proof.
  destruct l as [sg a]. destruct a as [t|t gs|b|lg f es rg|lg es rg|tx]; intros A; try reflexivity.
  - simpl. unfold gatom_of. rewrite (eval_agree s s' t); [reflexivity|exact A].
  - simpl in A. simpl. unfold cmp_defb, cmp_true.
    rewrite (eval_agree s s' t); [|intros x Hx; apply A; apply in_or_app; left; exact Hx].
    rewrite (chain_definedb_agree s s' gs); [|intros x Hx; apply A; apply in_or_app; right; exact Hx].
    destruct (eval s' t) as [v|]; [|reflexivity].
    rewrite (chain_holds_agree s s' gs); [reflexivity|]. intros x Hx; apply A; apply in_or_app; right; exact Hx.
Qed.

Lemma ground_body_agree s s' b : (forall x, In x (flat_map vars_bodyelem b) -> s x = s' x) ->
  ground_body s b = ground_body s' b.
Proof.
  induction b as [|e b IH]; intros A; simpl; [reflexivity|]. destruct e as [l|l c]; [|reflexivity].
  rewrite (ground_lit_agree s s' l); [|intros x Hx; apply A; simpl; apply in_or_app; left; exact Hx].
  rewrite IH; [reflexivity|]. intros x Hx; apply A; simpl; apply in_or_app; right; exact Hx.
Qed.

Lemma flat_map_ext_in {A B} (f g: A -> list B) l : (forall a, In a l -> f a = g a) -> flat_map f l = flat_map g l.
Proof.
  induction l as [|a l IH]; intros E; simpl; [reflexivity|].
  rewrite (E a (or_introl eq_refl)), IH; [reflexivity|]. intros b Hb. apply E. right. exact Hb.
Qed.

Lemma ground_heads_agree s s' h : (forall x, In x (vars_head h) -> s x = s' x) -> ground_heads s h = ground_heads s' h.
Proof.
  destruct h as [[sg a]|es|lg es rg|lg f es rg|tx]; intros A; try reflexivity.
  - destruct a as [t|t gs|b|lg f es rg|lg es rg|tx]; try (destruct sg; reflexivity).
    destruct sg; try reflexivity. simpl. unfold gatom_of. rewrite (eval_agree s s' t); [reflexivity|exact A].
  - destruct lg; [reflexivity|]. destruct rg; [reflexivity|]. simpl. apply flat_map_ext_in.
    intros [[sg a] cs] Hin. destruct sg; try reflexivity. destruct a as [t| | | | |]; try reflexivity.
    destruct t as [ | | | | |n args e| ]; try reflexivity. destruct cs; [|reflexivity]. simpl.
    rewrite (eval_list_agree_vars s s' args); [reflexivity|].
    intros x Hx. apply A. simpl. apply in_or_app. left. apply in_flat_map.
    exists (Lit NoSign (ASym (TFun n args e)), []). split; [exact Hin|]. unfold vars_condlit. simpl.
    rewrite app_nil_r. exact Hx.
Qed.

Lemma ground_body_app s b1 b2 :
  ground_body s (b1 ++ b2) =
  match ground_body s b1, ground_body s b2 with Some f1, Some f2 => Some (f1 ++ f2) | _, _ => None end.
Proof.
  induction b1 as [|e b1 IH]; simpl.
  - destruct (ground_body s b2); reflexivity.
  - destruct e as [l|l c]; [|reflexivity]. destruct (ground_lit s l) as [f|]; [|reflexivity].
    rewrite IH. destruct (ground_body s b1); [|reflexivity]. destruct (ground_body s b2); reflexivity.
Qed.

Lemma ground_body_app_inv s b1 b2 fs : ground_body s (b1 ++ b2) = Some fs ->
  exists f1 f2, ground_body s b1 = Some f1 /\ ground_body s b2 = Some f2 /\ fs = f1 ++ f2.
Proof.
  rewrite ground_body_app. destruct (ground_body s b1) as [f1|]; [|discriminate].
  destruct (ground_body s b2) as [f2|]; [|discriminate]. intros E. injection E as <-. eauto.
Qed.

(* the ground body as a set: the defined ground literals of the members *)
Lemma ground_body_In s b fs : ground_body s b = Some fs ->
  forall f, In f fs <-> exists l, In (BLit l) b /\ ground_lit s l = Some f.
Proof.
  revert fs. induction b as [|e b IH]; intros fs E f; simpl in E.
  - injection E as <-. split; [intros []|intros [l [[] _]]].
  - destruct e as [l|l c]; [|discriminate]. destruct (ground_lit s l) as [g|] eqn:El; [|discriminate].
    destruct (ground_body s b) as [gs|]; [|discriminate]. injection E as <-. specialize (IH gs eq_refl f). split.
    + intros [<-|Hf]; [exists l; split; [left; reflexivity|exact El]|].
      apply IH in Hf. destruct Hf as [l' [Hin E']]. exists l'. split; [right; exact Hin|exact E'].
    + intros [l' [[Eq|Hin] E']]; [injection Eq as ->; left; congruence|]. right. apply IH. eauto.
Qed.

Lemma ground_body_defined s b : (exists fs, ground_body s b = Some fs) <->
  forall e, In e b -> exists l f, e = BLit l /\ ground_lit s l = Some f.
Proof.
  induction b as [|e b IH]; simpl.
  - split; [intros _ e []|intros _; eauto].
  - split.
    + intros [fs E] e' Hin. destruct e as [l|l c]; [|discriminate].
      destruct (ground_lit s l) as [g|] eqn:El; [|discriminate].
      destruct (ground_body s b) as [gs|]; [|discriminate].
      destruct Hin as [<-|Hin]; [eauto|]. apply (proj1 IH); eauto.
    + intros A. destruct (A e (or_introl eq_refl)) as [l [f [-> El]]]. rewrite El.
      destruct (proj2 IH) as [gs Eg]; [intros e' Hin; apply A; right; exact Hin|]. rewrite Eg. eauto.
Qed.

Lemma ground_body_members s b b' fs : (forall e, In e b <-> In e b') -> ground_body s b = Some fs ->
  exists fs', ground_body s b' = Some fs' /\ forall f, In f fs <-> In f fs'.
Proof.
  intros M E.
  destruct (proj2 (ground_body_defined s b')) as [fs' E'].
  { intros e Hin. apply M in Hin. apply (proj1 (ground_body_defined s b)); eauto. }
  exists fs'. split; [exact E'|]. intro f.
  rewrite (ground_body_In s b fs E f), (ground_body_In s b' fs' E' f).
  split; intros [l [Hin El]]; exists l; (split; [apply M; exact Hin|exact El]).
Qed.

(* ground programs only depend on the members of the program *)
Lemma ground_prog_members P P' I r : (forall st, In st P <-> In st P') -> (ground_prog P I r <-> ground_prog P' I r).
Proof.
  intros M. unfold Ground.ground_prog. split; (intros [[st [Hin GR]]|F]; [left; exists st; split; [apply M; exact Hin|exact GR]|right; exact F]).
Qed.
End GroundFacts.

(* ================================================================================================ *)
(* 4. "The predicate p = aux/k does not occur in ..." (decidable) and what it gives on ground level *)
(* ================================================================================================ *)
Section Avoids.
Variable sym_lt : sym -> sym -> Prop.
Variable p : pred.                      (* the aux predicate: name and arity *)

Definition is_p (a: gatom) : Prop := fst a = fst p /\ List.length (snd a) = snd p.

(* a symbolic-atom term that can never evaluate to an atom of predicate p. A variable in atom position
   (never produced by clingo's parser) could evaluate to anything and is rejected. *)
Fixpoint term_avoids (t: term) : bool :=
  match t with
  | TFun n args _ => negb (pred_eqb (n, List.length args) p)
  | TSym (SFun n vs _) => negb (pred_eqb (n, List.length vs) p)
  | TSym _ => true
  | TUn UMinus t' => term_avoids t'
  | TUn _ _ => true
  | TBin _ _ _ => true
  | TInterval _ _ => true
  | TPool _ => true
  | TVar _ => false
  end.
Definition lit_avoids (l: lit) : bool := match l with Lit _ (ASym t) => term_avoids t | _ => true end.
Definition bodyelem_avoids (e: bodyelem) : bool := match e with BLit l => lit_avoids l | BCond _ _ => true end.
Definition head_avoids (h: head) : bool :=
  match h with
  | HLit l => lit_avoids l
  | HAgg _ es _ => forallb (fun c: condlit => lit_avoids (fst c)) es
  | _ => true
  end.
Definition stmt_avoids (st: stmt) : bool :=
  match st with SRule _ h b => head_avoids h && forallb bodyelem_avoids b | _ => true end.
Definition prog_avoids (P: program) : bool := forallb stmt_avoids P.

Lemma pred_eqb_false_iff (q: pred) : pred_eqb q p = false <-> q <> p.
Proof.
  destruct q as [n k], p as [n' k']. unfold pred_eqb. simpl. rewrite andb_false_iff, String.eqb_neq, Nat.eqb_neq.
  split.
  - intros [A|A] E; injection E as -> ->; apply A; reflexivity.
  - intros A. destruct (string_dec n n') as [->|Nn]; [|left; exact Nn]. right. intros ->. apply A. reflexivity.
Qed.

Lemma eval_list_length s ts : forall vs, eval_list s ts = Some vs -> List.length vs = List.length ts.
Proof.
  induction ts as [|t ts IH]; simpl; intros vs E; [injection E as <-; reflexivity|].
  destruct (eval s t); [|discriminate]. destruct (eval_list s ts) as [ws|]; [|discriminate].
  injection E as <-. simpl. f_equal. apply IH. reflexivity.
Qed.

Lemma term_avoids_eval t : term_avoids t = true ->
  forall s n vs b, eval s t = Some (SFun n vs b) -> (n, List.length vs) <> p.
Proof.
  induction t as [x|c|o u IH|o l r IHl IHr|l r IHl IHr|n xs e IH|xs IH] using term_ind'; intros A s m vs b E.
  - discriminate A.
  - simpl in E. injection E as ->. simpl in A. apply negb_true_iff in A. apply pred_eqb_false_iff. exact A.
  - simpl in E. destruct (eval s u) as [[ |z|str|n' vs' b'| ]|] eqn:Eu; try discriminate.
    + destruct o; discriminate.
    + destruct o; try discriminate. injection E as <- <- _. simpl in A. exact (IH A s n' vs' b' Eu).
  - simpl in E. destruct (eval s l) as [[ |a| | | ]|]; try discriminate.
    destruct (eval s r) as [[ |c| | | ]|]; try discriminate. destruct (arith o a c); discriminate.
  - discriminate.
  - rewrite eval_fun in E. destruct (eval_list s xs) as [ws|] eqn:El; [|discriminate]. injection E as <- <- _.
    simpl in A. apply negb_true_iff in A. apply pred_eqb_false_iff in A.
    rewrite (eval_list_length s xs ws El). exact A.
  - discriminate.
Qed.

Lemma gatom_of_avoids s t a : term_avoids t = true -> gatom_of s t = Some a -> ~ is_p a.
Proof.
  intros A E. unfold gatom_of in E. destruct (eval s t) as [[ |z|str|n vs [|]| ]|] eqn:Ev; try discriminate.
  injection E as <-. intros [E1 E2]. simpl in E1, E2.
  apply (term_avoids_eval t A s n vs true Ev). destruct p; simpl in *; congruence.
Qed.

Lemma ground_lit_clean s l f : lit_avoids l = true -> ground_lit sym_lt s l = Some f -> f_clean is_p f.
Proof.
  destruct l as [sg a]. destruct a as [t|t gs|b| | |]; simpl; intros A E; try discriminate.
  - destruct (gatom_of s t) as [g|] eqn:Eg; [|discriminate]. injection E as <-.
    pose proof (gatom_of_avoids s t g A Eg). destruct sg; exact H.
  - destruct (cmp_defb s t gs); [|discriminate]. injection E as <-. exact I.
  - injection E as <-. exact I.
Qed.

Lemma ground_body_clean s b fs : forallb bodyelem_avoids b = true -> ground_body sym_lt s b = Some fs -> b_clean is_p fs.
Proof.
  intros A E f Hf. apply (ground_body_In sym_lt s b fs E) in Hf. destruct Hf as [l [Hin El]].
  rewrite forallb_forall in A. exact (ground_lit_clean s l f (A _ Hin) El).
Qed.

Lemma ground_heads_clean s h gh : head_avoids h = true -> In gh (ground_heads s h) -> h_clean is_p gh.
Proof.
  destruct h as [[sg a]|es|lg es rg|lg f es rg|tx]; intros A Hin; try (destruct Hin; fail).
  - destruct a as [t|t gs|b| | |]; try (destruct sg; destruct Hin; fail).
    + destruct sg; try (destruct Hin; fail). simpl in Hin. destruct Hin as [<-|[]].
      destruct (gatom_of s t) as [g|] eqn:Eg; [|exact I]. exact (gatom_of_avoids s t g A Eg).
    + assert (E: ground_heads s (HLit (Lit sg (ABool b))) = if bool_lit_true sg b then [] else [GFalse])
        by (destruct sg; reflexivity).
      rewrite E in Hin. destruct (bool_lit_true sg b); [destruct Hin|]. destruct Hin as [<-|[]]. exact I.
  - destruct lg; [destruct Hin|]. destruct rg; [destruct Hin|]. simpl in Hin, A. rewrite forallb_forall in A.
    apply in_flat_map in Hin. destruct Hin as [c [Hc Hgh]]. specialize (A c Hc).
    destruct c as [[sg a] cs]. destruct sg; try (destruct Hgh; fail). destruct a as [t| | | | |]; try (destruct Hgh; fail).
    destruct t as [ | | | | |n args e| ]; try (destruct Hgh; fail). destruct cs; [|destruct Hgh]. simpl in Hgh.
    destruct (eval_list s args) as [vs|] eqn:Ev; [|destruct Hgh]. destruct Hgh as [<-|[]]. simpl.
    apply (gatom_of_avoids s (TFun n args e) (n, vs) A). rewrite gatom_of_fun, Ev. reflexivity.
Qed.

Lemma ground_rule_clean st r : stmt_avoids st = true -> ground_rule sym_lt st r -> r_clean is_p r.
Proof.
  destruct st as [line h b| | | |]; [|intros _ []..]. simpl. intros A [s [fs [Eb [Hh Ebd]]]].
  apply andb_true_iff in A. destruct A as [Ah Ab]. split.
  - exact (ground_heads_clean s h _ Ah Hh).
  - rewrite Ebd. exact (ground_body_clean s b fs Ab Eb).
Qed.

Lemma ground_prog_clean P I r : prog_avoids P = true -> facts_over (fun q => q <> p) I ->
  Ground.ground_prog sym_lt P I r -> r_clean is_p r.
Proof.
  intros A FO [[st [Hin GR]]|[a [Hin ->]]].
  - unfold prog_avoids in A. rewrite forallb_forall in A. exact (ground_rule_clean st r (A st Hin) GR).
  - split; [|intros f []]. simpl. intros [E1 E2]. apply (FO a Hin). destruct p; simpl in *; congruence.
Qed.
End Avoids.

(* ================================================================================================ *)
(* 5. The split of one rule: Fold source / target programs and the premises of Meta/Fold.v          *)
(* ================================================================================================ *)
Section Split.
Variable sym_lt : sym -> sym -> Prop.
Notation ground_lit := (ground_lit sym_lt).
Notation ground_body := (ground_body sym_lt).
Notation ground_rule := (ground_rule sym_lt).
Notation ground_prog := (ground_prog sym_lt).

Variables (auxn: string) (ts: list string) (ext: bool).
Variables (C: program) (line line': nat) (h: head) (B New Rest: list bodyelem).
Variable I : list gatom.

Definition aux_pred : pred := (auxn, List.length ts).
Definition auxlit : lit := Lit NoSign (ASym (TFun auxn (map TVar ts) ext)).
Definition orig_rule : stmt := SRule line h B.
Definition perm_rule : stmt := SRule line h (New ++ Rest).
Definition upd_rule : stmt := SRule line h (Rest ++ [BLit auxlit]).     (* ngo appends the aux literal *)
Definition aux_rule : stmt := SRule line' (HLit auxlit) New.
Definition aux_atom (s: subst) : gatom := (auxn, map s ts).
Notation isaux := (is_p aux_pred).

(* New ++ Rest covers exactly the body literals (as sets: ngo drops every ==-copy of a chosen literal) *)
Hypothesis members : forall e, In e B <-> In e (New ++ Rest).
(* INTERFACE: a variable of New that also occurs in Rest or in the head is an argument of the aux atom *)
Hypothesis interface : forall x, In x (flat_map vars_bodyelem New) ->
  In x (flat_map vars_bodyelem Rest) \/ In x (vars_head h) -> In x ts.
(* aux/k is fresh *)
Hypothesis C_avoids : prog_avoids aux_pred C = true.
Hypothesis rule_avoids : stmt_avoids aux_pred orig_rule = true.
Hypothesis I_avoids : facts_over (fun q => q <> aux_pred) I.

Definition PF (r: frule) : Prop := ground_prog (perm_rule :: C) I (toC r).
Definition QF (tr: ftrule) : Prop :=
  match tr with
  | Meta.Fold.TPlain _ _ _ r => ground_prog C I (toC r)
  | Meta.Fold.TFolded _ _ _ gh a rest =>
      exists s, ground_body s Rest = Some rest /\ In gh (ground_heads s h) /\ a = aux_atom s
  | Meta.Fold.TDef _ _ _ a beta => exists s, ground_body s New = Some beta /\ a = aux_atom s
  end.

Lemma eval_list_vars s xs : eval_list s (map TVar xs) = Some (map s xs).
Proof. induction xs as [|x xs IH]; simpl; [reflexivity|]. rewrite IH. reflexivity. Qed.

Lemma gatom_of_auxlit s : gatom_of s (TFun auxn (map TVar ts) ext) = Some (aux_atom s).
Proof. rewrite gatom_of_fun, eval_list_vars. reflexivity. Qed.
Lemma ground_auxlit s : ground_lit s auxlit = Some (GPos (aux_atom s)).
Proof. unfold auxlit. simpl. rewrite gatom_of_auxlit. reflexivity. Qed.
Lemma ground_heads_auxlit s : ground_heads s (HLit auxlit) = [GAtom (aux_atom s)].
Proof. unfold auxlit. simpl. rewrite gatom_of_auxlit. reflexivity. Qed.
Lemma aux_atom_isaux s : isaux (aux_atom s).
Proof. split; simpl; [reflexivity|apply map_length]. Qed.

Lemma aux_atom_eq s s' : aux_atom s = aux_atom s' -> forall x, In x ts -> s x = s' x.
Proof. unfold aux_atom. intros E. injection E as E. apply map_ext_in_iff. exact E. Qed.

(* ---- avoidance transfers along the split ---- *)
Lemma head_avoids_h : head_avoids aux_pred h = true.
Proof. unfold orig_rule in rule_avoids. simpl in rule_avoids. apply andb_true_iff in rule_avoids. tauto. Qed.
Lemma B_avoids : forall e, In e B -> bodyelem_avoids aux_pred e = true.
Proof.
  unfold orig_rule in rule_avoids. simpl in rule_avoids. apply andb_true_iff in rule_avoids.
  destruct rule_avoids as [_ A]. rewrite forallb_forall in A. exact A.
Qed.
Lemma New_avoids : forallb (bodyelem_avoids aux_pred) New = true.
Proof. apply forallb_forall. intros e He. apply B_avoids. apply members. apply in_or_app. left. exact He. Qed.
Lemma Rest_avoids : forallb (bodyelem_avoids aux_pred) Rest = true.
Proof. apply forallb_forall. intros e He. apply B_avoids. apply members. apply in_or_app. right. exact He. Qed.
Lemma perm_avoids : prog_avoids aux_pred (perm_rule :: C) = true.
Proof.
  unfold prog_avoids. simpl. fold (prog_avoids aux_pred C). rewrite C_avoids, head_avoids_h, forallb_app, New_avoids, Rest_avoids.
  reflexivity.
Qed.
Lemma orig_avoids : prog_avoids aux_pred (orig_rule :: C) = true.
Proof. unfold prog_avoids. simpl. fold (prog_avoids aux_pred C). rewrite C_avoids. unfold orig_rule in rule_avoids. simpl in rule_avoids. rewrite rule_avoids. reflexivity. Qed.

(* ---- the premises of Meta/Fold.v ---- *)
Lemma Q_def_aux a beta : QF (FDef a beta) -> isaux a.
Proof. intros [s [_ ->]]. apply aux_atom_isaux. Qed.
Lemma Q_folded_aux gh a rest : QF (FFolded gh a rest) -> isaux a.
Proof. intros [s [_ [_ ->]]]. apply aux_atom_isaux. Qed.

Lemma plain_sound r : QF (FPlain r) -> PF r.
Proof.
  unfold PF, QF, Ground.ground_prog. intros [[st [Hin GR]]|F]; [left; exists st; split; [right; exact Hin|exact GR]|right; exact F].
Qed.

(* an instance of the updated rule under s1 and an instance of the aux rule under s2 with the same aux
   atom recombine into the instance of  h :- New ++ Rest  under (s2 on the variables of New, s1 elsewhere) *)
Lemma folded_sound gh a rest beta : QF (FFolded gh a rest) -> Meta.Fold.defs gatom gF ghead QF a beta ->
  PF (mkfrule gh (beta ++ rest)).
Proof.
  intros [s1 [Er [Hh Ea1]]] [s2 [En Ea2]].
  assert (Eq: forall x, In x ts -> s1 x = s2 x) by (apply aux_atom_eq; congruence).
  set (s := fun x => if in_dec string_dec x (flat_map vars_bodyelem New) then s2 x else s1 x).
  assert (A2: forall x, In x (flat_map vars_bodyelem New) -> s x = s2 x).
  { intros x Hx. unfold s. destruct (in_dec string_dec x (flat_map vars_bodyelem New)); [reflexivity|contradiction]. }
  assert (A1: forall x, In x (flat_map vars_bodyelem Rest) \/ In x (vars_head h) -> s x = s1 x).
  { intros x Hx. unfold s. destruct (in_dec string_dec x (flat_map vars_bodyelem New)) as [Hn|Hn]; [|reflexivity].
    symmetry. apply Eq. exact (interface x Hn Hx). }
  unfold PF. left. exists perm_rule. split; [left; reflexivity|]. exists s, (beta ++ rest). simpl. split; [|split].
  - rewrite ground_body_app, (ground_body_agree sym_lt s s2 New A2), En.
    rewrite (ground_body_agree sym_lt s s1 Rest); [rewrite Er; reflexivity|]. intros x Hx. apply A1. left. exact Hx.
  - rewrite (ground_heads_agree s s1 h); [exact Hh|]. intros x Hx. apply A1. right. exact Hx.
  - reflexivity.
Qed.

(* every instance of  h :- New ++ Rest  under s splits into the aux instance and the updated instance under s *)
Lemma complete r : PF r ->
  QF (FPlain r) \/ exists a beta rest, fbd r = beta ++ rest /\ Meta.Fold.defs gatom gF ghead QF a beta /\ QF (FFolded (fhd r) a rest).
Proof.
  unfold PF. intros [[st [[<-|Hin] GR]]|F].
  - right. destruct GR as [s [fs [Eb [Hh Ebd]]]]. simpl in Hh, Ebd.
    destruct (ground_body_app_inv sym_lt s New Rest fs Eb) as [beta [rest [En [Er ->]]]].
    exists (aux_atom s), beta, rest. split; [exact Ebd|]. split.
    + exists s. split; [exact En|reflexivity].
    + exists s. split; [exact Er|]. split; [exact Hh|reflexivity].
  - left. left. exists st. split; assumption.
  - left. right. exact F.
Qed.

(* ---- cleanliness ---- *)
Lemma PF_clean r : PF r -> h_clean isaux (fhd r) /\ b_clean isaux (fbd r).
Proof. intros Pr. exact (ground_prog_clean sym_lt aux_pred _ I (toC r) perm_avoids I_avoids Pr). Qed.

Lemma QF_clean tr : QF tr -> t_clean isaux tr.
Proof.
  destruct tr as [r|gh a rest|a beta]; simpl.
  - intros Qr. exact (ground_prog_clean sym_lt aux_pred C I (toC r) C_avoids I_avoids Qr).
  - intros [s [Er [Hh _]]]. split.
    + exact (ground_heads_clean aux_pred s h gh head_avoids_h Hh).
    + exact (ground_body_clean sym_lt aux_pred s Rest rest Rest_avoids Er).
  - intros [s [En _]]. exact (ground_body_clean sym_lt aux_pred s New beta New_avoids En).
Qed.

(* ---- the three ground programs ---- *)
Lemma PF_ground c : ground_prog (perm_rule :: C) I c <-> exists r, PF r /\ c = toC r.
Proof.
  split.
  - intros Gc. exists (ofC c). unfold PF. rewrite toC_ofC. auto.
  - intros [r [Pr ->]]. exact Pr.
Qed.

Lemma ground_body_single s l : ground_body s [BLit l] = match ground_lit s l with Some f => Some [f] | None => None end.
Proof. simpl. destruct (ground_lit s l); reflexivity. Qed.

Lemma ground_upd_inv s fs : ground_body s (Rest ++ [BLit auxlit]) = Some fs ->
  exists rest, ground_body s Rest = Some rest /\ fs = rest ++ [GPos (aux_atom s)].
Proof.
  intros E. destruct (ground_body_app_inv sym_lt s _ _ fs E) as [rest [f2 [Er [Ea ->]]]].
  rewrite ground_body_single, ground_auxlit in Ea. injection Ea as <-. eauto.
Qed.
Lemma ground_upd s rest : ground_body s Rest = Some rest ->
  ground_body s (Rest ++ [BLit auxlit]) = Some (rest ++ [GPos (aux_atom s)]).
Proof. intros E. rewrite ground_body_app, E, ground_body_single, ground_auxlit. reflexivity. Qed.

Lemma QF_ground c : ground_prog (aux_rule :: upd_rule :: C) I c <-> exists tr, QF tr /\ c = toCt tr.
Proof.
  split.
  - intros [[st [[<-|[<-|Hin]] GR]]|F].
    + destruct GR as [s [fs [Eb [Hh Ebd]]]]. rewrite ground_heads_auxlit in Hh. destruct Hh as [Hh|[]].
      exists (FDef (aux_atom s) fs). split; [exists s; auto|]. destruct c as [ch cb]. simpl in *. congruence.
    + destruct GR as [s [fs [Eb [Hh Ebd]]]]. destruct (ground_upd_inv s fs Eb) as [rest [Er ->]].
      exists (FFolded (ghd c) (aux_atom s) rest). split; [exists s; auto|]. destruct c as [ch cb]. simpl in *. congruence.
    + exists (FPlain (ofC c)). split; [|simpl; rewrite toC_ofC; reflexivity]. simpl. rewrite toC_ofC. left. eauto.
    + exists (FPlain (ofC c)). split; [|simpl; rewrite toC_ofC; reflexivity]. simpl. rewrite toC_ofC. right. exact F.
  - intros [tr [Qr ->]]. destruct tr as [r|gh a rest|a beta]; simpl in *.
    + destruct Qr as [[st [Hin GR]]|F]; [left; exists st; split; [right; right; exact Hin|exact GR]|right; exact F].
    + destruct Qr as [s [Er [Hh ->]]]. left. exists upd_rule. split; [right; left; reflexivity|].
      exists s, (rest ++ [GPos (aux_atom s)]). simpl. split; [apply ground_upd; exact Er|]. split; [exact Hh|reflexivity].
    + destruct Qr as [s [En ->]]. left. exists aux_rule. split; [left; reflexivity|].
      exists s, beta. split; [exact En|]. split; [rewrite ground_heads_auxlit; left; reflexivity|reflexivity].
Qed.

(* the original rule and  h :- New ++ Rest  have the same stable models (bodies are sets) *)
Lemma orig_perm_stable T : gstable (ground_prog (orig_rule :: C) I) T <-> gstable (ground_prog (perm_rule :: C) I) T.
Proof.
  assert (X: forall b b', (forall e, In e b <-> In e b') -> forall r, ground_prog (SRule line h b :: C) I r ->
             exists r', ground_prog (SRule line h b' :: C) I r' /\ ghd r = ghd r' /\ forall f, In f (gbd r) <-> In f (gbd r')).
  { intros b b' M r [[st [[<-|Hin] GR]]|F].
    - destruct GR as [s [fs [Eb [Hh Ebd]]]]. destruct (ground_body_members sym_lt s b b' fs M Eb) as [fs' [Eb' Mf]].
      exists (mkrule (ghd r) fs'). split; [|split; [reflexivity|simpl; rewrite Ebd; exact Mf]].
      left. exists (SRule line h b'). split; [left; reflexivity|]. exists s, fs'. simpl. auto.
    - exists r. split; [left; exists st; split; [right; exact Hin|exact GR]|]. split; [reflexivity|tauto].
    - exists r. split; [right; exact F|]. split; [reflexivity|tauto]. }
  apply gstable_members; apply X; [exact members|]. intro e. symmetry. apply members.
Qed.

Notation fstableP := (Meta.Fold.stableP gatom gF (fsatM isaux) ghead (hsatM isaux) PF).
Notation fstableQ := (Meta.Fold.stableQ gatom gF (fsatM isaux) ghead (hsatM isaux) QF).
Notation fext := (Meta.Fold.ext gatom isaux gF (fsatM isaux) ghead QF).
Notation frestrict := (Meta.Fold.restrict gatom isaux).

Lemma stableP_orig T : fstableP T <-> gstable (ground_prog (orig_rule :: C) I) T.
Proof. rewrite orig_perm_stable. apply stableP_iff_gstable; [exact PF_clean|exact PF_ground]. Qed.
Lemma stableQ_split T : fstableQ T <-> gstable (ground_prog (aux_rule :: upd_rule :: C) I) T.
Proof. apply stableQ_iff_gstable; [exact QF_clean|exact QF_ground]. Qed.

(* ---- the three conjuncts of the conservative extension, on the ground level ---- *)
Theorem split_fwd T : gstable (ground_prog (orig_rule :: C) I) T ->
  gstable (ground_prog (aux_rule :: upd_rule :: C) I) (fext T T) /\ forall a, frestrict (fext T T) a <-> T a.
Proof.
  intros St.
  assert (NT: Meta.Fold.noaux gatom isaux T).
  { apply (gstable_noaux isaux _ T) in St; [exact St|]. intros r Gr.
    exact (proj1 (ground_prog_clean sym_lt aux_pred _ I r orig_avoids I_avoids Gr)). }
  split.
  - apply stableQ_split.
    apply (Meta.Fold.fold_fwd gatom isaux gF (fsatM isaux) (fsatM_base isaux) ghead (hsatM isaux) (hsatM_base isaux)
             PF QF Q_def_aux Q_folded_aux folded_sound plain_sound complete T NT).
    apply stableP_orig. exact St.
  - apply Meta.Fold.fold_restrict_ext. exact NT.
Qed.

Theorem split_bwd T' : gstable (ground_prog (aux_rule :: upd_rule :: C) I) T' ->
  gstable (ground_prog (orig_rule :: C) I) (frestrict T') /\ forall a, T' a <-> fext (frestrict T') (frestrict T') a.
Proof.
  intros St. apply stableQ_split in St.
  destruct (Meta.Fold.fold_bwd gatom isaux gF (fsatM isaux) (fsatM_base isaux) (fsatM_persist isaux)
             ghead (hsatM isaux) (hsatM_base isaux) PF QF Q_def_aux Q_folded_aux folded_sound plain_sound complete T' St)
    as [SP E].
  split; [apply stableP_orig; exact SP|exact E].
Qed.

Lemma fext_same (X Y: interp) : (forall a, X a <-> Y a) -> forall a, fext X X a <-> fext Y Y a.
Proof.
  intros E a. unfold Meta.Fold.ext.
  assert (A: Meta.Fold.agree_base gatom isaux X Y) by (intros b _; apply E).
  split; (intros [[Na Xa]|[Aa [beta [D Bs]]]]; [left; split; [exact Na|apply E; exact Xa]|right; split; [exact Aa|]; exists beta; split; [exact D|]]).
  - apply (Meta.Fold.bsat_base gatom isaux gF (fsatM isaux) (fsatM_base isaux) X X Y Y beta A A). exact Bs.
  - apply (Meta.Fold.bsat_base gatom isaux gF (fsatM isaux) (fsatM_base isaux) X X Y Y beta A A). exact Bs.
Qed.

Theorem split_inj T1 T2 : gstable (ground_prog (aux_rule :: upd_rule :: C) I) T1 ->
  gstable (ground_prog (aux_rule :: upd_rule :: C) I) T2 ->
  (forall a, frestrict T1 a <-> frestrict T2 a) -> forall a, T1 a <-> T2 a.
Proof.
  intros S1 S2 E a. destruct (split_bwd T1 S1) as [_ E1]. destruct (split_bwd T2 S2) as [_ E2].
  rewrite E1, E2. apply fext_same. exact E.
Qed.
End Split.

(* ================================================================================================ *)
(* 6. The conservative-extension theorem for non-ground simple programs                             *)
(* ================================================================================================ *)
Lemma gstable_ext (G G': Meta.Cleanup.prog gatom gF) : (forall r, G r <-> G' r) -> forall T, gstable G T <-> gstable G' T.
Proof.
  intros E. apply gstable_psat_iff. intros H T. unfold Meta.Cleanup.psat.
  split; intros X r Gr; apply X; apply E; exact Gr.
Qed.

Lemma gvars_lit_sub l x : In x (gvars_lit l) -> In x (vars_lit l).
Proof.
  destruct l as [sg a]. destruct a as [t|t gs|b|lg f es rg|lg es rg|tx]; simpl; auto.
  - intros Hx. apply in_app_or in Hx. apply in_or_app. destruct Hx; [left; assumption|]. right. apply in_or_app. right. assumption.
  - intros Hx. apply in_app_or in Hx. apply in_or_app. destruct Hx; [left; assumption|]. right. apply in_or_app. right. assumption.
Qed.
Lemma gvars_bodyelem_sub e x : In x (gvars_bodyelem e) -> In x (vars_bodyelem e).
Proof. destruct e as [l|l c]; simpl; [apply gvars_lit_sub|intros []]. Qed.

Section Main.
Variable sym_lt : sym -> sym -> Prop.

Section OneSplit.
Variables (auxn: string) (ts: list string) (ext: bool).
Variables (C: program) (line line': nat) (h: head) (B New Rest: list bodyelem).
Notation p := (aux_pred auxn ts).
Notation orig := (orig_rule line h B).
Notation upd := (upd_rule auxn ts ext line h Rest).
Notation auxr := (aux_rule auxn ts ext line' New).
Notation alit := (auxlit auxn ts ext).

Hypothesis members : forall e, In e B <-> In e (New ++ Rest).
Hypothesis interface : forall x, In x (flat_map vars_bodyelem New) ->
  In x (flat_map vars_bodyelem Rest) \/ In x (vars_head h) -> In x ts.

Lemma head_safe_upd : head_safe h B = true -> head_safe h (Rest ++ [BLit alit]) = true.
Proof.
  destruct h as [l|es|lg es rg|lg f es rg|tx]; try reflexivity. unfold head_safe. rewrite !forallb_forall.
  intros S x Hx. specialize (S x Hx). apply existsb_exists in S. destruct S as [y [Hy E]]. apply String.eqb_eq in E. subst y.
  apply existsb_exists. exists x. split; [|apply String.eqb_refl].
  unfold gvars_rule in *. apply in_app_or in Hy. apply in_or_app. destruct Hy as [Hy|Hy]; [left; exact Hy|]. right.
  apply in_flat_map in Hy. destruct Hy as [e [He Hxe]]. apply members in He. apply in_app_or in He.
  rewrite flat_map_app. apply in_or_app. destruct He as [He|He].
  - right. simpl. rewrite app_nil_r. apply in_flat_map. exists (TVar x). split; [|left; reflexivity].
    apply in_map. apply interface; [|right; exact Hx]. apply in_flat_map. exists e. split; [exact He|].
    apply gvars_bodyelem_sub. exact Hxe.
  - left. apply in_flat_map. exists e. auto.
Qed.

Lemma simple_split : simple_stmt orig = true -> simple_stmt upd = true /\ simple_stmt auxr = true.
Proof.
  intros S. destruct (simple_stmt_rule _ _ _ S) as [Sh [Sb Safe]]. unfold simple_body in Sb. rewrite forallb_forall in Sb.
  split.
  - unfold upd_rule. simpl. rewrite Sh, (head_safe_upd Safe). unfold simple_body. rewrite forallb_app. simpl.
    replace (forallb simple_bodyelem Rest) with true; [reflexivity|]. symmetry. apply forallb_forall.
    intros e He. apply Sb. apply members. apply in_or_app. right. exact He.
  - unfold aux_rule. simpl. rewrite andb_true_r. apply forallb_forall.
    intros e He. apply Sb. apply members. apply in_or_app. left. exact He.
Qed.

(* the theorem for programs given by their members: Porig = C + {orig}, Psplit = C + {aux rule, updated rule} *)
Theorem projection_split_sound_members (Porig Psplit: program) :
  (forall st, In st Porig <-> In st (orig :: C)) ->
  (forall st, In st Psplit <-> In st (auxr :: upd :: C)) ->
  simple_prog Porig = true ->
  prog_avoids p Porig = true ->
  cons_ext sym_lt (fun q => q <> p) (fun a => ~ is_p p a) Porig Psplit.
Proof.
  intros MO MS Simple Av.
  assert (SO: forall st, In st (orig :: C) -> simple_stmt st = true).
  { intros st Hin. apply (simple_prog_stmt Porig); [exact Simple|apply MO; exact Hin]. }
  assert (AO: forall st, In st (orig :: C) -> stmt_avoids p st = true).
  { intros st Hin. unfold prog_avoids in Av. rewrite forallb_forall in Av. apply Av. apply MO. exact Hin. }
  assert (C_av: prog_avoids p C = true) by (apply forallb_forall; intros st Hin; apply AO; right; exact Hin).
  assert (R_av: stmt_avoids p orig = true) by (apply AO; left; reflexivity).
  assert (SimpleS: simple_prog Psplit = true).
  { apply forallb_forall. intros st Hin. apply MS in Hin. destruct (simple_split (SO _ (or_introl eq_refl))) as [Su Sa].
    destruct Hin as [<-|[<-|Hin]]; [exact Sa|exact Su|]. apply SO. right. exact Hin. }
  assert (GO: forall I T, Sat.stable sym_lt Porig I T <-> gstable (ground_prog sym_lt (orig :: C) I) T).
  { intros I T. rewrite (ground_stable_iff sym_lt Porig Simple). apply gstable_ext. intro r. apply ground_prog_members. exact MO. }
  assert (GS: forall I T, Sat.stable sym_lt Psplit I T <-> gstable (ground_prog sym_lt (auxr :: upd :: C) I) T).
  { intros I T. rewrite (ground_stable_iff sym_lt Psplit SimpleS). apply gstable_ext. intro r. apply ground_prog_members. exact MS. }
  intros I FO. split; [|split].
  - intros T St. apply GO in St.
    destruct (split_fwd sym_lt auxn ts ext C line line' h B New Rest I members interface C_av R_av FO T St) as [St' E].
    eexists. split; [apply GS; exact St'|]. exact E.
  - intros T' St. apply GS in St. apply GO.
    exact (proj1 (split_bwd sym_lt auxn ts ext C line line' h B New Rest I members interface C_av R_av FO T' St)).
  - intros T1 T2 S1 S2 E. apply GS in S1. apply GS in S2.
    exact (split_inj sym_lt auxn ts ext C line line' h B New Rest I members interface C_av R_av FO T1 T2 S1 S2 E).
Qed.
End OneSplit.

(* ---- the statement of the task: P = P1 ++ [h :- B] ++ P2, split program as ngo writes it
        (the aux rule first, then the updated rule, in place of the original rule) ---- *)
Theorem projection_split_sound (aux: string) (ts: list string) (P1 P2: program) (line line': nat)
        (h: head) (B New Rest: list bodyelem) :
  let p : pred := (aux, List.length ts) in
  let auxl : lit := Lit NoSign (ASym (TFun aux (map TVar ts) false)) in
  let P := P1 ++ [SRule line h B] ++ P2 in
  let Q := P1 ++ [SRule line' (HLit auxl) New; SRule line h (Rest ++ [BLit auxl])] ++ P2 in
  simple_prog P = true ->
  prog_avoids p P = true ->                                   (* aux/k occurs in no head or body atom of P *)
  Permutation B (New ++ Rest) ->
  (forall x, In x (flat_map vars_bodyelem New) ->             (* interface condition *)
             In x (flat_map vars_bodyelem Rest) \/ In x (vars_head h) -> In x ts) ->
  cons_ext sym_lt (fun q => q <> p) (fun a => ~ (fst a = aux /\ List.length (snd a) = List.length ts)) P Q.
Proof.
  intros p auxl P Q Simple Av Perm IF.
  apply (projection_split_sound_members aux ts false (P1 ++ P2) line line' h B New Rest).
  - intro e. split; intro He; [apply (Permutation_in _ Perm) | apply (Permutation_in _ (Permutation_sym Perm))]; exact He.
  - exact IF.
  - intro st. unfold P. simpl. rewrite !in_app_iff. simpl. tauto.
  - intro st. unfold Q, aux_rule, upd_rule, auxlit, auxl. simpl. rewrite !in_app_iff. simpl. tauto.
  - exact Simple.
  - exact Av.
Qed.

(* the plain-atom-head instance (the head of the task statement) *)
Corollary projection_split_sound_atom_head (aux: string) (ts: list string) (P1 P2: program) (line line': nat)
        (th: term) (B New Rest: list bodyelem) :
  let hl : lit := Lit NoSign (ASym th) in
  let p : pred := (aux, List.length ts) in
  let auxl : lit := Lit NoSign (ASym (TFun aux (map TVar ts) false)) in
  let P := P1 ++ [SRule line (HLit hl) B] ++ P2 in
  let Q := P1 ++ [SRule line' (HLit auxl) New; SRule line (HLit hl) (Rest ++ [BLit auxl])] ++ P2 in
  simple_prog P = true -> prog_avoids p P = true -> Permutation B (New ++ Rest) ->
  (forall x, In x (flat_map vars_bodyelem New) -> In x (flat_map vars_bodyelem Rest) \/ In x (vars_lit hl) -> In x ts) ->
  cons_ext sym_lt (fun q => q <> p) (fun a => ~ (fst a = aux /\ List.length (snd a) = List.length ts)) P Q.
Proof. intros hl p auxl P Q. exact (projection_split_sound aux ts P1 P2 line line' (HLit hl) B New Rest). Qed.
End Main.

Print Assumptions projection_split_sound_members.
Print Assumptions projection_split_sound.

(* ================================================================================================ *)
(* 7. Tying the theorem to the model of projection.py (Model/Projection.v, Link/ProjectionSpec.v)    *)
(* ================================================================================================ *)
From NGO Require Import Model.Corr Model.Binding Model.Projection.
From NGO Require Model.Globals Model.Traverse.
From NGO Require Link.CleanupSpec Link.SubstSpec Link.BindingPerm Link.ProjectionSpec.
Open Scope string_scope. Open Scope list_scope.

(* ---- 7.1 on a body of simple literals the binding analysis classifies EVERY variable (bound or
        unbound), so global_vars_inside_body = all variables but "_" ---- *)
Lemma sdiff_In a b x : In x (sdiff a b) <-> In x a /\ ~ In x b.
Proof.
  unfold sdiff. rewrite filter_In, negb_true_iff. split; intros [A B]; (split; [exact A|]).
  - intro Hb. apply BindingPerm.bsmem_In in Hb. congruence.
  - destruct (Binding.smem x b) eqn:E; [|reflexivity]. apply BindingPerm.bsmem_In in E. contradiction.
Qed.

Definition covers (V: list string) (bu: vset * vset) : Prop := forall x, In x V -> In x (fst bu) \/ In x (snd bu).
Definition le2 (p q: vset * vset) : Prop :=
  (forall x, In x (fst p) -> In x (fst q)) /\ (forall x, In x (snd p) -> In x (snd q)).

Lemma le2_refl p : le2 p p. Proof. split; auto. Qed.
Lemma le2_trans p q r : le2 p q -> le2 q r -> le2 p r.
Proof. intros [A B] [C D]. split; auto. Qed.
Lemma covers_le2 V p q : covers V p -> le2 p q -> covers V q.
Proof. intros Cv [A B] x Hx. destruct (Cv x Hx); auto. Qed.
Lemma covers_app V W p : covers V p -> covers W p -> covers (V ++ W) p.
Proof. intros A B x Hx. apply in_app_or in Hx. destruct Hx; auto. Qed.

Definition arg_step (acc: vset * vset) (arg: term) : vset * vset :=
  let '(b, u) := acc in
  let variables := vars_term arg in
  if orb (andb (Nat.eqb (List.length variables) 1) (negb (has_unsafe_operation arg)))
         (Nat.eqb (List.length (collect_term is_binop arg) + List.length (collect_term is_unop arg)) 0)
  then (supdate b variables, u) else (b, supdate u variables).

Lemma arg_step_spec acc arg : le2 acc (arg_step acc arg) /\ covers (vars_term arg) (arg_step acc arg).
Proof.
  destruct acc as [b u]. unfold arg_step, le2, covers.
  match goal with |- context [if ?c then _ else _] => destruct c end; simpl;
    (split; [split|]; intros x Hx; rewrite ?BindingPerm.supdate_In; auto).
Qed.

Lemma arg_fold_spec args : forall acc,
  le2 acc (fold_left arg_step args acc) /\ covers (flat_map vars_term args) (fold_left arg_step args acc).
Proof.
  induction args as [|a args IH]; intros acc; simpl.
  - split; [apply le2_refl|intros x []].
  - destruct (arg_step_spec acc a) as [L1 C1]. destruct (IH (arg_step acc a)) as [L2 C2]. split.
    + eapply le2_trans; eassumption.
    + apply covers_app; [eapply covers_le2; eassumption|exact C2].
Qed.

Lemma from_comparison_cmp_covers s t gs ib : covers (vars_atom (ACmp t gs)) (from_comparison_cmp s t gs ib).
Proof.
  unfold from_comparison_cmp. destruct s; try (intros x Hx; right; simpl; apply BindingPerm.sof_In; exact Hx).
  set (step := fun (acc: vset * vset) (c: term * cmp * term) =>
                     let '(b, u) := acc in
                     let '(lhs, op, rhs) := c in
                     if cmp_eqb op CEq
                     then let '(bound, unbound) := from_equal lhs rhs b in (supdate bound bound, supdate u unbound)
                     else (b, u)).
  assert (M: forall cs acc x, In x (snd acc) -> In x (snd (fold_left step cs acc))).
  { induction cs as [|c cs IH]; intros acc x Hx; simpl; [exact Hx|]. apply IH.
    destruct acc as [b u]. destruct c as [[lhs op] rhs]. simpl. destruct (cmp_eqb op CEq); [|exact Hx].
    destruct (from_equal lhs rhs b) as [bound unbound]. simpl. apply BindingPerm.supdate_In. left. exact Hx. }
  specialize (M (c2cl t gs) (ib, sof (vars_atom (ACmp t gs)))).
  destruct (fold_left step (c2cl t gs) (ib, sof (vars_atom (ACmp t gs)))) as [b u] eqn:E.
  intros x Hx. simpl. destruct (in_dec string_dec x b) as [Hb|Hb]; [left; exact Hb|]. right.
  apply sdiff_In. split; [|exact Hb]. apply (M x). simpl. apply BindingPerm.sof_In. exact Hx.
Qed.

Lemma simple_literal_covers l bv uv : simple_lit l = true -> covers (vars_lit l) (simple_literal l bv uv).
Proof.
  destruct l as [s a]. destruct a as [t|t gs|b| | |]; try discriminate; intros _.
  - assert (D: forall x, In x (vars_lit (Lit s (ASym t))) -> In x (fst (bv, supdate uv (vars_lit (Lit s (ASym t))))) \/
                           In x (snd (bv, supdate uv (vars_lit (Lit s (ASym t)))))).
    { intros x Hx. right. simpl. apply BindingPerm.supdate_In. right. exact Hx. }
    destruct s; try exact D. destruct t as [ | | | | |n args e| ]; try exact D.
    unfold simple_literal. change (vars_lit (Lit NoSign (ASym (TFun n args e)))) with (flat_map vars_term args).
    exact (proj2 (arg_fold_spec args (bv, uv))).
  - unfold simple_literal. pose proof (from_comparison_cmp_covers s t gs bv) as Cv.
    destruct (from_comparison_cmp s t gs bv) as [bound unbound]. intros x Hx. simpl.
    rewrite !BindingPerm.supdate_In. destruct (Cv x Hx); auto.
  - intros x [].
Qed.

Lemma body_stm_spec e bv uv r : simple_bodyelem e = true -> body_stm e (bv, uv) = Ok r ->
  le2 (bv, uv) r /\ covers (vars_bodyelem e) r.
Proof.
  destruct e as [l|l c]; [|discriminate]. simpl. intros S E.
  pose proof (simple_literal_covers l bv uv S) as Cv. destruct (simple_literal l bv uv) as [bound unbound].
  assert (R: r = (supdate bv bound, supdate uv unbound)).
  { destruct l as [s a]. destruct a as [t|t gs|b| | |]; try discriminate S; injection E as <-; reflexivity. }
  subst r. unfold le2, covers in *. simpl in *.
  split; [split|]; intros x Hx; rewrite ?BindingPerm.supdate_In; auto.
  destruct (Cv x Hx); auto.
Qed.

Lemma body_fold_notok l (acc: result (vset * vset)) r : (forall a, acc <> Ok a) ->
  fold_left (fun (acc: result (vset * vset)) stm => rbind acc (body_stm stm)) l acc <> Ok r.
Proof.
  revert acc. induction l as [|e l IH]; intros acc N; simpl; [apply N|]. apply IH.
  intros a. destruct acc; simpl; try discriminate. exfalso. eapply N. reflexivity.
Qed.

Lemma body_fold_spec l : forallb simple_bodyelem l = true -> forall bv uv r,
  fold_left (fun (acc: result (vset * vset)) stm => rbind acc (body_stm stm)) l (Ok (bv, uv)) = Ok r ->
  le2 (bv, uv) r /\ covers (flat_map vars_bodyelem l) r.
Proof.
  induction l as [|e l IH]; intros S bv uv r E.
  - simpl in E. injection E as <-. split; [apply le2_refl|intros x []].
  - simpl in S. cbn [fold_left rbind] in E.
    change (flat_map vars_bodyelem (e :: l)) with (vars_bodyelem e ++ flat_map vars_bodyelem l).
    apply andb_true_iff in S. destruct S as [Se Sl].
    destruct (body_stm e (bv, uv)) as [[bv1 uv1]| | |] eqn:E1;
      try (exfalso; revert E; apply body_fold_notok; intros a; discriminate).
    destruct (body_stm_spec e bv uv _ Se E1) as [L1 C1]. destruct (IH Sl bv1 uv1 r E) as [L2 C2]. split.
    + eapply le2_trans; eassumption.
    + apply covers_app; [eapply covers_le2; eassumption|exact C2].
Qed.

Lemma comparisons_pass_mono l b u x : In x b -> In x (fst (comparisons_pass l b u)).
Proof.
  unfold comparisons_pass. revert b u. induction l as [|e l IH]; intros b u Hx; simpl; [exact Hx|].
  destruct e as [[s a]|l0 c0]; [|apply IH; exact Hx].
  destruct a as [t|t gs|bb|lg f es rg|lg es rg|txt]; try (apply IH; exact Hx).
  destruct (from_comparison_cmp s t gs b) as [bound unbound]. apply IH. apply BindingPerm.supdate_In. left. exact Hx.
Qed.

Lemma comparisons_loop_mono fuel : forall l b u r x, comparisons_loop fuel l b u = Ok r -> In x b -> In x (fst r).
Proof.
  induction fuel as [|f IH]; intros l b u r x E Hx; simpl in E; [discriminate|].
  pose proof (comparisons_pass_mono l b u x Hx) as M. destruct (comparisons_pass l b u) as [b' u']. simpl in M.
  destruct (sseteq b b'); [injection E as <-; exact M|]. eapply IH; eassumption.
Qed.

Lemma body_pass_covers l bv uv r : forallb simple_bodyelem l = true -> body_pass l bv uv = Ok r ->
  covers (flat_map vars_bodyelem l) r.
Proof.
  intros S E. unfold body_pass in E.
  destruct (fold_left (fun (acc: result (vset * vset)) stm => rbind acc (body_stm stm)) l (Ok (bv, uv)))
    as [[bv1 uv1]| | |] eqn:F; simpl in E; try discriminate.
  destruct (body_fold_spec l S bv uv _ F) as [_ Cv].
  destruct (collect_binding_information_from_comparisons l bv1) as [[bound unbound]| | |] eqn:Cm; simpl in E; try discriminate.
  injection E as <-. intros x Hx. simpl.
  assert (Mb: forall y, In y bv1 -> In y (supdate bound bound)).
  { intros y Hy. apply BindingPerm.supdate_In. left. exact (comparisons_loop_mono _ _ _ _ _ y Cm Hy). }
  destruct (in_dec string_dec x (supdate bound bound)) as [Hb|Hb]; [left; exact Hb|]. right.
  apply sdiff_In. split; [|exact Hb]. apply BindingPerm.supdate_In. left. apply sdiff_In.
  destruct (Cv x Hx) as [H1|H1]; simpl in H1; [exfalso; apply Hb; apply Mb; exact H1|].
  split; [exact H1|]. intro H2. apply Hb. apply Mb. exact H2.
Qed.

Lemma body_loop_last f : forall l bv uv sz r, body_loop f l bv uv sz = Ok r ->
  (Z.gtb (slen bv) sz = false /\ r = (bv, uv)) \/ exists bv' uv', body_pass l bv' uv' = Ok r.
Proof.
  induction f as [|f IH]; intros l bv uv sz r E; rewrite ProjectionSpec.body_loop_eq in E;
    destruct (Z.gtb (slen bv) sz) eqn:G; try discriminate; try (injection E as <-; left; auto).
  destruct (body_pass l bv uv) as [[bv' uv']| | |] eqn:P; simpl in E; try discriminate.
  destruct (IH _ _ _ _ _ E) as [[_ ->]|X]; [right; eauto|right; exact X].
Qed.

Lemma global_vars_body_all l g : forallb simple_bodyelem l = true -> global_vars_inside_body l = Ok g ->
  forall x, In x (flat_map vars_bodyelem l) -> x <> "_" -> In x g.
Proof.
  intros S E x Hx Nx. unfold global_vars_inside_body, collect_binding_information_body in E.
  destruct (body_loop (List.length (flat_map vars_bodyelem l) + 2) l [] [] (-1)%Z) as [[bv uv]| | |] eqn:L;
    simpl in E; try discriminate.
  injection E as <-. apply BindingPerm.supdate_In. rewrite !BindingPerm.drop_anonymous_In.
  destruct (body_loop_last _ _ _ _ _ _ L) as [[G _]|[bv' [uv' P]]]; [discriminate G|].
  destruct (body_pass_covers l bv' uv' _ S P x Hx) as [A|A]; simpl in A; auto.
Qed.

Lemma global_vars_head_lit hl gh : global_vars_inside_head (HLit hl) = Ok gh ->
  forall x, In x (vars_lit hl) -> x <> "_" -> In x gh.
Proof.
  unfold global_vars_inside_head, collect_binding_information_head.
  change (collect_binding_information_body [] None) with (@Ok (vset * vset) ([], [])). simpl.
  destruct (lit_has_theory hl); [discriminate|]. simpl. intros E x Hx Nx. injection E as <-.
  apply sdiff_In. split; [|intros []].
  apply BindingPerm.drop_anonymous_In. split; [|exact Nx]. apply BindingPerm.supdate_In. right. exact Hx.
Qed.

Lemma global_vars_head_choice es gh : forallb simple_choice_elem es = true ->
  global_vars_inside_head (HAgg None es None) = Ok gh ->
  forall x, In x (flat_map vars_condlit es) -> x <> "_" -> In x gh.
Proof.
  intros S. unfold global_vars_inside_head, collect_binding_information_head.
  change (collect_binding_information_body [] None) with (@Ok (vset * vset) ([], [])). cbn [rbind fst].
  destruct (existsb condlit_has_theory es); [discriminate|].
  match goal with |- context [fold_left ?f es _] => set (F := f) end.
  assert (Step: forall e need nb, simple_choice_elem e = true ->
            F (Ok (need, nb)) e = Ok (supdate need (sdiff (sof (vars_lit (fst e))) []), nb)).
  { intros e need nb Se. destruct (simple_choice_elem_inv e Se) as [n [args [ext ->]]]. unfold F. reflexivity. }
  assert (Fold: forall l need nb, forallb simple_choice_elem l = true ->
            exists need', fold_left F l (Ok (need, nb)) = Ok (need', nb) /\
              (forall x, In x need -> In x need') /\ forall x, In x (flat_map vars_condlit l) -> In x need').
  { induction l as [|e l IH]; intros need nb Sl.
    - exists need. simpl. split; [reflexivity|]. split; [auto|intros x []].
    - simpl in Sl. apply andb_true_iff in Sl. destruct Sl as [Se Sl]. cbn [fold_left]. rewrite (Step e need nb Se).
      destruct (IH (supdate need (sdiff (sof (vars_lit (fst e))) [])) nb Sl) as [need' [E [M C]]].
      exists need'. split; [exact E|]. split.
      + intros x Hx. apply M. apply BindingPerm.supdate_In. left. exact Hx.
      + intros x Hx. simpl in Hx. apply in_app_or in Hx. destruct Hx as [Hx|Hx]; [|apply C; exact Hx].
        apply M. apply BindingPerm.supdate_In. right. apply sdiff_In. split; [|intros []]. apply BindingPerm.sof_In.
        destruct (simple_choice_elem_inv e Se) as [n [args [ext ->]]]. unfold vars_condlit in Hx. simpl in Hx.
        rewrite app_nil_r in Hx. exact Hx. }
  match goal with |- context [fold_left F es ?a] => destruct (fold_left F es a) as [[need' nb']| | |] eqn:E; 
     [|discriminate..]; match type of E with fold_left F es (Ok (?n, ?m)) = _ => destruct (Fold es n m S) as [need2 [E2 [_ C]]] end end.
  pose proof (eq_trans (eq_sym E2) E) as E3. injection E3 as <- <-. cbn [rbind]. intros Eg x Hx Nx. simpl in Eg. injection Eg as <-.
  apply sdiff_In. split; [|intros []]. apply BindingPerm.drop_anonymous_In. split; [apply C; exact Hx|exact Nx].
Qed.

Lemma global_vars_head_simple h gh : simple_head h = true -> global_vars_inside_head h = Ok gh ->
  forall x, In x (vars_head h) -> x <> "_" -> In x gh.
Proof.
  destruct h as [[sg a]|es|lg es rg|lg f es rg|tx]; try discriminate.
  - intros _. apply global_vars_head_lit.
  - destruct lg; try discriminate. destruct rg; try discriminate. simpl. intros S E x Hx. rewrite app_nil_r in Hx.
    exact (global_vars_head_choice es gh S E x Hx).
Qed.

(* ---- 7.2 rest_of: new ++ rest has the same members as the body ---- *)
Lemma bodyelem_eqb_simple_eq x y : simple_bodyelem y = true -> bodyelem_eqb x y = true -> x = y.
Proof.
  destruct y as [[sg a]|l c]; [|discriminate]. destruct a as [t|t gs|b| | |]; try discriminate; intros _ E.
  - destruct x as [[sg' a']|l c]; [|discriminate]. simpl in E. apply andb_true_iff in E. destruct E as [E1 E2].
    destruct a' as [t'| | | | |]; simpl in E2; try discriminate E2.
    apply CleanupSpec.sign_eqb_eq in E1. apply CleanupSpec.term_eqb_eq in E2. subst. reflexivity.
  - apply SubstSpec.bodyelem_eqb_cmp. exact E.
  - destruct x as [[sg' a']|l c]; [|discriminate]. simpl in E. apply andb_true_iff in E. destruct E as [E1 E2].
    destruct a' as [ | |b'| | |]; simpl in E2; try discriminate E2.
    apply CleanupSpec.sign_eqb_eq in E1. apply Bool.eqb_prop in E2. subst. reflexivity.
Qed.

Lemma rest_of_members b new : ProjectionSpec.subseq new b -> forallb simple_bodyelem b = true ->
  forall e, In e b <-> In e (new ++ ProjectionSpec.rest_of b new).
Proof.
  intros Sub S e. rewrite forallb_forall in S. rewrite in_app_iff. split.
  - intros He. destruct (ProjectionSpec.rest_of_cover b new e He) as [Hr|Hm]; [right; exact Hr|left].
    unfold mem in Hm. apply existsb_exists in Hm. destruct Hm as [y [Hy Eq]].
    rewrite (bodyelem_eqb_simple_eq e y); [exact Hy| |exact Eq]. apply S. exact (ProjectionSpec.subseq_incl _ _ _ Sub y Hy).
  - intros [Hn|Hr]; [exact (ProjectionSpec.subseq_incl _ _ _ Sub e Hn)|]. apply ProjectionSpec.rest_of_In in Hr. tauto.
Qed.

(* ---- 7.3 freshness of the aux predicate from ngo's naming state ---- *)
(* every symbolic atom is a Function node, as clingo's parser builds them (p, p(X), but not -p(X) or a pool) *)
Definition fun_lit (l: lit) : bool :=
  match l with Lit _ (ASym (TFun _ _ _)) => true | Lit _ (ASym _) => false | _ => true end.
Definition fun_bodyelem (e: bodyelem) : bool := match e with BLit l => fun_lit l | BCond _ _ => true end.
Definition fun_head (h: head) : bool :=
  match h with HLit l => fun_lit l | HAgg _ es _ => forallb (fun c: condlit => fun_lit (fst c)) es | _ => true end.
Definition fun_stmt (st: stmt) : bool :=
  match st with SRule _ h b => fun_head h && forallb fun_bodyelem b | _ => true end.

Lemma pred_neq_eqb (q p: pred) : q <> p -> negb (pred_eqb q p) = true.
Proof. intros N. apply negb_true_iff. apply pred_eqb_false_iff. exact N. Qed.

Lemma lit_avoids_of_predicates p l : fun_lit l = true ->
  (forall q, In q (map snd (Traverse.literal_predicate Traverse.all_signs l)) -> q <> p) -> lit_avoids p l = true.
Proof.
  destruct l as [sg a]. destruct a as [t| | | | |]; try reflexivity.
  destruct t as [ | | | | |n args e| ]; try discriminate. intros _ A. simpl. apply pred_neq_eqb. apply A.
  simpl. destruct sg; simpl; left; reflexivity.
Qed.

Lemma stmt_avoids_of_predicates p st : fun_stmt st = true ->
  (forall q, In q (map snd (Traverse.predicates Traverse.all_signs st)) -> q <> p) -> stmt_avoids p st = true.
Proof.
  destruct st as [line h b| | | |]; try reflexivity. simpl. intros F A. apply andb_true_iff in F. destruct F as [Fh Fb].
  apply andb_true_iff. split.
  - destruct h as [l|es|lg es rg|lg f es rg|tx]; try reflexivity.
    + apply lit_avoids_of_predicates; [exact Fh|]. intros q Hq. apply A. rewrite map_app. apply in_or_app. left. exact Hq.
    + simpl in *. rewrite forallb_forall in *. intros c Hc. apply lit_avoids_of_predicates; [apply Fh; exact Hc|].
      intros q Hq. apply A. rewrite map_app. apply in_or_app. left. apply in_map_iff in Hq. destruct Hq as [sp [<- Hsp]].
      apply in_map. apply in_flat_map. exists c. split; [exact Hc|]. apply in_or_app. left.
      unfold Traverse.condlit_predicate. apply in_or_app. left. exact Hsp.
  - rewrite forallb_forall in *. intros e He. destruct e as [l|l c]; [|reflexivity]. simpl.
    apply lit_avoids_of_predicates; [exact (Fb _ He)|]. intros q Hq. apply A. rewrite map_app. apply in_or_app. right.
    apply in_map_iff in Hq. destruct Hq as [sp [<- Hsp]]. apply in_map. apply in_flat_map. exists (BLit l). split; [exact He|exact Hsp].
Qed.

Lemma prog_avoids_of_known p P (known: list pred) : forallb fun_stmt P = true ->
  (forall st q, In st P -> In q (map snd (Traverse.predicates Traverse.all_signs st)) -> In q known) ->
  ~ In p known -> prog_avoids p P = true.
Proof.
  intros F K N. unfold prog_avoids. rewrite forallb_forall in *. intros st Hst.
  apply stmt_avoids_of_predicates; [exact (F st Hst)|]. intros q Hq ->. apply N. exact (K st p Hst Hq).
Qed.

(* ---- 7.4 the rule splitting performed by Projection.project_rule is a conservative extension
        (any head of the simple fragment) ---- *)
Section ModelCorollary.
Variable sym_lt : sym -> sym -> Prop.

Theorem project_rule_sound (st st': Globals.unames) (P1 P2: program) (line: nat) (h: head) (b: list bodyelem)
        (out: list stmt) :
  let stm := SRule line h b in
  let P := P1 ++ [stm] ++ P2 in
  simple_prog P = true ->
  ~ In "_" (vars_stmt stm) ->                 (* Sem/Sat.v reads "_" as an ordinary variable name *)
  project_rule st stm = Ok (out, st') ->
  out = [stm] \/
  exists a t new rest,
    out = [SRule LOC_line (HLit (ProjectionSpec.aux_head a t)) new;
           SRule line h (rest ++ [BLit (ProjectionSpec.aux_head a t)])] /\
    ~ In (a, List.length t) (Globals.known st) /\
    (prog_avoids (a, List.length t) P = true ->
     cons_ext sym_lt (fun q => q <> (a, List.length t))
              (fun g => ~ (fst g = a /\ List.length (snd g) = List.length t)) P (P1 ++ out ++ P2)).
Proof.
  intros stm P Simple NoAnon PR.
  destruct (ProjectionSpec.project_rule_shape_proof st stm out st' PR) as [line0 [h0 [b0 [E Cases]]]].
  injection E as <- <- <-.
  destruct Cases as [[-> _]|[new [rest [t [a [Eout [Sub [_ [Erest [_ [G [_ [Fresh _]]]]]]]]]]]]]; [left; reflexivity|].
  right. exists a, t, new, rest. split; [exact Eout|]. split; [exact Fresh|]. intros Av.
  assert (Sstm: simple_stmt stm = true).
  { apply (simple_prog_stmt P); [exact Simple|]. unfold P. apply in_or_app. right. left. reflexivity. }
  destruct (simple_stmt_rule _ _ _ Sstm) as [Sh [Sb _]].
  assert (Snew: forallb simple_bodyelem new = true).
  { unfold simple_body in Sb. rewrite forallb_forall in *. intros e He. apply Sb. exact (ProjectionSpec.subseq_incl _ _ _ Sub e He). }
  destruct (ProjectionSpec.good_split_interface_proof new rest stm t G)
    as [l1 [h1 [b1 [gn [gh [E1 [Egn [Egh [Hin _]]]]]]]]].
  injection E1 as <- <- <-.
  apply (projection_split_sound_members sym_lt a t false (P1 ++ P2) line LOC_line h b new rest).
  - subst rest. apply rest_of_members; assumption.
  - intros x Hn Hrh.
    assert (Nx: x <> "_").
    { intros ->. apply NoAnon. unfold stm. simpl. apply in_or_app. right.
      apply in_flat_map in Hn. destruct Hn as [e [He Hxe]]. apply in_flat_map. exists e.
      split; [exact (ProjectionSpec.subseq_incl _ _ _ Sub e He)|exact Hxe]. }
    apply Hin. split; [exact (global_vars_body_all new gn Snew Egn x Hn Nx)|].
    destruct Hrh as [Hr|Hh].
    + left. apply in_flat_map in Hr. exact Hr.
    + right. exact (global_vars_head_simple h gh Sh Egh x Hh Nx).
  - intro s0. unfold P, orig_rule. simpl. rewrite !in_app_iff. simpl. tauto.
  - intro s0. rewrite Eout. unfold aux_rule, upd_rule, auxlit, ProjectionSpec.aux_head. simpl. rewrite !in_app_iff. simpl. tauto.
  - exact Simple.
  - exact Av.
Qed.

(* the same with the freshness of the aux predicate derived from ngo's naming state: it is enough that
   UniqueNames knows every predicate of the program (as after UniqueNames.__init__(prg, ...), see
   GlobalsSpec.unique_names_init_known) and that atoms are Function nodes *)
Corollary project_rule_sound_known (st st': Globals.unames) (P1 P2: program) (line: nat) (h: head) (b: list bodyelem)
        (out: list stmt) :
  let stm := SRule line h b in
  let P := P1 ++ [stm] ++ P2 in
  simple_prog P = true ->
  forallb fun_stmt P = true ->
  (forall s0 q, In s0 P -> In q (map snd (Traverse.predicates Traverse.all_signs s0)) -> In q (Globals.known st)) ->
  ~ In "_" (vars_stmt stm) ->
  project_rule st stm = Ok (out, st') ->
  out = [stm] \/
  exists a k, ~ In (a, k) (Globals.known st) /\
    cons_ext sym_lt (fun q => q <> (a, k)) (fun g => ~ (fst g = a /\ List.length (snd g) = k)) P (P1 ++ out ++ P2).
Proof.
  intros stm P Simple Fun Known NoAnon PR.
  destruct (project_rule_sound st st' P1 P2 line h b out Simple NoAnon PR) as [E|[a [t [new [rest [_ [Fresh CE]]]]]]];
    [left; exact E|right].
  exists a, (List.length t). split; [exact Fresh|]. apply CE.
  exact (prog_avoids_of_known (a, List.length t) P (Globals.known st) Fun Known Fresh).
Qed.
End ModelCorollary.

Print Assumptions project_rule_sound.
Print Assumptions project_rule_sound_known.

(* ================================================================================================ *)
(* 8. Witnesses                                                                                     *)
(* ================================================================================================ *)
Module Example.
Definition at_ (n: string) (xs: list string) : lit := Lit NoSign (ASym (TFun n (map TVar xs) false)).

(* (a) the hypotheses of project_rule_sound_known are satisfiable and the split really happens:
       h(X) :- a(X), b(Y,Z), c(Y,Z).   ~~>   __aux_1 :- b(Y,Z), c(Y,Z).   h(X) :- a(X), __aux_1.          *)
Definition r1 : stmt :=
  SRule 1 (HLit (at_ "h" ["X"])) [BLit (at_ "a" ["X"]); BLit (at_ "b" ["Y"; "Z"]); BLit (at_ "c" ["Y"; "Z"])].
Definition r1_aux : stmt := SRule 1 (HLit (at_ "__aux_1" [])) [BLit (at_ "b" ["Y"; "Z"]); BLit (at_ "c" ["Y"; "Z"])].
Definition r1_upd : stmt := SRule 1 (HLit (at_ "h" ["X"])) [BLit (at_ "a" ["X"]); BLit (at_ "__aux_1" [])].

Lemma r1_projected : exists st', project_rule (Globals.init_names [r1] []) r1 = Ok ([r1_aux; r1_upd], st').
Proof. eexists. vm_compute. reflexivity. Qed.

Theorem r1_split_conservative sym_lt :
  cons_ext sym_lt (fun q => q <> ("__aux_1", 0)) (fun g => ~ (fst g = "__aux_1" /\ List.length (snd g) = 0))
           [r1] [r1_aux; r1_upd].
Proof.
  destruct r1_projected as [st' PR].
  assert (NA: ~ In "_" (vars_stmt r1)) by (simpl; intuition discriminate).
  destruct (project_rule_sound sym_lt (Globals.init_names [r1] []) st' [] [] 1 (HLit (at_ "h" ["X"]))
              [BLit (at_ "a" ["X"]); BLit (at_ "b" ["Y"; "Z"]); BLit (at_ "c" ["Y"; "Z"])] [r1_aux; r1_upd] eq_refl NA PR)
    as [E|[a [t [new [rest [E [_ CE]]]]]]].
  - discriminate E.
  - injection E as Ea Et _ _. destruct t as [|x t]; [|discriminate Et]. subst a. apply CE. reflexivity.
Qed.

(* (b) why "_" must not occur: Sem/Sat.v reads "_" as ONE variable, ngo (as gringo) reads every "_" as a
       different anonymous variable and does not make it an argument of the aux atom. The model splits
           h(X) :- a(X,_), b(Y,Z), c(Y,_).    into    __aux_1 :- b(Y,Z), c(Y,_).   h(X) :- a(X,_), __aux_1.
       (correct for gringo), and under the reading of Sem/Sat.v this is NOT a conservative extension:
       for the facts a(1,1), b(2,2), c(2,3) the original derives nothing, the split derives h(1). *)
Definition r2 : stmt :=
  SRule 1 (HLit (at_ "h" ["X"])) [BLit (at_ "a" ["X"; "_"]); BLit (at_ "b" ["Y"; "Z"]); BLit (at_ "c" ["Y"; "_"])].
Definition r2_aux : stmt := SRule 1 (HLit (at_ "__aux_1" [])) [BLit (at_ "b" ["Y"; "Z"]); BLit (at_ "c" ["Y"; "_"])].
Definition r2_upd : stmt := SRule 1 (HLit (at_ "h" ["X"])) [BLit (at_ "a" ["X"; "_"]); BLit (at_ "__aux_1" [])].

Lemma r2_projected : exists st', project_rule (Globals.init_names [r2] []) r2 = Ok ([r2_aux; r2_upd], st').
Proof. eexists. vm_compute. reflexivity. Qed.

Definition I2 : list gatom := [("a", [SNum 1; SNum 1]); ("b", [SNum 2; SNum 2]); ("c", [SNum 2; SNum 3])].
Definition T2 : interp := fun g => In g I2.

Lemma at_sat sym_lt G (H T: interp) s n xs : lit_sat sym_lt G H T s (at_ n xs) = H (n, map s xs).
Proof. unfold at_. rewrite (Ground.lit_sat_sym sym_lt). unfold sym_atom_sat. rewrite eval_fun, eval_list_vars. reflexivity. Qed.

Lemma r2_stable sym_lt : Sat.stable sym_lt [r2] I2 T2.
Proof.
  split; [split|].
  - intros st [<-|[]]. simpl. intros s.
    assert (N: ~ body_sat sym_lt (gvars_rule (HLit (at_ "h" ["X"]))
                 [BLit (at_ "a" ["X"; "_"]); BLit (at_ "b" ["Y"; "Z"]); BLit (at_ "c" ["Y"; "_"])]) T2 T2 s
                 [BLit (at_ "a" ["X"; "_"]); BLit (at_ "b" ["Y"; "Z"]); BLit (at_ "c" ["Y"; "_"])]).
    { intros Bd. inversion Bd as [|? ? A Bd1]; subst. inversion Bd1 as [|? ? _ Bd2]; subst. inversion Bd2 as [|? ? C _]; subst.
      simpl in A, C. rewrite at_sat in A, C. simpl in A, C. unfold T2, I2 in A, C. simpl in A, C.
      destruct A as [A|[A|[A|[]]]]; try discriminate A. destruct C as [C|[C|[C|[]]]]; try discriminate C.
      injection A as _ A. injection C as _ C. congruence. }
    split; intro Bd; exfalso; exact (N Bd).
  - intros a Ha. exact Ha.
  - intros H _ _ FS a Ta. apply FS. exact Ta.
Qed.

Theorem anonymous_variable_counterexample sym_lt :
  ~ cons_ext sym_lt (fun q => q <> ("__aux_1", 0)) (fun g => ~ (fst g = "__aux_1" /\ List.length (snd g) = 0))
             [r2] [r2_aux; r2_upd].
Proof.
  intros CE.
  assert (FO: facts_over (fun q => q <> ("__aux_1", 0)) I2).
  { intros a [<-|[<-|[<-|[]]]]; simpl; discriminate. }
  destruct (CE I2 FO) as [C1 _]. destruct (C1 T2 (r2_stable sym_lt)) as [T' [[[PS FS] _] Same]].
  assert (Aux: T' ("__aux_1", [])).
  { pose proof (PS r2_aux (or_introl eq_refl)) as R. simpl in R.
    destruct (R (fun x => if String.eqb x "_" then SNum 3 else SNum 2)) as [_ R2].
    unfold head_sat in R2. rewrite at_sat in R2. apply R2.
    repeat constructor; simpl; rewrite at_sat; apply FS; simpl; tauto. }
  assert (Hh: T' ("h", [SNum 1])).
  { pose proof (PS r2_upd (or_intror (or_introl eq_refl))) as R. simpl in R.
    destruct (R (fun _ => SNum 1)) as [_ R2].
    unfold head_sat in R2. rewrite at_sat in R2. apply R2.
    repeat constructor; simpl; rewrite at_sat; [apply FS; simpl; tauto|exact Aux]. }
  assert (X: T2 ("h", [SNum 1])).
  { apply Same. split; [|exact Hh]. simpl. intros [E _]. discriminate E. }
  unfold T2, I2 in X. simpl in X. destruct X as [X|[X|[X|[]]]]; discriminate X.
Qed.
End Example.

Print Assumptions Example.r1_split_conservative.
Print Assumptions Example.anonymous_variable_counterexample.
