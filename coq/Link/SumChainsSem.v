(* The meaning of the sum-chain rewriting of ngo/sum_aggregates.py (SumAggregator, C13):

      X = #sum { L,Gs : p(Gs,L); ... }                      (p holds for at most one L per group Gs)
   becomes
      ch(Gs,P) :- p(Gs,P).        ch(Gs,P) :- ch(Gs,N); nx(Gs,P,N).
      X = #sum { (L-__PREV),Gs,nx(Gs,__PREV,L) : ch(Gs,L), nx(Gs,__PREV,L);
                 L,Gs,nx(Gs,L)                 : ch(Gs,L), not nx(Gs,_,L);   ... }

   where mn / nx are the minimum / successor predicates of the domain predicate dom of p (Link/ChainSem.v,
   Link/ChainSemGrouped.v; group variables in front, value last).  The value L is replaced by
   d1 + (d2-d1) + ... + (dk-d(k-1)) = dk.  Same for objectives (_replace_optimize).

   Contents
     1.  telescope_sum                      the arithmetic identity (any integers, no order hypothesis)
     2a. supported_x                        supportedness for programs that also contain choice rules with ARBITRARY
                                            bounds and conditions (`{ p(G,V) : val(V) } 1 :- grp(G).` is such a rule;
                                            ChainSem's supported_general only covers condition-free choices)
     2b. min_rule_meaning_x, next_rules_meaning_x   ChainSemGrouped's theorems on the larger fragment
         chain_meaning, chain_pred_meaning  ch(g,d) <-> d in dom(g) and d <= SOME value of p(g,.)  (no at-most-one needed)
     3a. chain_sum_is_max                   the chain tuples of a group sum up to the largest chosen value
         sum_chain_value (one group), sum_chain_value_all (all contexts), sum_chain_agg (whole aggregate),
         sumplus_chain_value (#sum+, non-negative domain), group_ok_of_meaning (from 2b to the hypotheses of 3a)
     3b. sum_chain_elems                    the emitted aggregate elements in Sem/Sat.v (total interpretation)
         elem_first_anon_vacuous            the reading of `_` in `not nx(Gs,_,L)` by Sem/Sat.v (artefact)
     3c. sum_chain_cost, sum_chain_cost_max objectives (#minimize / #maximize) in Sem/Cost.v
     4.  Refutations: no_at_most_one_refuted, projected_group_refuted, sumplus_negative_minimum_refuted,
         non_integer_domain_refuted  (explicit interpretations, by computation)
     5a. ModelRun: Model/SumChains.execute emits exactly these rules / elements / statements (vm_compute)
     5b. Example: ex_pass_meaning, ex_pass_sound_partial, Q_norm_satisfiable
   The anonymous variable.  Sem/Sat.v reads TVar "_" as an ordinary variable; inside an aggregate element it is local,
   so `not nx(Gs,_,L)` only says "some value is not a predecessor of L" (always true).  gringo projects anonymous
   variables of negative literals: `not prj(Gs,L)` with `prj(Gs,L) :- nx(Gs,_,L)`.  All soundness statements about the
   emitted elements use this projected form (elem_first_proj, obj_first_proj, Q_norm); elem_first_anon_vacuous shows
   what the literal reading of Sem/Sat.v would give.
   Only axiom: Classical_Prop.classic (see the Print Assumptions at the end). *)
From Coq Require Import List String ZArith Bool Classical Sorted Permutation Lia.
From NGO Require Import Syntax.Ast Sem.Sym Sem.Sat Sem.Cost.
From NGO Require Meta.Chain Meta.Count Link.Ground Link.CleanupSpec Link.SubstSpec Link.AggSem Link.CostAlg
  Link.NormalizeSpec Link.NormalizeSem.
From NGO Require Import Gen.Names Model.Globals Model.Dependency Link.ChainSem Link.ChainSemGrouped.
From NGO Require Model.SumChains Model.Normalize.
Import ListNotations.
Open Scope string_scope.
Open Scope list_scope.

(* ================================================================================================ *)
(* 1. Telescoping                                                                                   *)
(* ================================================================================================ *)
Fixpoint tele_steps (d: Z) (l: list Z) : Z :=
  match l with
  | [] => 0%Z
  | n :: r => ((n - d) + tele_steps n r)%Z
  end.
(* d1 + (d2 - d1) + ... + (dk - d(k-1)); 0 for the empty list (no value chosen) *)
Definition telescope (l: list Z) : Z :=
  match l with
  | [] => 0%Z
  | d :: r => (d + tele_steps d r)%Z
  end.

Lemma tele_steps_last r : forall d, (d + tele_steps d r)%Z = last (d :: r) 0%Z.
Proof.
  induction r as [|n r IH]; intro d.
  - simpl. lia.
  - change (last (d :: n :: r) 0%Z) with (last (n :: r) 0%Z). rewrite <- (IH n). simpl. lia.
Qed.

Lemma last_firstn_nth (l: list Z) : forall k, (k < List.length l)%nat -> last (firstn (S k) l) 0%Z = nth k l 0%Z.
Proof.
  induction l as [|a l IH]; intros k L; [simpl in L; lia|].
  destruct k as [|k]; [reflexivity|].
  simpl in L. assert (L': (k < List.length l)%nat) by lia.
  change (firstn (S (S k)) (a :: l)) with (a :: firstn (S k) l).
  destruct l as [|b l]; [simpl in L'; lia|].
  change (firstn (S k) (b :: l)) with (b :: firstn k l) at 1.
  change (last (a :: b :: firstn k l) 0%Z) with (last (b :: firstn k l) 0%Z).
  change (b :: firstn k l) with (firstn (S k) (b :: l)). rewrite (IH k L'). reflexivity.
Qed.

(* the identity holds for every list of integers: negative and zero values included, no order needed *)
Theorem telescope_sum : forall l, telescope l = last l 0%Z.
Proof. intros [|d r]; [reflexivity|]. apply tele_steps_last. Qed.

(* the form of the task: the first k+1 elements of d0 < d1 < ... telescope to d_k; nothing chosen gives 0 *)
Corollary telescope_sum_sorted l k : StronglySorted Z.lt l -> (k < List.length l)%nat ->
  telescope (firstn (S k) l) = nth k l 0%Z.
Proof. intros _ L. rewrite telescope_sum. apply last_firstn_nth. exact L. Qed.
Corollary telescope_sum_empty : telescope [] = 0%Z.
Proof. reflexivity. Qed.

(* ================================================================================================ *)
(* 2a. Supportedness on a larger fragment                                                           *)
(* ================================================================================================ *)
Definition gpred (a: gatom) : string * nat := (fst a, List.length (snd a)).

(* heads: the fragment of ChainSem.gen_head, or a choice with ARBITRARY bounds whose elements are atoms under
   ARBITRARY conditions.  (Sem/Sat.v evaluates the bounds of a choice in the total interpretation only, as clingo
   does: `l { .. } u :- B` is `{ .. } :- B` plus the constraint `:- B, not l { .. } u`; so bounds and conditions
   play no role for supportedness.) *)
Inductive xhead : head -> Prop :=
| XH_gen h : gen_head h -> xhead h
| XH_choice lg es rg :
    (forall c, In c es -> exists n args e, fst c = Lit NoSign (ASym (TFun n args e))) ->
    xhead (HAgg lg es rg).

Definition atom_elemb (c: condlit) : bool :=
  match fst c with Lit NoSign (ASym (TFun _ _ _)) => true | _ => false end.
Definition xheadb (h: head) : bool :=
  orb (gen_headb h) (match h with HAgg _ es _ => forallb atom_elemb es | _ => false end).
Definition xstmtb (st: stmt) : bool := match st with SRule _ h _ => xheadb h | _ => true end.
Definition xprogb (P: program) : bool := forallb xstmtb P.

Lemma xheadb_spec h : xheadb h = true -> xhead h.
Proof.
  unfold xheadb. intro B. apply orb_true_iff in B. destruct B as [B|B]; [apply XH_gen, gen_headb_spec; exact B|].
  destruct h as [l|es|lg es rg|lg f es rg|tx]; try discriminate. apply XH_choice.
  rewrite forallb_forall in B. intros c Hc. specialize (B c Hc). unfold atom_elemb in B.
  destruct c as [l cond]. simpl in *. destruct l as [sg a]. destruct sg; try discriminate.
  destruct a as [t|t gs|b| | |]; try discriminate. destruct t; try discriminate. eauto.
Qed.
Lemma xprogb_spec P : xprogb P = true -> forall line h b, In (SRule line h b) P -> xhead h.
Proof. unfold xprogb. rewrite forallb_forall. intros F line h b Hin. apply xheadb_spec. exact (F _ Hin). Qed.

Section Supported.
Variable sym_lt : sym -> sym -> Prop.
Notation lit_sat := (lit_sat sym_lt).
Notation lits_sat := (lits_sat sym_lt).
Notation body_sat := (body_sat sym_lt).
Notation head_sat := (head_sat sym_lt).
Notation prog_sat := (prog_sat sym_lt).
Notation choice_tuples := (choice_tuples sym_lt).

(* head h derives a under s; for a conditional choice element the condition must hold (in T) *)
Inductive derives_x (T: interp) (G: list string) (s: subst) : head -> gatom -> Prop :=
| DX_gen h a : head_derives G s h a -> derives_x T G s h a
| DX_choice lg es rg n args e cond th vs :
    In (Lit NoSign (ASym (TFun n args e)), cond) es -> agree_on G s th ->
    eval_list th args = Some vs -> lits_sat G T T th cond ->
    derives_x T G s (HAgg lg es rg) (n, vs).

Lemma derives_x_names T G s h n vs : derives_x T G s h (n, vs) -> In (n, List.length vs) (head_names h).
Proof.
  intros D. inversion D as [h0 a HD|lg es rg n0 args e cond th vs0 Hin Ag Ev Cs]; subst.
  - apply (head_derives_names G s). exact HD.
  - simpl. apply in_flat_map. exists (Lit NoSign (ASym (TFun n args e)), cond). split; [exact Hin|].
    unfold condlit_names. simpl. left. rewrite (ChainSem.eval_list_length _ _ _ Ev). reflexivity.
Qed.
Lemma derives_x_lit T G s l a : derives_x T G s (HLit l) a -> head_derives G s (HLit l) a.
Proof. intros D. inversion D; subst. assumption. Qed.

Theorem supported_x P I T a :
  (forall line h b, In (SRule line h b) P -> xhead h) ->
  Sat.stable sym_lt P I T -> T a ->
  In a I \/
  exists line h b s, In (SRule line h b) P /\ derives_x T (gvars_rule h b) s h a /\
                     body_sat (gvars_rule h b) T T s b.
Proof.
  intros Frag [[PT FT] Min] Ta. apply NNPP. intro Hno.
  set (H := fun b : gatom => T b /\ b <> a).
  assert (S: subi H T) by (intros b [Tb _]; exact Tb).
  assert (Keep: forall line h b s x, In (SRule line h b) P -> body_sat (gvars_rule h b) T T s b ->
            derives_x T (gvars_rule h b) s h x -> T x -> H x).
  { intros line h b s x Hin B D Tx. split; [exact Tx|]. intros ->. apply Hno. right.
    exists line, h, b, s. split; [exact Hin|]. split; assumption. }
  assert (PS: prog_sat H T P).
  { intros st Hin. destruct st as [line h b| | | |]; try exact Logic.I.
    pose proof (PT _ Hin) as RT. simpl in RT. simpl. intros s. destruct (RT s) as [_ RTs]. split; [|exact RTs].
    intros BH. pose proof (body_sat_persist sym_lt _ _ _ _ _ S BH) as BT. specialize (RTs BT).
    pose proof (Frag _ _ _ Hin) as XH. set (G := gvars_rule h b) in *.
    inversion XH as [h0 GH E|lg es rg Simple E]; subst h.
    - inversion GH as [n args e E|sg c E|lg es rg Simple E]; subst h0.
      + change (lit_sat G H T s (Lit NoSign (ASym (TFun n args e)))).
        change (lit_sat G T T s (Lit NoSign (ASym (TFun n args e)))) in RTs.
        apply lit_sat_fun in RTs. destruct RTs as [vs [Ev Tv]]. simpl in Tv.
        apply lit_sat_fun. exists vs. split; [exact Ev|]. simpl.
        apply (Keep line _ b s (n, vs) Hin BT); [apply DX_gen; constructor; exact Ev | exact Tv].
      + change (lit_sat G H T s (Lit sg (ABool c))). change (lit_sat G T T s (Lit sg (ABool c))) in RTs.
        rewrite lit_sat_bool in *. exact RTs.
      + simpl in RTs. destruct RTs as [_ AT]. simpl. split; [|exact AT].
        intros c th Hc Ag _. destruct (Simple c Hc) as [n [args [e ->]]]. simpl fst.
        destruct (classic (lit_sat G T T th (Lit NoSign (ASym (TFun n args e))))) as [Y|N]; [left|right; exact N].
        apply lit_sat_fun in Y. destruct Y as [vs [Ev Tv]]. simpl in Tv.
        apply lit_sat_fun. exists vs. split; [exact Ev|]. simpl.
        apply (Keep line _ b s (n, vs) Hin BT); [|exact Tv].
        apply DX_gen. eapply HD_choice; eauto.
    - (* a choice with arbitrary bounds and conditions: the bounds are evaluated in T only *)
      simpl in RTs. destruct RTs as [_ AT']. simpl. split; [|exact AT'].
      intros c th Hc Ag Cs. destruct (Simple c Hc) as [n [args [e Ec]]].
      destruct c as [l0 cond]. simpl in Ec, Cs. subst l0. simpl fst.
      destruct (classic (lit_sat G T T th (Lit NoSign (ASym (TFun n args e))))) as [Y|N]; [left|right; exact N].
      apply lit_sat_fun in Y. destruct Y as [vs [Ev Tv]]. simpl in Tv.
      apply lit_sat_fun. exists vs. split; [exact Ev|]. simpl.
      apply (Keep line _ b s (n, vs) Hin BT); [|exact Tv].
      eapply DX_choice; eauto. eapply CleanupSpec.lits_sat_persist_proof; [exact S|exact Cs]. }
  assert (FH: facts_sat H I).
  { intros x Hx. split; [apply FT; exact Hx|]. intros ->. apply Hno. left. exact Hx. }
  destruct (Min H S PS FH a Ta) as [_ Ne]. apply Ne. reflexivity.
Qed.
End Supported.

(* ================================================================================================ *)
(* 2b. min / next on the larger fragment, the chain rules, chain_meaning                            *)
(* ================================================================================================ *)
(* every rule head of P is in the fragment *)
Definition xfrag (P: program) : Prop := forall line h b, In (SRule line h b) P -> xhead h.
Lemma xfrag_of_b P : xprogb P = true -> xfrag P.
Proof. intro B. exact (xprogb_spec P B). Qed.

Section GroupedX.
Variable sym_lt : sym -> sym -> Prop.
Notation lit_sat := (lit_sat sym_lt).
Notation body_sat := (body_sat sym_lt).
Notation stmt_sat := (stmt_sat sym_lt).
Variable gs : list string.
Hypothesis gs_nodup : NoDup gs.
Hypothesis gs_fresh : forall x, In x gs -> ~ In x reserved.
Notation atg := (atg gs).
Notation k1 := (k1 gs).
Notation k2 := (k2 gs).

Lemma len_k1 (g: list sym) v : List.length g = List.length gs -> List.length (g ++ [v]) = k1.
Proof. intro L. rewrite app_length. unfold ChainSemGrouped.k1. rewrite L. reflexivity. Qed.
Lemma len_k2 (g: list sym) p n : List.length g = List.length gs -> List.length (g ++ [p; n]) = k2.
Proof. intro L. rewrite app_length. unfold ChainSemGrouped.k2. rewrite L. reflexivity. Qed.

(* ---- ChainSemGrouped.min_rule_meaning_g / next_rules_meaning_g / next_pred_meaning_g with supported_x ---- *)
Theorem min_rule_meaning_x dom mn P I T :
  sym_order sym_lt ->
  (forall line h b, In (SRule line h b) P -> xhead h) ->
  In (min_rule_g gs dom mn) P ->
  (forall line h b, In (SRule line h b) P -> In (mn, k1) (head_names h) -> SRule line h b = min_rule_g gs dom mn) ->
  (forall vs, List.length vs = k1 -> ~ In (mn, vs) I) ->
  Sat.stable sym_lt P I T ->
  forall g, List.length g = List.length gs ->
  forall v, T (mn, g ++ [v]) <-> least_in_g sym_lt T dom g v.
Proof.
  intros Ord Frag Hm Only NoF St g L v. pose proof St as [[PT _] _].
  pose proof (len_k1 g v L) as Len1.
  split.
  - intros Tv.
    destruct (supported_x sym_lt P I T (mn, g ++ [v]) Frag St Tv) as [Hin|[line [h [b [s [Hin [HD Bd]]]]]]].
    + exfalso. exact (NoF _ Len1 Hin).
    + pose proof (derives_x_names _ _ _ _ _ _ _ HD) as Hn. rewrite Len1 in Hn.
      pose proof (Only line h b Hin Hn) as E. injection E as _ -> ->.
      apply derives_x_lit in HD.
      rewrite (gvars_min_g gs) in HD, Bd. destruct (derives_atg _ _ _ _ _ _ _ L HD) as [Eg Ev].
      simpl in Ev. injection Ev as <-.
      apply (min_body_g_sat sym_lt gs gs_fresh T T s dom (subi_refl T)) in Bd. rewrite Eg in Bd. exact (proj1 Bd).
  - intros Lst. pose proof (PT _ Hm) as R. unfold min_rule_g in R. simpl in R. rewrite (gvars_min_g gs) in R.
    set (s := mk_subst gs g v v v). destruct (R s) as [_ R2].
    assert (Eg: map s gs = g) by (apply mk_subst_gs; assumption).
    assert (EX: s "X" = v).
    { apply mk_subst_other; try discriminate. apply (gs_not gs gs_fresh). unfold reserved. simpl. auto 10. }
    assert (EU: s "_" = v).
    { apply mk_subst_other; try discriminate. apply (gs_not gs gs_fresh). unfold reserved. simpl. auto 10. }
    assert (Bd: body_sat (G_min_g gs) T T s (min_body_g gs dom)).
    { apply (min_body_g_sat sym_lt gs gs_fresh T T s dom (subi_refl T)). rewrite Eg, EX, EU.
      split; [exact Lst|]. split; [exact Lst|exact (proj1 Lst)]. }
    apply R2 in Bd. change (lit_sat (G_min_g gs) T T s (atg NoSign mn ["X"])) in Bd.
    apply atg_sat in Bd. rewrite Eg in Bd. simpl in Bd. rewrite EX in Bd. exact Bd.
Qed.

Theorem next_rules_meaning_x dom mn nx P I T :
  sym_order sym_lt ->
  (forall line h b, In (SRule line h b) P -> xhead h) ->
  In (next_rule_base_g gs dom mn nx) P -> In (next_rule_step_g gs dom nx) P ->
  (forall line h b, In (SRule line h b) P -> In (nx, k2) (head_names h) ->
     SRule line h b = next_rule_base_g gs dom mn nx \/ SRule line h b = next_rule_step_g gs dom nx) ->
  (forall vs, List.length vs = k2 -> ~ In (nx, vs) I) ->
  Sat.stable sym_lt P I T ->
  forall g, List.length g = List.length gs ->
  (forall v, T (mn, g ++ [v]) <-> least_in_g sym_lt T dom g v) ->
  forall D, StronglySorted sym_lt D -> (forall v, T (dom, g ++ [v]) <-> In v D) ->
  forall p n, T (nx, g ++ [p; n]) <-> Chain.consecutive sym D p n.
Proof.
  intros Ord Frag Hb Hs Only NoF St g L Mn D SD DomD.
  pose proof St as [[PT _] _].
  assert (NB: forall p n, (forall b, In b D -> sym_lt p b -> sym_lt b n -> False) <-> no_between_g sym_lt T dom g p n).
  { intros p n. split; intros X b Hb'; apply X; apply DomD; exact Hb'. }
  apply (Chain.next_exact sym sym_lt (lt_irrefl _ Ord) (lt_trans _ Ord) D SD (fun p n => T (nx, g ++ [p; n]))).
  - intros p n Stp Hn Lt Nb. apply NB in Nb. apply DomD in Hn. destruct Stp as [Hh|[q Nq]].
    + apply (base_closed_g sym_lt gs gs_nodup gs_fresh T dom mn nx (PT _ Hb) g p n L); try assumption.
      apply Mn. destruct (head_is_least sym_lt D p SD Hh) as [Hp Least]. split; [apply DomD; exact Hp|].
      intros w Tw. apply Least. apply DomD. exact Tw.
    + exact (step_closed_g sym_lt gs gs_nodup gs_fresh T dom nx (PT _ Hs) g q p n L Nq Hn Lt Nb).
  - intros p n Tpn. pose proof (len_k2 g p n L) as Len2.
    destruct (supported_x sym_lt P I T (nx, g ++ [p; n]) Frag St Tpn) as [Hin|[line [h [b [s [Hin [HD Bd]]]]]]].
    + exfalso. exact (NoF _ Len2 Hin).
    + pose proof (derives_x_names _ _ _ _ _ _ _ HD) as Hn. rewrite Len2 in Hn.
      destruct (Only line h b Hin Hn) as [E|E]; injection E as _ -> ->; apply derives_x_lit in HD.
      * rewrite (gvars_base_g gs) in HD, Bd. destruct (derives_atg _ _ _ _ _ _ _ L HD) as [Eg Ev].
        simpl in Ev. injection Ev as <- <-.
        apply (base_body_g_sat sym_lt gs gs_fresh T T s dom mn (subi_refl T)) in Bd. rewrite Eg in Bd.
        destruct Bd as [A [B [C Dn]]].
        apply Mn in A. destruct A as [Tp Least]. split; [|split; [|split]].
        -- left. apply (least_is_head sym_lt Ord D _ SD); [apply DomD; exact Tp|].
           intros w Hw. apply Least. apply DomD. exact Hw.
        -- apply DomD. exact B.
        -- exact C.
        -- apply NB. exact Dn.
      * rewrite (gvars_step_g gs) in HD, Bd. destruct (derives_atg _ _ _ _ _ _ _ L HD) as [Eg Ev].
        simpl in Ev. injection Ev as <- <-.
        apply (step_body_g_sat sym_lt gs gs_fresh T T s dom nx (subi_refl T)) in Bd. rewrite Eg in Bd.
        destruct Bd as [A [B [C Dn]]].
        split; [|split; [|split]].
        -- right. exists (s "_"). exact A.
        -- apply DomD. exact B.
        -- exact C.
        -- apply NB. exact Dn.
Qed.

(* ---- the chain rules (create_chain_pred_for_annotated_pred with maximum = True) ---- *)
Definition chain_base_body (p: string) : list bodyelem := [BLit (atg NoSign p ["P"])].
Definition chain_step_body (ch nx: string) : list bodyelem := [BLit (atg NoSign ch ["N"]); BLit (atg NoSign nx ["P"; "N"])].
(* ch(Gs,P) :- p(Gs,P). *)
Definition chain_rule_base_g (p ch: string) : stmt := SRule 1 (HLit (atg NoSign ch ["P"])) (chain_base_body p).
(* ch(Gs,P) :- ch(Gs,N); nx(Gs,P,N). *)
Definition chain_rule_step_g (ch nx: string) : stmt := SRule 1 (HLit (atg NoSign ch ["P"])) (chain_step_body ch nx).

Lemma chain_base_body_sat G H T s p : body_sat G H T s (chain_base_body p) <-> H (p, map s gs ++ [s "P"]).
Proof.
  unfold chain_base_body, Sat.body_sat. split.
  - intros F. inversion F as [|? ? A _]; subst. exact (proj1 (atg_sat sym_lt gs G H T s NoSign p ["P"]) A).
  - intros A. constructor; [|constructor]. exact (proj2 (atg_sat sym_lt gs G H T s NoSign p ["P"]) A).
Qed.
Lemma chain_step_body_sat G H T s ch nx :
  body_sat G H T s (chain_step_body ch nx) <-> H (ch, map s gs ++ [s "N"]) /\ H (nx, map s gs ++ [s "P"; s "N"]).
Proof.
  unfold chain_step_body, Sat.body_sat. split.
  - intros F. inversion F as [|? ? A F1]; subst. inversion F1 as [|? ? B _]; subst. split.
    + exact (proj1 (atg_sat sym_lt gs G H T s NoSign ch ["N"]) A).
    + exact (proj1 (atg_sat sym_lt gs G H T s NoSign nx ["P"; "N"]) B).
  - intros [A B]. constructor; [|constructor; [|constructor]].
    + exact (proj2 (atg_sat sym_lt gs G H T s NoSign ch ["N"]) A).
    + exact (proj2 (atg_sat sym_lt gs G H T s NoSign nx ["P"; "N"]) B).
Qed.

Lemma chain_base_closed T p ch : stmt_sat T T (chain_rule_base_g p ch) ->
  forall g v, List.length g = List.length gs -> T (p, g ++ [v]) -> T (ch, g ++ [v]).
Proof.
  unfold chain_rule_base_g. intros R g v L A. unfold Sat.stmt_sat in R.
  set (G := gvars_rule (HLit (atg NoSign ch ["P"])) (chain_base_body p)) in R.
  set (s := mk_subst gs g v v v). destruct (R s) as [_ R2].
  assert (Eg: map s gs = g) by (apply mk_subst_gs; assumption).
  assert (EP: s "P" = v) by reflexivity.
  assert (Bd: body_sat G T T s (chain_base_body p)) by (apply chain_base_body_sat; rewrite Eg, EP; exact A).
  apply R2 in Bd. change (lit_sat G T T s (atg NoSign ch ["P"])) in Bd.
  apply atg_sat in Bd. rewrite Eg in Bd. simpl in Bd. exact Bd.
Qed.
Lemma chain_step_closed T ch nx : stmt_sat T T (chain_rule_step_g ch nx) ->
  forall g p n, List.length g = List.length gs -> T (ch, g ++ [n]) -> T (nx, g ++ [p; n]) -> T (ch, g ++ [p]).
Proof.
  unfold chain_rule_step_g. intros R g p n L A B. unfold Sat.stmt_sat in R.
  set (G := gvars_rule (HLit (atg NoSign ch ["P"])) (chain_step_body ch nx)) in R.
  set (s := mk_subst gs g p n n). destruct (R s) as [_ R2].
  assert (Eg: map s gs = g) by (apply mk_subst_gs; assumption).
  assert (EP: s "P" = p) by reflexivity.
  assert (EN: s "N" = n) by reflexivity.
  assert (Bd: body_sat G T T s (chain_step_body ch nx)).
  { apply chain_step_body_sat. rewrite Eg, EP, EN. split; assumption. }
  apply R2 in Bd. change (lit_sat G T T s (atg NoSign ch ["P"])) in Bd.
  apply atg_sat in Bd. rewrite Eg in Bd. simpl in Bd. exact Bd.
Qed.

(* chain_meaning.  Hypotheses:
   - sym_lt is a strict total order; rule heads of P in the fragment xhead;
   - the two chain rules are in P and are the only rules with ch/(k+1) in the head; no ch-facts in I;
   - for the group g: D is the sorted extension of dom(g,.), nx(g,.,.) is its successor relation
     (next_pred_meaning_x), and p(g,.) is contained in dom(g,.)  (the domain over-approximates).
   The at-most-one property of p is NOT needed here: the chain is the down-closure of ALL values of p(g,.). *)
Theorem chain_meaning p ch nx P I T :
  sym_order sym_lt ->
  (forall line h b, In (SRule line h b) P -> xhead h) ->
  In (chain_rule_base_g p ch) P -> In (chain_rule_step_g ch nx) P ->
  (forall line h b, In (SRule line h b) P -> In (ch, k1) (head_names h) ->
     SRule line h b = chain_rule_base_g p ch \/ SRule line h b = chain_rule_step_g ch nx) ->
  (forall vs, List.length vs = k1 -> ~ In (ch, vs) I) ->
  Sat.stable sym_lt P I T ->
  forall g, List.length g = List.length gs ->
  forall D, StronglySorted sym_lt D ->
  (forall v, T (p, g ++ [v]) -> In v D) ->
  (forall a b, T (nx, g ++ [a; b]) <-> Chain.consecutive sym D a b) ->
  forall d, T (ch, g ++ [d]) <-> In d D /\ exists v, T (p, g ++ [v]) /\ (d = v \/ sym_lt d v).
Proof.
  intros Ord Frag Hb Hs Only NoF St g L D SD PD NX.
  pose proof St as [[PT _] _].
  apply (Chain.chain_max_meaning sym sym_lt (lt_irrefl _ Ord) (lt_trans _ Ord) D SD
           (fun v => T (p, g ++ [v])) (fun v => T (ch, g ++ [v]))).
  - exact PD.
  - intros v Tv. exact (chain_base_closed T p ch (PT _ Hb) g v L Tv).
  - intros a b Tb Cab. apply NX in Cab. exact (chain_step_closed T ch nx (PT _ Hs) g a b L Tb Cab).
  - intros v Tv. pose proof (len_k1 g v L) as Len1.
    destruct (supported_x sym_lt P I T (ch, g ++ [v]) Frag St Tv) as [Hin|[line [h [b [s [Hin [HD Bd]]]]]]].
    + exfalso. exact (NoF _ Len1 Hin).
    + pose proof (derives_x_names _ _ _ _ _ _ _ HD) as Hn. rewrite Len1 in Hn.
      destruct (Only line h b Hin Hn) as [E|E]; injection E as _ -> ->; apply derives_x_lit in HD;
        destruct (derives_atg _ _ _ _ _ _ _ L HD) as [Eg Ev]; simpl in Ev; injection Ev as <-.
      * left. apply chain_base_body_sat in Bd. rewrite Eg in Bd. exact Bd.
      * right. apply chain_step_body_sat in Bd. rewrite Eg in Bd. destruct Bd as [A B].
        exists (s "N"). split; [exact A|]. apply NX. exact B.
Qed.

(* ---- everything together: the domain rules of ChainSemGrouped and the chain rules ---- *)
Theorem chain_pred_meaning dom mn nx p ch P I T :
  sym_order sym_lt ->
  xfrag P ->
  In (min_rule_g gs dom mn) P -> In (next_rule_base_g gs dom mn nx) P -> In (next_rule_step_g gs dom nx) P ->
  In (chain_rule_base_g p ch) P -> In (chain_rule_step_g ch nx) P ->
  (forall line h b, In (SRule line h b) P -> In (mn, k1) (head_names h) -> SRule line h b = min_rule_g gs dom mn) ->
  (forall line h b, In (SRule line h b) P -> In (nx, k2) (head_names h) ->
     SRule line h b = next_rule_base_g gs dom mn nx \/ SRule line h b = next_rule_step_g gs dom nx) ->
  (forall line h b, In (SRule line h b) P -> In (ch, k1) (head_names h) ->
     SRule line h b = chain_rule_base_g p ch \/ SRule line h b = chain_rule_step_g ch nx) ->
  (forall vs, List.length vs = k1 -> ~ In (mn, vs) I) -> (forall vs, List.length vs = k2 -> ~ In (nx, vs) I) ->
  (forall vs, List.length vs = k1 -> ~ In (ch, vs) I) ->
  Sat.stable sym_lt P I T ->
  forall g, List.length g = List.length gs ->
  (exists l, forall v, T (dom, g ++ [v]) <-> In v l) ->          (* finitely many domain values in group g *)
  (forall v, T (p, g ++ [v]) -> T (dom, g ++ [v])) ->              (* the domain over-approximates p *)
  exists D, StronglySorted sym_lt D /\ (forall v, T (dom, g ++ [v]) <-> In v D) /\
    (forall v, T (mn, g ++ [v]) <-> hd_error D = Some v) /\
    (forall a b, T (nx, g ++ [a; b]) <-> Chain.consecutive sym D a b) /\
    (forall d, T (ch, g ++ [d]) <-> In d D /\ exists v, T (p, g ++ [v]) /\ (d = v \/ sym_lt d v)).
Proof.
  intros Ord Frag Hm Hb Hs Hcb Hcs OnlyM OnlyN OnlyC NoM NoN NoC St g L [l Fin] PDom.
  destruct (Ground.finite_enum l (fun v => In v l) (fun x X => X)) as [l' [ND E']].
  destruct (Count.sort_nodup sym sym_lt (lt_trans _ Ord) (lt_total _ Ord) l' ND) as [D [Pm SD]].
  assert (DomD: forall v, T (dom, g ++ [v]) <-> In v D).
  { intro v. rewrite Fin, <- E'. split; apply Permutation_in; [exact Pm|apply Permutation_sym; exact Pm]. }
  assert (FM: forall line h b, In (SRule line h b) P -> xhead h) by exact Frag.
  assert (FN: forall line h b, In (SRule line h b) P -> xhead h) by exact Frag.
  assert (FC: forall line h b, In (SRule line h b) P -> xhead h) by exact Frag.
  pose proof (min_rule_meaning_x dom mn P I T Ord FM Hm OnlyM NoM St g L) as Mn.
  pose proof (next_rules_meaning_x dom mn nx P I T Ord FN Hb Hs OnlyN NoN St g L Mn D SD DomD) as NX.
  exists D. split; [exact SD|]. split; [exact DomD|]. split; [|split; [exact NX|]].
  - intro v. rewrite Mn. split.
    + intros [Tv Least]. apply (least_is_head sym_lt Ord D v SD); [apply DomD; exact Tv|].
      intros w Hw. apply Least. apply DomD. exact Hw.
    + intros Hh. destruct (head_is_least sym_lt D v SD Hh) as [Hv Least]. split; [apply DomD; exact Hv|].
      intros w Tw. apply Least. apply DomD. exact Tw.
  - apply (chain_meaning p ch nx P I T Ord FC Hcb Hcs OnlyC NoC St g L D SD); [|exact NX].
    intros v Tv. apply DomD. apply PDom. exact Tv.
Qed.
End GroupedX.

(* ================================================================================================ *)
(* 3a. The sums, at the level of tuple sets                                                          *)
(* ================================================================================================ *)
Lemma sum_of_cons a l : sum_of (a :: l) = (weight a + sum_of l)%Z.
Proof. reflexivity. Qed.

Lemma enum_cons_union {A} (a: A) (L: list A) (S: A -> tupset) l :
  enumerates (fun tv => S a tv \/ exists b, In b L /\ S b tv) l ->
  enumerates (fun tv => exists b, In b (a :: L) /\ S b tv) l.
Proof.
  assert (TE: AggSem.tup_eq (fun tv => S a tv \/ exists b, In b L /\ S b tv) (fun tv => exists b, In b (a :: L) /\ S b tv)).
  { intro tv. split.
    - intros [Sa|[b [Hb Sb]]]; [exists a; split; [left; reflexivity|exact Sa] | exists b; split; [right; exact Hb|exact Sb]].
    - intros [b [[<-|Hb] Sb]]; [left; exact Sb | right; exists b; split; assumption]. }
  exact (proj1 (AggSem.enumerates_ext _ _ l TE)).
Qed.

(* finitely many disjoint parts, the sums of corresponding parts agree: the sums of the unions agree *)
Lemma union_sums {A} (L: list A) (S S': A -> tupset) :
  NoDup L ->
  (forall a b tv, In a L -> In b L -> S a tv -> S b tv -> a = b) ->
  (forall a b tv, In a L -> In b L -> S' a tv -> S' b tv -> a = b) ->
  (forall a, In a L -> exists l l', enumerates (S a) l /\ enumerates (S' a) l' /\ sum_of l = sum_of l') ->
  exists l l', enumerates (fun tv => exists a, In a L /\ S a tv) l /\
               enumerates (fun tv => exists a, In a L /\ S' a tv) l' /\ sum_of l = sum_of l'.
Proof.
  induction L as [|a L IH]; intros ND D1 D2 E.
  - exists [], []. split; [|split; [|reflexivity]]; (split; [apply NoDup_nil|]); intro tv;
      (split; [intros [] | intros [b [[] _]]]).
  - inversion ND as [|? ? Na ND']; subst.
    destruct IH as [l [l' [E1 [E2 Es]]]]; [exact ND'| | | |].
    { intros b c tv Hb Hc. apply D1; right; assumption. }
    { intros b c tv Hb Hc. apply D2; right; assumption. }
    { intros b Hb. apply E. right. exact Hb. }
    destruct (E a (or_introl eq_refl)) as [la [la' [Ea [Ea' Eas]]]].
    destruct (CostAlg.sum_disjoint_union_proof (S a) _ la l Ea E1) as [U1 S1].
    { intros tv Sa [b [Hb Sb]]. apply Na. rewrite (D1 a b tv (or_introl eq_refl) (or_intror Hb) Sa Sb). exact Hb. }
    destruct (CostAlg.sum_disjoint_union_proof (S' a) _ la' l' Ea' E2) as [U2 S2].
    { intros tv Sa [b [Hb Sb]]. apply Na. rewrite (D2 a b tv (or_introl eq_refl) (or_intror Hb) Sa Sb). exact Hb. }
    exists (la ++ l), (la' ++ l'). split; [|split; [|rewrite S1, S2, Eas, Es; reflexivity]].
    + apply enum_cons_union. exact U1.
    + apply enum_cons_union. exact U2.
Qed.

(* replace one part of a sum by another part with the same sum *)
Lemma swap_part_sum (S1 S2 O: tupset) l1 l2 l :
  enumerates S1 l1 -> enumerates S2 l2 -> sum_of l1 = sum_of l2 ->
  (forall tv, S1 tv -> O tv -> False) -> (forall tv, S2 tv -> O tv -> False) ->
  enumerates (fun tv => S1 tv \/ O tv) l ->
  exists l', enumerates (fun tv => S2 tv \/ O tv) l' /\ sum_of l' = sum_of l.
Proof.
  intros E1 E2 Es D1 D2 [ND M].
  destruct (Ground.finite_enum l O) as [lO [NDO MO]]; [intros tv Otv; apply M; right; exact Otv|].
  assert (EO: enumerates O lO) by (split; assumption).
  destruct (CostAlg.sum_disjoint_union_proof S1 O l1 lO E1 EO D1) as [U1 Sum1].
  destruct (CostAlg.sum_disjoint_union_proof S2 O l2 lO E2 EO D2) as [U2 Sum2].
  exists (l2 ++ lO). split; [exact U2|].
  rewrite (CostAlg.sum_enumeration_independent_proof _ l (l1 ++ lO) (conj ND M) U1). rewrite Sum1, Sum2, Es. reflexivity.
Qed.
Lemma swap_part (S1 S2 O: tupset) l1 l2 v :
  enumerates S1 l1 -> enumerates S2 l2 -> sum_of l1 = sum_of l2 ->
  (forall tv, S1 tv -> O tv -> False) -> (forall tv, S2 tv -> O tv -> False) ->
  (exists l, enumerates (fun tv => S1 tv \/ O tv) l /\ v = SNum (sum_of l)) ->
  exists l', enumerates (fun tv => S2 tv \/ O tv) l' /\ v = SNum (sum_of l').
Proof.
  intros E1 E2 Es D1 D2 [l [En V]].
  destruct (swap_part_sum S1 S2 O l1 l2 l E1 E2 Es D1 D2 En) as [l' [En' Sm]]. exists l'. split; [exact En'|].
  rewrite Sm. exact V.
Qed.

Lemma in_tail_has_pred (l: list Z) : forall a z, In z l -> exists x l1 l2, a :: l = l1 ++ x :: z :: l2.
Proof.
  induction l as [|b l IH]; intros a z Hz; [contradiction|]. destruct Hz as [<-|Hz].
  - exists a, [], l. reflexivity.
  - destruct (IH b z Hz) as [x [l1 [l2 E]]]. exists x, (a :: l1), l2. simpl. rewrite E. reflexivity.
Qed.

Section SumCore.
Variable T : interp.
Variables p ch nx : string.

(* the emitted tuples *)
Definition mk_step (g r: list sym) (x y: Z) : list sym := SNum (y - x) :: r ++ [SFun nx (g ++ [SNum x; SNum y]) true].
Definition mk_first (g r: list sym) (d: sym) : list sym := d :: r ++ [SFun nx (g ++ [d]) true].

(* tuple sets of one context: g = the group, r = the values of the other tuple terms *)
Definition orig (g r: list sym) : tupset := fun tv => exists v, T (p, g ++ [v]) /\ tv = v :: r.
(*  (L-__PREV), r, nx(g,__PREV,L) : ch(g,L), nx(g,__PREV,L)   -- the subtraction is defined on numbers only *)
Definition new1 (g r: list sym) : tupset := fun tv =>
  exists x y, T (ch, g ++ [SNum y]) /\ T (nx, g ++ [SNum x; SNum y]) /\ tv = mk_step g r x y.
(*  L, r, nx(g,L) : ch(g,L), not nx(g,_,L)    -- gringo: no predecessor at all *)
Definition new2 (g r: list sym) : tupset := fun tv =>
  exists n, T (ch, g ++ [n]) /\ (forall q, ~ T (nx, g ++ [q; n])) /\ tv = mk_first g r n.
Definition new (g r: list sym) : tupset := fun tv => new1 g r tv \/ new2 g r tv.

(* what chain_pred_meaning gives for a group whose domain DZ consists of integers and whose largest chosen value is m *)
Record group_sem (g: list sym) (DZ: list Z) (m: Z) : Prop := {
  gsem_sorted : StronglySorted Z.lt DZ;
  gsem_max : In m DZ;
  gsem_chain : forall d, T (ch, g ++ [d]) <-> exists z, d = SNum z /\ In z DZ /\ (z <= m)%Z;
  gsem_next : forall a b, T (nx, g ++ [a; b]) <-> exists x y, a = SNum x /\ b = SNum y /\ Chain.consecutive Z DZ x y
}.

Lemma mk_step_inj g r x y x' y' : mk_step g r x y = mk_step g r x' y' -> x = x' /\ y = y'.
Proof.
  unfold mk_step. intro E. injection E as _ E. apply app_inv_head in E. injection E as E. apply app_inv_head in E.
  injection E as -> ->. split; reflexivity.
Qed.
Lemma mk_first_step g r d x y : mk_first g r d <> mk_step g r x y.
Proof.
  unfold mk_first, mk_step. intro E. injection E as _ E. apply app_inv_head in E. injection E as E.
  apply (f_equal (@List.length sym)) in E. rewrite !app_length in E. simpl in E. lia.
Qed.

Fixpoint steps_l (g r: list sym) (m d: Z) (rest: list Z) : list (list sym) :=
  match rest with
  | [] => []
  | n :: rest' => (if Z.leb n m then [mk_step g r d n] else []) ++ steps_l g r m n rest'
  end.

Lemma steps_l_sum g r m rest : forall d, sum_of (steps_l g r m d rest) = Chain.steps (fun v => Z.leb v m) d rest.
Proof.
  induction rest as [|n rest IH]; intro d; [reflexivity|].
  simpl. rewrite CostAlg.sum_of_app, IH. destruct (Z.leb n m); [|reflexivity].
  rewrite sum_of_cons. unfold mk_step, sum_of. simpl. lia.
Qed.

Lemma steps_l_in g r m rest : forall d tv,
  In tv (steps_l g r m d rest) <->
  exists l1 x y l2, d :: rest = l1 ++ x :: y :: l2 /\ (y <= m)%Z /\ tv = mk_step g r x y.
Proof.
  induction rest as [|n rest IH]; intros d tv.
  - simpl. split; [intros []|]. intros [l1 [x [y [l2 [E _]]]]].
    apply (f_equal (@List.length Z)) in E. rewrite app_length in E. simpl in E. lia.
  - simpl. rewrite in_app_iff, IH. split.
    + intros [Hin|[l1 [x [y [l2 [E [Le Etv]]]]]]].
      * destruct (Z.leb_spec n m) as [Le|_]; [|contradiction]. destruct Hin as [<-|[]].
        exists [], d, n, rest. split; [reflexivity|]. split; [exact Le|reflexivity].
      * exists (d :: l1), x, y, l2. split; [simpl; rewrite E; reflexivity|]. split; assumption.
    + intros [l1 [x [y [l2 [E [Le Etv]]]]]]. destruct l1 as [|a l1].
      * simpl in E. injection E as <- <- <-. left. destruct (Z.leb_spec n m) as [_|Gt]; [left; symmetry; exact Etv|lia].
      * simpl in E. injection E as <- E. right. exists l1, x, y, l2. split; [exact E|]. split; assumption.
Qed.

Lemma steps_l_nodup g r m rest : forall d, StronglySorted Z.lt (d :: rest) -> NoDup (steps_l g r m d rest).
Proof.
  induction rest as [|n rest IH]; intros d S; [constructor|].
  inversion S as [|? ? S' F]; subst. simpl. destruct (Z.leb n m); [|apply IH; exact S'].
  simpl. constructor; [|apply IH; exact S'].
  intro Hin. apply steps_l_in in Hin. destruct Hin as [l1 [x [y [l2 [E [_ Etv]]]]]].
  apply mk_step_inj in Etv. destruct Etv as [_ <-].
  (* n occurs in the tail of n :: rest: impossible in a strictly sorted list *)
  inversion S' as [|? ? _ F']; subst. rewrite Forall_forall in F'.
  destruct l1 as [|a l1]; simpl in E.
  - injection E as _ E. specialize (F' n). rewrite E in F'. specialize (F' (or_introl eq_refl)). lia.
  - injection E as _ E. specialize (F' n). rewrite E in F'.
    assert (X: In n (l1 ++ x :: n :: l2)) by (apply in_or_app; right; right; left; reflexivity).
    specialize (F' X). lia.
Qed.

(* the chain tuples of one group sum up to the LARGEST chosen value (at-most-one is not used) *)
Theorem chain_sum_is_max g r DZ m : group_sem g DZ m ->
  exists l, enumerates (new g r) l /\ sum_of l = m.
Proof.
  intros [SD Hm CH NX]. destruct DZ as [|d1 rest]; [contradiction|].
  destruct (StronglySorted_inv SD) as [SD' F]. rewrite Forall_forall in F.
  assert (Le1: (d1 <= m)%Z) by (destruct Hm as [<-|Hm]; [lia|specialize (F m Hm); lia]).
  assert (N1: forall tv, new1 g r tv <-> In tv (steps_l g r m d1 rest)).
  { intro tv. rewrite steps_l_in. split.
    - intros [x [y [C [N E]]]]. apply CH in C. destruct C as [z [Ez [_ Le]]]. injection Ez as <-.
      apply NX in N. destruct N as [x' [y' [Ex [Ey [l1 [l2 Ed]]]]]]. injection Ex as <-. injection Ey as <-.
      exists l1, x, y, l2. split; [exact Ed|]. split; assumption.
    - intros [l1 [x [y [l2 [Ed [Le E]]]]]]. exists x, y. split; [|split; [|exact E]].
      + apply CH. exists y. split; [reflexivity|]. split; [|exact Le]. rewrite Ed. apply in_or_app. right. right. left. reflexivity.
      + apply NX. exists x, y. split; [reflexivity|]. split; [reflexivity|]. exists l1, l2. exact Ed. }
  assert (N2: forall tv, new2 g r tv <-> tv = mk_first g r (SNum d1)).
  { intro tv. split.
    - intros [n [C [NP E]]]. apply CH in C. destruct C as [z [-> [Hz _]]]. destruct Hz as [<-|Hz]; [exact E|].
      exfalso. destruct (in_tail_has_pred rest d1 z Hz) as [x [l1 [l2 Ed]]].
      apply (NP (SNum x)). apply NX. exists x, z. split; [reflexivity|]. split; [reflexivity|]. exists l1, l2. exact Ed.
    - intros ->. exists (SNum d1). split; [|split; [|reflexivity]].
      + apply CH. exists d1. split; [reflexivity|]. split; [left; reflexivity|exact Le1].
      + intros q N. apply NX in N. destruct N as [x [y [_ [Ey [l1 [l2 Ed]]]]]]. injection Ey as <-.
        destruct l1 as [|a l1]; simpl in Ed.
        * injection Ed as _ Ed. specialize (F d1). rewrite Ed in F. specialize (F (or_introl eq_refl)). lia.
        * injection Ed as _ Ed. specialize (F d1). rewrite Ed in F.
          assert (X: In d1 (l1 ++ x :: d1 :: l2)) by (apply in_or_app; right; right; left; reflexivity).
          specialize (F X). lia. }
  exists (mk_first g r (SNum d1) :: steps_l g r m d1 rest). split; [split|].
  - constructor; [|apply steps_l_nodup; exact SD].
    intro Hin. apply steps_l_in in Hin. destruct Hin as [_ [x [y [_ [_ [_ E]]]]]]. exact (mk_first_step _ _ _ _ _ E).
  - intro tv. unfold new. rewrite N1, N2. simpl. split; [intros [<-|Hin]; [right; reflexivity|left; exact Hin] | intros [Hin| ->]; [right; exact Hin|left; reflexivity]].
  - rewrite sum_of_cons, steps_l_sum. unfold mk_first. simpl weight.
    apply (Chain.telescoping_max rest d1 m SD Hm).
Qed.

Lemma new_empty g r : (forall d, ~ T (ch, g ++ [d])) -> forall tv, ~ new g r tv.
Proof. intros E tv [[x [y [C _]]]|[n [C _]]]; exact (E _ C). Qed.

(* 3 (per group): with at most one value per group, the original tuple and the chain tuples have the same sum *)
Theorem sum_chain_value g r DZ m :
  group_sem g DZ m -> T (p, g ++ [SNum m]) -> (forall v, T (p, g ++ [v]) -> v = SNum m) ->
  exists lo ln, enumerates (orig g r) lo /\ enumerates (new g r) ln /\ sum_of lo = sum_of ln /\ sum_of lo = m.
Proof.
  intros GS Tm AMO. destruct (chain_sum_is_max g r DZ m GS) as [ln [En Sn]].
  exists [SNum m :: r], ln. split; [|split; [exact En|]].
  - split; [constructor; [intros []|constructor]|]. intro tv. simpl. split.
    + intros [<-|[]]. exists (SNum m). split; [exact Tm|reflexivity].
    + intros [v [Tv ->]]. left. rewrite (AMO v Tv). reflexivity.
  - rewrite Sn. unfold sum_of. simpl. split; lia.
Qed.

(* #sum+ (the pass treats it like #sum): correct when no domain value is negative -- all weights are then >= 0.
   With a negative minimum it is wrong: Refutations.sumplus_negative_minimum_refuted. *)
Lemma sumplus_eq_sum l : (forall tv, In tv l -> (0 <= weight tv)%Z) -> sumplus_of l = sum_of l.
Proof.
  induction l as [|a l IH]; intro W; [reflexivity|].
  unfold sumplus_of, sum_of in *. simpl. rewrite IH; [|intros tv Htv; apply W; right; exact Htv].
  rewrite (Z.max_r 0 (weight a)); [reflexivity|]. apply W. left. reflexivity.
Qed.
Theorem sumplus_chain_value g r DZ m :
  group_sem g DZ m -> (forall z, In z DZ -> (0 <= z)%Z) ->
  T (p, g ++ [SNum m]) -> (forall v, T (p, g ++ [v]) -> v = SNum m) ->
  exists lo ln, enumerates (orig g r) lo /\ enumerates (new g r) ln /\ sumplus_of lo = sumplus_of ln.
Proof.
  intros GS Pos Tm AMO. destruct (sum_chain_value g r DZ m GS Tm AMO) as [lo [ln [Eo [En [Es _]]]]].
  exists lo, ln. split; [exact Eo|]. split; [exact En|].
  destruct GS as [SD Hm CH NX].
  rewrite (sumplus_eq_sum lo), (sumplus_eq_sum ln); [exact Es| |].
  - intros tv Htv. apply (proj2 En) in Htv. destruct Htv as [[x [y [_ [N ->]]]]|[n [C [_ ->]]]].
    + apply NX in N. destruct N as [x' [y' [Ex [Ey Cons]]]]. injection Ex as <-. injection Ey as <-.
      destruct (Chain.consecutive_facts Z Z.lt Z.lt_irrefl Z.lt_trans DZ SD x y Cons) as [_ [_ [L _]]].
      unfold mk_step. simpl. lia.
    + apply CH in C. destruct C as [z [-> [Hz _]]]. unfold mk_first. simpl. apply Pos. exact Hz.
  - intros tv Htv. apply (proj2 Eo) in Htv. destruct Htv as [v [Tv ->]]. rewrite (AMO v Tv). simpl. apply Pos. exact Hm.
Qed.

(* ---- all contexts of an aggregate element / objective ---- *)
Variable Ctx : list sym -> list sym -> Prop.
Definition Orig : tupset := fun tv => exists g r, Ctx g r /\ orig g r tv.
Definition New : tupset := fun tv => exists g r, Ctx g r /\ new g r tv.

(* a group with a chosen value: integer sorted domain, chain and next as they should be, exactly one value *)
Definition group_ok (g: list sym) : Prop :=
  (exists v, T (p, g ++ [v])) ->
  exists DZ m, group_sem g DZ m /\ T (p, g ++ [SNum m]) /\ forall v, T (p, g ++ [v]) -> v = SNum m.

Theorem sum_chain_value_all :
  (forall g r, Ctx g r -> group_ok g) ->
  (forall g r, Ctx g r -> (forall v, ~ T (p, g ++ [v])) -> forall d, ~ T (ch, g ++ [d])) ->   (* nothing chosen: no chain *)
  (forall g g' r, Ctx g r -> Ctx g' r -> g = g') ->                 (* the tuple terms determine the group *)
  (exists L, forall g r, Ctx g r -> (exists v, T (p, g ++ [v])) -> In (g, r) L) ->    (* finitely many *)
  exists lo ln, enumerates Orig lo /\ enumerates New ln /\ sum_of lo = sum_of ln.
Proof.
  intros GOK Emp Inj [L0 Fin].
  destruct (Ground.finite_enum L0 (fun a : list sym * list sym => Ctx (fst a) (snd a) /\ exists v, T (p, fst a ++ [v])))
    as [L [ND ML]]; [intros [g r] [C V]; exact (Fin g r C V)|].
  destruct (union_sums L (fun a => orig (fst a) (snd a)) (fun a => new (fst a) (snd a)) ND) as [lo [ln [Eo [En Es]]]].
  - intros [g r] [g' r'] tv Ha Hb [v [_ E1]] [v' [_ E2]]. simpl in *. rewrite E1 in E2. injection E2 as _ <-.
    apply ML in Ha. apply ML in Hb. simpl in *. rewrite (Inj g g' r (proj1 Ha) (proj1 Hb)). reflexivity.
  - intros [g r] [g' r'] tv Ha Hb N1 N2. simpl in *.
    assert (Er: r = r').
    { assert (Tl: forall gg rr, new gg rr tv -> exists w F, tv = w :: rr ++ [F]).
      { intros gg rr [[x [y [_ [_ E]]]]|[n [_ [_ E]]]]; rewrite E; unfold mk_step, mk_first; eauto. }
      destruct (Tl _ _ N1) as [w [F E1]]. destruct (Tl _ _ N2) as [w' [F' E2]]. rewrite E1 in E2.
      injection E2 as _ E2. apply app_inj_tail in E2. exact (proj1 E2). }
    subst r'. apply ML in Ha. apply ML in Hb. simpl in *. rewrite (Inj g g' r (proj1 Ha) (proj1 Hb)). reflexivity.
  - intros [g r] Ha. apply ML in Ha. simpl in Ha. destruct Ha as [C V].
    destruct (GOK g r C V) as [DZ [m [GS [Tm AMO]]]].
    destruct (sum_chain_value g r DZ m GS Tm AMO) as [lo [ln [Eo [En [Es _]]]]]. exists lo, ln. simpl. auto.
  - assert (TEo: AggSem.tup_eq (fun tv => exists a, In a L /\ orig (fst a) (snd a) tv) Orig).
    { intro tv. split.
      - intros [[g r] [Ha O]]. apply ML in Ha. exists g, r. split; [exact (proj1 Ha)|exact O].
      - intros [g [r [C O]]]. exists (g, r). split; [|exact O]. apply ML. split; [exact C|].
        destruct O as [v [Tv _]]. exists v. exact Tv. }
    assert (TEn: AggSem.tup_eq (fun tv => exists a, In a L /\ new (fst a) (snd a) tv) New).
    { intro tv. split.
      - intros [[g r] [Ha O]]. apply ML in Ha. exists g, r. split; [exact (proj1 Ha)|exact O].
      - intros [g [r [C N]]]. exists (g, r). split; [|exact N]. apply ML. split; [exact C|]. simpl.
        destruct (classic (exists v, T (p, g ++ [v]))) as [V|NV]; [exact V|]. exfalso.
        apply (new_empty g r) with (tv := tv); [|exact N].
        apply (Emp g r C). intros v Tv. apply NV. exists v. exact Tv. }
    exists lo, ln. split; [|split; [|exact Es]].
    + exact (proj1 (AggSem.enumerates_ext _ _ lo TEo) Eo).
    + exact (proj1 (AggSem.enumerates_ext _ _ ln TEn) En).
Qed.

(* 3 (whole aggregate): the other elements are unchanged and their tuples are different from ours *)
Theorem sum_chain_agg sym_lt (Others: tupset) :
  (forall g r, Ctx g r -> group_ok g) ->
  (forall g r, Ctx g r -> (forall v, ~ T (p, g ++ [v])) -> forall d, ~ T (ch, g ++ [d])) ->
  (forall g g' r, Ctx g r -> Ctx g' r -> g = g') ->
  (exists L, forall g r, Ctx g r -> (exists v, T (p, g ++ [v])) -> In (g, r) L) ->
  (forall tv, Orig tv -> Others tv -> False) -> (forall tv, New tv -> Others tv -> False) ->
  forall v, agg_value sym_lt FSum (fun tv => Orig tv \/ Others tv) v <->
            agg_value sym_lt FSum (fun tv => New tv \/ Others tv) v.
Proof.
  intros GOK Emp Inj Fin D1 D2 v.
  destruct (sum_chain_value_all GOK Emp Inj Fin) as [lo [ln [Eo [En Es]]]]. simpl. split.
  - apply (swap_part Orig New Others lo ln v Eo En Es D1 D2).
  - apply (swap_part New Orig Others ln lo v En Eo (eq_sym Es) D2 D1).
Qed.
End SumCore.

(* ---- from the meaning of the auxiliary predicates (chain_pred_meaning) to group_ok ---- *)
Section Bridge.
Variable sym_lt : sym -> sym -> Prop.
Hypothesis Ord : sym_order sym_lt.

Lemma numeric_list (D: list sym) : (forall v, In v D -> exists z, v = SNum z) -> exists DZ, D = map SNum DZ.
Proof.
  induction D as [|a D IH]; intro N; [exists []; reflexivity|].
  destruct (N a (or_introl eq_refl)) as [z ->]. destruct IH as [DZ ->]; [intros v Hv; apply N; right; exact Hv|].
  exists (z :: DZ). reflexivity.
Qed.
Lemma in_map_num z DZ : In (SNum z) (map SNum DZ) <-> In z DZ.
Proof.
  rewrite in_map_iff. split; [intros [x [E Hx]]; injection E as <-; exact Hx | intro Hz; exists z; split; [reflexivity|exact Hz]].
Qed.
Lemma sorted_map_num DZ : StronglySorted sym_lt (map SNum DZ) -> StronglySorted Z.lt DZ.
Proof.
  induction DZ as [|a DZ IH]; intro S; [constructor|]. simpl in S. destruct (StronglySorted_inv S) as [S' F].
  constructor; [apply IH; exact S'|]. rewrite Forall_forall in *. intros z Hz.
  apply (lt_num _ Ord). apply F. apply in_map_num. exact Hz.
Qed.
Lemma consecutive_map_num DZ a b :
  Chain.consecutive sym (map SNum DZ) a b <-> exists x y, a = SNum x /\ b = SNum y /\ Chain.consecutive Z DZ x y.
Proof.
  unfold Chain.consecutive. split.
  - intros [l1 [l2 E]]. apply map_eq_app in E. destruct E as [k1 [r [-> [_ E]]]].
    apply map_eq_cons in E. destruct E as [x [r' [-> [Ex E]]]].
    apply map_eq_cons in E. destruct E as [y [r'' [-> [Ey _]]]].
    exists x, y. split; [symmetry; exact Ex|]. split; [symmetry; exact Ey|]. exists k1, r''. reflexivity.
  - intros [x [y [-> [-> [l1 [l2 ->]]]]]]. exists (map SNum l1), (map SNum l2). rewrite map_app. reflexivity.
Qed.

Theorem group_ok_of_meaning (T: interp) p ch nx g D :
  StronglySorted sym_lt D ->
  (forall v, In v D -> exists z, v = SNum z) ->                       (* integer domain values *)
  (forall v, T (p, g ++ [v]) -> In v D) ->                            (* the domain over-approximates p *)
  (forall a b, T (nx, g ++ [a; b]) <-> Chain.consecutive sym D a b) ->
  (forall d, T (ch, g ++ [d]) <-> In d D /\ exists v, T (p, g ++ [v]) /\ (d = v \/ sym_lt d v)) ->
  (forall v v', T (p, g ++ [v]) -> T (p, g ++ [v']) -> v = v') ->    (* at most one value in group g *)
  group_ok T p ch nx g /\ ((forall v, ~ T (p, g ++ [v])) -> forall d, ~ T (ch, g ++ [d])).
Proof.
  intros SD Num PD NX CH AMO. split.
  - intros [v Tv]. destruct (numeric_list D Num) as [DZ ->].
    pose proof (PD v Tv) as Hv. apply in_map_iff in Hv. destruct Hv as [m [<- Hm]].
    exists DZ, m. split; [|split; [exact Tv|intros v' Tv'; exact (AMO _ _ Tv' Tv)]].
    split; [exact (sorted_map_num DZ SD)|exact Hm| |].
    + intro d. rewrite CH. split.
      * intros [Hd [v' [Tv' Le]]]. rewrite (AMO _ _ Tv' Tv) in Le. apply in_map_iff in Hd. destruct Hd as [z [<- Hz]].
        exists z. split; [reflexivity|]. split; [exact Hz|]. destruct Le as [E|L]; [injection E as ->; lia|].
        apply (lt_num _ Ord) in L. lia.
      * intros [z [-> [Hz Le]]]. split; [apply in_map_num; exact Hz|]. exists (SNum m). split; [exact Tv|].
        destruct (Z.eq_dec z m) as [->|Ne]; [left; reflexivity|right]. apply (lt_num _ Ord). lia.
    + intros a b. rewrite NX. apply consecutive_map_num.
  - intros NV d C. apply CH in C. destruct C as [_ [v [Tv _]]]. exact (NV v Tv).
Qed.
End Bridge.

(* ================================================================================================ *)
(* 3b. The emitted aggregate elements (Sem/Sat.v)                                                    *)
(* ================================================================================================ *)
Lemma eval_list_cons s t ts :
  eval_list s (t :: ts) = match eval s t, eval_list s ts with Some v, Some vs => Some (v :: vs) | _, _ => None end.
Proof. reflexivity. Qed.
Lemma eval_list_snoc s ts t :
  eval_list s (ts ++ [t]) = match eval_list s ts, eval s t with Some vs, Some v => Some (vs ++ [v]) | _, _ => None end.
Proof.
  induction ts as [|a ts IH]; simpl.
  - destruct (eval s t); reflexivity.
  - rewrite IH. destruct (eval s a); [|reflexivity]. destruct (eval_list s ts); [|reflexivity].
    destruct (eval s t); reflexivity.
Qed.
Lemma agree_on_upd G s th x v : ~ In x G -> agree_on G s th -> agree_on G s (upd th x v).
Proof.
  intros N A y Hy. unfold upd. destruct (String.eqb_spec y x) as [->|_]; [contradiction|apply A; exact Hy].
Qed.
Lemma upd_same th x v : upd th x v x = v.
Proof. unfold upd. rewrite String.eqb_refl. reflexivity. Qed.
Lemma upd_other th x v y : y <> x -> upd th x v y = th y.
Proof. intro N. unfold upd. destruct (String.eqb_spec y x); [contradiction|reflexivity]. Qed.
Lemma map_upd_notin th x v xs : ~ In x xs -> map (upd th x v) xs = map th xs.
Proof. intro N. apply map_ext_in. intros y Hy. apply upd_other. intros ->. contradiction. Qed.

Section Elements.
Variable sym_lt : sym -> sym -> Prop.
Notation lit_sat := (lit_sat sym_lt).
Notation lits_sat := (lits_sat sym_lt).
Notation elems_tuples := (AggSem.elems_tuples sym_lt).
Variable T : interp.
Variables p ch nx : string.
Variable gs : list string.          (* the group variables, as written in the element *)
Variables lv pv : string.           (* the value variable L and __PREV *)
Variable rs : list term.            (* the other tuple terms *)
Variable cs : list lit.             (* the other conditions *)
Variable G : list string.           (* the global variables of the enclosing statement *)
Notation atg := (atg gs).

(* x is local to the element and occurs only where the pass puts it *)
Definition fresh (x: string) : Prop :=
  ~ In x G /\ ~ In x gs /\ ~ In x (flat_map vars_term rs) /\ ~ In x (flat_map vars_lit cs).
Hypothesis lv_fresh : fresh lv.
Hypothesis pv_fresh : fresh pv.
Hypothesis lv_pv : lv <> pv.

Definition nx_term (xs: list string) : term := TFun nx (map TVar (gs ++ xs)) false.
(*  L, rs : cs, p(Gs,L)  *)
Definition orig_elem : belem := (TVar lv :: rs, cs ++ [atg NoSign p [lv]]).
(*  (L-__PREV), rs, nx(Gs,__PREV,L) : cs, ch(Gs,L), nx(Gs,__PREV,L)  *)
Definition elem_step : belem :=
  (TBin BMinus (TVar lv) (TVar pv) :: rs ++ [nx_term [pv; lv]], cs ++ [atg NoSign ch [lv]; atg NoSign nx [pv; lv]]).
(*  L, rs, nx(Gs,L) : cs, ch(Gs,L), <l>  *)
Definition elem_first (l: lit) : belem := (TVar lv :: rs ++ [nx_term [lv]], cs ++ [atg NoSign ch [lv]; l]).
(* as emitted:  not nx(Gs,_,L) *)
Definition elem_first_anon : belem := elem_first (atg Neg nx ["_"; lv]).
(* gringo's reading of the anonymous variable in a negative literal: not prj(Gs,L) with prj(Gs,L) :- nx(Gs,_,L). *)
Definition elem_first_proj (prj: string) : belem := elem_first (atg Neg prj [lv]).

(* the contexts of the element under the substitution s of the enclosing rule instance *)
Definition ctx (s: subst) (g r: list sym) : Prop :=
  exists th, agree_on G s th /\ map th gs = g /\ eval_list th rs = Some r /\ lits_sat G T T th cs.

Lemma fresh_upd x v s th : fresh x -> agree_on G s th ->
  agree_on G s (upd th x v) /\ map (upd th x v) gs = map th gs /\
  eval_list (upd th x v) rs = eval_list th rs /\ (lits_sat G T T (upd th x v) cs <-> lits_sat G T T th cs).
Proof.
  intros [FG [Fg [Fr Fc]]] A. split; [apply agree_on_upd; assumption|]. split; [apply map_upd_notin; exact Fg|]. split.
  - apply SubstSpec.eval_list_coincide. intros y Hy. apply upd_other. intros ->. contradiction.
  - apply SubstSpec.lits_sat_coincide. intros y Hy. apply upd_other. intros ->. contradiction.
Qed.

Lemma eval_nx_term th xs : eval th (nx_term xs) = Some (SFun nx (map th gs ++ map th xs) true).
Proof. unfold nx_term. rewrite eval_fun, eval_list_vars, map_app. reflexivity. Qed.
Lemma eval_minus th :
  eval th (TBin BMinus (TVar lv) (TVar pv)) =
  match th lv, th pv with SNum a, SNum b => Some (SNum (a - b)) | _, _ => None end.
Proof. simpl. destruct (th lv); try reflexivity; destruct (th pv); reflexivity. Qed.

Lemma orig_elem_tuples s tv :
  elems_tuples G T T s [orig_elem] tv <-> exists g r v, ctx s g r /\ T (p, g ++ [v]) /\ tv = v :: r.
Proof.
  rewrite NormalizeSpec.elems_tuples_iff. split.
  - intros [e [[<-|[]] [th [Ag [Ev Cs]]]]]. unfold orig_elem in Ev, Cs. simpl fst in Ev. simpl snd in Cs.
    rewrite eval_list_cons in Ev. simpl eval in Ev. destruct (eval_list th rs) as [r|] eqn:Er; [|discriminate].
    injection Ev as <-. apply NormalizeSpec.lits_sat_app in Cs. destruct Cs as [C1 C2].
    apply NormalizeSpec.lits_sat_one in C2. apply atg_sat in C2. simpl in C2.
    exists (map th gs), r, (th lv). split; [exists th; auto|]. split; [exact C2|reflexivity].
  - intros [g [r [v [[th [Ag [Eg [Er Cs]]]] [Tp ->]]]]]. exists orig_elem. split; [left; reflexivity|].
    destruct (fresh_upd lv v s th lv_fresh Ag) as [Ag' [Eg' [Er' Cs']]].
    exists (upd th lv v). split; [exact Ag'|]. unfold orig_elem. simpl fst. simpl snd. split.
    + rewrite eval_list_cons. simpl eval. rewrite upd_same, Er', Er. reflexivity.
    + apply NormalizeSpec.lits_sat_app. split; [apply Cs'; exact Cs|]. apply NormalizeSpec.lits_sat_one.
      apply atg_sat. simpl. rewrite Eg', Eg, upd_same. exact Tp.
Qed.

Lemma elem_step_tuples s tv :
  elems_tuples G T T s [elem_step] tv <->
  exists g r x y, ctx s g r /\ T (ch, g ++ [SNum y]) /\ T (nx, g ++ [SNum x; SNum y]) /\ tv = mk_step nx g r x y.
Proof.
  rewrite NormalizeSpec.elems_tuples_iff. split.
  - intros [e [[<-|[]] [th [Ag [Ev Cs]]]]]. unfold elem_step in Ev, Cs. simpl fst in Ev. simpl snd in Cs.
    rewrite eval_list_cons, eval_minus, eval_list_snoc, eval_nx_term in Ev.
    destruct (th lv) as [|y| | |] eqn:Elv; try discriminate Ev. destruct (th pv) as [|x| | |] eqn:Epv; try discriminate Ev.
    destruct (eval_list th rs) as [r|] eqn:Er; [|discriminate]. injection Ev as <-.
    apply NormalizeSpec.lits_sat_app in Cs. destruct Cs as [C1 C2].
    apply NormalizeSem.lits_sat_cons in C2. destruct C2 as [C2 C3]. apply NormalizeSpec.lits_sat_one in C3.
    apply atg_sat in C2. apply atg_sat in C3. simpl in C2, C3. rewrite Elv in C2. rewrite Elv, Epv in C3.
    exists (map th gs), r, x, y. split; [exists th; auto|]. split; [exact C2|]. split; [exact C3|].
    unfold mk_step. simpl. rewrite Elv, Epv. reflexivity.
  - intros [g [r [x [y [[th [Ag [Eg [Er Cs]]]] [Tc [Tn ->]]]]]]]. exists elem_step. split; [left; reflexivity|].
    destruct (fresh_upd lv (SNum y) s th lv_fresh Ag) as [Ag1 [Eg1 [Er1 Cs1]]].
    destruct (fresh_upd pv (SNum x) s _ pv_fresh Ag1) as [Ag2 [Eg2 [Er2 Cs2]]].
    set (th' := upd (upd th lv (SNum y)) pv (SNum x)) in *.
    assert (Elv: th' lv = SNum y) by (unfold th'; rewrite upd_other by exact lv_pv; apply upd_same).
    assert (Epv: th' pv = SNum x) by (unfold th'; apply upd_same).
    assert (Eg': map th' gs = g) by (rewrite Eg2, Eg1; exact Eg).
    exists th'. split; [exact Ag2|]. unfold elem_step. simpl fst. simpl snd. split.
    + rewrite eval_list_cons, eval_minus, eval_list_snoc, eval_nx_term, Elv, Epv, Er2, Er1, Er.
      unfold mk_step. simpl. rewrite Eg', Elv, Epv. reflexivity.
    + apply NormalizeSpec.lits_sat_app. split; [apply Cs2; apply Cs1; exact Cs|].
      apply NormalizeSem.lits_sat_cons. split; [|apply NormalizeSpec.lits_sat_one]; apply atg_sat; simpl;
        rewrite Eg', ?Elv, ?Epv; assumption.
Qed.

(* the element for the minimum, for any last literal l whose truth is a property Q of the group and the value *)
Lemma elem_first_tuples (l: lit) (Q: list sym -> sym -> Prop) s tv :
  (forall th, lit_sat G T T th l <-> Q (map th gs) (th lv)) ->
  (elems_tuples G T T s [elem_first l] tv <->
   exists g r n, ctx s g r /\ T (ch, g ++ [n]) /\ Q g n /\ tv = mk_first nx g r n).
Proof.
  intro HQ. rewrite NormalizeSpec.elems_tuples_iff. split.
  - intros [e [[<-|[]] [th [Ag [Ev Cs]]]]]. unfold elem_first in Ev, Cs. simpl fst in Ev. simpl snd in Cs.
    rewrite eval_list_cons, eval_list_snoc, eval_nx_term in Ev. simpl eval in Ev.
    destruct (eval_list th rs) as [r|] eqn:Er; [|discriminate]. injection Ev as <-.
    apply NormalizeSpec.lits_sat_app in Cs. destruct Cs as [C1 C2].
    apply NormalizeSem.lits_sat_cons in C2. destruct C2 as [C2 C3]. apply NormalizeSpec.lits_sat_one in C3.
    apply atg_sat in C2. simpl in C2. apply HQ in C3.
    exists (map th gs), r, (th lv). split; [exists th; auto|]. split; [exact C2|]. split; [exact C3|reflexivity].
  - intros [g [r [n [[th [Ag [Eg [Er Cs]]]] [Tc [Qn ->]]]]]]. exists (elem_first l). split; [left; reflexivity|].
    destruct (fresh_upd lv n s th lv_fresh Ag) as [Ag1 [Eg1 [Er1 Cs1]]].
    exists (upd th lv n). split; [exact Ag1|]. unfold elem_first. simpl fst. simpl snd. split.
    + rewrite eval_list_cons, eval_list_snoc, eval_nx_term. simpl eval. rewrite upd_same, Er1, Er.
      unfold mk_first. simpl. rewrite Eg1, Eg, upd_same. reflexivity.
    + apply NormalizeSpec.lits_sat_app. split; [apply Cs1; exact Cs|].
      apply NormalizeSem.lits_sat_cons. split; [|apply NormalizeSpec.lits_sat_one].
      * apply atg_sat. simpl. rewrite Eg1, Eg, upd_same. exact Tc.
      * apply HQ. rewrite Eg1, Eg, upd_same. exact Qn.
Qed.

Lemma elem_first_proj_tuples prj s tv :
  elems_tuples G T T s [elem_first_proj prj] tv <->
  exists g r n, ctx s g r /\ T (ch, g ++ [n]) /\ ~ T (prj, g ++ [n]) /\ tv = mk_first nx g r n.
Proof.
  apply (elem_first_tuples (atg Neg prj [lv]) (fun g n => ~ T (prj, g ++ [n]))).
  intro th. rewrite atg_sat. simpl. tauto.
Qed.

(* The emitted element  L, rs, nx(Gs,L) : cs, ch(Gs,L), not nx(Gs,_,L).
   Sem/Sat.v reads "_" as an ordinary (here: local) variable, so the negative literal only says that SOME value is
   not a predecessor, which is always true: in that reading every chain value contributes, not only the minimum.
   gringo reads an anonymous variable in a negative literal as a projection (elem_first_proj); this is the
   reading used in sum_chain_elems.  (Same artefact of Sem/Sat.v as ProjectionSem.Example.) *)
Lemma elem_first_anon_tuples s tv : fresh "_" -> lv <> "_" ->
  (elems_tuples G T T s [elem_first_anon] tv <->
   exists g r n q, ctx s g r /\ T (ch, g ++ [n]) /\ ~ T (nx, g ++ [q; n]) /\ tv = mk_first nx g r n).
Proof.
  intros AF NA. rewrite NormalizeSpec.elems_tuples_iff. split.
  - intros [e [[<-|[]] [th [Ag [Ev Cs]]]]]. unfold elem_first_anon, elem_first in Ev, Cs. simpl fst in Ev. simpl snd in Cs.
    rewrite eval_list_cons, eval_list_snoc, eval_nx_term in Ev. simpl eval in Ev.
    destruct (eval_list th rs) as [r|] eqn:Er; [|discriminate]. injection Ev as <-.
    apply NormalizeSpec.lits_sat_app in Cs. destruct Cs as [C1 C2].
    apply NormalizeSem.lits_sat_cons in C2. destruct C2 as [C2 C3]. apply NormalizeSpec.lits_sat_one in C3.
    apply atg_sat in C2. apply atg_sat in C3. simpl in C2, C3.
    exists (map th gs), r, (th lv), (th "_"). split; [exists th; auto|]. split; [exact C2|]. split; [exact C3|reflexivity].
  - intros [g [r [n [q [[th [Ag [Eg [Er Cs]]]] [Tc [Qn ->]]]]]]]. exists elem_first_anon. split; [left; reflexivity|].
    destruct (fresh_upd lv n s th lv_fresh Ag) as [Ag1 [Eg1 [Er1 Cs1]]].
    destruct (fresh_upd "_" q s _ AF Ag1) as [Ag2 [Eg2 [Er2 Cs2]]].
    set (th' := upd (upd th lv n) "_" q) in *.
    assert (Elv: th' lv = n) by (unfold th'; rewrite upd_other by exact NA; apply upd_same).
    assert (Ean: th' "_" = q) by (unfold th'; apply upd_same).
    assert (Eg': map th' gs = g) by (rewrite Eg2, Eg1; exact Eg).
    exists th'. split; [exact Ag2|]. unfold elem_first_anon, elem_first. simpl fst. simpl snd. split.
    + rewrite eval_list_cons, eval_list_snoc, eval_nx_term. simpl eval. rewrite Elv, Er2, Er1, Er.
      unfold mk_first. simpl. rewrite Eg', Elv. reflexivity.
    + apply NormalizeSpec.lits_sat_app. split; [apply Cs2; apply Cs1; exact Cs|].
      apply NormalizeSem.lits_sat_cons. split; [|apply NormalizeSpec.lits_sat_one]; apply atg_sat; simpl;
        rewrite Eg', ?Elv, ?Ean; assumption.
Qed.
Corollary elem_first_anon_vacuous s tv : fresh "_" -> lv <> "_" -> (forall g n, ~ T (nx, g ++ [n; n])) ->
  (elems_tuples G T T s [elem_first_anon] tv <->
   exists g r n, ctx s g r /\ T (ch, g ++ [n]) /\ tv = mk_first nx g r n).
Proof.
  intros AF NA Irr. rewrite (elem_first_anon_tuples s tv AF NA). split.
  - intros [g [r [n [_ [C [A [_ E]]]]]]]. exists g, r, n. auto.
  - intros [g [r [n [C [A E]]]]]. exists g, r, n, n. split; [exact C|]. split; [exact A|]. split; [apply Irr|exact E].
Qed.

Lemma elems_tuples_cons X s e es tv :
  elems_tuples G X T s (e :: es) tv <-> elems_tuples G X T s [e] tv \/ elems_tuples G X T s es tv.
Proof. unfold AggSem.elems_tuples. simpl. tauto. Qed.

(* 3 (the aggregate, syntactically): the original element against the two emitted elements, the second one in
   gringo's reading; es = the other elements.  Everything is evaluated in the total interpretation T. *)
Theorem sum_chain_elems prj es s :
  (forall g r, ctx s g r -> group_ok T p ch nx g) ->
  (forall g r, ctx s g r -> (forall v, ~ T (p, g ++ [v])) -> forall d, ~ T (ch, g ++ [d])) ->
  (forall g g' r, ctx s g r -> ctx s g' r -> g = g') ->
  (exists L, forall g r, ctx s g r -> (exists v, T (p, g ++ [v])) -> In (g, r) L) ->
  (forall g r n, ctx s g r -> (T (prj, g ++ [n]) <-> exists q, T (nx, g ++ [q; n]))) ->
  (forall tv, elems_tuples G T T s [orig_elem] tv -> elems_tuples G T T s es tv -> False) ->
  (forall tv, elems_tuples G T T s [elem_step; elem_first_proj prj] tv -> elems_tuples G T T s es tv -> False) ->
  forall v, agg_value sym_lt FSum (elems_tuples G T T s (orig_elem :: es)) v <->
            agg_value sym_lt FSum (elems_tuples G T T s (elem_step :: elem_first_proj prj :: es)) v.
Proof.
  intros GOK Emp Inj Fin Prj D1 D2 v.
  assert (TO: AggSem.tup_eq (elems_tuples G T T s [orig_elem]) (Orig T p (ctx s))).
  { intro tv. rewrite orig_elem_tuples. unfold Orig, orig. split.
    - intros [g [r [w [C [Tw E]]]]]. exists g, r. split; [exact C|]. exists w. split; assumption.
    - intros [g [r [C [w [Tw E]]]]]. exists g, r, w. auto. }
  assert (TN: AggSem.tup_eq (elems_tuples G T T s [elem_step; elem_first_proj prj]) (New T ch nx (ctx s))).
  { intro tv. rewrite elems_tuples_cons, elem_step_tuples, elem_first_proj_tuples. unfold New, new, new1, new2. split.
    - intros [[g [r [x [y [C [A [B E]]]]]]]|[g [r [n [C [A [B E]]]]]]]; exists g, r; (split; [exact C|]).
      + left. exists x, y. auto.
      + right. exists n. split; [exact A|]. split; [|exact E]. intros q Tq. apply B. apply (Prj g r n C). exists q. exact Tq.
    - intros [g [r [C [[x [y [A [B E]]]]|[n [A [B E]]]]]]].
      + left. exists g, r, x, y. auto.
      + right. exists g, r, n. split; [exact C|]. split; [exact A|]. split; [|exact E].
        intro Tp. apply (Prj g r n C) in Tp. destruct Tp as [q Tq]. exact (B q Tq). }
  rewrite (AggSem.agg_value_ext sym_lt FSum _ (fun tv => Orig T p (ctx s) tv \/ elems_tuples G T T s es tv) v).
  2:{ intro tv. rewrite elems_tuples_cons, (TO tv). tauto. }
  rewrite (AggSem.agg_value_ext sym_lt FSum (elems_tuples G T T s (elem_step :: elem_first_proj prj :: es))
             (fun tv => New T ch nx (ctx s) tv \/ elems_tuples G T T s es tv) v).
  2:{ intro tv. rewrite <- (TN tv).
      rewrite (elems_tuples_cons T s elem_step (elem_first_proj prj :: es)), (elems_tuples_cons T s (elem_first_proj prj) es),
              (elems_tuples_cons T s elem_step [elem_first_proj prj]). tauto. }
  apply (sum_chain_agg T p ch nx (ctx s) sym_lt (elems_tuples G T T s es) GOK Emp Inj Fin).
  - intros tv O. apply D1. apply TO. exact O.
  - intros tv N. apply D2. apply TN. exact N.
Qed.

(* the group is determined by the tuple as soon as the group variables are among the tuple terms, e.g. in front *)
Lemma ctx_inj_prefix rs' s : rs = map TVar gs ++ rs' -> forall g g' r, ctx s g r -> ctx s g' r -> g = g'.
Proof.
  intros E g g' r [th [_ [Eg [Er _]]]] [th' [_ [Eg' [Er' _]]]]. rewrite E in Er, Er'.
  assert (X: forall t gg rr, map t gs = gg -> eval_list t (map TVar gs ++ rs') = Some rr -> firstn (List.length gs) rr = gg).
  { clear. intros t gg rr <-. generalize gs. intro xs. revert rr. induction xs as [|x xs IH]; intros rr Ev; [reflexivity|].
    simpl in Ev. destruct (eval_list t (map TVar xs ++ rs')) as [vs|] eqn:Ev'; [|discriminate]. injection Ev as <-.
    simpl. f_equal. apply IH. reflexivity. }
  rewrite <- (X th g r Eg Er). apply (X th' g' r Eg' Er').
Qed.
End Elements.

(* ================================================================================================ *)
(* 3c. Objectives (Sem/Cost.v): _replace_optimize                                                    *)
(* ================================================================================================ *)
Section Objective.
Variable sym_lt : sym -> sym -> Prop.
Notation lit_sat := (lit_sat sym_lt).
Notation lits_sat := (lits_sat sym_lt).
Notation body_sat := (body_sat sym_lt).
Notation cost_tuples := (cost_tuples sym_lt).
Notation cost_at := (cost_at sym_lt).
Variable T : interp.
Variables p ch nx : string.
Variable gs : list string.
Variables lv pv : string.
Variable pr : term.                 (* the priority *)
Variable ts : list term.            (* the other tuple terms *)
Variable cs : list lit.             (* the other body literals *)
Variable line : nat.
Notation atg := (atg gs).
Notation nx_term := (nx_term nx gs).

Hypothesis cs_simple : forallb Normalize.simple_lit_b cs = true.
Definition ofresh (x: string) : Prop :=
  ~ In x gs /\ ~ In x (vars_term pr) /\ ~ In x (flat_map vars_term ts) /\ ~ In x (flat_map vars_lit cs).
Hypothesis lv_fresh : ofresh lv.
Hypothesis pv_fresh : ofresh pv.
Hypothesis lv_pv : lv <> pv.

(*  :~ cs, p(Gs,L). [L@pr, ts]  *)
Definition obj_orig : stmt := SMin line (TVar lv) pr ts (map BLit (cs ++ [atg NoSign p [lv]])).
(*  :~ cs, ch(Gs,L), nx(Gs,__PREV,L). [(L-__PREV)@pr, ts, nx(Gs,__PREV,L)]  *)
Definition obj_step : stmt :=
  SMin line (TBin BMinus (TVar lv) (TVar pv)) pr (ts ++ [nx_term [pv; lv]])
       (map BLit (cs ++ [atg NoSign ch [lv]; atg NoSign nx [pv; lv]])).
(*  :~ cs, ch(Gs,L), <l>. [L@pr, ts, nx(Gs,L)]  *)
Definition obj_first (l: lit) : stmt :=
  SMin line (TVar lv) pr (ts ++ [nx_term [lv]]) (map BLit (cs ++ [atg NoSign ch [lv]; l])).
Definition obj_first_anon : stmt := obj_first (atg Neg nx ["_"; lv]).
Definition obj_first_proj (prj: string) : stmt := obj_first (atg Neg prj [lv]).

(* the contexts at priority level p0 *)
Definition octx (p0: Z) (g r: list sym) : Prop :=
  exists s, map s gs = g /\ eval_list s ts = Some r /\ eval s pr = Some (SNum p0) /\ lits_sat [] T T s cs.

Lemma cs_G G G' s : lits_sat G T T s cs <-> lits_sat G' T T s cs.
Proof.
  unfold Sat.lits_sat. rewrite !Forall_forall. pose proof (proj1 (forallb_forall _ _) cs_simple) as Sm.
  split; intros F l Hl.
  - apply (proj1 (SubstSpec.lit_sat_simple_G sym_lt G G' T T s l (Sm l Hl))). apply F. exact Hl.
  - apply (proj2 (SubstSpec.lit_sat_simple_G sym_lt G G' T T s l (Sm l Hl))). apply F. exact Hl.
Qed.

Lemma ofresh_upd x v s : ofresh x ->
  map (upd s x v) gs = map s gs /\ eval_list (upd s x v) ts = eval_list s ts /\ eval (upd s x v) pr = eval s pr /\
  (lits_sat [] T T (upd s x v) cs <-> lits_sat [] T T s cs).
Proof.
  intros [Fg [Fp [Ft Fc]]]. split; [apply map_upd_notin; exact Fg|]. split; [|split].
  - apply SubstSpec.eval_list_coincide. intros y Hy. apply upd_other. intros ->. contradiction.
  - apply SubstSpec.eval_coincide. intros y Hy. apply upd_other. intros ->. contradiction.
  - apply SubstSpec.lits_sat_coincide. intros y Hy. apply upd_other. intros ->. contradiction.
Qed.

Lemma cost_one st p0 tv :
  cost_tuples [st] T p0 tv <->
  exists ln w pr' ts' b s wz vs, st = SMin ln w pr' ts' b /\
    body_sat (vars_term w ++ vars_term pr' ++ flat_map vars_term ts' ++ flat_map gvars_bodyelem b) T T s b /\
    eval s w = Some (SNum wz) /\ eval s pr' = Some (SNum p0) /\ eval_list s ts' = Some vs /\ tv = SNum wz :: vs.
Proof.
  unfold Cost.cost_tuples. split.
  - intros [ln [w [pr' [ts' [b [s [wz [vs [[E|[]] R]]]]]]]]]. exists ln, w, pr', ts', b, s, wz, vs. split; [exact E|exact R].
  - intros [ln [w [pr' [ts' [b [s [wz [vs [E R]]]]]]]]]. exists ln, w, pr', ts', b, s, wz, vs. split; [left; exact E|exact R].
Qed.
Lemma cost_tuples_app A B p0 tv : cost_tuples (A ++ B) T p0 tv <-> cost_tuples A T p0 tv \/ cost_tuples B T p0 tv.
Proof.
  unfold Cost.cost_tuples. split.
  - intros [ln [w [pr' [ts' [b [s [wz [vs [Hin R]]]]]]]]]. apply in_app_or in Hin.
    destruct Hin as [Hin|Hin]; [left|right]; exists ln, w, pr', ts', b, s, wz, vs; (split; [exact Hin|exact R]).
  - intros [[ln [w [pr' [ts' [b [s [wz [vs [Hin R]]]]]]]]]|[ln [w [pr' [ts' [b [s [wz [vs [Hin R]]]]]]]]]];
      exists ln, w, pr', ts', b, s, wz, vs; (split; [apply in_or_app; auto|exact R]).
Qed.

Lemma obj_orig_tuples p0 tv :
  cost_tuples [obj_orig] T p0 tv <-> exists g r z, octx p0 g r /\ T (p, g ++ [SNum z]) /\ tv = SNum z :: r.
Proof.
  rewrite cost_one. split.
  - intros [ln [w [pr' [ts' [b [s [wz [vs [E [Bd [Ew [Ep [Et ->]]]]]]]]]]]]]. unfold obj_orig in E. injection E as <- <- <- <- <-.
    apply NormalizeSpec.body_sat_blits in Bd. apply NormalizeSpec.lits_sat_app in Bd. destruct Bd as [C1 C2].
    apply NormalizeSpec.lits_sat_one in C2. apply atg_sat in C2. simpl in C2, Ew. injection Ew as Ew. rewrite Ew in C2.
    exists (map s gs), vs, wz. split; [|split; [exact C2|reflexivity]].
    exists s. split; [reflexivity|]. split; [exact Et|]. split; [exact Ep|]. exact (proj1 (cs_G _ [] s) C1).
  - intros [g [r [z [[s [Eg [Et [Ep Cs]]]] [Tp ->]]]]].
    destruct (ofresh_upd lv (SNum z) s lv_fresh) as [Eg' [Et' [Ep' Cs']]].
    exists line, (TVar lv), pr, ts, (map BLit (cs ++ [atg NoSign p [lv]])), (upd s lv (SNum z)), z, r.
    split; [reflexivity|]. split; [|split; [simpl; rewrite upd_same; reflexivity|split; [rewrite Ep'; exact Ep|split; [rewrite Et'; exact Et|reflexivity]]]].
    apply NormalizeSpec.body_sat_blits. apply NormalizeSpec.lits_sat_app. split; [apply (proj1 (cs_G [] _ _)); apply Cs'; exact Cs|].
    apply NormalizeSpec.lits_sat_one. apply atg_sat. simpl. rewrite Eg', Eg, upd_same. exact Tp.
Qed.

Lemma obj_step_tuples p0 tv :
  cost_tuples [obj_step] T p0 tv <->
  exists g r x y, octx p0 g r /\ T (ch, g ++ [SNum y]) /\ T (nx, g ++ [SNum x; SNum y]) /\ tv = mk_step nx g r x y.
Proof.
  rewrite cost_one. split.
  - intros [ln [w [pr' [ts' [b [s [wz [vs [E [Bd [Ew [Ep [Et ->]]]]]]]]]]]]]. unfold obj_step in E. injection E as <- <- <- <- <-.
    apply NormalizeSpec.body_sat_blits in Bd. apply NormalizeSpec.lits_sat_app in Bd. destruct Bd as [C1 C2].
    apply NormalizeSem.lits_sat_cons in C2. destruct C2 as [C2 C3]. apply NormalizeSpec.lits_sat_one in C3.
    apply atg_sat in C2. apply atg_sat in C3. simpl in C2, C3.
    rewrite (eval_minus lv pv) in Ew. rewrite eval_list_snoc, (eval_nx_term nx gs) in Et.
    destruct (s lv) as [|y| | |] eqn:Elv; try discriminate Ew. destruct (s pv) as [|x| | |] eqn:Epv; try discriminate Ew.
    injection Ew as <-. destruct (eval_list s ts) as [r|] eqn:Er; [|discriminate]. injection Et as <-.
    exists (map s gs), r, x, y. split; [|split; [exact C2|split; [exact C3|]]].
    + exists s. split; [reflexivity|]. split; [exact Er|]. split; [exact Ep|]. exact (proj1 (cs_G _ [] s) C1).
    + unfold mk_step. simpl. rewrite Elv, Epv. reflexivity.
  - intros [g [r [x [y [[s [Eg [Et [Ep Cs]]]] [Tc [Tn ->]]]]]]].
    destruct (ofresh_upd lv (SNum y) s lv_fresh) as [Eg1 [Et1 [Ep1 Cs1]]].
    destruct (ofresh_upd pv (SNum x) (upd s lv (SNum y)) pv_fresh) as [Eg2 [Et2 [Ep2 Cs2]]].
    set (s' := upd (upd s lv (SNum y)) pv (SNum x)) in *.
    assert (Elv: s' lv = SNum y) by (unfold s'; rewrite upd_other by exact lv_pv; apply upd_same).
    assert (Epv: s' pv = SNum x) by (unfold s'; apply upd_same).
    assert (Eg': map s' gs = g) by (rewrite Eg2, Eg1; exact Eg).
    exists line, (TBin BMinus (TVar lv) (TVar pv)), pr, (ts ++ [nx_term [pv; lv]]),
           (map BLit (cs ++ [atg NoSign ch [lv]; atg NoSign nx [pv; lv]])), s', (y - x)%Z,
           (r ++ [SFun nx (g ++ [SNum x; SNum y]) true]).
    split; [reflexivity|]. split; [|split; [|split; [|split; [|reflexivity]]]].
    + apply NormalizeSpec.body_sat_blits. apply NormalizeSpec.lits_sat_app.
      split; [apply (proj1 (cs_G [] _ _)); apply Cs2; apply Cs1; exact Cs|].
      apply NormalizeSem.lits_sat_cons. split; [|apply NormalizeSpec.lits_sat_one]; apply atg_sat; simpl;
        rewrite Eg', ?Elv, ?Epv; assumption.
    + rewrite (eval_minus lv pv), Elv, Epv. reflexivity.
    + rewrite Ep2, Ep1. exact Ep.
    + rewrite eval_list_snoc, (eval_nx_term nx gs), Et2, Et1, Et. simpl. rewrite Eg', Elv, Epv. reflexivity.
Qed.

Lemma obj_first_tuples (l: lit) (Q: list sym -> sym -> Prop) p0 tv :
  (forall G s, lit_sat G T T s l <-> Q (map s gs) (s lv)) ->
  (cost_tuples [obj_first l] T p0 tv <->
   exists g r z, octx p0 g r /\ T (ch, g ++ [SNum z]) /\ Q g (SNum z) /\ tv = mk_first nx g r (SNum z)).
Proof.
  intro HQ. rewrite cost_one. split.
  - intros [ln [w [pr' [ts' [b [s [wz [vs [E [Bd [Ew [Ep [Et ->]]]]]]]]]]]]]. unfold obj_first in E. injection E as <- <- <- <- <-.
    apply NormalizeSpec.body_sat_blits in Bd. apply NormalizeSpec.lits_sat_app in Bd. destruct Bd as [C1 C2].
    apply NormalizeSem.lits_sat_cons in C2. destruct C2 as [C2 C3]. apply NormalizeSpec.lits_sat_one in C3.
    apply atg_sat in C2. apply HQ in C3. simpl in C2, Ew. injection Ew as Ew. rewrite Ew in C2, C3.
    rewrite eval_list_snoc, (eval_nx_term nx gs) in Et.
    destruct (eval_list s ts) as [r|] eqn:Er; [|discriminate]. injection Et as <-.
    exists (map s gs), r, wz. split; [|split; [exact C2|split; [exact C3|]]].
    + exists s. split; [reflexivity|]. split; [exact Er|]. split; [exact Ep|]. exact (proj1 (cs_G _ [] s) C1).
    + unfold mk_first. simpl. rewrite Ew. reflexivity.
  - intros [g [r [z [[s [Eg [Et [Ep Cs]]]] [Tc [Qn ->]]]]]].
    destruct (ofresh_upd lv (SNum z) s lv_fresh) as [Eg1 [Et1 [Ep1 Cs1]]].
    exists line, (TVar lv), pr, (ts ++ [nx_term [lv]]), (map BLit (cs ++ [atg NoSign ch [lv]; l])), (upd s lv (SNum z)), z,
           (r ++ [SFun nx (g ++ [SNum z]) true]).
    split; [reflexivity|]. split; [|split; [|split; [|split; [|reflexivity]]]].
    + apply NormalizeSpec.body_sat_blits. apply NormalizeSpec.lits_sat_app. split; [apply (proj1 (cs_G [] _ _)); apply Cs1; exact Cs|].
      apply NormalizeSem.lits_sat_cons. split; [|apply NormalizeSpec.lits_sat_one].
      * apply atg_sat. simpl. rewrite Eg1, Eg, upd_same. exact Tc.
      * apply HQ. rewrite Eg1, Eg, upd_same. exact Qn.
    + simpl. rewrite upd_same. reflexivity.
    + rewrite Ep1. exact Ep.
    + rewrite eval_list_snoc, (eval_nx_term nx gs), Et1, Et. simpl. rewrite Eg1, Eg, upd_same. reflexivity.
Qed.

(* replacing the statements A by the statements B inside a program: the cost at level p0 is unchanged when the
   tuple sets of A and B have the same sum and neither overlaps with the tuples of the other statements *)
Lemma cost_replace (A B P1 P2: list stmt) (SA SB: tupset) la lb p0 :
  AggSem.tup_eq (cost_tuples A T p0) SA -> AggSem.tup_eq (cost_tuples B T p0) SB ->
  enumerates SA la -> enumerates SB lb -> sum_of la = sum_of lb ->
  (forall tv, cost_tuples A T p0 tv -> cost_tuples (P1 ++ P2) T p0 tv -> False) ->
  (forall tv, cost_tuples B T p0 tv -> cost_tuples (P1 ++ P2) T p0 tv -> False) ->
  forall c, cost_at (P1 ++ A ++ P2) T p0 c <-> cost_at (P1 ++ B ++ P2) T p0 c.
Proof.
  intros TA TB Ea Eb Es D1 D2 c.
  assert (E1: AggSem.tup_eq (cost_tuples (P1 ++ A ++ P2) T p0) (fun tv => SA tv \/ cost_tuples (P1 ++ P2) T p0 tv)).
  { intro tv. rewrite <- (TA tv). rewrite (cost_tuples_app P1 (A ++ P2)), (cost_tuples_app A P2), (cost_tuples_app P1 P2). tauto. }
  assert (E2: AggSem.tup_eq (cost_tuples (P1 ++ B ++ P2) T p0) (fun tv => SB tv \/ cost_tuples (P1 ++ P2) T p0 tv)).
  { intro tv. rewrite <- (TB tv). rewrite (cost_tuples_app P1 (B ++ P2)), (cost_tuples_app B P2), (cost_tuples_app P1 P2). tauto. }
  assert (D1': forall tv, SA tv -> cost_tuples (P1 ++ P2) T p0 tv -> False) by (intros tv O; apply D1; apply TA; exact O).
  assert (D2': forall tv, SB tv -> cost_tuples (P1 ++ P2) T p0 tv -> False) by (intros tv N; apply D2; apply TB; exact N).
  unfold Cost.cost_at. split.
  - intros [l [En1 V]]. apply (proj1 (AggSem.enumerates_ext _ _ l E1)) in En1.
    destruct (swap_part_sum SA SB (cost_tuples (P1 ++ P2) T p0) la lb l Ea Eb Es D1' D2' En1) as [l' [En' Sm]].
    exists l'. split; [apply (proj2 (AggSem.enumerates_ext _ _ l' E2)); exact En'|]. rewrite Sm. exact V.
  - intros [l [En1 V]]. apply (proj1 (AggSem.enumerates_ext _ _ l E2)) in En1.
    destruct (swap_part_sum SB SA (cost_tuples (P1 ++ P2) T p0) lb la l Eb Ea (eq_sym Es) D2' D1' En1) as [l' [En' Sm]].
    exists l'. split; [apply (proj2 (AggSem.enumerates_ext _ _ l' E1)); exact En'|]. rewrite Sm. exact V.
Qed.

Section Level.
Variable prj : string.
Variable p0 : Z.
Hypothesis GOK : forall g r, octx p0 g r -> group_ok T p ch nx g.
Hypothesis Emp : forall g r, octx p0 g r -> (forall v, ~ T (p, g ++ [v])) -> forall d, ~ T (ch, g ++ [d]).
Hypothesis Inj : forall g g' r, octx p0 g r -> octx p0 g' r -> g = g'.
Hypothesis Fin : exists L, forall g r, octx p0 g r -> (exists v, T (p, g ++ [v])) -> In (g, r) L.
Hypothesis Prj : forall g r n, octx p0 g r -> (T (prj, g ++ [n]) <-> exists q, T (nx, g ++ [q; n])).

Lemma obj_orig_is_Orig : AggSem.tup_eq (cost_tuples [obj_orig] T p0) (Orig T p (octx p0)).
Proof.
  intro tv. rewrite obj_orig_tuples. unfold Orig, orig. split.
  - intros [g [r [z [C [Tz E]]]]]. exists g, r. split; [exact C|]. exists (SNum z). auto.
  - intros [g [r [C [w [Tw E]]]]]. destruct (GOK g r C (ex_intro _ w Tw)) as [_ [m [_ [_ AMO]]]].
    pose proof (AMO w Tw) as Ew. subst w. exists g, r, m. split; [exact C|]. split; [exact Tw|exact E].
Qed.
Lemma obj_new_is_New : AggSem.tup_eq (cost_tuples [obj_step; obj_first_proj prj] T p0) (New T ch nx (octx p0)).
Proof.
  assert (Num: forall g r n, octx p0 g r -> T (ch, g ++ [n]) -> exists z, n = SNum z).
  { intros g r n C Tc. destruct (classic (exists v, T (p, g ++ [v]))) as [V|NV].
    - destruct (GOK g r C V) as [DZ [m [GS _]]]. apply (gsem_chain _ _ _ _ _ _ GS) in Tc. destruct Tc as [z [-> _]]. eauto.
    - exfalso. apply (Emp g r C) with (d := n); [|exact Tc]. intros v Tv. apply NV. exists v. exact Tv. }
  intro tv. rewrite (cost_tuples_app [obj_step] [obj_first_proj prj]), obj_step_tuples.
  unfold obj_first_proj. rewrite (obj_first_tuples (atg Neg prj [lv]) (fun g n => ~ T (prj, g ++ [n]))).
  2:{ intros G0 s. rewrite atg_sat. simpl. tauto. }
  unfold New, new, new1, new2. split.
  - intros [[g [r [x [y [C [A [B E]]]]]]]|[g [r [z [C [A [B E]]]]]]]; exists g, r; (split; [exact C|]).
    + left. exists x, y. auto.
    + right. exists (SNum z). split; [exact A|]. split; [|exact E]. intros q Tq. apply B. apply (Prj g r _ C). exists q. exact Tq.
  - intros [g [r [C [[x [y [A [B E]]]]|[n [A [B E]]]]]]].
    + left. exists g, r, x, y. auto.
    + right. destruct (Num g r n C A) as [z ->]. exists g, r, z. split; [exact C|]. split; [exact A|]. split; [|exact E].
      intro Tp. apply (Prj g r _ C) in Tp. destruct Tp as [q Tq]. exact (B q Tq).
Qed.

(* 3 (objectives): the cost at level p0 is unchanged *)
Theorem sum_chain_cost P1 P2 :
  (forall tv, cost_tuples [obj_orig] T p0 tv -> cost_tuples (P1 ++ P2) T p0 tv -> False) ->
  (forall tv, cost_tuples [obj_step; obj_first_proj prj] T p0 tv -> cost_tuples (P1 ++ P2) T p0 tv -> False) ->
  forall c, cost_at (P1 ++ obj_orig :: P2) T p0 c <-> cost_at (P1 ++ obj_step :: obj_first_proj prj :: P2) T p0 c.
Proof.
  intros D1 D2 c.
  destruct (sum_chain_value_all T p ch nx (octx p0) GOK Emp Inj Fin) as [lo [ln [Eo [En Es]]]].
  exact (cost_replace [obj_orig] [obj_step; obj_first_proj prj] P1 P2 _ _ lo ln p0 obj_orig_is_Orig obj_new_is_New Eo En Es D1 D2 c).
Qed.

(* ---- #maximize { L@pr,ts : ... }  =  :~ ... [-L@pr,ts]: all three weights are negated ---- *)
Definition neg_stmt (st: stmt) : stmt :=
  match st with SMin ln w pr' ts' b => SMin ln (TUn UMinus w) pr' ts' b | _ => st end.
Definition negw (tv: list sym) : list sym := match tv with SNum z :: r => SNum (- z) :: r | _ => tv end.
Lemma negw_invol tv : negw (negw tv) = tv.
Proof. destruct tv as [|[ |z| | | ] r]; try reflexivity. simpl. rewrite Z.opp_involutive. reflexivity. Qed.
Lemma weight_negw tv : weight (negw tv) = (- weight tv)%Z.
Proof. destruct tv as [|[ |z| | | ] r]; reflexivity. Qed.
Lemma sum_negw l : sum_of (map negw l) = (- sum_of l)%Z.
Proof. induction l as [|a l IH]; [reflexivity|]. simpl map. rewrite !sum_of_cons, IH, weight_negw. lia. Qed.
Lemma enum_negw (S: tupset) l : enumerates S l -> enumerates (fun tv => S (negw tv)) (map negw l).
Proof.
  intros [ND M]. split.
  - clear M. induction ND as [|a l N ND IH]; simpl; constructor; [|exact IH].
    intro Hin. apply in_map_iff in Hin. destruct Hin as [b [Eb Hb]]. apply N.
    rewrite <- (negw_invol a), <- Eb, negw_invol. exact Hb.
  - intro tv. rewrite <- (M (negw tv)). split.
    + intro Hin. apply in_map_iff in Hin. destruct Hin as [b [<- Hb]]. rewrite negw_invol. exact Hb.
    + intro Hin. apply in_map_iff. exists (negw tv). split; [apply negw_invol|exact Hin].
Qed.

Lemma eval_uminus_num s w z : eval s (TUn UMinus w) = Some (SNum z) <-> eval s w = Some (SNum (- z)).
Proof.
  simpl. destruct (eval s w) as [[ |y| |n a b| ]|]; split; intro E; try discriminate E.
  - injection E as <-. rewrite Z.opp_involutive. reflexivity.
  - injection E as ->. rewrite Z.opp_involutive. reflexivity.
Qed.

Lemma cost_neg (P: list stmt) tv : cost_tuples (map neg_stmt P) T p0 tv <-> cost_tuples P T p0 (negw tv).
Proof.
  unfold Cost.cost_tuples. split.
  - intros [ln [w [pr' [ts' [b [s [wz [vs [Hin [Bd [Ew [Ep [Et ->]]]]]]]]]]]]].
    apply in_map_iff in Hin. destruct Hin as [st [Est Hst]].
    destruct st as [|ln0 w0 pr0 ts0 b0| | |]; try discriminate Est. simpl in Est. injection Est as <- <- <- <- <-.
    apply eval_uminus_num in Ew.
    exists ln0, w0, pr0, ts0, b0, s, (- wz)%Z, vs. split; [exact Hst|]. split; [exact Bd|]. split; [exact Ew|]. split; [exact Ep|].
    split; [exact Et|reflexivity].
  - intros [ln [w [pr' [ts' [b [s [wz [vs [Hin [Bd [Ew [Ep [Et E]]]]]]]]]]]]].
    exists ln, (TUn UMinus w), pr', ts', b, s, (- wz)%Z, vs.
    split; [apply in_map_iff; exists (SMin ln w pr' ts' b); split; [reflexivity|exact Hin]|]. split; [exact Bd|].
    split; [apply eval_uminus_num; rewrite Z.opp_involutive; exact Ew|]. split; [exact Ep|]. split; [exact Et|].
    rewrite <- (negw_invol tv), E. reflexivity.
Qed.

Theorem sum_chain_cost_max P1 P2 :
  (forall tv, cost_tuples [neg_stmt obj_orig] T p0 tv -> cost_tuples (P1 ++ P2) T p0 tv -> False) ->
  (forall tv, cost_tuples [neg_stmt obj_step; neg_stmt (obj_first_proj prj)] T p0 tv -> cost_tuples (P1 ++ P2) T p0 tv -> False) ->
  forall c, cost_at (P1 ++ neg_stmt obj_orig :: P2) T p0 c <->
            cost_at (P1 ++ neg_stmt obj_step :: neg_stmt (obj_first_proj prj) :: P2) T p0 c.
Proof.
  intros D1 D2 c.
  destruct (sum_chain_value_all T p ch nx (octx p0) GOK Emp Inj Fin) as [lo [ln [Eo [En Es]]]].
  apply (cost_replace [neg_stmt obj_orig] [neg_stmt obj_step; neg_stmt (obj_first_proj prj)] P1 P2
           (fun tv => Orig T p (octx p0) (negw tv)) (fun tv => New T ch nx (octx p0) (negw tv)) (map negw lo) (map negw ln) p0).
  - intro tv. rewrite (cost_neg [obj_orig] tv). apply obj_orig_is_Orig.
  - intro tv. rewrite (cost_neg [obj_step; obj_first_proj prj] tv). apply obj_new_is_New.
  - apply enum_negw. exact Eo.
  - apply enum_negw. exact En.
  - rewrite !sum_negw, Es. reflexivity.
  - exact D1.
  - exact D2.
Qed.
End Level.
End Objective.

(* ================================================================================================ *)
(* 5a. The validated model emits exactly these rules, elements and statements                       *)
(* ================================================================================================ *)
Module ModelRun.
Definition dom := "__dom_p".
Definition mn := "__min_1_1__dom_p".
Definition mx := "__max_1_1__dom_p".
Definition nx := "__next_1_1__dom_p".
Definition ch := "__chain_1_1__max___dom_p".
Definition G0 : list string := ["G0"].

Definition choice_rule : stmt :=
  SRule 1 (HAgg (Some (CGe, TSym (SNum 1))) [(atg ["G"] NoSign "p" ["V"], [Lit NoSign (ASym (TFun "val" [TVar "V"] false))])] None)
        [BLit (Lit NoSign (ASym (TFun "grp" [TVar "G"] false)))].
Definition dom_rule : stmt :=
  SRule 1 (HLit (atg ["G"] NoSign dom ["V"]))
        [BLit (Lit NoSign (ASym (TFun "val" [TVar "V"] false))); BLit (Lit NoSign (ASym (TFun "grp" [TVar "G"] false)))].
Definition aux_rules : list stmt :=
  [dom_rule; min_rule_g G0 dom mn; max_rule_g G0 dom mx; next_rule_base_g G0 dom mn nx; next_rule_step_g G0 dom nx;
   chain_rule_base_g G0 "p" ch; chain_rule_step_g G0 ch nx].
Definition base : stmt := SOther "ASTType.Program" "#program base.".

(* { p(G,V) : val(V) } 1 :- grp(G).   tot(S) :- S = #sum { V,G : p(G,V) }. *)
Definition tot_rule (es: list belem) : stmt :=
  SRule 1 (HLit (Lit NoSign (ASym (TFun "tot" [TVar "S"] false)))) [BLit (Lit NoSign (ABodyAgg (Some (CEq, TVar "S")) FSum es None))].
Definition e_orig : belem := orig_elem "p" ["G"] "V" [TVar "G"] [].
Definition e_step : belem := elem_step ch nx ["G"] "V" "__PREV" [TVar "G"] [].
Definition e_first : belem := elem_first_anon ch nx ["G"] "V" [TVar "G"] [].
Definition P_sum : program := [base; choice_rule; tot_rule [e_orig]].
Definition Q_sum : program := [base; choice_rule] ++ aux_rules ++ [tot_rule [e_step; e_first]].
Definition order_sum : list (string * nat) := [("grp", 1); ("tot", 1); ("val", 1); ("p", 2)]%nat.
Example model_sum : SumChains.execute P_sum [] order_sum = Ok Q_sum.
Proof. vm_compute. reflexivity. Qed.

(* { p(G,V) : val(V) } 1 :- grp(G).   #minimize { V@2,G : p(G,V) }. *)
Definition o_orig : stmt := obj_orig "p" ["G"] "V" (TSym (SNum 2)) [TVar "G"] [] 1.
Definition o_step : stmt := obj_step ch nx ["G"] "V" "__PREV" (TSym (SNum 2)) [TVar "G"] [] 1.
Definition o_first : stmt := obj_first_anon ch nx ["G"] "V" (TSym (SNum 2)) [TVar "G"] [] 1.
Definition P_min : program := [base; choice_rule; o_orig].
Definition Q_min : program := [base; choice_rule] ++ aux_rules ++ [o_step; o_first].
Definition order_min : list (string * nat) := [("val", 1); ("grp", 1); ("p", 2)]%nat.
Example model_min : SumChains.execute P_min [] order_min = Ok Q_min.
Proof. vm_compute. reflexivity. Qed.

(* { p(G,V) : val(V) } 1 :- grp(G).   #maximize { V@2,G : p(G,V) }.     (weights -V, -(V-__PREV), -V) *)
Definition P_max : program := [base; choice_rule; neg_stmt o_orig].
Definition Q_max : program := [base; choice_rule] ++ aux_rules ++ [neg_stmt o_step; neg_stmt o_first].
Definition order_max : list (string * nat) := [("p", 2); ("val", 1); ("grp", 1)]%nat.
Example model_max : SumChains.execute P_max [] order_max = Ok Q_max.
Proof. vm_compute. reflexivity. Qed.

(* the same input and output as serialised from the real Python objects (vlib/ser.py): the input after
   ngo.normalize.preprocess, and the result of SumAggregator.execute (the visiting order of _calc_at_most is the hash
   order of a Python set and changes between processes; model_sum_orders: the output is the same for every order) *)
Definition P_py : program := [(SOther "ASTType.Program" "#program base."); (SRule 1 (HAgg (Some (CGe, (TSym (SNum 1%Z)))) [((Lit NoSign (ASym (TFun "p" [(TVar "G"); (TVar "V")] false))), [(Lit NoSign (ASym (TFun "val" [(TVar "V")] false)))])] None) [(BLit (Lit NoSign (ASym (TFun "grp" [(TVar "G")] false))))]); (SRule 1 (HLit (Lit NoSign (ASym (TFun "tot" [(TVar "S")] false)))) [(BLit (Lit NoSign (ABodyAgg (Some (CEq, (TVar "S"))) FSum [([(TVar "V"); (TVar "G")], [(Lit NoSign (ASym (TFun "p" [(TVar "G"); (TVar "V")] false)))])] None)))])] .
Definition Q_py : program := [(SOther "ASTType.Program" "#program base."); (SRule 1 (HAgg (Some (CGe, (TSym (SNum 1%Z)))) [((Lit NoSign (ASym (TFun "p" [(TVar "G"); (TVar "V")] false))), [(Lit NoSign (ASym (TFun "val" [(TVar "V")] false)))])] None) [(BLit (Lit NoSign (ASym (TFun "grp" [(TVar "G")] false))))]); (SRule 1 (HLit (Lit NoSign (ASym (TFun "__dom_p" [(TVar "G"); (TVar "V")] false)))) [(BLit (Lit NoSign (ASym (TFun "val" [(TVar "V")] false)))); (BLit (Lit NoSign (ASym (TFun "grp" [(TVar "G")] false))))]); (SRule 1 (HLit (Lit NoSign (ASym (TFun "__min_1_1__dom_p" [(TVar "G0"); (TVar "X")] false)))) [(BLit (Lit NoSign (ABodyAgg (Some (CEq, (TVar "X"))) FMin [([(TVar "L")], [(Lit NoSign (ASym (TFun "__dom_p" [(TVar "G0"); (TVar "L")] false)))])] None))); (BLit (Lit NoSign (ASym (TFun "__dom_p" [(TVar "G0"); (TVar "_")] false))))]); (SRule 1 (HLit (Lit NoSign (ASym (TFun "__max_1_1__dom_p" [(TVar "G0"); (TVar "X")] false)))) [(BLit (Lit NoSign (ABodyAgg (Some (CEq, (TVar "X"))) FMax [([(TVar "L")], [(Lit NoSign (ASym (TFun "__dom_p" [(TVar "G0"); (TVar "L")] false)))])] None))); (BLit (Lit NoSign (ASym (TFun "__dom_p" [(TVar "G0"); (TVar "_")] false))))]); (SRule 1 (HLit (Lit NoSign (ASym (TFun "__next_1_1__dom_p" [(TVar "G0"); (TVar "P"); (TVar "N")] false)))) [(BLit (Lit NoSign (ASym (TFun "__min_1_1__dom_p" [(TVar "G0"); (TVar "P")] false)))); (BLit (Lit NoSign (ASym (TFun "__dom_p" [(TVar "G0"); (TVar "N")] false)))); (BLit (Lit NoSign (ACmp (TVar "N") [(CGt, (TVar "P"))]))); (BCond (Lit Neg (ASym (TFun "__dom_p" [(TVar "G0"); (TVar "B")] false))) [(Lit NoSign (ASym (TFun "__dom_p" [(TVar "G0"); (TVar "B")] false))); (Lit NoSign (ACmp (TVar "P") [(CLt, (TVar "B")); (CLt, (TVar "N"))]))])]); (SRule 1 (HLit (Lit NoSign (ASym (TFun "__next_1_1__dom_p" [(TVar "G0"); (TVar "P"); (TVar "N")] false)))) [(BLit (Lit NoSign (ASym (TFun "__next_1_1__dom_p" [(TVar "G0"); (TVar "_"); (TVar "P")] false)))); (BLit (Lit NoSign (ASym (TFun "__dom_p" [(TVar "G0"); (TVar "N")] false)))); (BLit (Lit NoSign (ACmp (TVar "N") [(CGt, (TVar "P"))]))); (BCond (Lit Neg (ASym (TFun "__dom_p" [(TVar "G0"); (TVar "B")] false))) [(Lit NoSign (ASym (TFun "__dom_p" [(TVar "G0"); (TVar "B")] false))); (Lit NoSign (ACmp (TVar "P") [(CLt, (TVar "B")); (CLt, (TVar "N"))]))])]); (SRule 1 (HLit (Lit NoSign (ASym (TFun "__chain_1_1__max___dom_p" [(TVar "G0"); (TVar "P")] false)))) [(BLit (Lit NoSign (ASym (TFun "p" [(TVar "G0"); (TVar "P")] false))))]); (SRule 1 (HLit (Lit NoSign (ASym (TFun "__chain_1_1__max___dom_p" [(TVar "G0"); (TVar "P")] false)))) [(BLit (Lit NoSign (ASym (TFun "__chain_1_1__max___dom_p" [(TVar "G0"); (TVar "N")] false)))); (BLit (Lit NoSign (ASym (TFun "__next_1_1__dom_p" [(TVar "G0"); (TVar "P"); (TVar "N")] false))))]); (SRule 1 (HLit (Lit NoSign (ASym (TFun "tot" [(TVar "S")] false)))) [(BLit (Lit NoSign (ABodyAgg (Some (CEq, (TVar "S"))) FSum [([(TBin BMinus (TVar "V") (TVar "__PREV")); (TVar "G"); (TFun "__next_1_1__dom_p" [(TVar "G"); (TVar "__PREV"); (TVar "V")] false)], [(Lit NoSign (ASym (TFun "__chain_1_1__max___dom_p" [(TVar "G"); (TVar "V")] false))); (Lit NoSign (ASym (TFun "__next_1_1__dom_p" [(TVar "G"); (TVar "__PREV"); (TVar "V")] false)))]); ([(TVar "V"); (TVar "G"); (TFun "__next_1_1__dom_p" [(TVar "G"); (TVar "V")] false)], [(Lit NoSign (ASym (TFun "__chain_1_1__max___dom_p" [(TVar "G"); (TVar "V")] false))); (Lit Neg (ASym (TFun "__next_1_1__dom_p" [(TVar "G"); (TVar "_"); (TVar "V")] false)))])] None)))])] .
Example python_input : P_sum = P_py.
Proof. reflexivity. Qed.
Example python_output : Q_sum = Q_py.
Proof. reflexivity. Qed.
Fixpoint insert_all {A} (x: A) (l: list A) : list (list A) :=
  match l with [] => [[x]] | y :: r => (x :: l) :: map (cons y) (insert_all x r) end.
Fixpoint perms {A} (l: list A) : list (list A) :=
  match l with [] => [[]] | x :: r => flat_map (insert_all x) (perms r) end.
Example model_sum_orders :
  forallb (fun o => match SumChains.execute P_sum [] o with Ok Q => list_eqb stmt_eqb Q Q_sum | _ => false end)
          (perms order_sum) = true.
Proof. vm_compute. reflexivity. Qed.
End ModelRun.

(* ================================================================================================ *)
(* 4. The hypotheses are needed: refutations with explicit interpretations                          *)
(* ================================================================================================ *)
Module Refutations.
Ltac in_cases H := simpl in H; repeat (destruct H as [H|H]; [try discriminate H|]); try contradiction.
Definition g7 : list sym := [SNum 7].
Definition nxf (args: list sym) : sym := SFun "nx" args true.

Lemma consecutive2 (a b x y: Z) : Chain.consecutive Z [a; b] x y <-> x = a /\ y = b.
Proof.
  split.
  - intros [l1 [l2 E]]. destruct l1 as [|u [|v l1]]; simpl in E.
    + injection E as <- <- _. split; reflexivity.
    + discriminate E.
    + destruct l1; discriminate E.
  - intros [-> ->]. exists [], []. reflexivity.
Qed.
Lemma nodup2 {A} (a b: A) : a <> b -> NoDup [a; b].
Proof. intro N. constructor; [intros [E|[]]; exact (N (eq_sym E))|constructor; [intros []|constructor]]. Qed.
Lemma nodup1 {A} (a: A) : NoDup [a].
Proof. constructor; [intros []|constructor]. Qed.

(* ---- (a) two values in one group: the chain tuples sum up to the MAXIMUM, the original ones to the sum ---- *)
Definition Ta : interp := fun a => In a
  [("p", [SNum 7; SNum 1]); ("p", [SNum 7; SNum 3]);
   ("ch", [SNum 7; SNum 1]); ("ch", [SNum 7; SNum 3]); ("nx", [SNum 7; SNum 1; SNum 3])].

Lemma Ta_sem : group_sem Ta "ch" "nx" g7 [1; 3]%Z 3%Z.
Proof.
  split.
  - repeat constructor.
  - simpl. auto.
  - intro d. unfold Ta, g7. simpl app. split.
    + intro H. in_cases H; injection H as <-; [exists 1%Z|exists 3%Z]; (split; [reflexivity|split; [simpl; auto|lia]]).
    + intros [z [-> [Hz _]]]. simpl in Hz. destruct Hz as [<-|[<-|[]]]; simpl; auto 10.
  - intros a b. unfold Ta, g7. simpl app. split.
    + intro H. in_cases H. injection H as <- <-. exists 1%Z, 3%Z. split; [reflexivity|]. split; [reflexivity|].
      apply consecutive2. split; reflexivity.
    + intros [x [y [-> [-> C]]]]. apply consecutive2 in C. destruct C as [-> ->]. simpl. auto 10.
Qed.

Theorem no_at_most_one_refuted :
  (exists lo, enumerates (orig Ta "p" g7 g7) lo /\ sum_of lo = 4%Z) /\
  (exists ln, enumerates (new Ta "ch" "nx" g7 g7) ln /\ sum_of ln = 3%Z) /\
  ~ (exists lo ln, enumerates (orig Ta "p" g7 g7) lo /\ enumerates (new Ta "ch" "nx" g7 g7) ln /\ sum_of lo = sum_of ln).
Proof.
  assert (A: exists lo, enumerates (orig Ta "p" g7 g7) lo /\ sum_of lo = 4%Z).
  { exists [[SNum 1; SNum 7]; [SNum 3; SNum 7]]. split; [|reflexivity]. split; [apply nodup2; discriminate|].
    intro tv. unfold orig, Ta, g7. simpl app. split.
    - intros [<-|[<-|[]]]; [exists (SNum 1)|exists (SNum 3)]; (split; [simpl; auto 10|reflexivity]).
    - intros [v [H ->]]. in_cases H; injection H as <-; simpl; auto. }
  pose proof (chain_sum_is_max Ta "ch" "nx" g7 g7 [1; 3]%Z 3%Z Ta_sem) as B.
  split; [exact A|]. split; [exact B|].
  intros [lo [ln [Eo [En Es]]]]. destruct A as [lo' [Eo' So]]. destruct B as [ln' [En' Sn]].
  rewrite (CostAlg.sum_enumeration_independent_proof _ lo lo' Eo Eo') in Es.
  rewrite (CostAlg.sum_enumeration_independent_proof _ ln ln' En En') in Es. lia.
Qed.

(* ---- (c') #sum+ (the pass also rewrites #sum+ aggregates): with a negative minimum the values differ.
        p(7,2) chosen, domain {-3, 2}:  #sum+ {2} = 2  but  #sum+ {-3, 2-(-3)} = 5.  (#sum: both 2.) ---- *)
Definition Tc : interp := fun a => In a
  [("p", [SNum 7; SNum 2]); ("ch", [SNum 7; SNum (-3)]); ("ch", [SNum 7; SNum 2]); ("nx", [SNum 7; SNum (-3); SNum 2])].

Theorem sumplus_negative_minimum_refuted sym_lt :
  agg_value sym_lt FSumPlus (orig Tc "p" g7 g7) (SNum 2) /\
  agg_value sym_lt FSumPlus (new Tc "ch" "nx" g7 g7) (SNum 5) /\
  agg_value sym_lt FSum (orig Tc "p" g7 g7) (SNum 2) /\
  agg_value sym_lt FSum (new Tc "ch" "nx" g7 g7) (SNum 2).
Proof.
  assert (Eo: enumerates (orig Tc "p" g7 g7) [[SNum 2; SNum 7]]).
  { split; [apply nodup1|]. intro tv. unfold orig, Tc, g7. simpl app. split.
    - intros [<-|[]]. exists (SNum 2). split; [simpl; auto|reflexivity].
    - intros [v [H ->]]. in_cases H. injection H as <-. simpl. auto. }
  assert (En: enumerates (new Tc "ch" "nx" g7 g7)
                [mk_first "nx" g7 g7 (SNum (-3)); mk_step "nx" g7 g7 (-3) 2]).
  { split; [apply nodup2; apply mk_first_step|]. intro tv. unfold new, new1, new2, Tc, g7. simpl app. split.
    - intros [<-|[<-|[]]].
      + right. exists (SNum (-3)). split; [simpl; auto|]. split; [|reflexivity]. intros q H. in_cases H.
      + left. exists (-3)%Z, 2%Z. split; [simpl; auto|]. split; [simpl; auto 10|reflexivity].
    - intros [[x [y [_ [H ->]]]]|[n [H [NP ->]]]].
      + in_cases H. injection H as <- <-. simpl. auto.
      + in_cases H; injection H as <-; [simpl; auto|].
        exfalso. apply (NP (SNum (-3))). simpl. auto 10. }
  repeat split.
  - exists [[SNum 2; SNum 7]]. split; [exact Eo|reflexivity].
  - eexists. split; [exact En|reflexivity].
  - exists [[SNum 2; SNum 7]]. split; [exact Eo|reflexivity].
  - eexists. split; [exact En|reflexivity].
Qed.

(* ---- (d) a domain value that is not an integer below the chosen value: the difference is undefined (tuple dropped),
        the weight of the first tuple is #inf (counts 0).  p(7,5) chosen, domain {#inf, 5}: 5 before, 0 after. ---- *)
Definition Td : interp := fun a => In a
  [("p", [SNum 7; SNum 5]); ("ch", [SNum 7; SInf]); ("ch", [SNum 7; SNum 5]); ("nx", [SNum 7; SInf; SNum 5])].

Theorem non_integer_domain_refuted sym_lt :
  agg_value sym_lt FSum (orig Td "p" g7 g7) (SNum 5) /\ agg_value sym_lt FSum (new Td "ch" "nx" g7 g7) (SNum 0).
Proof.
  split.
  - exists [[SNum 5; SNum 7]]. split; [|reflexivity]. split; [apply nodup1|]. intro tv. unfold orig, Td, g7. simpl app. split.
    + intros [<-|[]]. exists (SNum 5). split; [simpl; auto|reflexivity].
    + intros [v [H ->]]. in_cases H. injection H as <-. simpl. auto.
  - exists [mk_first "nx" g7 g7 SInf]. split; [|reflexivity]. split; [apply nodup1|].
    intro tv. unfold new, new1, new2, Td, g7. simpl app. split.
    + intros [<-|[]]. right. exists SInf. split; [simpl; auto|]. split; [|reflexivity]. intros q H. in_cases H.
    + intros [[x [y [_ [H ->]]]]|[n [H [NP ->]]]].
      * in_cases H.
      * in_cases H; injection H as <-; [simpl; auto|]. exfalso. apply (NP SInf). simpl. auto 10.
Qed.
(* ---- (b) the group variable is not part of the tuple (known finding sumchains-projected-group):
        { p(D,X) : q(D,X) } 1 :- d(D).   #minimize { X : p(D,X) }.     d(1). d(2). q(1,3). q(2,3). q(2,5).
        Answer set with p(1,3), p(2,3): the source counts the tuple (3) once, cost 3; the chain statements carry the
        group inside the added term nx(D,X), cost 6.  [prj = gringo's projection of not nx(D,_,X)] ---- *)
Definition Tb : interp := fun a => In a
  [("p", [SNum 1; SNum 3]); ("p", [SNum 2; SNum 3]); ("ch", [SNum 1; SNum 3]); ("ch", [SNum 2; SNum 3]);
   ("nx", [SNum 2; SNum 3; SNum 5]); ("prj", [SNum 2; SNum 5])].
Definition b_orig : stmt := obj_orig "p" ["D"] "X" (TSym (SNum 0)) [] [] 1.
Definition b_step : stmt := obj_step "ch" "nx" ["D"] "X" "__PREV" (TSym (SNum 0)) [] [] 1.
Definition b_first : stmt := obj_first_proj "ch" "nx" ["D"] "X" (TSym (SNum 0)) [] [] 1 "prj".

Lemma b_fresh x : x <> "D" -> ofresh ["D"] (TSym (SNum 0)) [] [] x.
Proof.
  intro N. unfold ofresh. simpl. split; [intros [E|[]]; apply N; symmetry; exact E|]. split; [intros []|]. split; intros [].
Qed.
Lemma octx_b sym_lt g r : octx sym_lt Tb ["D"] (TSym (SNum 0)) [] [] 0 g r <-> exists d, g = [d] /\ r = [].
Proof.
  unfold octx. split.
  - intros [s [<- [Er _]]]. simpl in Er. injection Er as <-. exists (s "D"). split; reflexivity.
  - intros [d [-> ->]]. exists (fun _ => d). repeat split. constructor.
Qed.

Theorem projected_group_refuted sym_lt :
  cost_at sym_lt [b_orig] Tb 0 3 /\ cost_at sym_lt [b_step; b_first] Tb 0 6.
Proof.
  assert (FX: ofresh ["D"] (TSym (SNum 0)) [] [] "X") by (apply b_fresh; discriminate).
  assert (FP: ofresh ["D"] (TSym (SNum 0)) [] [] "__PREV") by (apply b_fresh; discriminate).
  split.
  - exists [[SNum 3]]. split; [|reflexivity]. split; [apply nodup1|]. intro tv. unfold b_orig.
    rewrite (obj_orig_tuples sym_lt Tb "p" ["D"] "X" (TSym (SNum 0)) [] [] 1 eq_refl FX). split.
    + intros [<-|[]]. exists [SNum 1], [], 3%Z. split; [apply octx_b; eauto|]. split; [unfold Tb; simpl; auto|reflexivity].
    + intros [g [r [z [C [H ->]]]]]. apply octx_b in C. destruct C as [d [-> ->]]. unfold Tb in H. simpl app in H.
      in_cases H; injection H as _ <-; simpl; auto.
  - exists [mk_first "nx" [SNum 1] [] (SNum 3); mk_first "nx" [SNum 2] [] (SNum 3)]. split; [|reflexivity].
    split; [apply nodup2; unfold mk_first; simpl; discriminate|]. intro tv.
    rewrite (cost_tuples_app sym_lt Tb [b_step] [b_first]). unfold b_step, b_first, obj_first_proj.
    rewrite (obj_step_tuples sym_lt Tb "ch" "nx" ["D"] "X" "__PREV" (TSym (SNum 0)) [] [] 1 eq_refl FX FP ltac:(discriminate)).
    rewrite (obj_first_tuples sym_lt Tb "ch" "nx" ["D"] "X" (TSym (SNum 0)) [] [] 1 eq_refl FX
               (atg ["D"] Neg "prj" ["X"]) (fun g n => ~ Tb ("prj", g ++ [n]))).
    2:{ intros G0 s. rewrite atg_sat. simpl. tauto. }
    split.
    + intros [<-|[<-|[]]]; right.
      * exists [SNum 1], [], 3%Z. split; [apply octx_b; eauto|]. split; [unfold Tb; simpl; auto 10|]. split; [|reflexivity].
        intro H. unfold Tb in H. in_cases H.
      * exists [SNum 2], [], 3%Z. split; [apply octx_b; eauto|]. split; [unfold Tb; simpl; auto 10|]. split; [|reflexivity].
        intro H. unfold Tb in H. in_cases H.
    + intros [[g [r [x [y [C [Hc [Hn ->]]]]]]]|[g [r [z [C [Hc [_ ->]]]]]]]; apply octx_b in C; destruct C as [d [-> ->]].
      * unfold Tb in Hn, Hc. simpl app in Hn. in_cases Hn. injection Hn as <- <- <-. simpl app in Hc. in_cases Hc.
      * unfold Tb in Hc. simpl app in Hc. in_cases Hc; injection Hc as <- <-; simpl; auto.
Qed.
End Refutations.

(* ================================================================================================ *)
(* 5b. What the output of the pass means on the concrete program                                    *)
(*        { p(G,V) : val(V) } 1 :- grp(G).     tot(S) :- S = #sum { V,G : p(G,V) }.                  *)
(* ================================================================================================ *)
Definition pair_eqb (a b: string * nat) : bool := andb (String.eqb (fst a) (fst b)) (Nat.eqb (snd a) (snd b)).
Lemma pair_eqb_refl a : pair_eqb a a = true.
Proof. unfold pair_eqb. rewrite String.eqb_refl, Nat.eqb_refl. reflexivity. Qed.
(* the rules of P that can derive atoms of predicate q *)
Definition defines (q: string * nat) (st: stmt) : bool :=
  match st with SRule _ h _ => existsb (pair_eqb q) (head_names h) | _ => false end.
Definition defs (q: string * nat) (P: program) : program := filter (defines q) P.
Lemma defs_spec q P line h b : In (SRule line h b) P -> In q (head_names h) -> In (SRule line h b) (defs q P).
Proof.
  intros Hin Hq. apply filter_In. split; [exact Hin|]. simpl. apply existsb_exists. exists q. split; [exact Hq|apply pair_eqb_refl].
Qed.

Lemma two_in_nodup {A} (l: list A) a b : NoDup l -> In a l -> In b l -> a <> b -> (2 <= List.length l)%nat.
Proof.
  intros ND Ha Hb N. destruct l as [|x [|y l]]; simpl in *; [contradiction| |lia].
  destruct Ha as [<-|[]]. destruct Hb as [<-|[]]. exfalso. exact (N eq_refl).
Qed.

Module Example.
Import ModelRun.
Definition prj := "__proj".
(* __proj(G0,N) :- nx(G0,_,N).    (gringo's projection of the anonymous variable in `not nx(G,_,V)`) *)
Definition prj_rule : stmt := SRule 1 (HLit (atg G0 NoSign prj ["N"])) [BLit (atg G0 NoSign nx ["_"; "N"])].
Definition e_proj : belem := elem_first_proj ch nx ["G"] "V" [TVar "G"] [] prj.
(* Q_sum (the output of the model) with the literal `not nx(G,_,V)` of its last aggregate element read as gringo does *)
Definition Q_norm : program := [base; choice_rule] ++ aux_rules ++ [prj_rule; tot_rule [e_step; e_proj]].

(* instances: integer val/1 facts and grp/1 facts *)
Definition inst_ok (I: list gatom) : Prop :=
  forall a, In a I -> (exists z, a = ("val", [SNum z])) \/ (exists g, a = ("grp", [g])).

Ltac in_prog := unfold Q_norm, aux_rules; simpl; repeat (first [left; reflexivity | right]).

Section Sem.
Variable sym_lt : sym -> sym -> Prop.
Hypothesis Ord : sym_order sym_lt.
Variable I : list gatom.
Variable T : interp.
Hypothesis IOK : inst_ok I.
Hypothesis St : Sat.stable sym_lt Q_norm I T.
Notation lit_sat := (lit_sat sym_lt).
Notation body_sat := (body_sat sym_lt).

Lemma frag line h b : In (SRule line h b) Q_norm -> xhead h.
Proof. apply xprogb_spec. reflexivity. Qed.

Lemma PT st : In st Q_norm -> stmt_sat sym_lt T T st.
Proof. destruct St as [[X _] _]. apply X. Qed.
Lemma FT a : In a I -> T a.
Proof. destruct St as [[_ X] _]. apply X. Qed.

Lemma supp a : T a ->
  In a I \/ exists line h b s, In (SRule line h b) (defs (gpred a) Q_norm) /\
                               derives_x sym_lt T (gvars_rule h b) s h a /\ body_sat (gvars_rule h b) T T s b.
Proof.
  intro Ta. destruct (supported_x sym_lt Q_norm I T a frag St Ta) as [Hin|[line [h [b [s [Hin [HD Bd]]]]]]];
    [left; exact Hin|right].
  exists line, h, b, s. split; [|split; assumption]. apply defs_spec; [exact Hin|].
  destruct a as [n vs]. exact (derives_x_names sym_lt T _ s h n vs HD).
Qed.

(* ---- the input predicates ---- *)
Lemma val_facts v : T ("val", [v]) <-> In ("val", [v]) I.
Proof.
  split; [|apply FT]. intro Tv. destruct (supp _ Tv) as [Hin|[line [h [b [s [Hin _]]]]]]; [exact Hin|].
  exfalso. vm_compute in Hin. exact Hin.
Qed.
Lemma grp_facts g : T ("grp", [g]) <-> In ("grp", [g]) I.
Proof.
  split; [|apply FT]. intro Tv. destruct (supp _ Tv) as [Hin|[line [h [b [s [Hin _]]]]]]; [exact Hin|].
  exfalso. vm_compute in Hin. exact Hin.
Qed.
Lemma val_numeric v : T ("val", [v]) -> exists z, v = SNum z.
Proof.
  intro Tv. apply val_facts in Tv. destruct (IOK _ Tv) as [[z E]|[g E]]; [|discriminate E]. injection E as ->. eauto.
Qed.
Lemma not_fact n vs : n <> "val" -> n <> "grp" -> ~ In (n, vs) I.
Proof. intros N1 N2 Hin. destruct (IOK _ Hin) as [[z E]|[g E]]; injection E as E _; contradiction. Qed.

(* ---- the domain predicate: dom(G,V) :- val(V); grp(G). ---- *)
Definition sGV (g v: sym) : subst := fun x => if String.eqb x "G" then g else v.
Lemma blit1_sat G s n x : bodyelem_sat sym_lt G T T s (BLit (Lit NoSign (ASym (TFun n [TVar x] false)))) <-> T (n, [s x]).
Proof. exact (at1_sat sym_lt G T T s NoSign n x). Qed.
Lemma batg_sat gs' G s n xs : bodyelem_sat sym_lt G T T s (BLit (atg gs' NoSign n xs)) <-> T (n, map s gs' ++ map s xs).
Proof. exact (atg_sat sym_lt gs' G T T s NoSign n xs). Qed.
Lemma lit1_sat G s n x : lit_sat G T T s (Lit NoSign (ASym (TFun n [TVar x] false))) <-> T (n, [s x]).
Proof. exact (at1_sat sym_lt G T T s NoSign n x). Qed.
Lemma dom_meaning g v : T (dom, [g; v]) <-> T ("val", [v]) /\ T ("grp", [g]).
Proof.
  split.
  - intro Td. destruct (supp _ Td) as [Hin|[line [h [b [s [Hin [HD Bd]]]]]]]; [exfalso; revert Hin; apply not_fact; discriminate|].
    vm_compute in Hin. destruct Hin as [E|[]]. injection E as <- <- <-.
    apply derives_x_lit in HD. destruct (derives_atg ["G"] _ s dom ["V"] [g] [v] eq_refl HD) as [Eg Ev].
    simpl in Eg, Ev. injection Eg as Eg. injection Ev as Ev. subst g v.
    unfold Sat.body_sat in Bd. inversion Bd as [|? ? A Bd1]; subst. inversion Bd1 as [|? ? B _]; subst.
    apply blit1_sat in A. apply blit1_sat in B. split; assumption.
  - intros [Tv Tg]. pose proof (PT dom_rule ltac:(in_prog)) as R. unfold dom_rule, Sat.stmt_sat in R.
    destruct (R (sGV g v)) as [_ R2].
    match type of R2 with body_sat ?G0 _ _ _ _ -> _ => set (G := G0) in * end.
    assert (Bd: body_sat G T T (sGV g v)
                  [BLit (Lit NoSign (ASym (TFun "val" [TVar "V"] false))); BLit (Lit NoSign (ASym (TFun "grp" [TVar "G"] false)))]).
    { constructor; [|constructor; [|constructor]].
      - apply blit1_sat. exact Tv.
      - apply blit1_sat. exact Tg. }
    apply R2 in Bd. change (lit_sat G T T (sGV g v) (atg ["G"] NoSign dom ["V"])) in Bd.
    apply atg_sat in Bd. exact Bd.
Qed.

(* ---- p is supported by the choice rule, and holds for at most one value per group ---- *)
Lemma p_in_dom g v : T ("p", [g; v]) -> T ("val", [v]) /\ T ("grp", [g]).
Proof.
  intro Tp. destruct (supp _ Tp) as [Hin|[line [h [b [s [Hin [HD Bd]]]]]]]; [exfalso; revert Hin; apply not_fact; discriminate|].
  vm_compute in Hin. destruct Hin as [E|[]]. injection E as <- <- <-.
  inversion HD as [h0 a0 HD0|lg es rg n args e cond th vs Hin Ag Ev Cs]; subst.
  - inversion HD0 as [|? ? ? ? ? ? ? ? Hin0]; subst. destruct Hin0 as [E|[]]. discriminate E.
  - destruct Hin as [E|[]]. injection E as <- <- <-. simpl in Ev. injection Ev as <- <-.
    apply NormalizeSpec.lits_sat_one in Cs. apply lit1_sat in Cs.
    unfold Sat.body_sat in Bd. inversion Bd as [|? ? B _]; subst.
    apply blit1_sat in B.
    rewrite (Ag "G" ltac:(simpl; auto)) in B. split; assumption.
Qed.

Lemma at_most_one g v v' : T ("p", [g; v]) -> T ("p", [g; v']) -> v = v'.
Proof.
  intros T1 T2. apply NNPP. intro Ne.
  destruct (p_in_dom g v T1) as [Tv Tg]. destruct (p_in_dom g v' T2) as [Tv' _].
  pose proof (PT choice_rule ltac:(in_prog)) as R. unfold choice_rule, Sat.stmt_sat in R.
  destruct (R (sGV g v)) as [_ R2].
  match type of R2 with body_sat ?G0 _ _ _ _ -> _ => set (G := G0) in * end.
  assert (Bd: body_sat G T T (sGV g v) [BLit (Lit NoSign (ASym (TFun "grp" [TVar "G"] false)))]).
  { constructor; [|constructor]. apply blit1_sat. exact Tg. }
  apply R2 in Bd. simpl in Bd. destruct Bd as [_ [c [[l [[ND En] Ec]] [Gd _]]]].
  assert (In1: forall w, T ("p", [g; w]) -> T ("val", [w]) -> In [SFun "p" [g; w] true] l).
  { intros w Tw Tvw. apply En.
    exists (atg ["G"] NoSign "p" ["V"], [Lit NoSign (ASym (TFun "val" [TVar "V"] false))]), (sGV g w), "p", [TVar "G"; TVar "V"], false, [g; w].
    split; [left; reflexivity|]. split; [intros x [<-|[]]; reflexivity|]. split; [reflexivity|]. split; [reflexivity|].
    split; [reflexivity|]. split; [|exact Tw].
    apply NormalizeSpec.lits_sat_one. apply lit1_sat. exact Tvw. }
  assert (L2: (2 <= List.length l)%nat).
  { apply (two_in_nodup l [SFun "p" [g; v] true] [SFun "p" [g; v'] true] ND (In1 v T1 Tv) (In1 v' T2 Tv')).
    intro E. injection E as E. exact (Ne E). }
  subst c. simpl in Gd. destruct Gd as [L|E].
  - apply (lt_num _ Ord) in L. lia.
  - injection E as E. lia.
Qed.

(* ---- min / next / chain / projection ---- *)
Lemma G0_nodup : NoDup G0.
Proof. constructor; [intros []|constructor]. Qed.
Lemma G0_fresh : forall y, In y G0 -> ~ In y reserved.
Proof. intros y [<-|[]]. unfold reserved. simpl. intuition discriminate. Qed.

Lemma dom_finite x : exists l, forall v, T (dom, [x] ++ [v]) <-> In v l.
Proof.
  destruct (Ground.finite_enum (flat_map (@snd string (list sym)) I) (fun v => T (dom, [x; v]))) as [l [_ E]].
  - intros v Td. apply dom_meaning in Td. destruct Td as [Tv _]. apply val_facts in Tv.
    apply in_flat_map. exists ("val", [v]). split; [exact Tv|left; reflexivity].
  - exists l. intro v. symmetry. apply E.
Qed.

Lemma aux_meaning x :
  exists D, StronglySorted sym_lt D /\ (forall v, T (dom, [x] ++ [v]) <-> In v D) /\
    (forall v, T (mn, [x] ++ [v]) <-> hd_error D = Some v) /\
    (forall a b, T (nx, [x] ++ [a; b]) <-> Chain.consecutive sym D a b) /\
    (forall d, T (ch, [x] ++ [d]) <-> In d D /\ exists v, T ("p", [x] ++ [v]) /\ (d = v \/ sym_lt d v)).
Proof.
  apply (chain_pred_meaning sym_lt G0 G0_nodup G0_fresh dom mn nx "p" ch Q_norm I T Ord).
  - exact frag.
  - in_prog.
  - in_prog.
  - in_prog.
  - in_prog.
  - in_prog.
  - intros line h b Hin Hn. pose proof (defs_spec _ _ _ _ _ Hin Hn) as D. vm_compute in D.
    destruct D as [E|[]]. rewrite <- E. reflexivity.
  - intros line h b Hin Hn. pose proof (defs_spec _ _ _ _ _ Hin Hn) as D. vm_compute in D.
    destruct D as [E|[E|[]]]; rewrite <- E; [left|right]; reflexivity.
  - intros line h b Hin Hn. pose proof (defs_spec _ _ _ _ _ Hin Hn) as D. vm_compute in D.
    destruct D as [E|[E|[]]]; rewrite <- E; [left|right]; reflexivity.
  - intros vs _. apply not_fact; discriminate.
  - intros vs _. apply not_fact; discriminate.
  - intros vs _. apply not_fact; discriminate.
  - exact St.
  - reflexivity.
  - apply dom_finite.
  - intros v Tp. apply p_in_dom in Tp. apply dom_meaning. exact Tp.
Qed.

Lemma group_facts x :
  group_ok T "p" ch nx [x] /\ ((forall v, ~ T ("p", [x] ++ [v])) -> forall d, ~ T (ch, [x] ++ [d])).
Proof.
  destruct (aux_meaning x) as [D [SD [DomD [_ [NX CH]]]]].
  apply (group_ok_of_meaning sym_lt Ord T "p" ch nx [x] D SD).
  - intros v Hv. apply DomD in Hv. apply dom_meaning in Hv. apply val_numeric. exact (proj1 Hv).
  - intros v Tp. apply DomD. apply dom_meaning. apply p_in_dom. exact Tp.
  - exact NX.
  - exact CH.
  - intros v v'. apply at_most_one.
Qed.

Lemma prj_meaning x n : T (prj, [x] ++ [n]) <-> exists q, T (nx, [x] ++ [q; n]).
Proof.
  split.
  - intro Tp. destruct (supp _ Tp) as [Hin|[line [h [b [s [Hin [HD Bd]]]]]]]; [exfalso; revert Hin; apply not_fact; discriminate|].
    vm_compute in Hin. destruct Hin as [E|[]]. injection E as <- <- <-.
    apply derives_x_lit in HD. destruct (derives_atg G0 _ s prj ["N"] [x] [n] eq_refl HD) as [Eg Ev].
    simpl in Ev. injection Ev as Ev.
    unfold Sat.body_sat in Bd. inversion Bd as [|? ? A _]; subst.
    match type of A with bodyelem_sat _ ?G1 _ _ _ _ => set (G := G1) in * end.
    apply (proj1 (batg_sat G0 G s nx ["_"; "N"])) in A. rewrite Eg in A. simpl in A.
    exists (s "_"). exact A.
  - intros [q Tn]. pose proof (PT prj_rule ltac:(in_prog)) as R. unfold prj_rule, Sat.stmt_sat in R.
    set (s := mk_subst G0 [x] q n q). destruct (R s) as [_ R2].
    match type of R2 with body_sat ?G1 _ _ _ _ -> _ => set (G := G1) in * end.
    assert (Eg: map s G0 = [x]) by (apply (mk_subst_gs G0 G0_nodup G0_fresh); reflexivity).
    assert (EN: s "N" = n) by reflexivity.
    assert (EU: s "_" = q) by reflexivity.
    assert (Bd: body_sat G T T s [BLit (atg G0 NoSign nx ["_"; "N"])]).
    { constructor; [|constructor]. apply (batg_sat G0 G s nx ["_"; "N"]). rewrite Eg. simpl. rewrite EN, EU. exact Tn. }
    apply R2 in Bd. change (lit_sat G T T s (atg G0 NoSign prj ["N"])) in Bd. apply atg_sat in Bd. rewrite Eg in Bd. simpl in Bd.
    rewrite EN in Bd. exact Bd.
Qed.

(* ---- the rule for tot ---- *)
Definition Gt : list string := ["S"; "S"].
Lemma gvars_tot es : gvars_rule (HLit (Lit NoSign (ASym (TFun "tot" [TVar "S"] false))))
                                [BLit (Lit NoSign (ABodyAgg (Some (CEq, TVar "S")) FSum es None))] = Gt.
Proof. reflexivity. Qed.

(* the body  S = #sum { es }  holds (in T) iff S is the value of the sum *)
Lemma tot_body_sat es s :
  body_sat Gt T T s [BLit (Lit NoSign (ABodyAgg (Some (CEq, TVar "S")) FSum es None))] <->
  agg_value sym_lt FSum (AggSem.elems_tuples sym_lt Gt T T s es) (s "S").
Proof.
  rewrite NormalizeSpec.body_sat_one.
  change (atom_sat sym_lt Gt T T s NoSign (ABodyAgg (Some (CEq, TVar "S")) FSum es None) <-> agg_value sym_lt FSum (AggSem.elems_tuples sym_lt Gt T T s es) (s "S")).
  rewrite AggSem.atom_sat_bodyagg. simpl apply_sign. unfold Sat.agg_holds. split.
  - intros [[v [AV [Gd _]]] _]. simpl in Gd. rewrite Gd. exact AV.
  - intros AV. assert (X: exists v, agg_value sym_lt FSum (AggSem.elems_tuples sym_lt Gt T T s es) v /\
                         guard_ok sym_lt s true (Some (CEq, TVar "S")) v /\ guard_ok sym_lt s false None v).
    { exists (s "S"). split; [exact AV|]. split; [reflexivity|exact Logic.I]. }
    split; exact X.
Qed.

Lemma tot_meaning es S : In (tot_rule es) Q_norm -> defs ("tot", 1%nat) Q_norm = [tot_rule es] ->
  (T ("tot", [S]) <-> agg_value sym_lt FSum (AggSem.elems_tuples sym_lt Gt T T (fun _ => S) es) S).
Proof.
  intros Hin Df. split.
  - intro Tt. destruct (supp _ Tt) as [HinI|[line [h [b [s [HinD [HD Bd]]]]]]]; [exfalso; revert HinI; apply not_fact; discriminate|].
    change (gpred ("tot", [S])) with ("tot", 1%nat) in HinD. rewrite Df in HinD. destruct HinD as [E|[]]. unfold tot_rule in E. injection E as <- <- <-.
    apply derives_x_lit in HD. rewrite gvars_tot in HD, Bd.
    inversion HD as [? ? ? ? Ev|]; subst. simpl in Ev. injection Ev as Ev.
    apply tot_body_sat in Bd. rewrite Ev in Bd.
    revert Bd. apply AggSem.agg_value_ext. intro tv. rewrite !NormalizeSpec.elems_tuples_iff.
    split; intros [e [He [th [Ag R]]]]; exists e; (split; [exact He|]); exists th; (split; [|exact R]);
      intros y Hy; rewrite <- (Ag y Hy); destruct Hy as [<-|[<-|[]]]; simpl; congruence.
  - intro AV. pose proof (PT _ Hin) as R. unfold tot_rule, Sat.stmt_sat in R. rewrite gvars_tot in R.
    destruct (R (fun _ => S)) as [_ R2]. apply (tot_body_sat es (fun _ => S)) in AV. apply R2 in AV.
    change (lit_sat Gt T T (fun _ => S) (Lit NoSign (ASym (TFun "tot" [TVar "S"] false)))) in AV.
    apply lit1_sat in AV. exact AV.
Qed.

Lemma fresh_x x : x <> "S" -> x <> "G" -> fresh ["G"] [TVar "G"] [] Gt x.
Proof.
  intros N1 N2. unfold fresh, Gt. simpl. repeat split.
  - intros [E|[E|[]]]; apply N1; symmetry; exact E.
  - intros [E|[]]. apply N2. symmetry. exact E.
  - intros [E|[]]. apply N2. symmetry. exact E.
  - intros [].
Qed.

Lemma ctx_char s g r : ctx sym_lt T ["G"] [TVar "G"] [] Gt s g r <-> exists x, g = [x] /\ r = [x].
Proof.
  unfold ctx. split.
  - intros [th [_ [<- [Er _]]]]. simpl in Er. injection Er as <-. exists (th "G"). split; reflexivity.
  - intros [x [-> ->]]. exists (upd s "G" x). split; [|split; [|split]].
    + apply agree_on_upd; [unfold Gt; simpl; intuition discriminate|]. intros y _. reflexivity.
    + simpl. rewrite upd_same. reflexivity.
    + simpl. rewrite upd_same. reflexivity.
    + constructor.
Qed.

(* the set of tuples (V,G) of the original aggregate *)
Definition orig_set : tupset := fun tv => exists g v, T ("p", [g; v]) /\ tv = [v; g].

Theorem tot_is_original_sum S : T ("tot", [S]) <-> agg_value sym_lt FSum orig_set S.
Proof.
  rewrite (tot_meaning [e_step; e_proj] S ltac:(in_prog) ltac:(vm_compute; reflexivity)).
  set (s := fun _ : string => S).
  assert (FV: fresh ["G"] [TVar "G"] [] Gt "V") by (apply fresh_x; discriminate).
  assert (FP: fresh ["G"] [TVar "G"] [] Gt "__PREV") by (apply fresh_x; discriminate).
  unfold e_step, e_proj.
  rewrite <- (sum_chain_elems sym_lt T "p" ch nx ["G"] "V" "__PREV" [TVar "G"] [] Gt FV FP ltac:(discriminate) prj [] s).
  - apply AggSem.agg_value_ext. intro tv. rewrite (orig_elem_tuples sym_lt T "p" ["G"] "V" [TVar "G"] [] Gt FV s tv).
    unfold orig_set. split.
    + intros [g [r [v [C [Tp ->]]]]]. apply ctx_char in C. destruct C as [x [-> ->]]. exists x, v. split; [exact Tp|reflexivity].
    + intros [g [v [Tp ->]]]. exists [g], [g], v. split; [apply ctx_char; eauto|]. split; [exact Tp|reflexivity].
  - intros g r C. apply ctx_char in C. destruct C as [x [-> _]]. exact (proj1 (group_facts x)).
  - intros g r C. apply ctx_char in C. destruct C as [x [-> _]]. exact (proj2 (group_facts x)).
  - apply (ctx_inj_prefix sym_lt T ["G"] [TVar "G"] [] Gt [] s). reflexivity.
  - exists (map (fun a : gatom => (snd a, snd a)) I). intros g r C [v Tp]. apply ctx_char in C. destruct C as [x [-> ->]].
    apply p_in_dom in Tp. destruct Tp as [_ Tg]. apply grp_facts in Tg.
    apply in_map_iff. exists ("grp", [x]). split; [reflexivity|exact Tg].
  - intros g r n C. apply ctx_char in C. destruct C as [x [-> _]]. apply prj_meaning.
  - intros tv _ [].
  - intros tv _ [].
Qed.
End Sem.

(* ---- the output of the model, read as gringo reads it: at most one value per group, and tot is the original sum ---- *)
Theorem ex_pass_meaning sym_lt : sym_order sym_lt ->
  exists Q, SumChains.execute P_sum [] order_sum = Ok Q /\ Q = Q_sum /\
    forall I T, inst_ok I -> Sat.stable sym_lt Q_norm I T ->
      (forall g v v', T ("p", [g; v]) -> T ("p", [g; v']) -> v = v') /\
      (forall S, T ("tot", [S]) <-> agg_value sym_lt FSum (orig_set T) S).
Proof.
  intro Ord. exists Q_sum. split; [exact model_sum|]. split; [reflexivity|]. intros I T IOK St. split.
  - exact (at_most_one sym_lt Ord I T IOK St).
  - exact (tot_is_original_sum sym_lt Ord I T IOK St).
Qed.

(* ---- soundness direction of "same answer sets": every answer set of the output, restricted to the original
        vocabulary, is an answer set of the input ---- *)
Definition Vorig (a: gatom) : Prop := In (fst a) ["val"; "grp"; "p"; "tot"].

Section Gen.
Variable sym_lt : sym -> sym -> Prop.
Notation lit_sat := (lit_sat sym_lt).
Notation lits_sat := (lits_sat sym_lt).
Notation body_sat := (body_sat sym_lt).
Notation head_sat := (head_sat sym_lt).
Notation stmt_sat := (stmt_sat sym_lt).

Definition agreeV (A B: interp) : Prop := forall a, Vorig a -> (A a <-> B a).
Lemma agreeV_sym A B : agreeV A B -> agreeV B A.
Proof. intros X a Va. symmetry. apply X. exact Va. Qed.
Lemma V_val v : Vorig ("val", [v]). Proof. unfold Vorig. simpl. auto. Qed.
Lemma V_grp v : Vorig ("grp", [v]). Proof. unfold Vorig. simpl. auto. Qed.
Lemma V_p vs : Vorig ("p", vs). Proof. unfold Vorig. simpl. auto. Qed.
Lemma V_tot vs : Vorig ("tot", vs). Proof. unfold Vorig. simpl. auto. Qed.

Definition choice_es : list condlit := [(atg ["G"] NoSign "p" ["V"], [Lit NoSign (ASym (TFun "val" [TVar "V"] false))])].
Definition choice_head : head := HAgg (Some (CGe, TSym (SNum 1))) choice_es None.
Definition choice_body : list bodyelem := [BLit (Lit NoSign (ASym (TFun "grp" [TVar "G"] false)))].
Definition Gc : list string := gvars_rule choice_head choice_body.

Lemma val_lit_sat G X Y th : lits_sat G X Y th [Lit NoSign (ASym (TFun "val" [TVar "V"] false))] <-> X ("val", [th "V"]).
Proof. rewrite NormalizeSpec.lits_sat_one. exact (at1_sat sym_lt G X Y th NoSign "val" "V"). Qed.
Lemma p_lit_sat G X Y th : lit_sat G X Y th (atg ["G"] NoSign "p" ["V"]) <-> X ("p", [th "G"; th "V"]).
Proof. rewrite atg_sat. simpl. tauto. Qed.

Lemma choice_head_dir H T H2 T2 s : agreeV H H2 -> agreeV T T2 ->
  head_sat Gc H T s choice_head -> head_sat Gc H2 T2 s choice_head.
Proof.
  intros AH AT [CE A2].
  assert (TE: forall X X2 Y Y2, agreeV X X2 -> agreeV Y Y2 ->
            AggSem.tup_eq (choice_tuples sym_lt Gc X Y s choice_es) (choice_tuples sym_lt Gc X2 Y2 s choice_es)).
  { assert (D: forall X X2 Y Y2, agreeV X X2 -> forall tv,
               choice_tuples sym_lt Gc X Y s choice_es tv -> choice_tuples sym_lt Gc X2 Y2 s choice_es tv).
    { intros X X2 Y Y2 AX tv [c [th [n [args [ext [vs [Hc [Ag [Ef [Ev [Etv [Cs Xv]]]]]]]]]]]].
      destruct Hc as [<-|[]]. simpl in Ef. injection Ef as <- <- <-. simpl snd in Cs.
      eexists _, th, "p", _, false, vs. split; [left; reflexivity|]. split; [exact Ag|]. split; [reflexivity|].
      split; [exact Ev|]. split; [exact Etv|]. split.
      - simpl snd. apply val_lit_sat. apply (AX _ (V_val _)). apply (val_lit_sat Gc X Y th). exact Cs.
      - apply (AX _ (V_p vs)). exact Xv. }
    intros X X2 Y Y2 AX AY tv. split; [apply D; exact AX|apply D; apply agreeV_sym; exact AX]. }
  split.
  - intros c th Hc Ag Cs. destruct Hc as [<-|[]]. simpl fst. simpl snd in Cs.
    apply val_lit_sat in Cs. apply (AH _ (V_val _)) in Cs.
    destruct (CE _ th (or_introl eq_refl) Ag (proj2 (val_lit_sat Gc H T th) Cs)) as [L|N].
    + left. simpl fst in L. apply p_lit_sat in L. apply p_lit_sat. apply (AH _ (V_p _)). exact L.
    + right. intro L. apply N. simpl fst. apply p_lit_sat in L. apply p_lit_sat. apply (AT _ (V_p _)). exact L.
  - exact (proj1 (AggSem.agg_holds_ext sym_lt s _ FCount None _ _ (TE T T2 T T2 AT AT)) A2).
Qed.

Lemma choice_rule_dir H T H2 T2 : agreeV H H2 -> agreeV T T2 -> stmt_sat H T choice_rule -> stmt_sat H2 T2 choice_rule.
Proof.
  intros AH AT R s. destruct (R s) as [R1 R2].
  assert (B: forall X Y X2 Y2, agreeV X X2 -> body_sat Gc X2 Y2 s choice_body -> body_sat Gc X Y s choice_body).
  { intros X Y X2 Y2 AX Bd. apply NormalizeSpec.body_sat_one in Bd. apply NormalizeSpec.body_sat_one.
    apply (at1_sat sym_lt Gc X Y s NoSign "grp" "G"). apply (at1_sat sym_lt Gc X2 Y2 s NoSign "grp" "G") in Bd.
    apply (AX _ (V_grp _)). exact Bd. }
  split.
  - intro Bd. apply (choice_head_dir H T H2 T2 s AH AT). apply R1. exact (B H T H2 T2 AH Bd).
  - intro Bd. apply (choice_head_dir T T T2 T2 s AT AT). apply R2. exact (B T T T2 T2 AT Bd).
Qed.

(* the original element: { V,G : p(G,V) } *)
Lemma e_orig_tuples G X Y s tv : ~ In "V" G -> ~ In "G" G ->
  (AggSem.elems_tuples sym_lt G X Y s [e_orig] tv <-> exists g v, X ("p", [g; v]) /\ tv = [v; g]).
Proof.
  intros NV NG. rewrite NormalizeSpec.elems_tuples_iff. split.
  - intros [e [[<-|[]] [th [_ [Ev Cs]]]]]. unfold e_orig, orig_elem in Ev, Cs. simpl in Ev. injection Ev as <-.
    simpl snd in Cs. apply NormalizeSpec.lits_sat_one in Cs. apply atg_sat in Cs. simpl in Cs. eauto.
  - intros [g [v [Xp ->]]]. exists e_orig. split; [left; reflexivity|].
    exists (upd (upd s "G" g) "V" v). split; [apply agree_on_upd; [exact NV|apply agree_on_upd; [exact NG|intros y _; reflexivity]]|].
    unfold e_orig, orig_elem. simpl fst. simpl snd. split; [reflexivity|].
    apply NormalizeSpec.lits_sat_one. apply atg_sat. simpl. exact Xp.
Qed.

Lemma tot_body_sat_HT X Y es s :
  body_sat Gt X Y s [BLit (Lit NoSign (ABodyAgg (Some (CEq, TVar "S")) FSum es None))] <->
  agg_value sym_lt FSum (AggSem.elems_tuples sym_lt Gt X Y s es) (s "S") /\
  agg_value sym_lt FSum (AggSem.elems_tuples sym_lt Gt Y Y s es) (s "S").
Proof.
  rewrite NormalizeSpec.body_sat_one.
  change (atom_sat sym_lt Gt X Y s NoSign (ABodyAgg (Some (CEq, TVar "S")) FSum es None) <->
          agg_value sym_lt FSum (AggSem.elems_tuples sym_lt Gt X Y s es) (s "S") /\
          agg_value sym_lt FSum (AggSem.elems_tuples sym_lt Gt Y Y s es) (s "S")).
  rewrite AggSem.atom_sat_bodyagg. simpl apply_sign. unfold Sat.agg_holds.
  assert (K: forall S0, (exists v, agg_value sym_lt FSum S0 v /\ guard_ok sym_lt s true (Some (CEq, TVar "S")) v /\ guard_ok sym_lt s false None v)
                        <-> agg_value sym_lt FSum S0 (s "S")).
  { intro S0. split.
    - intros [v [AV [Gd _]]]. simpl in Gd. rewrite Gd. exact AV.
    - intro AV. exists (s "S"). split; [exact AV|]. split; [reflexivity|exact Logic.I]. }
  rewrite !K. tauto.
Qed.
End Gen.

Section SoundDir.
Variable sym_lt : sym -> sym -> Prop.
Hypothesis Ord : sym_order sym_lt.
Variable I : list gatom.
Variable T' : interp.
Hypothesis IOK : inst_ok I.
Hypothesis St : Sat.stable sym_lt Q_norm I T'.
Notation lit_sat := (lit_sat sym_lt).
Notation body_sat := (body_sat sym_lt).
Notation stmt_sat := (stmt_sat sym_lt).

Definition Tr : interp := restr Vorig T'.
Lemma agree_Tr : agreeV Tr T'.
Proof. intros a Va. unfold Tr, restr. tauto. Qed.
Lemma Gt_V : ~ In "V" Gt. Proof. unfold Gt. simpl. intuition discriminate. Qed.
Lemma Gt_G : ~ In "G" Gt. Proof. unfold Gt. simpl. intuition discriminate. Qed.

Lemma tot_atom_sat X Y s : lit_sat Gt X Y s (Lit NoSign (ASym (TFun "tot" [TVar "S"] false))) <-> X ("tot", [s "S"]).
Proof. exact (at1_sat sym_lt Gt X Y s NoSign "tot" "S"). Qed.

(* a rule with an atom head over a new predicate holds in (H',T') as soon as it holds in (T',T') and H' contains
   all new atoms of T' *)
Lemma aux_rule_HT (H': interp) ln n args e b :
  subi H' T' -> (forall vs, T' (n, vs) -> H' (n, vs)) ->
  stmt_sat T' T' (SRule ln (HLit (Lit NoSign (ASym (TFun n args e)))) b) ->
  stmt_sat H' T' (SRule ln (HLit (Lit NoSign (ASym (TFun n args e)))) b).
Proof.
  intros Sub New R s. destruct (R s) as [_ R2]. split; [|exact R2]. intro Bd.
  apply (body_sat_persist sym_lt _ _ _ _ _ Sub) in Bd. apply R2 in Bd.
  match goal with |- Sat.head_sat _ ?G0 _ _ _ _ => set (G := G0) in * end.
  change (lit_sat G T' T' s (Lit NoSign (ASym (TFun n args e)))) in Bd.
  change (lit_sat G H' T' s (Lit NoSign (ASym (TFun n args e)))).
  apply lit_sat_fun in Bd. destruct Bd as [vs [Ev Tv]]. apply lit_sat_fun. exists vs. split; [exact Ev|]. simpl in *. apply New. exact Tv.
Qed.

Theorem ex_pass_sound_dir : Sat.stable sym_lt P_sum I Tr.
Proof.
  pose proof St as [[PT' FT'] Min'].
  assert (TotT: forall s, body_sat Gt Tr Tr s [BLit (Lit NoSign (ABodyAgg (Some (CEq, TVar "S")) FSum [e_orig] None))] ->
                          T' ("tot", [s "S"])).
  { intros s Bd. apply tot_body_sat_HT in Bd. destruct Bd as [AV _].
    apply (tot_is_original_sum sym_lt Ord I T' IOK St). revert AV. apply AggSem.agg_value_ext.
    intro tv. rewrite (e_orig_tuples sym_lt Gt Tr Tr s tv Gt_V Gt_G). unfold orig_set. split.
    - intros [g [v [Tp E]]]. exists g, v.
      split; [first [exact (proj1 (agree_Tr _ (V_p _)) Tp) | exact (proj2 (agree_Tr _ (V_p _)) Tp)]|exact E].
    - intros [g [v [Tp E]]]. exists g, v.
      split; [first [exact (proj1 (agree_Tr _ (V_p _)) Tp) | exact (proj2 (agree_Tr _ (V_p _)) Tp)]|exact E]. }
  split; [split|].
  - intros st [<-|[<-|[<-|[]]]].
    + exact Logic.I.
    + apply (choice_rule_dir sym_lt T' T' Tr Tr (agreeV_sym _ _ agree_Tr) (agreeV_sym _ _ agree_Tr)). apply PT'. in_prog.
    + unfold tot_rule, Sat.stmt_sat. rewrite gvars_tot. intro s.
      assert (X: body_sat Gt Tr Tr s [BLit (Lit NoSign (ABodyAgg (Some (CEq, TVar "S")) FSum [e_orig] None))] ->
                 Sat.head_sat sym_lt Gt Tr Tr s (HLit (Lit NoSign (ASym (TFun "tot" [TVar "S"] false))))).
      { intro Bd. apply (tot_atom_sat Tr Tr s). apply (proj2 (agree_Tr _ (V_tot _))). apply TotT. exact Bd. }
      split; exact X.
  - intros a Ha. split; [|apply FT'; exact Ha].
    destruct (IOK _ Ha) as [[z ->]|[g ->]]; [apply V_val|apply V_grp].
  - intros H HT PS FH a Ta.
    set (H' := fun b : gatom => (Vorig b /\ H b) \/ (~ Vorig b /\ T' b)).
    assert (Sub: subi H' T').
    { intros b [[Vb Hb]|[_ Tb]]; [|exact Tb]. exact (proj2 (HT b Hb)). }
    assert (AH: agreeV H' H).
    { intros b Vb. unfold H'. tauto. }
    assert (NewA: forall n vs, ~ In n ["val"; "grp"; "p"; "tot"] -> T' (n, vs) -> H' (n, vs)).
    { intros n vs Nn Tn. right. split; [exact Nn|exact Tn]. }
    (* the choice rule forces H and T' to agree on p *)
    assert (Hp: forall g v, T' ("p", [g; v]) -> H ("p", [g; v])).
    { intros g v Tp. destruct (p_in_dom sym_lt I T' IOK St g v Tp) as [Tv Tg].
      apply (val_facts sym_lt I T' St) in Tv. apply (grp_facts sym_lt I T' St) in Tg.
      pose proof (PS choice_rule ltac:(simpl; auto)) as R. destruct (R (sGV g v)) as [R1 _].
      assert (Bd: body_sat Gc H Tr (sGV g v) choice_body).
      { apply NormalizeSpec.body_sat_one. apply (at1_sat sym_lt Gc H Tr (sGV g v) NoSign "grp" "G"). apply FH. exact Tg. }
      apply R1 in Bd. destruct Bd as [CE _].
      destruct (CE _ (sGV g v) (or_introl eq_refl) (fun y _ => eq_refl)) as [L|N].
      - apply val_lit_sat. apply FH. exact Tv.
      - simpl fst in L. apply p_lit_sat in L. exact L.
      - exfalso. apply N. simpl fst. apply p_lit_sat. apply (proj2 (agree_Tr _ (V_p _))). exact Tp. }
    assert (PS': Sat.prog_sat sym_lt H' T' Q_norm).
    { intros st Hin. unfold Q_norm, aux_rules in Hin. simpl in Hin.
      destruct Hin as [<-|[<-|[<-|[<-|[<-|[<-|[<-|[<-|[<-|[<-|[<-|[]]]]]]]]]]]].
      - exact Logic.I.
      - apply (choice_rule_dir sym_lt H Tr H' T' (agreeV_sym _ _ AH) agree_Tr). apply PS. simpl. auto.
      - apply aux_rule_HT; [exact Sub| |apply PT'; in_prog]. intros vs. apply NewA. simpl. intuition discriminate.
      - apply aux_rule_HT; [exact Sub| |apply PT'; in_prog]. intros vs. apply NewA. simpl. intuition discriminate.
      - apply aux_rule_HT; [exact Sub| |apply PT'; in_prog]. intros vs. apply NewA. simpl. intuition discriminate.
      - apply aux_rule_HT; [exact Sub| |apply PT'; in_prog]. intros vs. apply NewA. simpl. intuition discriminate.
      - apply aux_rule_HT; [exact Sub| |apply PT'; in_prog]. intros vs. apply NewA. simpl. intuition discriminate.
      - apply aux_rule_HT; [exact Sub| |apply PT'; in_prog]. intros vs. apply NewA. simpl. intuition discriminate.
      - apply aux_rule_HT; [exact Sub| |apply PT'; in_prog]. intros vs. apply NewA. simpl. intuition discriminate.
      - apply aux_rule_HT; [exact Sub| |apply PT'; in_prog]. intros vs. apply NewA. simpl. intuition discriminate.
      - pose proof (PT' (tot_rule [e_step; e_proj]) ltac:(in_prog)) as R. unfold tot_rule, Sat.stmt_sat in *.
        rewrite gvars_tot in *. intro s. destruct (R s) as [_ R2]. split; [|exact R2]. intro Bd.
        apply tot_body_sat_HT in Bd. destruct Bd as [_ AV2].
        assert (Tt: T' ("tot", [s "S"])).
        { apply (tot_atom_sat T' T' s). apply R2. apply tot_body_sat_HT. split; exact AV2. }
        apply (tot_is_original_sum sym_lt Ord I T' IOK St) in Tt.
        pose proof (PS (tot_rule [e_orig]) ltac:(simpl; auto)) as RO. unfold tot_rule, Sat.stmt_sat in RO.
        rewrite gvars_tot in RO. destruct (RO s) as [RO1 _].
        apply (tot_atom_sat H' T' s). left. split; [apply V_tot|]. apply (tot_atom_sat H Tr s). apply RO1.
        apply tot_body_sat_HT.
        assert (E1: forall X, (forall g v, X ("p", [g; v]) <-> T' ("p", [g; v])) ->
                      agg_value sym_lt FSum (AggSem.elems_tuples sym_lt Gt X Tr s [e_orig]) (s "S")).
        { intros X EX. revert Tt. apply AggSem.agg_value_ext. intro tv.
          rewrite (e_orig_tuples sym_lt Gt X Tr s tv Gt_V Gt_G). unfold orig_set.
          split; intros [g [v [Tp E]]]; exists g, v; (split; [apply EX; exact Tp|exact E]). }
        split; apply E1.
        + intros g v. split; [intro Hv; exact (proj2 (HT _ Hv))|apply Hp].
        + intros g v. apply (agree_Tr _ (V_p _)). }
    assert (FH': facts_sat H' I).
    { intros b Hb. left. split; [|apply FH; exact Hb]. destruct (IOK _ Hb) as [[z ->]|[g ->]]; [apply V_val|apply V_grp]. }
    destruct Ta as [Va Ta']. destruct (Min' H' Sub PS' FH' a Ta') as [[_ Ha]|[NV _]]; [exact Ha|contradiction].
Qed.
End SoundDir.

(* ---- the hypotheses are satisfiable: on the empty instance Q_norm has the stable model { tot(0) } ---- *)
Section NonVacuous.
Variable sym_lt : sym -> sym -> Prop.
Notation lit_sat := (lit_sat sym_lt).
Notation body_sat := (body_sat sym_lt).
Notation stmt_sat := (stmt_sat sym_lt).
Definition T0 : interp := fun a => a = ("tot", [SNum 0]).

Lemma rule_vacuous G (H T: interp) h b n args e :
  In (BLit (Lit NoSign (ASym (TFun n args e)))) b -> (forall vs, ~ H (n, vs)) -> (forall vs, ~ T (n, vs)) ->
  rule_sat sym_lt G H T h b.
Proof.
  intros Hin NH NT s.
  assert (X: forall Y, (forall vs, ~ Y (n, vs)) -> ~ body_sat G Y T s b).
  { intros Y NY Bd. unfold Sat.body_sat in Bd. rewrite Forall_forall in Bd. specialize (Bd _ Hin).
    change (lit_sat G Y T s (Lit NoSign (ASym (TFun n args e)))) in Bd. apply lit_sat_fun in Bd.
    destruct Bd as [vs [_ Yv]]. exact (NY vs Yv). }
  split; intro Bd; exfalso; [exact (X H NH Bd)|exact (X T NT Bd)].
Qed.
Lemma T0_no n vs : n <> "tot" -> ~ T0 (n, vs).
Proof. intros N E. unfold T0 in E. injection E as E _. exact (N E). Qed.

Lemma new_tuples_empty (X: interp) s tv : subi X T0 -> ~ AggSem.elems_tuples sym_lt Gt X T0 s [e_step; e_proj] tv.
Proof.
  intros Sub E. apply NormalizeSpec.elems_tuples_iff in E. destruct E as [e [He [th [_ [_ Cs]]]]].
  assert (C: lit_sat Gt X T0 th (atg ["G"] NoSign ch ["V"])).
  { destruct He as [<-|[<-|[]]]; unfold e_step, e_proj, elem_step, elem_first_proj, elem_first in Cs; simpl snd in Cs;
      apply NormalizeSem.lits_sat_cons in Cs; exact (proj1 Cs). }
  apply atg_sat in C. simpl in C. apply Sub in C. revert C. apply T0_no. discriminate.
Qed.
Lemma sum_empty (S: tupset) v : (forall tv, ~ S tv) -> (agg_value sym_lt FSum S v <-> v = SNum 0).
Proof.
  intro E. simpl. split.
  - intros [l [[_ M] ->]]. destruct l as [|t l]; [reflexivity|]. exfalso. apply (E t). apply M. left. reflexivity.
  - intros ->. exists []. split; [|reflexivity]. split; [constructor|]. intro tv. split; [intros []|intro X; exact (E tv X)].
Qed.

Theorem Q_norm_satisfiable : Sat.stable sym_lt Q_norm [] T0.
Proof.
  assert (TotB: forall X s, subi X T0 ->
            (body_sat Gt X T0 s [BLit (Lit NoSign (ABodyAgg (Some (CEq, TVar "S")) FSum [e_step; e_proj] None))] <-> s "S" = SNum 0)).
  { intros X s Sub. rewrite tot_body_sat_HT.
    rewrite (sum_empty _ (s "S") (fun tv => new_tuples_empty X s tv Sub)).
    rewrite (sum_empty _ (s "S") (fun tv => new_tuples_empty T0 s tv (fun a Ha => Ha))). tauto. }
  split; [split|].
  - intros st Hin. unfold Q_norm, aux_rules in Hin. simpl in Hin.
    destruct Hin as [<-|[<-|[<-|[<-|[<-|[<-|[<-|[<-|[<-|[<-|[<-|[]]]]]]]]]]]].
    + exact Logic.I.
    + apply (rule_vacuous _ T0 T0 _ _ "grp" [TVar "G"] false); [left; reflexivity| |]; intro vs; apply T0_no; discriminate.
    + apply (rule_vacuous _ T0 T0 _ _ "val" [TVar "V"] false); [left; reflexivity| |]; intro vs; apply T0_no; discriminate.
    + apply (rule_vacuous _ T0 T0 _ _ dom (map TVar (G0 ++ ["_"])) false); [right; left; reflexivity| |]; intro vs; apply T0_no; discriminate.
    + apply (rule_vacuous _ T0 T0 _ _ dom (map TVar (G0 ++ ["_"])) false); [right; left; reflexivity| |]; intro vs; apply T0_no; discriminate.
    + apply (rule_vacuous _ T0 T0 _ _ mn (map TVar (G0 ++ ["P"])) false); [left; reflexivity| |]; intro vs; apply T0_no; discriminate.
    + apply (rule_vacuous _ T0 T0 _ _ nx (map TVar (G0 ++ ["_"; "P"])) false); [left; reflexivity| |]; intro vs; apply T0_no; discriminate.
    + apply (rule_vacuous _ T0 T0 _ _ "p" (map TVar (G0 ++ ["P"])) false); [left; reflexivity| |]; intro vs; apply T0_no; discriminate.
    + apply (rule_vacuous _ T0 T0 _ _ ch (map TVar (G0 ++ ["N"])) false); [left; reflexivity| |]; intro vs; apply T0_no; discriminate.
    + apply (rule_vacuous _ T0 T0 _ _ nx (map TVar (G0 ++ ["_"; "N"])) false); [left; reflexivity| |]; intro vs; apply T0_no; discriminate.
    + unfold tot_rule, Sat.stmt_sat. rewrite gvars_tot. intro s.
      assert (X: body_sat Gt T0 T0 s [BLit (Lit NoSign (ABodyAgg (Some (CEq, TVar "S")) FSum [e_step; e_proj] None))] ->
                 Sat.head_sat sym_lt Gt T0 T0 s (HLit (Lit NoSign (ASym (TFun "tot" [TVar "S"] false))))).
      { intro Bd. apply (TotB T0 s (fun a Ha => Ha)) in Bd.
        apply (at1_sat sym_lt Gt T0 T0 s NoSign "tot" "S"). simpl. unfold T0. rewrite Bd. reflexivity. }
      split; exact X.
  - intros a [].
  - intros H Sub PS _ a Ta. unfold T0 in Ta. subst a.
    pose proof (PS (tot_rule [e_step; e_proj]) ltac:(in_prog)) as R. unfold tot_rule, Sat.stmt_sat in R. rewrite gvars_tot in R.
    destruct (R (fun _ => SNum 0)) as [R1 _].
    apply (at1_sat sym_lt Gt H T0 (fun _ => SNum 0) NoSign "tot" "S"). apply R1. apply (TotB H _ Sub). reflexivity.
Qed.
End NonVacuous.

(* 5: what is proved about the pass on this program.  Q = the output of the model (= of the real pass, by the
   correspondence families); Q_norm = Q with `not nx(G,_,V)` read as gringo reads it.
   PROVED: every answer set of Q_norm (any instance of integer val/1 facts and grp/1 facts) restricted to the original
   vocabulary is an answer set of the input program, and in it tot(S) holds exactly for S = the original sum.
   NOT PROVED (hence _partial): that every answer set of the input program is obtained in this way
   (the other half of cons_ext); it needs the construction of the stable extension by the auxiliary predicates. *)
Theorem ex_pass_sound_partial sym_lt : sym_order sym_lt ->
  exists Q, SumChains.execute P_sum [] order_sum = Ok Q /\ Q = Q_sum /\
    forall I T', inst_ok I -> Sat.stable sym_lt Q_norm I T' ->
      Sat.stable sym_lt P_sum I (restr Vorig T') /\
      (forall S, T' ("tot", [S]) <-> agg_value sym_lt FSum (orig_set T') S).
Proof.
  intro Ord. exists Q_sum. split; [exact model_sum|]. split; [reflexivity|]. intros I T' IOK St. split.
  - exact (ex_pass_sound_dir sym_lt Ord I T' IOK St).
  - exact (tot_is_original_sum sym_lt Ord I T' IOK St).
Qed.
End Example.


Print Assumptions telescope_sum.
Print Assumptions supported_x.
Print Assumptions chain_meaning.
Print Assumptions chain_pred_meaning.
Print Assumptions chain_sum_is_max.
Print Assumptions sum_chain_value.
Print Assumptions sumplus_chain_value.
Print Assumptions sum_chain_value_all.
Print Assumptions sum_chain_agg.
Print Assumptions group_ok_of_meaning.
Print Assumptions sum_chain_elems.
Print Assumptions elem_first_anon_vacuous.
Print Assumptions sum_chain_cost.
Print Assumptions sum_chain_cost_max.
Print Assumptions Refutations.no_at_most_one_refuted.
Print Assumptions Refutations.projected_group_refuted.
Print Assumptions Refutations.sumplus_negative_minimum_refuted.
Print Assumptions Refutations.non_integer_domain_refuted.
Print Assumptions ModelRun.model_sum.
Print Assumptions ModelRun.model_min.
Print Assumptions ModelRun.model_max.
Print Assumptions Example.ex_pass_meaning.
Print Assumptions Example.ex_pass_sound_partial.
Print Assumptions Example.Q_norm_satisfiable.
