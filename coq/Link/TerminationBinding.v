(* Termination of the fixpoint loops of Model/Binding.v: the fuel that the wrappers pass is always
   sufficient, i.e. none of the model functions ever answers OutOfFuel.

   Measure.  Let V be the list of variable occurrences of the argument (flat_map vars_lit conditions,
   resp. flat_map vars_bodyelem stmlist) and  meas V b := |{ x in V | x not in b }| (with multiplicity).
   One pass of either loop maps the bound set b to b' with
     (i)   b  is included in b',
     (ii)  b' is included in b + V,
     (iii) b' = b (syntactically) or some x is in b' but not in b,
   (relation `ext V b b'`).  A new x lies in V by (ii), so meas V b' < meas V b.
   - conditions_loop: if b' = b the next test `len(b) == size` succeeds, otherwise the measure dropped:
     fuel > meas V b suffices, and meas V b <= |V| < |V| + 2.
   - comparisons_loop: `sseteq b b' = false` together with (i) yields a new x: fuel > meas V b suffices.
   - body_loop: the loop body runs exactly once (the condition is re-tested right after
     `size_before = len(bound_variables)`), so fuel >= 1 suffices.
   Stdlib only; every theorem is closed under the global context. *)
From Coq Require Import List String ZArith Bool Arith Lia.
From NGO Require Import Syntax.Ast Model.Corr Model.Binding Link.BindingPerm.
Import ListNotations.
Open Scope string_scope. Open Scope list_scope.

(* ------------------------------------------------------------------ *)
(* 0. generic helpers                                                  *)
(* ------------------------------------------------------------------ *)
Lemma tb_rbind_no_oof {A B} (r: result A) (f: A -> result B) :
  r <> OutOfFuel -> (forall a, f a <> OutOfFuel) -> rbind r f <> OutOfFuel.
Proof.
  destruct r as [a|k| |]; cbn; intros N F.
  - apply F.
  - discriminate.
  - discriminate.
  - exfalso. apply N. reflexivity.
Qed.

Lemma tb_fold_no_oof {A B} (g: result A -> B -> result A) :
  (forall acc x, acc <> OutOfFuel -> g acc x <> OutOfFuel) ->
  forall l init, init <> OutOfFuel -> fold_left g l init <> OutOfFuel.
Proof.
  intros Hg. induction l as [|x l IH]; intros init Hi; cbn [fold_left]; [exact Hi|].
  apply IH, Hg, Hi.
Qed.

(* the generic lemma asked for: a fold of rbind steps never runs out of fuel if no step does *)
Lemma fold_left_rbind_no_outoffuel {A B} (f: B -> A -> result A) :
  (forall x a, f x a <> OutOfFuel) ->
  forall l init, init <> OutOfFuel ->
  fold_left (fun acc x => rbind acc (f x)) l init <> OutOfFuel.
Proof.
  intros Hf. apply tb_fold_no_oof. intros acc x Hacc. apply tb_rbind_no_oof; [exact Hacc | apply Hf].
Qed.

Lemma filter_len_le {A} (f g: A -> bool) (l: list A) :
  (forall y, g y = true -> f y = true) -> List.length (filter g l) <= List.length (filter f l).
Proof.
  intros H. induction l as [|a l IH]; cbn; [lia|].
  destruct (g a) eqn:Eg.
  - rewrite (H a Eg). cbn. lia.
  - destruct (f a); cbn; lia.
Qed.

Lemma filter_len_lt {A} (f g: A -> bool) (l: list A) (x: A) :
  (forall y, g y = true -> f y = true) -> In x l -> f x = true -> g x = false ->
  List.length (filter g l) < List.length (filter f l).
Proof.
  intros H Hin Hf Hg. induction l as [|a l IH]; [contradiction|].
  destruct Hin as [-> | Hin].
  - cbn. rewrite Hf, Hg. cbn. pose proof (filter_len_le f g l H). lia.
  - specialize (IH Hin). cbn. destruct (g a) eqn:Eg.
    + rewrite (H a Eg). cbn. lia.
    + destruct (f a); cbn; lia.
Qed.

Lemma forallb_false_ex {A} (f: A -> bool) (l: list A) :
  forallb f l = false -> exists x, In x l /\ f x = false.
Proof.
  induction l as [|a l IH]; cbn; [discriminate|].
  destruct (f a) eqn:E; cbn.
  - intros H. destruct (IH H) as [x [H1 H2]]. exists x. split; [right; exact H1 | exact H2].
  - intros _. exists a. split; [left; reflexivity | exact E].
Qed.

(* ------------------------------------------------------------------ *)
(* 1. the relations "upper bound" and "extension" on bound sets        *)
(* ------------------------------------------------------------------ *)
(* b' is included in b + V *)
Definition sub (V b b': list string) : Prop := forall x, In x b' -> In x b \/ In x V.

Lemma sub_refl V b : sub V b b.
Proof. intros x H. left. exact H. Qed.

Lemma sub_trans V b1 b2 b3 : sub V b1 b2 -> sub V b2 b3 -> sub V b1 b3.
Proof. intros H1 H2 x H. destruct (H2 x H) as [H'|H']; [apply H1, H' | right; exact H']. Qed.

Lemma sub_mono V V' b b' : incl V V' -> sub V b b' -> sub V' b b'.
Proof. intros HV H x Hx. destruct (H x Hx) as [H'|H']; [left; exact H' | right; apply HV, H']. Qed.

Lemma sub_supdate_vars V b xs : incl xs V -> sub V b (supdate b xs).
Proof. intros HV x Hx. apply supdate_In in Hx. destruct Hx as [Hx|Hx]; [left; exact Hx | right; apply HV, Hx]. Qed.

Lemma sub_supdate V b c : sub V b c -> sub V b (supdate b c).
Proof. intros H x Hx. apply supdate_In in Hx. destruct Hx as [Hx|Hx]; [left; exact Hx | apply H, Hx]. Qed.

Lemma sub_supdate_self V b c : sub V b c -> sub V b (supdate c c).
Proof. intros H x Hx. apply supdate_In in Hx. destruct Hx as [Hx|Hx]; apply H, Hx. Qed.

(* (i) + (ii) + (iii) *)
Definition ext (V b b': list string) : Prop :=
  incl b b' /\ sub V b b' /\ (b' = b \/ exists x, In x b' /\ ~ In x b).

Lemma ext_refl V b : ext V b b.
Proof. split; [apply incl_refl|]. split; [apply sub_refl | left; reflexivity]. Qed.

Lemma ext_trans V b1 b2 b3 : ext V b1 b2 -> ext V b2 b3 -> ext V b1 b3.
Proof.
  intros (I1 & S1 & N1) (I2 & S2 & N2).
  split; [eapply incl_tran; eassumption|]. split; [eapply sub_trans; eassumption|].
  destruct N1 as [-> | (x & Hx & Hn)].
  - exact N2.
  - right. exists x. split; [apply I2, Hx | exact Hn].
Qed.

Lemma supdate_same_or_new : forall xs s, supdate s xs = s \/ exists x, In x (supdate s xs) /\ ~ In x s.
Proof.
  unfold supdate. induction xs as [|x xs IH]; intros s; cbn [fold_left]; [left; reflexivity|].
  destruct (Binding.smem x s) eqn:E.
  - assert (Es: sadd x s = s) by (unfold sadd; rewrite E; reflexivity). rewrite Es. apply IH.
  - assert (Es: sadd x s = s ++ [x]) by (unfold sadd; rewrite E; reflexivity). rewrite Es.
    right. exists x. split.
    + apply (proj2 (supdate_In xs (s ++ [x]) x)). left. apply in_or_app. right. left. reflexivity.
    + intros Hin. apply bsmem_In in Hin. congruence.
Qed.

Lemma ext_supdate V b c : sub V b c -> ext V b (supdate b c).
Proof.
  intros H. split; [| split].
  - intros x Hx. apply supdate_In. left. exact Hx.
  - apply sub_supdate, H.
  - apply supdate_same_or_new.
Qed.

(* a fold over pairs preserves a reflexive-transitive relation on the first components *)
Lemma fold_fst_rel {C} (R: vset -> vset -> Prop) (f: vset * vset -> C -> vset * vset) :
  (forall b, R b b) -> (forall b1 b2 b3, R b1 b2 -> R b2 b3 -> R b1 b3) ->
  forall l, (forall acc c, In c l -> R (fst acc) (fst (f acc c))) ->
  forall acc, R (fst acc) (fst (fold_left f l acc)).
Proof.
  intros Rrefl Rtrans. induction l as [|c l IH]; intros Hstep acc; cbn [fold_left]; [apply Rrefl|].
  eapply Rtrans; [apply Hstep; left; reflexivity|].
  apply IH. intros acc' c' Hin. apply Hstep. right. exact Hin.
Qed.

(* ------------------------------------------------------------------ *)
(* 2. upper bounds, bottom up                                          *)
(* ------------------------------------------------------------------ *)
Lemma from_equal_base_sub lhs rhs b :
  sub (vars_term lhs ++ vars_term rhs) b (from_equal_base lhs rhs b).
Proof.
  intros x Hx. unfold from_equal_base in Hx. cbv zeta in Hx.
  repeat match type of Hx with context [if ?c then _ else _] => destruct c end;
    rewrite ?supdate_In, ?sof_In in Hx; rewrite in_app_iff; tauto.
Qed.

Lemma basecase_sub lhs rhs b :
  sub (vars_term lhs ++ vars_term rhs) b (fst (from_equal_basecase lhs rhs b)).
Proof. unfold from_equal_basecase. cbn [fst]. apply from_equal_base_sub. Qed.

Definition fe_sub_at (lhs: term) : Prop :=
  forall rhs b, sub (vars_term lhs ++ vars_term rhs) b (fst (from_equal lhs rhs b)).

Lemma zip_sub : forall ls, Forall fe_sub_at ls ->
  forall rs b u, sub (flat_map vars_term ls ++ flat_map vars_term rs) b (fst (zip_from_equal ls rs b u)).
Proof.
  intros ls HF. induction HF as [|l ls Hl HF IH]; intros rs b u.
  - cbn. apply sub_refl.
  - destruct rs as [|r rs]; [cbn; apply sub_refl|].
    cbn [zip_from_equal]. fold zip_from_equal.
    pose proof (Hl r b) as H1.
    destruct (from_equal l r b) as [bd ub]. cbn [fst] in H1.
    pose proof (IH rs (supdate bd bd) (supdate u ub)) as H2.
    intros x Hx. apply H2 in Hx. cbn [flat_map]. rewrite !in_app_iff in *.
    destruct Hx as [Hx | Hx]; [| tauto].
    apply supdate_In in Hx. assert (Hb: In x bd) by tauto.
    apply H1 in Hb. rewrite in_app_iff in Hb. tauto.
Qed.

Theorem from_equal_sub : forall lhs, fe_sub_at lhs.
Proof.
  apply term_ind_nested; unfold fe_sub_at.
  - intros v rhs b.
    destruct (from_equal_cases (TVar v) rhs b) as [E | (ln & largs & le & rn & rargs & re & E1 & _)];
      [rewrite E; apply basecase_sub | discriminate].
  - intros s rhs b.
    destruct (from_equal_cases (TSym s) rhs b) as [E | (ln & largs & le & rn & rargs & re & E1 & _)];
      [rewrite E; apply basecase_sub | discriminate].
  - intros o t _ rhs b.
    destruct (from_equal_cases (TUn o t) rhs b) as [E | (ln & largs & le & rn & rargs & re & E1 & _)];
      [rewrite E; apply basecase_sub | discriminate].
  - intros o l r _ _ rhs b.
    destruct (from_equal_cases (TBin o l r) rhs b) as [E | (ln & largs & le & rn & rargs & re & E1 & _)];
      [rewrite E; apply basecase_sub | discriminate].
  - intros l r _ _ rhs b.
    destruct (from_equal_cases (TInterval l r) rhs b) as [E | (ln & largs & le & rn & rargs & re & E1 & _)];
      [rewrite E; apply basecase_sub | discriminate].
  - intros n args e HF rhs b.
    destruct (from_equal_cases (TFun n args e) rhs b) as [E | (ln & largs & le & rn & rargs & re & E1 & E2 & E)];
      [rewrite E; apply basecase_sub |].
    inversion E1; subst ln largs le. subst rhs. rewrite E. cbn [fst vars_term].
    apply zip_sub, HF.
  - intros alts _ rhs b.
    destruct (from_equal_cases (TPool alts) rhs b) as [E | (ln & largs & le & rn & rargs & re & E1 & _)];
      [rewrite E; apply basecase_sub | discriminate].
Qed.

Lemma c2cl_vars : forall gs t lhs op rhs,
  In (lhs, op, rhs) (c2cl t gs) -> incl (vars_term lhs ++ vars_term rhs) (vars_term t ++ flat_map vars_guard gs).
Proof.
  induction gs as [|[op0 rhs0] gs IH]; intros t lhs op rhs Hin; cbn [c2cl] in Hin; [contradiction|].
  cbn [flat_map]. unfold vars_guard at 1. cbn [snd].
  destruct Hin as [E | Hin].
  - inversion E; subst. intros x. rewrite !in_app_iff. tauto.
  - specialize (IH _ _ _ _ Hin). intros x Hx. apply IH in Hx. rewrite !in_app_iff in *. tauto.
Qed.

Lemma from_comparison_cmp_sub s t gs b :
  sub (vars_atom (ACmp t gs)) b (fst (from_comparison_cmp s t gs b)).
Proof.
  unfold from_comparison_cmp. destruct s; try (cbn [fst]; intros x []).
  match goal with |- context [fold_left ?f ?l ?a] =>
    pose proof (fold_fst_rel (sub (vars_atom (ACmp t gs))) f (sub_refl _) (sub_trans _) l) as H;
    specialize (fun Hs => H Hs a) end.
  match type of H with ?P -> _ => assert (Hs: P) end.
  { intros [b0 u0] [[lhs op] rhs] Hin. cbn [fst].
    destruct (cmp_eqb op CEq); [| apply sub_refl].
    pose proof (from_equal_sub lhs rhs b0) as H1.
    destruct (from_equal lhs rhs b0) as [bd ub]. cbn [fst] in *.
    apply sub_supdate_self. eapply sub_mono; [| exact H1].
    cbn [vars_atom]. eapply c2cl_vars. exact Hin. }
  specialize (H Hs). clear Hs. cbn [fst] in H.
  match type of H with context [fold_left ?f ?l ?a] => destruct (fold_left f l a) as [b1 u1] end.
  cbn [fst] in *. exact H.
Qed.

Lemma simple_literal_sub l b u : sub (vars_lit l) b (fst (simple_literal l b u)).
Proof.
  destruct l as [s a]. unfold simple_literal.
  destruct a as [t|t gs|bb|lg f es rg|lg es rg|txt]; try (cbn [fst]; apply sub_refl).
  - destruct s; try (cbn [fst]; apply sub_refl).
    destruct t as [x|sy|o t|o l r|l r|n args e|alts]; try (cbn [fst]; apply sub_refl).
    cbn [vars_lit vars_atom vars_term].
    match goal with |- context [fold_left ?f ?l ?a] =>
      apply (fold_fst_rel (sub (flat_map vars_term args)) f (sub_refl _) (sub_trans _) l) with (acc := a) end.
    intros [b0 u0] arg Hin.
    match goal with |- context [if ?c then _ else _] => destruct c end; cbn [fst]; [| apply sub_refl].
    apply sub_supdate_vars. intros x Hx. apply in_flat_map. exists arg. split; assumption.
  - pose proof (from_comparison_cmp_sub s t gs b) as H.
    destruct (from_comparison_cmp s t gs b) as [bd ub]. cbn [fst] in *.
    apply sub_supdate. exact H.
Qed.

(* ------------------------------------------------------------------ *)
(* 3. one pass extends the bound set                                   *)
(* ------------------------------------------------------------------ *)
Lemma conditions_pass_ext cs b u :
  ext (flat_map vars_lit cs) b (fst (conditions_pass cs b u)).
Proof.
  unfold conditions_pass.
  match goal with |- context [fold_left ?f ?l ?a] =>
    apply (fold_fst_rel (ext (flat_map vars_lit cs)) f (ext_refl _) (ext_trans _) l) with (acc := a) end.
  intros [b0 u0] c Hin.
  pose proof (simple_literal_sub c b0 u0) as H.
  destruct (simple_literal c b0 u0) as [bd ub]. cbn [fst] in *.
  apply ext_supdate. eapply sub_mono; [| exact H].
  intros x Hx. apply in_flat_map. exists c. split; assumption.
Qed.

Lemma comparisons_pass_ext l b u :
  ext (flat_map vars_bodyelem l) b (fst (comparisons_pass l b u)).
Proof.
  unfold comparisons_pass.
  match goal with |- context [fold_left ?f ?l0 ?a] =>
    apply (fold_fst_rel (ext (flat_map vars_bodyelem l)) f (ext_refl _) (ext_trans _) l0) with (acc := a) end.
  intros [b0 u0] stm Hin.
  destruct stm as [[s a]|l0 c0]; [| cbn [fst]; apply ext_refl].
  destruct a as [t|t gs|bb|lg f es rg|lg es rg|txt]; try (cbn [fst]; apply ext_refl).
  pose proof (from_comparison_cmp_sub s t gs b0) as H.
  destruct (from_comparison_cmp s t gs b0) as [bd ub]. cbn [fst] in *.
  apply ext_supdate. eapply sub_mono; [| exact H].
  intros x Hx. apply in_flat_map. exists (BLit (Lit s (ACmp t gs))). split; [exact Hin | exact Hx].
Qed.

(* ------------------------------------------------------------------ *)
(* 4. the measure                                                      *)
(* ------------------------------------------------------------------ *)
Definition meas (V b: list string) : nat := List.length (filter (fun x => negb (Binding.smem x b)) V).

Lemma meas_le V b : meas V b <= List.length V.
Proof.
  unfold meas. induction V as [|a V IH]; cbn; [lia|].
  destruct (negb (Binding.smem a b)); cbn; lia.
Qed.

Lemma meas_new V b b' x :
  incl b b' -> sub V b b' -> In x b' -> ~ In x b -> meas V b' < meas V b.
Proof.
  intros HI HS Hx Hn. unfold meas.
  apply (filter_len_lt _ _ V x).
  - intros y Hy. apply negb_true_iff in Hy. apply negb_true_iff.
    destruct (Binding.smem y b) eqn:E; [| reflexivity].
    apply bsmem_In in E. apply HI in E. apply bsmem_In in E. congruence.
  - destruct (HS x Hx) as [H|H]; [contradiction | exact H].
  - apply negb_true_iff. destruct (Binding.smem x b) eqn:E; [| reflexivity].
    apply bsmem_In in E. contradiction.
  - apply negb_false_iff. apply bsmem_In. exact Hx.
Qed.

Lemma ext_meas V b b' : ext V b b' -> b' = b \/ meas V b' < meas V b.
Proof.
  intros (HI & HS & [E | (x & Hx & Hn)]); [left; exact E | right].
  eapply meas_new; eassumption.
Qed.

Lemma sseteq_false_new b b' :
  incl b b' -> sseteq b b' = false -> exists x, In x b' /\ ~ In x b.
Proof.
  intros HI H. unfold sseteq in H.
  assert (E: ssubset b b' = true).
  { unfold ssubset. apply forallb_forall. intros x Hx. apply bsmem_In, HI, Hx. }
  rewrite E in H. cbn [andb] in H. unfold ssubset in H.
  apply forallb_false_ex in H. destruct H as [x [H1 H2]]. exists x. split; [exact H1|].
  intros Hin. apply bsmem_In in Hin. congruence.
Qed.

(* ------------------------------------------------------------------ *)
(* 5. _collect_binding_information_conditions                          *)
(* ------------------------------------------------------------------ *)
Theorem conditions_loop_no_outoffuel : forall fuel conditions b u size,
  meas (flat_map vars_lit conditions) b < fuel ->
  conditions_loop fuel conditions b u size <> OutOfFuel.
Proof.
  induction fuel as [|fuel IH]; intros cs b u size Hm; [lia|].
  cbn [conditions_loop]. destruct (Z.eqb (slen b) size); [discriminate|].
  pose proof (conditions_pass_ext cs b u) as H.
  destruct (conditions_pass cs b u) as [b' u']. cbn [fst] in H.
  destruct (ext_meas _ _ _ H) as [-> | Hlt].
  - destruct fuel; cbn [conditions_loop]; rewrite Z.eqb_refl; discriminate.
  - apply IH. lia.
Qed.

Theorem collect_binding_information_conditions_no_outoffuel : forall conditions already_bound,
  collect_binding_information_conditions conditions already_bound <> OutOfFuel.
Proof.
  intros cs b. unfold collect_binding_information_conditions.
  destruct (existsb lit_has_theory cs); [discriminate|].
  apply tb_rbind_no_oof.
  - apply conditions_loop_no_outoffuel. pose proof (meas_le (flat_map vars_lit cs) b). lia.
  - intros [b1 u1]. discriminate.
Qed.

(* ------------------------------------------------------------------ *)
(* 6. _collect_binding_information_from_comparisons                    *)
(* ------------------------------------------------------------------ *)
Theorem comparisons_loop_no_outoffuel : forall fuel stmlist b u,
  meas (flat_map vars_bodyelem stmlist) b < fuel ->
  comparisons_loop fuel stmlist b u <> OutOfFuel.
Proof.
  induction fuel as [|fuel IH]; intros l b u Hm; [lia|].
  cbn [comparisons_loop].
  pose proof (comparisons_pass_ext l b u) as H.
  destruct (comparisons_pass l b u) as [b' u']. cbn [fst] in H.
  destruct (sseteq b b') eqn:E; [discriminate|].
  destruct H as (HI & HS & _).
  destruct (sseteq_false_new b b' HI E) as (x & Hx & Hn).
  pose proof (meas_new _ _ _ _ HI HS Hx Hn).
  apply IH. lia.
Qed.

Theorem collect_binding_information_from_comparisons_no_outoffuel : forall stmlist input_bound,
  collect_binding_information_from_comparisons stmlist input_bound <> OutOfFuel.
Proof.
  intros l b. unfold collect_binding_information_from_comparisons.
  apply comparisons_loop_no_outoffuel. pose proof (meas_le (flat_map vars_bodyelem l) b). lia.
Qed.

Corollary from_comparisons_input_after_no_outoffuel : forall stmlist input_bound,
  from_comparisons_input_after stmlist input_bound <> OutOfFuel.
Proof.
  intros l b. unfold from_comparisons_input_after.
  apply tb_rbind_no_oof; [apply collect_binding_information_from_comparisons_no_outoffuel | discriminate].
Qed.

(* ------------------------------------------------------------------ *)
(* 7. collect_binding_information_body                                 *)
(* ------------------------------------------------------------------ *)
Lemma body_stm_no_outoffuel : forall stm bu, body_stm stm bu <> OutOfFuel.
Proof.
  intros stm [bv uv]. unfold body_stm. destruct stm as [l | l c].
  - destruct (simple_literal l bv uv) as [bd ub].
    destruct l as [s a].
    destruct a as [t|t gs|bb|lg f es rg|lg es rg|txt]; try discriminate.
    + destruct (guard_binding s rg (guard_binding s lg (supdate bv bd, supdate uv ub))) as [b1 u1].
      apply tb_rbind_no_oof; [| discriminate].
      apply tb_fold_no_oof; [| discriminate].
      intros acc element Hacc. apply tb_rbind_no_oof; [exact Hacc|]. intros uv0.
      apply tb_rbind_no_oof; [apply collect_binding_information_conditions_no_outoffuel|].
      intros [bo uo]. discriminate.
    + destruct (guard_binding s rg (guard_binding s lg (supdate bv bd, supdate uv ub))) as [b1 u1].
      match goal with |- context [if ?c then OutOfFragment else _] => destruct c end; [discriminate|].
      destruct (nonempty es); discriminate.
  - destruct (lit_has_theory l); [discriminate|].
    apply tb_rbind_no_oof; [apply collect_binding_information_conditions_no_outoffuel|].
    intros [bo uo]. discriminate.
Qed.

Theorem body_pass_no_outoffuel : forall stmlist bv uv, body_pass stmlist bv uv <> OutOfFuel.
Proof.
  intros l bv uv. unfold body_pass.
  apply tb_rbind_no_oof.
  - apply fold_left_rbind_no_outoffuel; [| discriminate].
    intros x a. apply body_stm_no_outoffuel.
  - intros [b1 u1].
    apply tb_rbind_no_oof; [apply collect_binding_information_from_comparisons_no_outoffuel|].
    intros [bo uo]. discriminate.
Qed.

(* the body of the while loop runs exactly once: one unit of fuel is enough *)
Theorem body_loop_no_outoffuel : forall fuel stmlist bv uv size_before,
  0 < fuel -> body_loop fuel stmlist bv uv size_before <> OutOfFuel.
Proof.
  intros fuel l bv uv size Hf. destruct fuel as [|fuel]; [lia|].
  cbn [body_loop]. destruct (Z.gtb (slen bv) size); [| discriminate].
  apply tb_rbind_no_oof; [apply body_pass_no_outoffuel|].
  intros [b1 u1]. destruct fuel; cbn [body_loop]; rewrite Z.gtb_ltb, Z.ltb_irrefl; discriminate.
Qed.

Theorem collect_binding_information_body_no_outoffuel : forall stmlist prebound,
  collect_binding_information_body stmlist prebound <> OutOfFuel.
Proof.
  intros l p. unfold collect_binding_information_body.
  apply tb_rbind_no_oof.
  - apply body_loop_no_outoffuel. lia.
  - intros [b1 u1]. discriminate.
Qed.

(* ------------------------------------------------------------------ *)
(* 8. corollaries                                                      *)
(* ------------------------------------------------------------------ *)
Theorem collect_bound_variables_no_outoffuel : forall stmlist,
  collect_bound_variables stmlist <> OutOfFuel.
Proof.
  intros l. unfold collect_bound_variables.
  apply tb_rbind_no_oof; [apply collect_binding_information_body_no_outoffuel | discriminate].
Qed.

Theorem collect_binding_information_head_no_outoffuel : forall h body,
  collect_binding_information_head h body <> OutOfFuel.
Proof.
  intros h body. unfold collect_binding_information_head.
  apply tb_rbind_no_oof; [apply collect_binding_information_body_no_outoffuel|].
  intros r. destruct h as [l | es | lg es rg | lg f es rg | txt].
  - destruct (lit_has_theory l); discriminate.
  - match goal with |- context [if ?c then OutOfFragment else _] => destruct c end; [discriminate|].
    apply tb_rbind_no_oof; [| intros [need nb]; discriminate].
    apply tb_fold_no_oof; [| discriminate].
    intros acc element Hacc. apply tb_rbind_no_oof; [exact Hacc|]. intros [need nb].
    apply tb_rbind_no_oof; [apply collect_binding_information_conditions_no_outoffuel|].
    intros [bo uo]. discriminate.
  - match goal with |- context [if ?c then OutOfFragment else _] => destruct c end; [discriminate|].
    apply tb_rbind_no_oof; [| intros [need nb]; discriminate].
    apply tb_fold_no_oof; [| discriminate].
    intros acc element Hacc. apply tb_rbind_no_oof; [exact Hacc|]. intros [need nb].
    apply tb_rbind_no_oof; [apply collect_binding_information_conditions_no_outoffuel|].
    intros [bo uo]. discriminate.
  - match goal with |- context [if ?c then OutOfFragment else _] => destruct c end; [discriminate|].
    apply tb_rbind_no_oof; [| intros [need nb]; discriminate].
    apply tb_fold_no_oof; [| discriminate].
    intros acc element Hacc. apply tb_rbind_no_oof; [exact Hacc|]. intros [need nb].
    apply tb_rbind_no_oof; [apply collect_binding_information_conditions_no_outoffuel|].
    intros [bo uo]. discriminate.
  - discriminate.
Qed.

Theorem global_vars_inside_body_no_outoffuel : forall lits,
  global_vars_inside_body lits <> OutOfFuel.
Proof.
  intros l. unfold global_vars_inside_body.
  apply tb_rbind_no_oof; [apply collect_binding_information_body_no_outoffuel|].
  intros [b u]. discriminate.
Qed.

Theorem global_vars_inside_head_no_outoffuel : forall h,
  global_vars_inside_head h <> OutOfFuel.
Proof.
  intros h. unfold global_vars_inside_head.
  apply tb_rbind_no_oof; [apply collect_binding_information_head_no_outoffuel|].
  intros [b u]. discriminate.
Qed.

Print Assumptions conditions_loop_no_outoffuel.
Print Assumptions collect_binding_information_conditions_no_outoffuel.
Print Assumptions comparisons_loop_no_outoffuel.
Print Assumptions collect_binding_information_from_comparisons_no_outoffuel.
Print Assumptions body_pass_no_outoffuel.
Print Assumptions body_loop_no_outoffuel.
Print Assumptions collect_binding_information_body_no_outoffuel.
Print Assumptions collect_bound_variables_no_outoffuel.
Print Assumptions collect_binding_information_head_no_outoffuel.
Print Assumptions global_vars_inside_body_no_outoffuel.
Print Assumptions global_vars_inside_head_no_outoffuel.
