(* C03, fuel sufficiency: every fuelled loop of the models below terminates within the fuel the model
   passes, i.e. the model never answers OutOfFuel (for the two closures of Model/Dependency.v that
   return their current set on fuel exhaustion: the result is closed, i.e. the fuel was enough).

   The proofs live in five files (compile in this order, then this file):
     Link/TerminationBinding.v     Model/Binding.v     conditions / comparisons / body loops
     Link/TerminationCleanup.v     Model/Cleanup.v     transitive_closure (doubling argument), execute_core
     Link/TerminationNormalize.v   Model/Normalize.v   inline_rule / inline_aggregate / inline_conditional,
                                                       exline_arithmetic (total, idempotent), preprocess,
                                                       optimize_none
     Link/TerminationUnused.v      Model/Unused.v      execute_loop (measure: statements + argument positions)
     Link/TerminationDependency.v  Model/Dependency.v  adr_loop, reach_closure, propagate, create_domain;
                                   Model/Projection.v  execute_core
   This file only combines them (hypotheses on the Binding model discharged, the `execute` wrappers of
   Model/CleanupExecute.v, Model/UnusedExecute.v, Model/ProjectionExecute.v) and restates the main
   theorems; every theorem is closed under the global context (no axioms). *)
From Coq Require Import List String ZArith Bool Arith.
From NGO Require Import Syntax.Ast.
From NGO Require Model.Binding Model.Cleanup Model.CleanupExecute Model.Normalize Model.Unused Model.UnusedExecute
     Model.Dependency Model.Projection Model.ProjectionExecute Model.Globals.
From NGO Require Link.CleanupSpec Link.TerminationBinding Link.TerminationCleanup Link.TerminationNormalize
     Link.TerminationUnused Link.TerminationDependency.
Import ListNotations.

(* ====================================================================================== *)
(** * 1. Model/Cleanup.v *)

Theorem transitive_closure_no_outoffuel : forall a, Cleanup.transitive_closure a <> OutOfFuel.
Proof. exact TerminationCleanup.transitive_closure_no_outoffuel. Qed.

Theorem find_superseeded_no_outoffuel : forall ins sups prg, Cleanup._find_superseeded ins sups prg <> OutOfFuel.
Proof. exact TerminationCleanup.find_superseeded_no_outoffuel. Qed.

Theorem cleanup_execute_core_no_outoffuel : forall ins prg, Cleanup.execute_core ins prg <> OutOfFuel.
Proof. exact TerminationCleanup.execute_core_no_outoffuel. Qed.

(* ====================================================================================== *)
(** * 4. Model/Binding.v (stated before 2 because Normalize depends on it) *)

Theorem collect_binding_information_conditions_no_outoffuel : forall conditions already_bound,
  Binding.collect_binding_information_conditions conditions already_bound <> OutOfFuel.
Proof. exact TerminationBinding.collect_binding_information_conditions_no_outoffuel. Qed.

Theorem collect_binding_information_from_comparisons_no_outoffuel : forall stmlist input_bound,
  Binding.collect_binding_information_from_comparisons stmlist input_bound <> OutOfFuel.
Proof. exact TerminationBinding.collect_binding_information_from_comparisons_no_outoffuel. Qed.

Theorem collect_binding_information_body_no_outoffuel : forall stmlist prebound,
  Binding.collect_binding_information_body stmlist prebound <> OutOfFuel.
Proof. exact TerminationBinding.collect_binding_information_body_no_outoffuel. Qed.

Theorem collect_binding_information_head_no_outoffuel : forall h body,
  Binding.collect_binding_information_head h body <> OutOfFuel.
Proof. exact TerminationBinding.collect_binding_information_head_no_outoffuel. Qed.

Theorem global_vars_inside_body_no_outoffuel : forall lits, Binding.global_vars_inside_body lits <> OutOfFuel.
Proof. exact TerminationBinding.global_vars_inside_body_no_outoffuel. Qed.

Theorem global_vars_inside_head_no_outoffuel : forall h, Binding.global_vars_inside_head h <> OutOfFuel.
Proof. exact TerminationBinding.global_vars_inside_head_no_outoffuel. Qed.

(* ====================================================================================== *)
(** * 2. Model/Normalize.v *)

Theorem inline_rule_no_outoffuel : forall stm, Normalize.inline_rule stm <> OutOfFuel.
Proof. exact TerminationNormalize.inline_rule_no_outoffuel. Qed.

Theorem inline_aggregate_no_outoffuel : forall stm globals, Normalize.inline_aggregate stm globals <> OutOfFuel.
Proof. exact TerminationNormalize.inline_aggregate_no_outoffuel. Qed.

Theorem inline_conditional_no_outoffuel : forall stm globals, Normalize.inline_conditional stm globals <> OutOfFuel.
Proof. exact TerminationNormalize.inline_conditional_no_outoffuel. Qed.

Theorem inline_arithmetic_no_outoffuel : forall prg, Normalize.inline_arithmetic prg <> OutOfFuel.
Proof. exact (TerminationNormalize.inline_arithmetic_no_outoffuel TerminationBinding.global_vars_inside_body_no_outoffuel). Qed.

Theorem postprocess_no_outoffuel : forall prg, Normalize.postprocess prg <> OutOfFuel.
Proof. exact (TerminationNormalize.postprocess_no_outoffuel TerminationBinding.global_vars_inside_body_no_outoffuel). Qed.

Theorem exline_arithmetic_no_outoffuel : forall prg, Normalize.exline_arithmetic prg <> OutOfFuel.
Proof. exact TerminationNormalize.exline_arithmetic_no_outoffuel. Qed.

Theorem preprocess_no_outoffuel : forall prg, Normalize.preprocess prg <> OutOfFuel.
Proof. exact TerminationNormalize.preprocess_no_outoffuel. Qed.

(* a second round of exline_arithmetic is the identity, so the `while True` loop of api.optimize
   around it makes at most two rounds *)
Theorem exline_arithmetic_idempotent : forall prg prg',
  Normalize.exline_arithmetic prg = Ok prg' -> Normalize.exline_arithmetic prg' = Ok prg'.
Proof. exact TerminationNormalize.exline_arithmetic_idempotent. Qed.

Theorem exline_loop_two_rounds : forall fuel prg,
  2 <= fuel -> Normalize.exline_loop fuel prg = Normalize.exline_arithmetic prg.
Proof. exact TerminationNormalize.exline_loop_two_rounds. Qed.

Theorem exline_loop_no_outoffuel : forall fuel prg, 2 <= fuel -> Normalize.exline_loop fuel prg <> OutOfFuel.
Proof. exact TerminationNormalize.exline_loop_no_outoffuel. Qed.

Theorem optimize_none_no_outoffuel : forall prg, Normalize.optimize_none prg <> OutOfFuel.
Proof. exact (TerminationNormalize.optimize_none_no_outoffuel TerminationBinding.global_vars_inside_body_no_outoffuel). Qed.

(* CleanupTranslator.execute = inline_arithmetic ; execute_core *)
Theorem cleanup_execute_no_outoffuel : forall ins prg, CleanupExecute.execute ins prg <> OutOfFuel.
Proof.
  intros ins prg. unfold CleanupExecute.execute. apply CleanupSpec.rbind_not_oof.
  - apply inline_arithmetic_no_outoffuel.
  - intros a _. apply cleanup_execute_core_no_outoffuel.
Qed.

(* ====================================================================================== *)
(** * 3. Model/Unused.v *)

Theorem unused_execute_loop_no_outoffuel : forall fuel ins outs st prg,
  List.length prg + Unused.count_positions prg < fuel -> Unused.execute_loop fuel ins outs st prg <> OutOfFuel.
Proof. exact TerminationUnused.execute_loop_no_outoffuel. Qed.

Theorem unused_execute_core_st_no_outoffuel : forall ins outs st prg, Unused.execute_core_st ins outs st prg <> OutOfFuel.
Proof. exact TerminationUnused.execute_core_st_no_outoffuel. Qed.

Theorem unused_execute_core_no_outoffuel : forall ctor_prg ins outs prg,
  Unused.execute_core ctor_prg ins outs prg <> OutOfFuel.
Proof. exact TerminationUnused.execute_core_no_outoffuel. Qed.

(* UnusedTranslator.execute = exline_arithmetic ; the loop *)
Theorem unused_execute_no_outoffuel : forall ctor_prg ins outs prg, UnusedExecute.execute ctor_prg ins outs prg <> OutOfFuel.
Proof.
  intros ctor_prg ins outs prg. unfold UnusedExecute.execute, UnusedExecute.execute_st.
  apply CleanupSpec.rbind_not_oof; [|intros; discriminate].
  apply CleanupSpec.rbind_not_oof.
  - apply exline_arithmetic_no_outoffuel.
  - intros a _. apply unused_execute_core_st_no_outoffuel.
Qed.

(* ====================================================================================== *)
(** * 5. Model/Projection.v (its only sources of OutOfFuel are the Binding analysis and new_auxpredicate) *)

Theorem projection_execute_core_no_outoffuel : forall ctor ins prg, Projection.execute_core ctor ins prg <> OutOfFuel.
Proof. exact TerminationDependency.projection_execute_core_no_outoffuel. Qed.

Theorem projection_execute_core_total : forall ctor ins prg,
  exists r, Projection.execute_core ctor ins prg = r /\ r <> OutOfFuel.
Proof. intros. eexists. split; [reflexivity | apply projection_execute_core_no_outoffuel]. Qed.

(* ProjectionTranslator.execute = inline_arithmetic ; the loop over the rules *)
Theorem projection_execute_no_outoffuel : forall ctor ins prg, ProjectionExecute.execute ctor ins prg <> OutOfFuel.
Proof.
  intros ctor ins prg. unfold ProjectionExecute.execute, ProjectionExecute.execute_state.
  apply CleanupSpec.rbind_not_oof; [|intros; discriminate].
  apply CleanupSpec.rbind_not_oof.
  - apply inline_arithmetic_no_outoffuel.
  - intros a _. intros E.
    apply (projection_execute_core_no_outoffuel ctor ins a).
    unfold Projection.execute_core, Projection.execute_core_state. rewrite E. reflexivity.
Qed.

(* ====================================================================================== *)
(** * 6. Model/Dependency.v *)

Theorem adr_loop_no_outoffuel : forall fuel st filtered,
  TerminationDependency.adr_measure filtered st < fuel -> Dependency.adr_loop fuel st filtered <> OutOfFuel.
Proof. exact TerminationDependency.adr_loop_no_outoffuel. Qed.

Theorem add_domain_rules_no_outoffuel : forall st drs, Dependency.add_domain_rules st drs <> OutOfFuel.
Proof. exact TerminationDependency.add_domain_rules_total. Qed.

Theorem add_domain_rule_no_outoffuel : forall st p conditions, Dependency.add_domain_rule st p conditions <> OutOfFuel.
Proof. exact TerminationDependency.add_domain_rule_total. Qed.

Theorem dp_init_no_outoffuel : forall un prg, Dependency.dp_init un prg <> OutOfFuel.
Proof. exact TerminationDependency.dp_init_total. Qed.

(* reach_closure / propagate return their current set when the fuel runs out; "the fuel is enough"
   means that the result is closed *)
Theorem reachable_closed : forall g n x y,
  In x (Dependency.reachable g n) -> In y (Dependency.succs g x) -> In y (Dependency.reachable g n).
Proof. exact TerminationDependency.reachable_closed. Qed.

Theorem reachable_iff : forall g n y, In y (Dependency.reachable g n) <-> TerminationDependency.tc_path g n y.
Proof. exact TerminationDependency.reachable_iff. Qed.

Theorem propagate_fuel_enough : forall g cyclic ns,
  TerminationDependency.prop_closed g cyclic
    (Dependency.propagate (S (List.length (Dependency.graph_nodes g))) g cyclic ns).
Proof. exact TerminationDependency.propagate_fuel_enough. Qed.

Theorem create_domain_top_no_outoffuel : forall p st, snd (Dependency.create_domain_top p st) <> OutOfFuel.
Proof. exact TerminationDependency.create_domain_top_no_outoffuel. Qed.

(* ====================================================================================== *)
Print Assumptions transitive_closure_no_outoffuel.
Print Assumptions find_superseeded_no_outoffuel.
Print Assumptions cleanup_execute_core_no_outoffuel.
Print Assumptions cleanup_execute_no_outoffuel.
Print Assumptions collect_binding_information_conditions_no_outoffuel.
Print Assumptions collect_binding_information_from_comparisons_no_outoffuel.
Print Assumptions collect_binding_information_body_no_outoffuel.
Print Assumptions collect_binding_information_head_no_outoffuel.
Print Assumptions global_vars_inside_body_no_outoffuel.
Print Assumptions global_vars_inside_head_no_outoffuel.
Print Assumptions inline_rule_no_outoffuel.
Print Assumptions inline_aggregate_no_outoffuel.
Print Assumptions inline_conditional_no_outoffuel.
Print Assumptions inline_arithmetic_no_outoffuel.
Print Assumptions postprocess_no_outoffuel.
Print Assumptions exline_arithmetic_no_outoffuel.
Print Assumptions preprocess_no_outoffuel.
Print Assumptions exline_arithmetic_idempotent.
Print Assumptions exline_loop_two_rounds.
Print Assumptions exline_loop_no_outoffuel.
Print Assumptions optimize_none_no_outoffuel.
Print Assumptions unused_execute_loop_no_outoffuel.
Print Assumptions unused_execute_core_st_no_outoffuel.
Print Assumptions unused_execute_core_no_outoffuel.
Print Assumptions unused_execute_no_outoffuel.
Print Assumptions projection_execute_core_no_outoffuel.
Print Assumptions projection_execute_core_total.
Print Assumptions projection_execute_no_outoffuel.
Print Assumptions adr_loop_no_outoffuel.
Print Assumptions add_domain_rules_no_outoffuel.
Print Assumptions add_domain_rule_no_outoffuel.
Print Assumptions dp_init_no_outoffuel.
Print Assumptions reachable_closed.
Print Assumptions reachable_iff.
Print Assumptions propagate_fuel_enough.
Print Assumptions create_domain_top_no_outoffuel.
