(* C07 "every invented name is fresh": proofs about Model/Globals.v
   (UniqueVariables.make_unique, UniqueNames.new_auxpredicate / new_predicate). *)
From Coq Require Import List String Ascii ZArith Bool Arith Lia FinFun.
From NGO Require Import Syntax.Ast Gen.Names Model.Traverse Model.Globals.
Import ListNotations.
Open Scope string_scope. Open Scope list_scope.

(* ------------------------------------------------------------------ *)
(* str(int) is injective                                               *)
(* ------------------------------------------------------------------ *)
Lemma string_of_nat_aux_S : forall f n acc,
  string_of_nat_aux (S f) n acc =
  if Nat.eqb (n / 10) 0 then String (digit_char (n mod 10)) acc
  else string_of_nat_aux f (n / 10) (String (digit_char (n mod 10)) acc).
Proof. reflexivity. Qed.

Lemma digit_char_inj : forall a b, a < 10 -> b < 10 -> digit_char a = digit_char b -> a = b.
Proof.
  intros a b Ha Hb.
  destruct a as [|[|[|[|[|[|[|[|[|[|a]]]]]]]]]]; try lia;
  destruct b as [|[|[|[|[|[|[|[|[|[|b]]]]]]]]]]; try lia;
  cbn; intros H; try reflexivity; discriminate H.
Qed.

Lemma string_of_nat_aux_len : forall f n acc,
  String.length acc <= String.length (string_of_nat_aux f n acc).
Proof.
  induction f; intros n acc.
  - apply le_n.
  - rewrite string_of_nat_aux_S. destruct (Nat.eqb (n / 10) 0).
    + cbn [String.length]. lia.
    + specialize (IHf (n / 10) (String (digit_char (n mod 10)) acc)). cbn [String.length] in IHf. lia.
Qed.

Lemma div10_facts : forall n, n = 10 * (n / 10) + n mod 10 /\ n mod 10 < 10.
Proof.
  intros n. split.
  - apply Nat.div_mod. discriminate.
  - apply Nat.mod_upper_bound. discriminate.
Qed.

Lemma string_of_nat_aux_inj : forall f1 n acc1 f2 m acc2,
  n < f1 -> m < f2 -> String.length acc1 = String.length acc2 ->
  string_of_nat_aux f1 n acc1 = string_of_nat_aux f2 m acc2 -> n = m /\ acc1 = acc2.
Proof.
  induction f1 as [|f1 IH]; intros n acc1 f2 m acc2 Hn Hm Hlen Heq; [lia|].
  destruct f2 as [|f2]; [lia|].
  rewrite !string_of_nat_aux_S in Heq.
  destruct (div10_facts n) as [En Rn]. destruct (div10_facts m) as [Em Rm].
  set (qn := n / 10) in *. set (rn := n mod 10) in *. set (qm := m / 10) in *. set (rm := m mod 10) in *.
  clearbody qn rn qm rm.
  destruct (Nat.eqb qn 0) eqn:Qn; destruct (Nat.eqb qm 0) eqn:Qm.
  - apply Nat.eqb_eq in Qn. apply Nat.eqb_eq in Qm.
    injection Heq as Hd Hacc. apply digit_char_inj in Hd; try assumption.
    split; [lia | assumption].
  - exfalso. apply Nat.eqb_eq in Qn. apply Nat.eqb_neq in Qm.
    destruct f2 as [|f2]; [lia|].
    apply (f_equal String.length) in Heq.
    rewrite string_of_nat_aux_S in Heq.
    destruct (Nat.eqb (qm / 10) 0).
    + cbn [String.length] in Heq. lia.
    + pose proof (string_of_nat_aux_len f2 (qm / 10)
        (String (digit_char (qm mod 10)) (String (digit_char rm) acc2))) as L.
      cbn [String.length] in Heq, L. lia.
  - exfalso. apply Nat.eqb_neq in Qn. apply Nat.eqb_eq in Qm.
    destruct f1 as [|f1]; [lia|].
    apply (f_equal String.length) in Heq.
    rewrite string_of_nat_aux_S in Heq.
    destruct (Nat.eqb (qn / 10) 0).
    + cbn [String.length] in Heq. lia.
    + pose proof (string_of_nat_aux_len f1 (qn / 10)
        (String (digit_char (qn mod 10)) (String (digit_char rn) acc1))) as L.
      cbn [String.length] in Heq, L. lia.
  - apply Nat.eqb_neq in Qn. apply Nat.eqb_neq in Qm.
    apply IH in Heq; [| lia | lia | cbn [String.length]; lia].
    destruct Heq as [Hq Hs]. injection Hs as Hd Hacc.
    apply digit_char_inj in Hd; try assumption.
    split; [lia | assumption].
Qed.

Theorem string_of_nat_inj : forall n m, string_of_nat n = string_of_nat m -> n = m.
Proof.
  intros n m H. unfold string_of_nat in H.
  apply string_of_nat_aux_inj in H; [tauto | lia | lia | reflexivity].
Qed.

Lemma append_inj_r : forall s a b, (s ++ a)%string = (s ++ b)%string -> a = b.
Proof.
  induction s as [|c s IH]; intros a b H; cbn in H.
  - assumption.
  - injection H as H. apply IH. assumption.
Qed.

Lemma suffixed_inj : forall s i j, (s ++ string_of_nat i)%string = (s ++ string_of_nat j)%string -> i = j.
Proof. intros s i j H. apply string_of_nat_inj. eapply append_inj_r. eassumption. Qed.

(* from here on str(int) is only used through its injectivity *)
Local Opaque string_of_nat.

(* ------------------------------------------------------------------ *)
(* membership tests                                                    *)
(* ------------------------------------------------------------------ *)
Lemma pred_eqb_eq : forall p q, pred_eqb p q = true <-> p = q.
Proof.
  intros [a n] [b m]. unfold pred_eqb. cbn.
  rewrite andb_true_iff, String.eqb_eq, Nat.eqb_eq. split.
  - intros [-> ->]. reflexivity.
  - intros H. injection H as -> ->. split; reflexivity.
Qed.

Lemma pmem_In : forall p l, pmem p l = true <-> In p l.
Proof.
  intros p l. unfold pmem. rewrite existsb_exists. split.
  - intros [x [Hin He]]. apply pred_eqb_eq in He. subst. assumption.
  - intros H. exists p. split; [assumption | apply pred_eqb_eq; reflexivity].
Qed.

Lemma pmem_false : forall p l, pmem p l = false <-> ~ In p l.
Proof.
  intros p l. rewrite <- pmem_In. destruct (pmem p l); split; congruence.
Qed.

Lemma smem_In : forall x l, smem x l = true <-> In x l.
Proof.
  intros x l. unfold smem. rewrite existsb_exists. split.
  - intros [y [Hin He]]. apply String.eqb_eq in He. subst. assumption.
  - intros H. exists x. split; [assumption | apply String.eqb_refl].
Qed.

Lemma smem_false : forall x l, smem x l = false <-> ~ In x l.
Proof.
  intros x l. rewrite <- smem_In. destruct (smem x l); split; congruence.
Qed.

Lemma padd_In : forall p l q, In q (padd p l) <-> q = p \/ In q l.
Proof.
  intros p l q. unfold padd. destruct (pmem p l) eqn:E.
  - apply pmem_In in E. split; [auto | intros [-> | H]; assumption].
  - rewrite in_app_iff. cbn. split.
    + intros [H | [H | []]]; [right; assumption | left; symmetry; assumption].
    + intros [H | H]; [right; left; symmetry; assumption | left; assumption].
Qed.

Lemma padd_all_In : forall ps l q, In q (padd_all ps l) <-> In q ps \/ In q l.
Proof.
  unfold padd_all. induction ps as [|p ps IH]; intros l q; cbn.
  - tauto.
  - rewrite IH, padd_In. split.
    + intros [H | [H | H]]; auto.
    + intros [[H | H] | H]; auto.
Qed.

Definition pred_eq_dec : forall p q: pred, {p = q} + {p <> q}.
Proof. decide equality; [apply Nat.eq_dec | apply string_dec]. Defined.

(* ------------------------------------------------------------------ *)
(* pigeonhole: an injective enumeration leaves any finite list within  *)
(* length+1 steps                                                      *)
(* ------------------------------------------------------------------ *)
Lemma pigeonhole : forall (A: Type) (dec: forall x y: A, {x = y} + {x <> y}) (g: nat -> A) (l: list A),
  (forall i j, g i = g j -> i = j) -> exists i, i <= List.length l /\ ~ In (g i) l.
Proof.
  intros A dec g l Hinj.
  destruct (Forall_Exists_dec (fun i => In (g i) l) (fun i => in_dec dec (g i) l)
              (seq 0 (S (List.length l)))) as [Hall | Hex].
  - exfalso.
    assert (Hnd: NoDup (map g (seq 0 (S (List.length l))))).
    { apply Injective_map_NoDup; [exact Hinj | apply seq_NoDup]. }
    assert (Hincl: incl (map g (seq 0 (S (List.length l)))) l).
    { intros x Hx. apply in_map_iff in Hx. destruct Hx as [i [<- Hi]].
      rewrite Forall_forall in Hall. apply Hall. assumption. }
    pose proof (NoDup_incl_length Hnd Hincl) as Hlen.
    rewrite map_length, seq_length in Hlen. lia.
  - apply Exists_exists in Hex. destruct Hex as [i [Hi Hni]].
    apply in_seq in Hi. exists i. split; [lia | assumption].
Qed.

(* ------------------------------------------------------------------ *)
(* (a) new_predicate                                                   *)
(* ------------------------------------------------------------------ *)
Lemma pred_loop_eq : forall f preds sim ar c p,
  pred_loop f preds sim ar c p =
  if pmem p preds then
    match f with
    | 0 => OutOfFuel
    | S f' => pred_loop f' preds sim ar (S c) ((sim ++ string_of_nat c)%string, ar)
    end
  else Ok p.
Proof. destruct f; reflexivity. Qed.

Lemma pred_loop_spec : forall f preds sim ar c p r,
  snd p = ar -> (fst p = sim \/ exists k, fst p = (sim ++ string_of_nat k)%string) ->
  pred_loop f preds sim ar c p = Ok r ->
  ~ In r preds /\ snd r = ar /\ (fst r = sim \/ exists k, fst r = (sim ++ string_of_nat k)%string).
Proof.
  induction f as [|f IH]; intros preds sim ar c p r Hp Hsh H; rewrite pred_loop_eq in H;
    destruct (pmem p preds) eqn:E.
  - discriminate.
  - injection H as <-. apply pmem_false in E. auto.
  - apply IH in H; [assumption | reflexivity | right; exists c; reflexivity].
  - injection H as <-. apply pmem_false in E. auto.
Qed.

Lemma pred_loop_total : forall f preds sim ar c p,
  (~ In p preds \/ exists i, i < f /\ ~ In ((sim ++ string_of_nat (c + i))%string, ar) preds) ->
  exists r, pred_loop f preds sim ar c p = Ok r.
Proof.
  induction f as [|f IH]; intros preds sim ar c p H; rewrite pred_loop_eq;
    destruct (pmem p preds) eqn:E; try (eexists; reflexivity); apply pmem_In in E.
  - destruct H as [H | [i [Hi _]]]; [contradiction | lia].
  - apply IH. destruct H as [H | [i [Hi Hf]]]; [contradiction|].
    destruct i as [|i].
    + left. rewrite Nat.add_0_r in Hf. assumption.
    + right. exists i. split; [lia|]. replace (S c + i) with (c + S i) by lia. assumption.
Qed.

Theorem new_predicate_fresh : forall st sim ar p st',
  new_predicate st sim ar = Ok (p, st') ->
  ~ In p (known st) /\ In p (known st') /\ incl (known st) (known st') /\ snd p = ar.
Proof.
  intros st sim ar p st' H. unfold new_predicate in H.
  destruct (pred_loop (S (List.length (known st))) (known st) sim ar 1 (sim, ar)) as [r| | |] eqn:E;
    cbn in H; try discriminate.
  injection H as <- <-.
  apply pred_loop_spec in E; [| reflexivity | left; reflexivity].
  destruct E as [Hf [Ha _]]. cbn.
  repeat split; try assumption.
  - apply padd_In. left. reflexivity.
  - intros q Hq. apply padd_In. right. assumption.
Qed.

(* the returned name is `similar` itself or `similar` followed by a decimal counter;
   the auxcounter is untouched and the set grows by exactly the returned predicate *)
Theorem new_predicate_shape : forall st sim ar p st',
  new_predicate st sim ar = Ok (p, st') ->
  (fst p = sim \/ exists k, fst p = (sim ++ string_of_nat k)%string) /\
  auxcounter st' = auxcounter st /\ (forall q, In q (known st') <-> q = p \/ In q (known st)) /\
  (~ In (sim, ar) (known st) -> p = (sim, ar)).
Proof.
  intros st sim ar p st' H. unfold new_predicate in H.
  destruct (pred_loop (S (List.length (known st))) (known st) sim ar 1 (sim, ar)) as [r| | |] eqn:E;
    cbn in H; try discriminate.
  injection H as <- <-. cbn.
  split; [| split; [reflexivity | split; [intros q; apply padd_In |]]].
  - apply pred_loop_spec in E; [tauto | reflexivity | left; reflexivity].
  - intros Hn. rewrite pred_loop_eq in E. apply pmem_false in Hn. rewrite Hn in E. congruence.
Qed.

Theorem new_predicate_total : forall st sim ar, exists p st', new_predicate st sim ar = Ok (p, st').
Proof.
  intros st sim ar. unfold new_predicate.
  destruct (pigeonhole pred pred_eq_dec (fun i => ((sim ++ string_of_nat (1 + i))%string, ar)) (known st))
    as [i [Hi Hf]].
  { intros i j H. injection H as H. apply suffixed_inj in H. lia. }
  destruct (pred_loop_total (S (List.length (known st))) (known st) sim ar 1 (sim, ar)) as [r Hr].
  { right. exists i. split; [lia | assumption]. }
  rewrite Hr. cbn. eauto.
Qed.

(* ------------------------------------------------------------------ *)
(* (b) new_auxpredicate                                                *)
(* ------------------------------------------------------------------ *)
Lemma aux_loop_eq : forall f preds ar c p,
  aux_loop f preds ar c p =
  if pmem p preds then
    match f with
    | 0 => OutOfFuel
    | S f' => aux_loop f' preds ar (S c) ((AUX_FUNC ++ string_of_nat c)%string, ar)
    end
  else Ok (p, c).
Proof. destruct f; reflexivity. Qed.

Lemma aux_loop_spec : forall f preds ar c p r c',
  snd p = ar -> (exists k, fst p = (AUX_FUNC ++ string_of_nat k)%string) ->
  aux_loop f preds ar c p = Ok (r, c') ->
  ~ In r preds /\ snd r = ar /\ c <= c' /\ exists k, fst r = (AUX_FUNC ++ string_of_nat k)%string.
Proof.
  induction f as [|f IH]; intros preds ar c p r c' Hp Hsh H; rewrite aux_loop_eq in H;
    destruct (pmem p preds) eqn:E.
  - discriminate.
  - injection H as <- <-. apply pmem_false in E. auto.
  - apply IH in H; [| reflexivity | exists c; reflexivity].
    destruct H as [H1 [H2 [H3 H4]]]. repeat split; try assumption. lia.
  - injection H as <- <-. apply pmem_false in E. auto.
Qed.

Lemma aux_loop_total : forall f preds ar c p,
  (~ In p preds \/ exists i, i < f /\ ~ In ((AUX_FUNC ++ string_of_nat (c + i))%string, ar) preds) ->
  exists r, aux_loop f preds ar c p = Ok r.
Proof.
  induction f as [|f IH]; intros preds ar c p H; rewrite aux_loop_eq;
    destruct (pmem p preds) eqn:E; try (eexists; reflexivity); apply pmem_In in E.
  - destruct H as [H | [i [Hi _]]]; [contradiction | lia].
  - apply IH. destruct H as [H | [i [Hi Hf]]]; [contradiction|].
    destruct i as [|i].
    + left. rewrite Nat.add_0_r in Hf. assumption.
    + right. exists i. split; [lia|]. replace (S c + i) with (c + S i) by lia. assumption.
Qed.

Theorem new_auxpredicate_fresh : forall st ar p st',
  new_auxpredicate st ar = Ok (p, st') ->
  ~ In p (known st) /\ In p (known st') /\ incl (known st) (known st') /\ snd p = ar.
Proof.
  intros st ar p st' H. unfold new_auxpredicate in H.
  destruct (aux_loop (S (List.length (known st))) (known st) ar (S (auxcounter st))
              ((AUX_FUNC ++ string_of_nat (S (auxcounter st)))%string, ar)) as [[r c']| | |] eqn:E;
    cbn in H; try discriminate.
  injection H as <- <-.
  apply aux_loop_spec in E; [| reflexivity | eexists; reflexivity].
  destruct E as [Hf [Ha _]]. cbn.
  repeat split; try assumption.
  - apply padd_In. left. reflexivity.
  - intros q Hq. apply padd_In. right. assumption.
Qed.

Theorem new_auxpredicate_shape : forall st ar p st',
  new_auxpredicate st ar = Ok (p, st') ->
  (exists k, fst p = (AUX_FUNC ++ string_of_nat k)%string) /\
  auxcounter st < auxcounter st' /\ (forall q, In q (known st') <-> q = p \/ In q (known st)).
Proof.
  intros st ar p st' H. unfold new_auxpredicate in H.
  destruct (aux_loop (S (List.length (known st))) (known st) ar (S (auxcounter st))
              ((AUX_FUNC ++ string_of_nat (S (auxcounter st)))%string, ar)) as [[r c']| | |] eqn:E;
    cbn in H; try discriminate.
  injection H as <- <-. cbn.
  apply aux_loop_spec in E; [| reflexivity | eexists; reflexivity].
  destruct E as [_ [_ [Hc Hk]]].
  split; [assumption | split; [lia | intros q; apply padd_In]].
Qed.

Theorem new_auxpredicate_total : forall st ar, exists p st', new_auxpredicate st ar = Ok (p, st').
Proof.
  intros st ar. unfold new_auxpredicate.
  destruct (pigeonhole pred pred_eq_dec
              (fun i => ((AUX_FUNC ++ string_of_nat (S (auxcounter st) + i))%string, ar)) (known st))
    as [i [Hi Hf]].
  { intros i j H. apply (f_equal fst) in H. cbn [fst] in H. apply suffixed_inj in H. lia. }
  destruct (aux_loop_total (S (List.length (known st))) (known st) ar (S (auxcounter st))
              ((AUX_FUNC ++ string_of_nat (S (auxcounter st)))%string, ar)) as [[r c'] Hr].
  { right. exists i. split; [lia | assumption]. }
  rewrite Hr. cbn. eauto.
Qed.

(* ------------------------------------------------------------------ *)
(* (c) histories                                                       *)
(* ------------------------------------------------------------------ *)
Lemma run_request_fresh : forall st r p st',
  run_request st r = Ok (p, st') ->
  ~ In p (known st) /\ In p (known st') /\ incl (known st) (known st').
Proof.
  intros st [ar | sim ar] p st' H; cbn in H.
  - apply new_auxpredicate_fresh in H. tauto.
  - apply new_predicate_fresh in H. tauto.
Qed.

Lemma run_request_total : forall st r, exists p st', run_request st r = Ok (p, st').
Proof.
  intros st [ar | sim ar]; cbn; [apply new_auxpredicate_total | apply new_predicate_total].
Qed.

(* the invariant, for an arbitrary starting state (any auxcounter, any known set) *)
Theorem run_requests_spec : forall rs st,
  exists st' outs, run_requests st rs = Ok (st', outs) /\
    NoDup outs /\ (forall p, In p outs -> ~ In p (known st)) /\
    incl (known st) (known st') /\ incl outs (known st') /\ List.length outs = List.length rs.
Proof.
  induction rs as [|r rs IH]; intros st.
  - exists st, []. cbn. repeat split.
    + constructor.
    + intros p [].
    + apply incl_refl.
    + intros p [].
  - destruct (run_request_total st r) as [p [st1 H1]].
    destruct (run_request_fresh _ _ _ _ H1) as [Hf [Hin Hinc]].
    destruct (IH st1) as [st' [outs [H2 [Hnd [Hdis [Hinc2 [Hout Hlen]]]]]]].
    exists st', (p :: outs). cbn. rewrite H1. cbn. rewrite H2. cbn.
    repeat split.
    + constructor; [| assumption]. intros Hp. apply (Hdis p Hp). assumption.
    + intros q [<- | Hq]; [assumption|]. intros Hk. apply (Hdis q Hq). apply Hinc. assumption.
    + intros q Hq. apply Hinc2, Hinc. assumption.
    + intros q [<- | Hq]; [apply Hinc2; assumption | apply Hout; assumption].
    + f_equal. assumption.
Qed.

Theorem names_history_distinct : forall known0 rs,
  exists st outs, run_requests (mk_unames 0 known0) rs = Ok (st, outs) /\
    NoDup outs /\ (forall p, In p outs -> ~ In p known0) /\
    incl known0 (known st) /\ incl outs (known st).
Proof.
  intros known0 rs.
  destruct (run_requests_spec rs (mk_unames 0 known0)) as [st [outs [H [H1 [H2 [H3 [H4 _]]]]]]].
  exists st, outs. cbn in *. auto.
Qed.

(* the same as an implication, for use by clients that already hold a result *)
Corollary run_requests_distinct : forall st rs st' outs,
  run_requests st rs = Ok (st', outs) ->
  NoDup outs /\ (forall p, In p outs -> ~ In p (known st)) /\ incl (known st) (known st') /\ incl outs (known st').
Proof.
  intros st rs st' outs H.
  destruct (run_requests_spec rs st) as [st2 [outs2 [H' [H1 [H2 [H3 [H4 _]]]]]]].
  rewrite H in H'. injection H' as <- <-. auto.
Qed.

Corollary run_requests_never_out_of_fuel : forall st rs, run_requests st rs <> OutOfFuel.
Proof.
  intros st rs H. destruct (run_requests_spec rs st) as [st' [outs [H' _]]]. congruence.
Qed.

(* ------------------------------------------------------------------ *)
(* (d) make_unique                                                     *)
(* ------------------------------------------------------------------ *)
Lemma make_unique_loop_spec : forall f vars v c v' vars',
  make_unique_loop f vars v c = Ok (v', vars') ->
  ~ In v' vars /\ vars' = vars ++ [v'] /\ exists k, c <= k /\ v' = (v ++ string_of_nat k)%string.
Proof.
  induction f as [|f IH]; intros vars v c v' vars' H; cbn in H; [discriminate|].
  destruct (smem (v ++ string_of_nat c)%string vars) eqn:E; cbn in H.
  - apply IH in H. destruct H as [H1 [H2 [k [Hk H3]]]]. repeat split; try assumption.
    exists k. split; [lia | assumption].
  - injection H as <- <-. apply smem_false in E. repeat split; try assumption.
    exists c. split; [lia | reflexivity].
Qed.

Lemma make_unique_loop_total : forall f vars v c,
  (exists i, i < f /\ ~ In (v ++ string_of_nat (c + i))%string vars) ->
  exists v', make_unique_loop f vars v c = Ok (v', vars ++ [v']).
Proof.
  induction f as [|f IH]; intros vars v c [i [Hi Hf]]; [lia|]. cbn.
  destruct (smem (v ++ string_of_nat c)%string vars) eqn:E; cbn.
  - apply IH. destruct i as [|i].
    + rewrite Nat.add_0_r in Hf. apply smem_In in E. contradiction.
    + exists i. split; [lia|]. replace (S c + i) with (c + S i) by lia. assumption.
  - eexists. reflexivity.
Qed.

Theorem make_unique_fresh : forall vars v v' vars',
  v <> "_" -> make_unique vars v = Ok (v', vars') ->
  In v' vars' /\ incl vars vars' /\ vars' = vars ++ [v'] /\
  ((~ In v vars /\ v' = v) \/ (In v vars /\ ~ In v' vars /\ exists k, v' = (v ++ string_of_nat k)%string)).
Proof.
  intros vars v v' vars' Hv H. unfold make_unique in H.
  destruct (String.eqb v "_") eqn:Eu; [apply String.eqb_eq in Eu; contradiction|].
  destruct (smem v vars) eqn:E; cbn [negb] in H.
  - apply smem_In in E. apply make_unique_loop_spec in H. destruct H as [H1 [-> [k [_ H3]]]].
    repeat split.
    + apply in_app_iff. right. left. reflexivity.
    + apply incl_appl, incl_refl.
    + right. repeat split; try assumption. exists k. assumption.
  - apply smem_false in E. injection H as <- <-. repeat split.
    + apply in_app_iff. right. left. reflexivity.
    + apply incl_appl, incl_refl.
    + left. split; [assumption | reflexivity].
Qed.

(* in particular: the returned name never was in the rule *)
Corollary make_unique_not_in_rule : forall vars v v' vars',
  v <> "_" -> make_unique vars v = Ok (v', vars') -> ~ In v' vars.
Proof.
  intros vars v v' vars' Hv H. apply make_unique_fresh in H; [|assumption].
  destruct H as [_ [_ [_ [[H1 ->] | [_ [H2 _]]]]]]; assumption.
Qed.

Theorem make_unique_anonymous : forall vars, make_unique vars "_" = Ok ("_", vars).
Proof. reflexivity. Qed.

Theorem make_unique_total : forall vars v, exists v' vars', make_unique vars v = Ok (v', vars').
Proof.
  intros vars v. unfold make_unique.
  destruct (String.eqb v "_"); [eauto|].
  destruct (smem v vars); cbn [negb]; [|eauto].
  destruct (pigeonhole string string_dec (fun i => (v ++ string_of_nat i)%string) vars) as [i [Hi Hf]].
  { intros i j H. apply suffixed_inj in H. assumption. }
  destruct (make_unique_loop_total (S (List.length vars)) vars v 0) as [v' Hv'].
  { exists i. split; [lia | assumption]. }
  eauto.
Qed.

(* histories of make_unique calls (no "_" among the requests): all returned names are pairwise
   distinct and none of them occurred in the rule *)
Theorem vars_history_distinct : forall vs vars,
  exists vars' outs, run_make_unique vars vs = Ok (vars', outs) /\
    incl vars vars' /\ incl (filter (fun v => negb (String.eqb v "_")) outs) vars' /\
    List.length outs = List.length vs /\
    (~ In "_" vs -> NoDup outs /\ forall x, In x outs -> ~ In x vars).
Proof.
  induction vs as [|v vs IH]; intros vars.
  - exists vars, []. cbn [run_make_unique filter List.length].
    split; [reflexivity|]. split; [apply incl_refl|]. split; [intros x []|]. split; [reflexivity|].
    intros _. split; [constructor | intros x []].
  - destruct (make_unique_total vars v) as [v' [vars1 H1]].
    destruct (IH vars1) as [vars' [outs [H2 [Hinc [Hout [Hlen Hnd]]]]]].
    exists vars', (v' :: outs).
    assert (Hinc1: incl vars vars1).
    { unfold make_unique in H1. destruct (String.eqb v "_").
      - injection H1 as <- <-. apply incl_refl.
      - destruct (smem v vars); cbn [negb] in H1.
        + apply make_unique_loop_spec in H1. destruct H1 as [_ [-> _]]. apply incl_appl, incl_refl.
        + injection H1 as <- <-. apply incl_appl, incl_refl. }
    split.
    { cbn [run_make_unique]. rewrite H1. cbn [rbind snd fst]. rewrite H2. reflexivity. }
    split.
    { intros x Hx. apply Hinc, Hinc1. assumption. }
    split.
    { cbn [filter]. destruct (String.eqb v' "_") eqn:Eu; cbn [negb]; [assumption|].
      intros x [<- | Hx]; [| apply Hout; assumption].
      apply Hinc. destruct (string_dec v "_") as [-> | Hv].
      - rewrite make_unique_anonymous in H1. injection H1 as <- <-.
        rewrite String.eqb_refl in Eu. discriminate.
      - apply make_unique_fresh in H1; [tauto | assumption]. }
    split.
    { cbn [List.length]. f_equal. assumption. }
    intros H.
    assert (Hv: v <> "_") by (intros ->; apply H; left; reflexivity).
    assert (Hvs: ~ In "_" vs) by (intros Hi; apply H; right; assumption).
    destruct (Hnd Hvs) as [Hnd' Hdis].
    pose proof (make_unique_fresh _ _ _ _ Hv H1) as [Hin1 _].
    split.
    + constructor; [| assumption]. intros Hi. apply (Hdis v' Hi). assumption.
    + intros x [<- | Hx].
      * eapply make_unique_not_in_rule; eassumption.
      * intros Hk. apply (Hdis x Hx). apply Hinc1. assumption.
Qed.

(* ------------------------------------------------------------------ *)
(* (e) what UniqueNames.__init__ knows                                 *)
(* ------------------------------------------------------------------ *)
Lemma fold_padd_all_In : forall (F: stmt -> list pred) prg acc q,
  In q (fold_left (fun acc s => padd_all (F s) acc) prg acc) <->
  In q acc \/ exists s, In s prg /\ In q (F s).
Proof.
  intros F. induction prg as [|s prg IH]; intros acc q; cbn.
  - split; [auto | intros [H | [s [[] _]]]; assumption].
  - rewrite IH, padd_all_In. split.
    + intros [[H | H] | [s' [Hs Hq]]]; [right; exists s; auto | auto | right; exists s'; auto].
    + intros [H | [s' [[<- | Hs] Hq]]]; [auto | auto | right; exists s'; auto].
Qed.

(* exact characterisation of the initial set: the input predicates and the predicates that occur
   (with any sign) in a rule or minimize statement -- nothing else, in particular no output predicate *)
Theorem unique_names_init_known : forall prg ins p,
  In p (known (init_names prg ins)) <->
  In p ins \/ exists s, In s prg /\ In p (map snd (predicates all_signs s)).
Proof.
  intros prg ins p. unfold init_names. cbn.
  rewrite (fold_padd_all_In (fun s => map snd (predicates all_signs s))), padd_all_In. cbn. tauto.
Qed.

Theorem unique_names_init_covers : forall prg ins,
  (forall s p, In s prg -> In p (map snd (predicates all_signs s)) -> In p (known (init_names prg ins))) /\
  (forall p, In p ins -> In p (known (init_names prg ins))) /\
  auxcounter (init_names prg ins) = 0.
Proof.
  intros prg ins. repeat split.
  - intros s p Hs Hp. apply unique_names_init_known. right. exists s. auto.
  - intros p Hp. apply unique_names_init_known. left. assumption.
Qed.

Local Transparent string_of_nat.

(* ------------------------------------------------------------------ *)
(* witnesses                                                           *)
(* ------------------------------------------------------------------ *)
Definition rule_a_b : stmt :=
  SRule 1 (HLit (Lit NoSign (ASym (TFun "a" [] false)))) [BLit (Lit NoSign (ASym (TFun "b" [] false)))].

(* KNOWN DEFECT: UniqueNames is never told the output predicates. For the program `a :- b.`
   an output predicate out/1 (declared on the command line, or by `#show out/1.`) is unknown, and
   new_predicate("out", 1) hands out out/1 itself. *)
Example unique_names_ignores_out_refuted :
  let st := init_names [rule_a_b] [] in
  known st = [("a", 0); ("b", 0)] /\ ~ In ("out", 1) (known st) /\
  new_predicate st "out" 1 = Ok (("out", 1), mk_unames 0 [("a", 0); ("b", 0); ("out", 1)]).
Proof.
  cbv zeta. split; [vm_compute; reflexivity | split; [| vm_compute; reflexivity]].
  vm_compute. intros [H | [H | []]]; discriminate H.
Qed.

(* the same with the output predicate declared inside the program: auto_detect_output reports out/1,
   UniqueNames.__init__ does not look at #show statements *)
Example unique_names_ignores_show_refuted :
  let prg := [rule_a_b; SShowSig "out" 1 true] in
  auto_detect_output prg = [("out", 1)] /\
  exists st', new_predicate (init_names prg (auto_detect_input prg)) "out" 1 = Ok (("out", 1), st').
Proof. cbv zeta. split; [vm_compute; reflexivity | eexists; vm_compute; reflexivity]. Qed.

(* non-vacuity: a colliding history. __aux_1/1, __aux_2/1 and p/2 are taken. The first aux request
   walks over __aux_1, __aux_1 (again), __aux_2 and returns __aux_3 leaving the counter at 4; the
   second one therefore starts at 5: __aux_4 is never used. *)
Example colliding_history :
  run_requests (mk_unames 0 [("__aux_1", 1); ("__aux_2", 1); ("p", 2)])
               [NewAux 1; NewAux 1; NewPred "p" 2; NewPred "p" 2; NewPred "__aux_" 1; NewAux 0; NewPred "q" 0]
  = Ok (mk_unames 6 [("__aux_1", 1); ("__aux_2", 1); ("p", 2); ("__aux_3", 1); ("__aux_5", 1); ("p1", 2);
                     ("p2", 2); ("__aux_", 1); ("__aux_6", 0); ("q", 0)],
        [("__aux_3", 1); ("__aux_5", 1); ("p1", 2); ("p2", 2); ("__aux_", 1); ("__aux_6", 0); ("q", 0)]).
Proof. vm_compute. reflexivity. Qed.

Example colliding_make_unique :
  run_make_unique ["X"; "X0"; "Y"; "X"] ["X"; "X"; "_"; "Z"; "Z"; "AUX"; "AUX"; "X0"]
  = Ok (["X"; "X0"; "Y"; "X"; "X1"; "X2"; "Z"; "Z0"; "AUX"; "AUX0"; "X00"],
        ["X1"; "X2"; "_"; "Z"; "Z0"; "AUX"; "AUX0"; "X00"]).
Proof. vm_compute. reflexivity. Qed.
