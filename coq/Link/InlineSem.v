(* Semantics of UNFOLDING a predicate that is defined by one rule (the abstract core of ngo/inline.py, C15).

       q(ts) :- BL.                          (D = def_stmt, the only statement with q/n in its head; ts = variables,
                                              BL = simple literals; the variables of BL that are not among ts are
                                              existential LOCALS)
       R  =  ... q(r ts) ...                 ONE positive occurrence, r a renaming of variables
   ~>  R' =  ... BL[r] ...                   r renames the locals apart (ren_apart) to names fresh for R (fresh_for)
   and then D is deleted.

   Sections
     1. Within        [stmt_in K st]: st mentions only predicates of K (decidable; aggregates, conditional literals and
                      all head forms included); COINCIDENCE: satisfaction only depends on the atoms of K
                      (lit_sat_in .. stmt_sat_in).  [notp p] = "does not mention p".
     2. Defined       [defd X T]: q(vs) holds in X iff BL holds for some values of the locals.
                      q_supported / stable_defd: in every stable model q is "defined" -- supportedness for q/n in programs
                      whose OTHER statements are arbitrary (only their heads must not mention q/n).
     3. ElemUnfold    elem_unfold / elems_unfold: THE TUPLE SET of a body-aggregate element is unchanged (any aggregate
                      function, any sign, any guards) -- agg_lit_unfold, agg_body_unfold, agg_rule_unfold_sat;
                      plain_rule_unfold_sat: the occurrence as a plain body literal (the fresh names become global);
                      min_agg_unfold_body, min_plain_unfold_tuples: bodies / cost tuples of #minimize statements.
     4. Programs      transfer_fwd_avoid   q occurs nowhere else: every answer set of the original program is an answer
                                           set of the unfolded one.  NO stratification, any aggregate.
                      transfer_split       under a SPLITTING (the predicates of BL and q are defined "below" the head of R)
                                           the answer sets coincide; q may then even be used elsewhere.
                      swap_split_equiv_on  both directions = equiv_on.
     5. Drop          drop_def_cons_ext: deleting the definition of a predicate that occurs nowhere else, for ARBITRARY
                      statements (Link/UnusedSem.v covers the simple fragment only);
                      inline_then_drop_fwd_gen / inline_then_drop_sound_gen (cons_ext) / inline_then_drop_out_gen (equiv_out).
     6. Cost          inline_rule_then_drop_cost, inline_min_then_drop_cost (Cost.equiv_cost).
     4'-6'. Concrete  unfold_agg_fwd_sound, unfold_agg_sound, inline_agg_then_drop_fwd / _sound / _cost,
                      inline_agg_min_then_drop_cost;  unfold_plain_fwd_sound, unfold_plain_sound,
                      inline_plain_then_drop_sound, inline_plain_min_then_drop_cost.
     7. Ground        unfold_existing_sound[_members]: plain body literal in SIMPLE programs, from gfold_iff read
                      right-to-left with existential locals -- no splitting hypothesis; inline_simple_then_drop_sound.
     8. Refutations   two_definitions_refuted, used_elsewhere_refuted, capture_changes_tuples,
                      repeated_head_variable_refuted, negated_occurrence_refuted, no_splitting_refuted.
     9. The model     Model/Inline.v by vm_compute on two programs; exA_unfold_sound.

   Remarks
     * Set semantics: the locals of BL never influence the tuple SET of the element, however many values they take,
       PROVIDED they are renamed to names that do not occur in the tuple / the rest of the condition / the global
       variables (fresh_for); if a local captures a tuple variable the set changes (capture_changes_tuples).
     * The splitting hypothesis cannot be dropped for aggregates: no_splitting_refuted (clingo agrees).  The real pass
       has no such test, and the aggregate-valued form it implements is wrong on
         e(1,1) :- p. e(2,1) :- p. q(V) :- V = #sum{W,Y : e(Y,W)}. p :- #sum{V : q(V)} != 1.      (ModelExamples.exB_model)
     * NOT covered: a body BL that itself contains an aggregate (`q(X,V) :- d(X), V = #sum{..}`, the only shape ngo
       unfolds: sum-of-sums flattening) -- the renaming lemma lit_sat_ren exists for simple literals only -- and
       occurrences q(t1..tn) with non-variable arguments.
   Axiom used: Classical_Prop.classic (q_supported; Link/Ground.v for section 7; a case split in no_splitting_refuted).
   Sections 1 and 3 and the refutations (a)-(e) are axiom-free. *)
From Coq Require Import List String ZArith Bool Classical Permutation Arith Lia.
From NGO Require Import Syntax.Ast Sem.Sym Sem.Sat Sem.Cost Link.Ground Link.Equiv Link.AggSem Link.NormalizeSpec
     Link.SubstSpec Link.ProjectionSem Link.DuplicationSem.
From NGO Require Link.SymmetrySem Link.ChainSem Link.CleanupSpec Link.TraverseSpec Link.MinMaxSem Link.UnusedSem
     Link.CostAlg Model.Normalize Meta.Cleanup.
Import ListNotations.
Open Scope string_scope. Open Scope list_scope.

Notation at_ := ProjectionSem.Example.at_.
Notation at_sat := ProjectionSem.Example.at_sat.

(* ================================================================================================ *)
(* 1. Statements that mention only predicates of K; coincidence                                     *)
(* ================================================================================================ *)
Definition gpred (a: gatom) : pred := (fst a, List.length (snd a)).

Section Within.
Variable sym_lt : sym -> sym -> Prop.
Variable K : pred -> bool.
Notation lit_sat := (Sat.lit_sat sym_lt).
Notation atom_sat := (Sat.atom_sat sym_lt).
Notation lits_sat := (Sat.lits_sat sym_lt).
Notation bodyelem_sat := (Sat.bodyelem_sat sym_lt).
Notation body_sat := (Sat.body_sat sym_lt).
Notation head_sat := (Sat.head_sat sym_lt).
Notation rule_sat := (Sat.rule_sat sym_lt).
Notation stmt_sat := (Sat.stmt_sat sym_lt).
Notation agg_holds := (Sat.agg_holds sym_lt).
Notation elems_tuples := (AggSem.elems_tuples sym_lt).

(* X and X' have the same atoms over the predicates of K *)
Definition agreeK (X X': interp) : Prop := forall a, K (gpred a) = true -> (X a <-> X' a).
Lemma agreeK_refl X : agreeK X X. Proof. intros a _. tauto. Qed.
Lemma agreeK_sym X X' : agreeK X X' -> agreeK X' X. Proof. intros A a Ka. symmetry. apply A. exact Ka. Qed.

(* a symbolic-atom term that can only evaluate to atoms of K (a variable in atom position is rejected) *)
Fixpoint term_in (t: term) : bool :=
  match t with
  | TFun n args _ => K (n, List.length args)
  | TSym (SFun n vs _) => K (n, List.length vs)
  | TSym _ => true
  | TUn UMinus t' => term_in t'
  | TUn _ _ => true
  | TBin _ _ _ => true
  | TInterval _ _ => true
  | TPool _ => true
  | TVar _ => false
  end.

Fixpoint atom_in (a: atom) : bool :=
  match a with
  | ASym t => term_in t
  | ABodyAgg _ _ es _ => forallb (fun e => forallb lit_in (snd e)) es
  | _ => true
  end
with lit_in (l: lit) : bool := match l with Lit _ a => atom_in a end.

Definition lits_in (cs: list lit) : bool := forallb lit_in cs.
Definition condlit_in (c: condlit) : bool := lit_in (fst c) && lits_in (snd c).
Definition bodyelem_in (e: bodyelem) : bool :=
  match e with BLit l => lit_in l | BCond l c => lit_in l && lits_in c end.
Definition body_in (b: list bodyelem) : bool := forallb bodyelem_in b.
Definition head_in (h: head) : bool :=
  match h with
  | HLit l => lit_in l
  | HDisj es => forallb condlit_in es
  | HAgg _ es _ => forallb condlit_in es
  | HHeadAgg _ _ es _ => forallb (fun e: helem => condlit_in (snd e)) es
  | HTheory _ => true
  end.
Definition stmt_in (st: stmt) : bool :=
  match st with
  | SRule _ h b => head_in h && body_in b
  | SMin _ _ _ _ b => body_in b
  | _ => true
  end.
Definition stmt_head_in (st: stmt) : bool := match st with SRule _ h _ => head_in h | _ => true end.
Definition prog_in (P: program) : bool := forallb stmt_in P.
Definition heads_in (P: program) : bool := forallb stmt_head_in P.

Lemma term_in_eval t : term_in t = true -> forall s n vs b, eval s t = Some (SFun n vs b) -> K (n, List.length vs) = true.
Proof.
  induction t as [x|c|o u IH|o l IHl r IHr|l IHl r IHr|n xs e|xs]; intros A s m vs b E.
  - discriminate A.
  - simpl in E. injection E as ->. exact A.
  - simpl in E. destruct (eval s u) as [[ |z|str|n' vs' b'| ]|] eqn:Eu; try discriminate.
    + destruct o; discriminate.
    + destruct o; try discriminate. injection E as <- <- _. simpl in A. exact (IH A s n' vs' b' Eu).
  - simpl in E. destruct (eval s l) as [[ |a| | | ]|]; try discriminate.
    destruct (eval s r) as [[ |c| | | ]|]; try discriminate. destruct (arith o a c); discriminate.
  - discriminate.
  - rewrite eval_fun in E. destruct (eval_list s xs) as [ws|] eqn:El; [|discriminate]. injection E as <- <- _.
    simpl in A. rewrite (ProjectionSem.eval_list_length s xs ws El). exact A.
  - discriminate.
Qed.

Lemma sym_atom_sat_in H H' T T' s sg t : term_in t = true -> agreeK H H' -> agreeK T T' ->
  (sym_atom_sat H T s sg t <-> sym_atom_sat H' T' s sg t).
Proof.
  intros A AH AT. unfold sym_atom_sat. destruct (eval s t) as [[ |z|x|n vs [|]| ]|] eqn:E; try tauto.
  pose proof (term_in_eval t A s n vs true E) as Kn.
  pose proof (AH (n, vs) Kn) as EH. pose proof (AT (n, vs) Kn) as ET. destruct sg; simpl; tauto.
Qed.

Lemma lit_sat_in_all : forall l, lit_in l = true ->
  forall G H H' T T' s, agreeK H H' -> agreeK T T' -> (lit_sat G H T s l <-> lit_sat G H' T' s l).
Proof.
  apply (TraverseSpec.lit_ind' (fun l => lit_in l = true ->
    forall G H H' T T' s, agreeK H H' -> agreeK T T' -> (lit_sat G H T s l <-> lit_sat G H' T' s l))).
  - intros sg t A G H H' T T' s AH AT. rewrite !lit_sat_sym_eq. apply sym_atom_sat_in; assumption.
  - intros; simpl; tauto.
  - intros; simpl; tauto.
  - intros sg lg f es rg IH A G H H' T T' s AH AT.
    change (atom_sat G H T s sg (ABodyAgg lg f es rg) <-> atom_sat G H' T' s sg (ABodyAgg lg f es rg)).
    rewrite !atom_sat_bodyagg.
    assert (TE: forall X X' Y Y', agreeK X X' -> agreeK Y Y' -> tup_eq (elems_tuples G X Y s es) (elems_tuples G X' Y' s es)).
    { intros X X' Y Y' AX AY tv. rewrite !elems_tuples_iff. simpl in A. rewrite forallb_forall in A. rewrite Forall_forall in IH.
      split; intros [e [Ie [th [Ag [E C]]]]]; exists e; (split; [exact Ie|]); exists th; (split; [exact Ag|]); (split; [exact E|]);
        specialize (IH e Ie); specialize (A e Ie); rewrite Forall_forall in IH; rewrite forallb_forall in A;
        unfold Sat.lits_sat in *; rewrite Forall_forall in *; intros c Hc;
        apply (IH c Hc (A c Hc) G X X' Y Y' th AX AY); apply C; exact Hc. }
    pose proof (agg_holds_ext sym_lt s lg f rg _ _ (TE H H' T T' AH AT)) as KH.
    pose proof (agg_holds_ext sym_lt s lg f rg _ _ (TE T T' T T' AT AT)) as KT.
    destruct sg; simpl; tauto.
  - intros; simpl; tauto.
  - intros; simpl; tauto.
Qed.

Lemma lit_sat_in G H H' T T' s l : lit_in l = true -> agreeK H H' -> agreeK T T' ->
  (lit_sat G H T s l <-> lit_sat G H' T' s l).
Proof. intros A AH AT. apply lit_sat_in_all; assumption. Qed.

Lemma lits_sat_in G H H' T T' s cs : lits_in cs = true -> agreeK H H' -> agreeK T T' ->
  (lits_sat G H T s cs <-> lits_sat G H' T' s cs).
Proof.
  intros A AH AT. unfold lits_in in A. rewrite forallb_forall in A. unfold Sat.lits_sat. rewrite !Forall_forall.
  split; intros F c Hc; apply (lit_sat_in G H H' T T' s c (A c Hc) AH AT); apply F; exact Hc.
Qed.

Lemma bodyelem_sat_in G H H' T T' s e : bodyelem_in e = true -> agreeK H H' -> agreeK T T' ->
  (bodyelem_sat G H T s e <-> bodyelem_sat G H' T' s e).
Proof.
  intros A AH AT. destruct e as [l|l c]; simpl in *.
  - apply lit_sat_in; assumption.
  - apply andb_true_iff in A. destruct A as [Al Ac].
    split; intros F th Ag; specialize (F th Ag);
      rewrite ?(lits_sat_in G H H' T T' th c Ac AH AT), ?(lit_sat_in G H H' T T' th l Al AH AT),
              ?(lits_sat_in G T T' T T' th c Ac AT AT), ?(lit_sat_in G T T' T T' th l Al AT AT) in *; exact F.
Qed.

Lemma body_sat_in G H H' T T' s b : body_in b = true -> agreeK H H' -> agreeK T T' ->
  (body_sat G H T s b <-> body_sat G H' T' s b).
Proof.
  intros A AH AT. unfold body_in in A. rewrite forallb_forall in A. unfold Sat.body_sat. rewrite !Forall_forall.
  split; intros F e He; apply (bodyelem_sat_in G H H' T T' s e (A e He) AH AT); apply F; exact He.
Qed.

Lemma choice_elems_ok_in G H H' T T' s es : forallb condlit_in es = true -> agreeK H H' -> agreeK T T' ->
  Sat.choice_elems_ok sym_lt G H T s es -> Sat.choice_elems_ok sym_lt G H' T' s es.
Proof.
  intros A AH AT F e th Ie Ag C. rewrite forallb_forall in A. pose proof (A e Ie) as Ae. unfold condlit_in in Ae.
  apply andb_true_iff in Ae. destruct Ae as [Al Ac].
  rewrite <- (lit_sat_in G H H' T T' th (fst e) Al AH AT), <- (lit_sat_in G T T' T T' th (fst e) Al AT AT).
  apply (F e th Ie Ag). apply (lits_sat_in G H H' T T' th (snd e) Ac AH AT). exact C.
Qed.

Lemma choice_tuples_in G X X' T T' s es tv : forallb condlit_in es = true -> agreeK X X' -> agreeK T T' ->
  Sat.choice_tuples sym_lt G X T s es tv -> Sat.choice_tuples sym_lt G X' T' s es tv.
Proof.
  intros A AX AT (e & th & n & args & ext & vs & Ie & Ag & E1 & E2 & E3 & C & XA).
  rewrite forallb_forall in A. pose proof (A e Ie) as Ae. unfold condlit_in in Ae.
  apply andb_true_iff in Ae. destruct Ae as [Al Ac].
  exists e, th, n, args, ext, vs. repeat split; try assumption.
  - apply (lits_sat_in G X X' T T' th (snd e) Ac AX AT). exact C.
  - apply AX; [|exact XA]. rewrite E1 in Al. simpl in Al. unfold gpred. simpl.
    rewrite (ProjectionSem.eval_list_length th args vs E2). exact Al.
Qed.

Lemma headagg_tuples_in G X X' T T' s es tv : forallb (fun e: helem => condlit_in (snd e)) es = true ->
  agreeK X X' -> agreeK T T' ->
  Sat.headagg_tuples sym_lt G X T s es tv -> Sat.headagg_tuples sym_lt G X' T' s es tv.
Proof.
  intros A AX AT (e & th & Ie & Ag & E & C & L).
  rewrite forallb_forall in A. pose proof (A e Ie) as Ae. unfold condlit_in in Ae.
  apply andb_true_iff in Ae. destruct Ae as [Al Ac].
  exists e, th. repeat split; try assumption.
  - apply (lits_sat_in G X X' T T' th (snd (snd e)) Ac AX AT). exact C.
  - apply (lit_sat_in G X X' T T' th (fst (snd e)) Al AX AT). exact L.
Qed.

Lemma head_sat_in_dir G H H' T T' s h : head_in h = true -> agreeK H H' -> agreeK T T' ->
  head_sat G H T s h -> head_sat G H' T' s h.
Proof.
  intros A AH AT. destruct h as [l|es|lg es rg|lg f es rg|tx]; simpl in *.
  - apply (proj1 (lit_sat_in G H H' T T' s l A AH AT)).
  - intros (e & th & Ie & Ag & C & L). rewrite forallb_forall in A. pose proof (A e Ie) as Ae. unfold condlit_in in Ae.
    apply andb_true_iff in Ae. destruct Ae as [Al Ac]. exists e, th. repeat split; try assumption.
    + apply (lits_sat_in G H H' T T' th (snd e) Ac AH AT). exact C.
    + apply (lit_sat_in G H H' T T' th (fst e) Al AH AT). exact L.
  - intros (F & CT).
    assert (TE: forall X X' Y Y', agreeK X X' -> agreeK Y Y' ->
              tup_eq (Sat.choice_tuples sym_lt G X Y s es) (Sat.choice_tuples sym_lt G X' Y' s es)).
    { intros X X' Y Y' AX AY tv. split; apply choice_tuples_in; auto using agreeK_sym. }
    split; [exact (choice_elems_ok_in G H H' T T' s es A AH AT F)|].
    apply (agg_holds_ext sym_lt s lg FCount rg _ _ (TE T T' T T' AT AT)); exact CT.
  - intros (F & CT).
    assert (TE: forall X X' Y Y', agreeK X X' -> agreeK Y Y' ->
              tup_eq (Sat.headagg_tuples sym_lt G X Y s es) (Sat.headagg_tuples sym_lt G X' Y' s es)).
    { intros X X' Y Y' AX AY tv. split; apply headagg_tuples_in; auto using agreeK_sym. }
    split.
    { apply (choice_elems_ok_in G H H' T T' s (map snd es)); try assumption.
      rewrite forallb_forall in *. intros c Hc. apply in_map_iff in Hc. destruct Hc as [e [<- He]]. exact (A e He). }
    apply (agg_holds_ext sym_lt s lg f rg _ _ (TE T T' T T' AT AT)); exact CT.
  - tauto.
Qed.

Lemma head_sat_in G H H' T T' s h : head_in h = true -> agreeK H H' -> agreeK T T' ->
  (head_sat G H T s h <-> head_sat G H' T' s h).
Proof. intros A AH AT. split; apply head_sat_in_dir; auto using agreeK_sym. Qed.

Lemma stmt_sat_in H H' T T' st : stmt_in st = true -> agreeK H H' -> agreeK T T' ->
  (stmt_sat H T st <-> stmt_sat H' T' st).
Proof.
  intros A AH AT. destruct st as [line h b| | | |]; simpl; try tauto.
  simpl in A. apply andb_true_iff in A. destruct A as [Ah Ab]. unfold Sat.rule_sat.
  split; intros F s; specialize (F s);
    rewrite ?(body_sat_in _ H H' T T' s b Ab AH AT), ?(head_sat_in _ H H' T T' s h Ah AH AT),
            ?(body_sat_in _ T T' T T' s b Ab AT AT), ?(head_sat_in _ T T' T T' s h Ah AT AT) in *; exact F.
Qed.

Lemma prog_in_stmt P st : prog_in P = true -> In st P -> stmt_in st = true.
Proof. unfold prog_in. rewrite forallb_forall. intros A Hin. exact (A st Hin). Qed.

(* a statement whose HEAD is within K is satisfied by (X,T) as soon as T is a classical model and X has all the
   K-atoms of T  (the top part in the splitting argument; the step in the supportedness argument) *)
Lemma head_in_sat_lift X T st : stmt_head_in st = true -> subi X T -> agreeK T X ->
  stmt_sat T T st -> stmt_sat X T st.
Proof.
  intros A S AX M. destruct st as [line h b| | | |]; simpl; try exact Logic.I.
  simpl in A, M. intros s. destruct (M s) as [_ MT]. split; [|exact MT].
  intros B. apply (head_sat_in_dir _ T X T T s h A AX (agreeK_refl T)). apply MT.
  exact (ChainSem.body_sat_persist sym_lt _ X T s b S B).
Qed.
End Within.

(* "does not mention p" *)
Definition notp (p: pred) : pred -> bool := fun q => negb (pred_eqb q p).
Lemma notp_true p q : notp p q = true <-> q <> p.
Proof. unfold notp. rewrite negb_true_iff. apply pred_eqb_false_iff. Qed.

(* ================================================================================================ *)
(* 2. The defining rule; supportedness for q/n                                                      *)
(* ================================================================================================ *)
Section Defined.
Variable sym_lt : sym -> sym -> Prop.
Notation lit_sat := (Sat.lit_sat sym_lt).
Notation lits_sat := (Sat.lits_sat sym_lt).
Notation body_sat := (Sat.body_sat sym_lt).
Notation head_sat := (Sat.head_sat sym_lt).
Notation stmt_sat := (Sat.stmt_sat sym_lt).
Notation prog_sat := (Sat.prog_sat sym_lt).
Notation stable := (Sat.stable sym_lt).

Variables (qn: string) (ts: list string) (BL: list lit) (l0: nat).
Notation qp := (qn, List.length ts).

Definition def_stmt : stmt := SRule l0 (HLit (at_ qn ts)) (map BLit BL).       (* q(ts) :- BL. *)
Definition simple_lits (cs: list lit) : bool := forallb Normalize.simple_lit_b cs.

(* q(vs) holds in X iff the body holds for some values of the local variables *)
Definition defd (X T: interp) : Prop :=
  forall vs, List.length vs = List.length ts -> (X (qn, vs) <-> exists s, map s ts = vs /\ lits_sat [] X T s BL).
(* the half that the satisfaction of D gives *)
Definition closed (X T: interp) : Prop := forall s, lits_sat [] X T s BL -> X (qn, map s ts).

Lemma lits_sat_simple_G G G' X T s cs : simple_lits cs = true -> (lits_sat G X T s cs <-> lits_sat G' X T s cs).
Proof.
  intro S. unfold simple_lits in S. rewrite forallb_forall in S. unfold Sat.lits_sat. rewrite !Forall_forall.
  split; intros F c Hc; [apply (lit_sat_simple_G sym_lt G G' X T s c (S c Hc))|apply (lit_sat_simple_G sym_lt G' G X T s c (S c Hc))];
    apply F; exact Hc.
Qed.

Lemma body_sat_blits G X T s cs : body_sat G X T s (map BLit cs) <-> lits_sat G X T s cs.
Proof.
  unfold Sat.body_sat, Sat.lits_sat. rewrite !Forall_forall. split.
  - intros F c Hc. exact (F (BLit c) (in_map BLit cs c Hc)).
  - intros F e He. apply in_map_iff in He. destruct He as [c [<- Hc]]. exact (F c Hc).
Qed.

Hypothesis BL_simple : simple_lits BL = true.

Lemma def_sat_closed X T : stmt_sat X T def_stmt -> closed X T.
Proof.
  intros M s B. simpl in M. destruct (M s) as [MH _]. unfold Sat.head_sat in MH. rewrite at_sat in MH. apply MH.
  apply body_sat_blits. apply (proj1 (lits_sat_simple_G [] (gvars_rule (HLit (at_ qn ts)) (map BLit BL)) X T s BL BL_simple)). exact B.
Qed.

Lemma closed_def_sat X T : closed X T -> closed T T -> stmt_sat X T def_stmt.
Proof.
  intros CX CT. simpl. intros s. unfold Sat.head_sat. rewrite !at_sat. split; intros B; [apply CX|apply CT];
    apply (proj1 (lits_sat_simple_G (gvars_rule (HLit (at_ qn ts)) (map BLit BL)) [] _ T s BL BL_simple)); apply body_sat_blits; exact B.
Qed.

Lemma defd_closed X T : defd X T -> closed X T.
Proof. intros Df s B. apply (Df (map s ts)); [apply map_length|]. exists s. split; [reflexivity|exact B]. Qed.

(* SUPPORTEDNESS for q/n: the other statements are arbitrary, only their heads must not mention q/n *)
Theorem q_supported P I T :
  stable P I T ->
  (forall st, In st P -> st = def_stmt \/ stmt_head_in (notp qp) st = true) ->
  facts_over (fun p => p <> qp) I ->
  forall vs, List.length vs = List.length ts -> T (qn, vs) -> exists s, map s ts = vs /\ lits_sat [] T T s BL.
Proof.
  intros [[PT FT] Min] Hheads FO vs Len Tv. apply NNPP. intro Hno.
  set (H := fun b : gatom => T b /\ b <> (qn, vs)).
  assert (S: subi H T) by (intros b [Tb _]; exact Tb).
  assert (AK: agreeK (notp qp) T H).
  { intros a Ka. apply notp_true in Ka. unfold H. split; [|tauto]. intro Ta. split; [exact Ta|].
    intros ->. apply Ka. unfold gpred. simpl. rewrite Len. reflexivity. }
  assert (PS: prog_sat H T P).
  { intros st Hin. destruct (Hheads st Hin) as [->|Hd].
    - apply closed_def_sat; [|apply def_sat_closed; exact (PT _ Hin)].
      intros s B. split.
      + apply (def_sat_closed T T (PT _ Hin)). exact (CleanupSpec.lits_sat_persist_proof sym_lt [] H T s BL S B).
      + intro E. apply Hno. exists s. injection E as E. split; [exact E|].
        exact (CleanupSpec.lits_sat_persist_proof sym_lt [] H T s BL S B).
    - exact (head_in_sat_lift sym_lt (notp qp) H T st Hd S AK (PT _ Hin)). }
  assert (FH: facts_sat H I).
  { intros x Hx. split; [apply FT; exact Hx|]. intros ->. apply (FO _ Hx). simpl. rewrite Len. reflexivity. }
  destruct (Min H S PS FH (qn, vs) Tv) as [_ Ne]. apply Ne. reflexivity.
Qed.

Corollary stable_defd P I T :
  stable P I T -> In def_stmt P ->
  (forall st, In st P -> st = def_stmt \/ stmt_head_in (notp qp) st = true) ->
  facts_over (fun p => p <> qp) I -> defd T T.
Proof.
  intros St Hin Hheads FO vs Len. split.
  - exact (q_supported P I T St Hheads FO vs Len).
  - intros [s [<- B]]. destruct St as [[PT _] _]. exact (def_sat_closed T T (PT _ Hin) s B).
Qed.
End Defined.

(* ================================================================================================ *)
(* 3. Unfolding one occurrence: tuple sets, aggregate literals, bodies, rules, cost tuples          *)
(* ================================================================================================ *)
Notation ren := SymmetrySem.ren.
Notation ren_lit := SymmetrySem.ren_lit.
Notation comp := SymmetrySem.comp.
Notation gfresh := MinMaxSem.gfresh.

Lemma in_vars_ren_fwd r y : forall t, In y (vars_term t) -> In (r y) (vars_term (Normalize.vmap_term (ren r) t)).
Proof.
  induction t as [x|c|o u IH|o l1 r1 IHl IHr|l1 r1 IHl IHr|n xs e IH|xs IH] using Ground.term_ind'; simpl.
  - intros [<-|[]]. left. reflexivity.
  - intros [].
  - exact IH.
  - intro Hy. apply in_app_or in Hy. apply in_or_app. destruct Hy; [left; apply IHl|right; apply IHr]; assumption.
  - intro Hy. apply in_app_or in Hy. apply in_or_app. destruct Hy; [left; apply IHl|right; apply IHr]; assumption.
  - intro Hy. apply in_flat_map in Hy. destruct Hy as [t [Ht Hy]]. rewrite Forall_forall in IH.
    apply in_flat_map. exists (Normalize.vmap_term (ren r) t). split; [apply in_map; exact Ht|exact (IH t Ht Hy)].
  - intro Hy. apply in_flat_map in Hy. destruct Hy as [t [Ht Hy]]. rewrite Forall_forall in IH.
    apply in_flat_map. exists (Normalize.vmap_term (ren r) t). split; [apply in_map; exact Ht|exact (IH t Ht Hy)].
Qed.

Lemma in_vars_ren_lit_fwd r y c : Normalize.simple_lit_b c = true -> In y (vars_lit c) -> In (r y) (vars_lit (ren_lit r c)).
Proof.
  destruct c as [sg a]. destruct a as [t|t gs|b| | |]; try discriminate; intros _; simpl.
  - apply in_vars_ren_fwd.
  - intro Hy. apply in_app_or in Hy. apply in_or_app. destruct Hy as [Hy|Hy]; [left; apply in_vars_ren_fwd; exact Hy|right].
    apply in_flat_map in Hy. destruct Hy as [[o u] [Hg Hy]]. apply in_flat_map.
    exists (Normalize.vmap_guard (ren r) (o, u)). split; [apply in_map; exact Hg|]. unfold vars_guard in *. simpl in *.
    apply in_vars_ren_fwd. exact Hy.
  - intros [].
Qed.

Lemma simple_ren_lit r c : Normalize.simple_lit_b (ren_lit r c) = Normalize.simple_lit_b c.
Proof. destruct c as [sg a]. destruct a; reflexivity. Qed.

Lemma gvars_simple_lit c : Normalize.simple_lit_b c = true -> gvars_lit c = vars_lit c.
Proof. destruct c as [sg a]. destruct a; try discriminate; reflexivity. Qed.

Section ElemUnfold.
Variable sym_lt : sym -> sym -> Prop.
Notation lit_sat := (Sat.lit_sat sym_lt).
Notation atom_sat := (Sat.atom_sat sym_lt).
Notation lits_sat := (Sat.lits_sat sym_lt).
Notation bodyelem_sat := (Sat.bodyelem_sat sym_lt).
Notation body_sat := (Sat.body_sat sym_lt).
Notation head_sat := (Sat.head_sat sym_lt).
Notation rule_sat := (Sat.rule_sat sym_lt).
Notation stmt_sat := (Sat.stmt_sat sym_lt).
Notation agg_holds := (Sat.agg_holds sym_lt).
Notation elems_tuples := (AggSem.elems_tuples sym_lt).

Variables (qn: string) (ts: list string) (BL: list lit).
Variable r : string -> string.
Notation defd := (defd sym_lt qn ts BL).
Notation closed := (closed sym_lt qn ts BL).
Hypothesis BL_simple : simple_lits BL = true.

Definition BLr : list lit := map (ren_lit r) BL.                               (* Body[r] *)
Definition qocc : lit := at_ qn (map r ts).                                    (* q(r ts) *)

(* the local (existential) variables of the definition *)
Definition locals : list string := filter (fun y => negb (existsb (String.eqb y) ts)) (flat_map vars_lit BL).
Lemma locals_spec y : In y locals <-> In y (flat_map vars_lit BL) /\ ~ In y ts.
Proof.
  unfold locals. rewrite filter_In, negb_true_iff. split; intros [A B]; (split; [exact A|]).
  - intro Hy. assert (X: existsb (String.eqb y) ts = true) by (apply existsb_exists; exists y; split; [exact Hy|apply String.eqb_refl]).
    rewrite X in B. discriminate B.
  - destruct (existsb (String.eqb y) ts) eqn:E; [|reflexivity]. apply existsb_exists in E. destruct E as [z [Hz E]].
    apply String.eqb_eq in E. subst z. contradiction.
Qed.

(* r renames the locals apart: injective on them, also against the other variables of the definition ... *)
Definition ren_apart : Prop :=
  forall y z, In y locals -> In z (ts ++ flat_map vars_lit BL) -> r y = r z -> y = z.
(* ... and to names that do not occur in V *)
Definition fresh_for (V: list string) : Prop := forall y, In y locals -> ~ In (r y) V.
Lemma fresh_for_incl V V' : incl V' V -> fresh_for V -> fresh_for V'.
Proof. intros I F y Hy Hv. exact (F y Hy (I _ Hv)). Qed.

(* th with the (renamed) locals set to their values under s2 *)
Definition patch (th s2: subst) : subst :=
  fun x => match find (fun y => String.eqb (r y) x) locals with Some y => s2 y | None => th x end.

Lemma patch_other V th s2 x : fresh_for V -> In x V -> patch th s2 x = th x.
Proof.
  intros F Hx. unfold patch. destruct (find (fun y => String.eqb (r y) x) locals) as [y|] eqn:E; [|reflexivity].
  apply find_some in E. destruct E as [Hy E]. apply String.eqb_eq in E. subst x. exfalso. exact (F y Hy Hx).
Qed.

Lemma patch_ren th s2 : ren_apart -> (forall y, In y ts -> th (r y) = s2 y) ->
  forall y, In y (flat_map vars_lit BL) -> patch th s2 (r y) = s2 y.
Proof.
  intros RA Ets y Hy. unfold patch. destruct (find (fun y0 => String.eqb (r y0) (r y)) locals) as [y'|] eqn:E.
  - apply find_some in E. destruct E as [Hy' E]. apply String.eqb_eq in E.
    rewrite (RA y' y Hy' (in_or_app _ _ _ (or_intror Hy)) E). reflexivity.
  - destruct (in_dec string_dec y ts) as [i|n]; [exact (Ets y i)|].
    exfalso. pose proof (find_none _ _ E y (proj2 (locals_spec y) (conj Hy n))) as X. simpl in X.
    rewrite String.eqb_refl in X. discriminate X.
Qed.

Lemma BLr_sat G X T th : lits_sat G X T th BLr <-> lits_sat [] X T (comp th r) BL.
Proof.
  unfold BLr, Sat.lits_sat. rewrite !Forall_forall. unfold simple_lits in BL_simple. rewrite forallb_forall in BL_simple. split.
  - intros F c Hc. apply (SymmetrySem.lit_sat_ren sym_lt G [] X T th r c (BL_simple c Hc)). apply F. apply in_map. exact Hc.
  - intros F c' Hc'. apply in_map_iff in Hc'. destruct Hc' as [c [<- Hc]].
    apply (SymmetrySem.lit_sat_ren sym_lt G [] X T th r c (BL_simple c Hc)). apply F. exact Hc.
Qed.

Lemma qocc_sat G X T th : lit_sat G X T th qocc = X (qn, map (comp th r) ts).
Proof. unfold qocc. rewrite at_sat, map_map. reflexivity. Qed.

(* the literal q(r ts) holds under th  ==>  Body[r] holds under th with the locals patched *)
Lemma occ_to_body G X T th : ren_apart -> defd X T -> lit_sat G X T th qocc ->
  exists s2, (forall y, In y ts -> th (r y) = s2 y) /\ lits_sat G X T (patch th s2) BLr.
Proof.
  intros RA Df Q. rewrite qocc_sat in Q. apply (Df _ (map_length _ _)) in Q. destruct Q as [s2 [E B]].
  assert (Ets: forall y, In y ts -> th (r y) = s2 y).
  { intros y Hy. symmetry. exact (proj1 (@map_ext_in_iff _ _ s2 (comp th r) ts) E y Hy). }
  exists s2. split; [exact Ets|]. apply BLr_sat.
  apply (lits_sat_coincide sym_lt [] X T s2 (comp (patch th s2) r) BL); [|exact B].
  intros y Hy. symmetry. exact (patch_ren th s2 RA Ets y Hy).
Qed.

Lemma body_to_occ G X T th : closed X T -> lits_sat G X T th BLr -> lit_sat G X T th qocc.
Proof. intros Cl B. rewrite qocc_sat. apply Cl. apply (BLr_sat G). exact B. Qed.

Lemma lits_sat_app G X T th c1 c2 : lits_sat G X T th (c1 ++ c2) <-> lits_sat G X T th c1 /\ lits_sat G X T th c2.
Proof. unfold Sat.lits_sat. apply Forall_app. Qed.
Lemma lits_sat_cons G X T th c cs : lits_sat G X T th (c :: cs) <-> lit_sat G X T th c /\ lits_sat G X T th cs.
Proof. unfold Sat.lits_sat. apply Forall_cons_iff. Qed.

(* ---- (A) the occurrence inside the condition of a body-aggregate element ---- *)
Variables (tup: list term) (c1 c2: list lit).
Definition elem_q : belem := (tup, c1 ++ qocc :: c2).
Definition elem_u : belem := (tup, c1 ++ BLr ++ c2).
Definition elem_ctx_vars : list string := flat_map vars_term tup ++ flat_map vars_lit c1 ++ flat_map vars_lit c2.

(* THE TUPLE SET OF THE ELEMENT IS UNCHANGED *)
Lemma elem_unfold G X T s tv : ren_apart -> fresh_for (G ++ elem_ctx_vars) -> defd X T ->
  ((exists th, agree_on G s th /\ eval_list th (fst elem_q) = Some tv /\ lits_sat G X T th (snd elem_q)) <->
   (exists th, agree_on G s th /\ eval_list th (fst elem_u) = Some tv /\ lits_sat G X T th (snd elem_u))).
Proof.
  intros RA Fr Df. unfold elem_q, elem_u. simpl. split.
  - intros [th [Ag [E C]]]. apply lits_sat_app in C. destruct C as [C1 C]. apply lits_sat_cons in C. destruct C as [Q C2].
    destruct (occ_to_body G X T th RA Df Q) as [s2 [_ B]].
    assert (Same: forall x, In x (G ++ elem_ctx_vars) -> patch th s2 x = th x) by (intros x Hx; exact (patch_other _ th s2 x Fr Hx)).
    exists (patch th s2). split; [|split].
    + intros x Hx. rewrite (Same x (in_or_app _ _ _ (or_introl Hx))). apply Ag. exact Hx.
    + rewrite <- E. apply eval_list_coincide. intros x Hx. apply Same. unfold elem_ctx_vars. rewrite !in_app_iff. tauto.
    + apply lits_sat_app. split; [|apply lits_sat_app; split; [exact B|]].
      * apply (lits_sat_coincide sym_lt G X T th (patch th s2) c1); [|exact C1]. intros x Hx. symmetry. apply Same.
        unfold elem_ctx_vars. rewrite !in_app_iff. tauto.
      * apply (lits_sat_coincide sym_lt G X T th (patch th s2) c2); [|exact C2]. intros x Hx. symmetry. apply Same.
        unfold elem_ctx_vars. rewrite !in_app_iff. tauto.
  - intros [th [Ag [E C]]]. apply lits_sat_app in C. destruct C as [C1 C]. apply lits_sat_app in C. destruct C as [B C2].
    exists th. split; [exact Ag|]. split; [exact E|]. apply lits_sat_app. split; [exact C1|]. apply lits_sat_cons.
    split; [|exact C2]. exact (body_to_occ G X T th (defd_closed sym_lt qn ts BL X T Df) B).
Qed.

Variables (es1 es2: list belem).
Lemma elems_unfold G X T s : ren_apart -> fresh_for (G ++ elem_ctx_vars) -> defd X T ->
  tup_eq (elems_tuples G X T s (es1 ++ elem_q :: es2)) (elems_tuples G X T s (es1 ++ elem_u :: es2)).
Proof.
  intros RA Fr Df tv. rewrite !elems_tuples_iff. split; intros [e [Ie W]]; apply in_app_or in Ie; destruct Ie as [Ie|[<-|Ie]].
  - exists e. split; [apply in_or_app; left; exact Ie|exact W].
  - exists elem_u. split; [apply in_or_app; right; left; reflexivity|]. apply (elem_unfold G X T s tv RA Fr Df). exact W.
  - exists e. split; [apply in_or_app; right; right; exact Ie|exact W].
  - exists e. split; [apply in_or_app; left; exact Ie|exact W].
  - exists elem_q. split; [apply in_or_app; right; left; reflexivity|]. apply (elem_unfold G X T s tv RA Fr Df). exact W.
  - exists e. split; [apply in_or_app; right; right; exact Ie|exact W].
Qed.

Variables (sg: sign) (lg rg: option guard) (f: aggfun).
Definition agg_q : lit := Lit sg (ABodyAgg lg f (es1 ++ elem_q :: es2) rg).
Definition agg_u : lit := Lit sg (ABodyAgg lg f (es1 ++ elem_u :: es2) rg).

Lemma agg_lit_unfold G H T s : ren_apart -> fresh_for (G ++ elem_ctx_vars) -> defd H T -> defd T T ->
  (lit_sat G H T s agg_q <-> lit_sat G H T s agg_u).
Proof.
  intros RA Fr DH DT. unfold agg_q, agg_u.
  change (atom_sat G H T s sg (ABodyAgg lg f (es1 ++ elem_q :: es2) rg) <-> atom_sat G H T s sg (ABodyAgg lg f (es1 ++ elem_u :: es2) rg)).
  rewrite !atom_sat_bodyagg.
  pose proof (agg_holds_ext sym_lt s lg f rg _ _ (elems_unfold G H T s RA Fr DH)) as KH.
  pose proof (agg_holds_ext sym_lt s lg f rg _ _ (elems_unfold G T T s RA Fr DT)) as KT.
  destruct sg; simpl; tauto.
Qed.

Variables (pre post: list bodyelem).
Definition body_aq : list bodyelem := pre ++ BLit agg_q :: post.
Definition body_au : list bodyelem := pre ++ BLit agg_u :: post.

Lemma body_sat_app G X T s b1 b2 : body_sat G X T s (b1 ++ b2) <-> body_sat G X T s b1 /\ body_sat G X T s b2.
Proof. unfold Sat.body_sat. apply Forall_app. Qed.
Lemma body_sat_cons G X T s e b : body_sat G X T s (e :: b) <-> bodyelem_sat G X T s e /\ body_sat G X T s b.
Proof. unfold Sat.body_sat. apply Forall_cons_iff. Qed.

Lemma gvars_body_a : flat_map gvars_bodyelem body_aq = flat_map gvars_bodyelem body_au.
Proof. unfold body_aq, body_au. rewrite !flat_map_app. reflexivity. Qed.

Lemma agg_body_unfold G H T s : ren_apart -> fresh_for (G ++ elem_ctx_vars) -> defd H T -> defd T T ->
  (body_sat G H T s body_aq <-> body_sat G H T s body_au).
Proof.
  intros RA Fr DH DT. unfold body_aq, body_au. rewrite !body_sat_app, !body_sat_cons. simpl.
  rewrite (agg_lit_unfold G H T s RA Fr DH DT). tauto.
Qed.

(* rules *)
Variables (line: nat) (h: head).
Definition rule_aq : stmt := SRule line h body_aq.
Definition rule_au : stmt := SRule line h body_au.

Theorem agg_rule_unfold_sat H T : ren_apart -> fresh_for (gvars_rule h body_aq ++ elem_ctx_vars) -> defd H T -> defd T T ->
  (stmt_sat H T rule_aq <-> stmt_sat H T rule_au).
Proof.
  intros RA Fr DH DT. simpl. unfold Sat.rule_sat.
  assert (EG: gvars_rule h body_au = gvars_rule h body_aq) by (unfold gvars_rule; rewrite gvars_body_a; reflexivity).
  rewrite EG. split; intros F s; specialize (F s);
    rewrite ?(agg_body_unfold _ H T s RA Fr DH DT), ?(agg_body_unfold _ T T s RA Fr DT DT) in *; exact F.
Qed.

(* #minimize / weak constraints: the bodies that hold in T under the statement's global variables *)
Variables (w pr: term) (tms: list term).
Definition min_aq : stmt := SMin line w pr tms body_aq.
Definition min_au : stmt := SMin line w pr tms body_au.
Definition min_W : list string := vars_term w ++ vars_term pr ++ flat_map vars_term tms.

Theorem min_agg_unfold_body T s : ren_apart -> fresh_for ((min_W ++ flat_map gvars_bodyelem body_aq) ++ elem_ctx_vars) -> defd T T ->
  (body_sat (vars_term w ++ vars_term pr ++ flat_map vars_term tms ++ flat_map gvars_bodyelem body_aq) T T s body_aq <->
   body_sat (vars_term w ++ vars_term pr ++ flat_map vars_term tms ++ flat_map gvars_bodyelem body_au) T T s body_au).
Proof.
  intros RA Fr DT. rewrite <- gvars_body_a. apply agg_body_unfold; try assumption.
  unfold min_W in Fr. rewrite <- !app_assoc in Fr. rewrite <- !app_assoc. exact Fr.
Qed.

(* ---- (B) the occurrence as a plain body literal: the fresh names become global variables ---- *)
Hypothesis D_safe : incl ts (flat_map vars_lit BL).            (* every head variable of D occurs in its body *)
Section PlainW.
Variable W0 : list string.                                     (* gvars of the head, or the terms of a #minimize *)
Definition body_pq : list bodyelem := pre ++ BLit qocc :: post.
Definition body_pu : list bodyelem := pre ++ map BLit BLr ++ post.
Definition Gq : list string := W0 ++ flat_map gvars_bodyelem body_pq.
Definition Gu : list string := W0 ++ flat_map gvars_bodyelem body_pu.
Definition ctx_vars : list string := flat_map vars_bodyelem (pre ++ post).

Lemma gvars_BLr x : In x (flat_map gvars_bodyelem (map BLit BLr)) <-> In x (flat_map vars_lit BLr).
Proof.
  unfold BLr. unfold simple_lits in BL_simple. rewrite forallb_forall in BL_simple.
  rewrite !in_flat_map. split.
  - intros [e [He Hx]]. apply in_map_iff in He. destruct He as [c' [<- Hc']]. exists c'. split; [exact Hc'|].
    apply in_map_iff in Hc'. destruct Hc' as [c [<- Hc]]. simpl in Hx.
    rewrite gvars_simple_lit in Hx; [exact Hx|]. rewrite simple_ren_lit. exact (BL_simple c Hc).
  - intros [c' [Hc' Hx]]. exists (BLit c'). split; [apply in_map; exact Hc'|]. simpl.
    apply in_map_iff in Hc'. destruct Hc' as [c [<- Hc]].
    rewrite gvars_simple_lit; [exact Hx|]. rewrite simple_ren_lit. exact (BL_simple c Hc).
Qed.

Lemma vars_BLr_inv x : In x (flat_map vars_lit BLr) -> exists y, In y (flat_map vars_lit BL) /\ x = r y.
Proof.
  unfold BLr. unfold simple_lits in BL_simple. rewrite forallb_forall in BL_simple.
  intro Hx. apply in_flat_map in Hx. destruct Hx as [c' [Hc' Hx]]. apply in_map_iff in Hc'. destruct Hc' as [c [<- Hc]].
  destruct (MinMaxSem.in_vars_ren_lit r x c (BL_simple c Hc) Hx) as [y [Hy E]].
  exists y. split; [apply in_flat_map; exists c; split; assumption|exact E].
Qed.

Lemma Gq_vars x : In x Gq <-> In x W0 \/ In x (flat_map gvars_bodyelem pre) \/ In x (map r ts) \/ In x (flat_map gvars_bodyelem post).
Proof.
  unfold Gq, body_pq. rewrite in_app_iff, flat_map_app, in_app_iff. simpl. rewrite in_app_iff.
  assert (E: flat_map vars_term (map TVar (map r ts)) = map r ts).
  { induction (map r ts) as [|z zs IH]; simpl; [reflexivity|]. rewrite IH. reflexivity. }
  rewrite E. tauto.
Qed.
Lemma Gu_vars x : In x Gu <-> In x W0 \/ In x (flat_map gvars_bodyelem pre) \/ In x (flat_map vars_lit BLr) \/ In x (flat_map gvars_bodyelem post).
Proof. unfold Gu, body_pu. rewrite in_app_iff, !flat_map_app, !in_app_iff, gvars_BLr. tauto. Qed.

Lemma Gq_incl_Gu : incl Gq Gu.
Proof.
  intros x Hx. apply Gq_vars in Hx. apply Gu_vars. destruct Hx as [Hx|[Hx|[Hx|Hx]]]; try tauto.
  right. right. left. apply in_map_iff in Hx. destruct Hx as [y [<- Hy]].
  pose proof (D_safe y Hy) as Hv. apply in_flat_map in Hv. destruct Hv as [c [Hc Hv]].
  unfold simple_lits in BL_simple. rewrite forallb_forall in BL_simple.
  apply in_flat_map. exists (ren_lit r c). split; [unfold BLr; apply in_map; exact Hc|].
  exact (in_vars_ren_lit_fwd r y c (BL_simple c Hc) Hv).
Qed.

Lemma Gu_fresh V : fresh_for V -> gfresh Gq Gu V.
Proof.
  intros Fr x Hu Nq Hv. apply Gu_vars in Hu. destruct Hu as [Hu|[Hu|[Hu|Hu]]]; try (apply Nq; apply Gq_vars; tauto).
  destruct (vars_BLr_inv x Hu) as [y [Hy ->]].
  destruct (in_dec string_dec y ts) as [i|n].
  - apply Nq. apply Gq_vars. right. right. left. apply in_map. exact i.
  - exact (Fr y (proj2 (locals_spec y) (conj Hy n)) Hv).
Qed.

Lemma body_sat_blits' G X T s cs : body_sat G X T s (map BLit cs) <-> lits_sat G X T s cs.
Proof. apply body_sat_blits. Qed.

(* q(r ts) in the body  ==>  Body[r], under a substitution that differs on the fresh names only *)
Lemma plain_body_fwd X T s : ren_apart -> fresh_for (Gq ++ ctx_vars) -> defd X T ->
  body_sat Gq X T s body_pq ->
  exists s', (forall V x, fresh_for V -> In x V -> s' x = s x) /\ body_sat Gu X T s' body_pu.
Proof.
  intros RA Fr Df B. unfold body_pq in B. apply body_sat_app in B. destruct B as [B1 B]. apply body_sat_cons in B.
  destruct B as [Q B2]. simpl in Q. destruct (occ_to_body Gq X T s RA Df Q) as [s2 [_ BR]].
  exists (patch s s2). split; [intros V x FV Hx; exact (patch_other V s s2 x FV Hx)|].
  assert (Part: forall b, incl (flat_map vars_bodyelem b) ctx_vars -> body_sat Gq X T s b -> body_sat Gu X T (patch s s2) b).
  { intros b Ib Bb. apply (MinMaxSem.body_sat_gweak sym_lt Gq Gu b Gq_incl_Gu).
    - apply Gu_fresh. eapply fresh_for_incl; [|exact Fr]. intros x Hx. apply in_or_app. right. apply Ib. exact Hx.
    - apply (body_sat_coincide sym_lt Gq X T s (patch s s2) b); [| |exact Bb].
      + intros x Hx. symmetry. apply (patch_other _ s s2 x Fr). apply in_or_app. right. apply Ib.
        apply in_flat_map in Hx. destruct Hx as [e [He Hx]]. apply in_flat_map. exists e. split; [exact He|].
        exact (ProjectionSem.gvars_bodyelem_sub e x Hx).
      + intros x Hx _. symmetry. apply (patch_other _ s s2 x Fr). apply in_or_app. right. apply Ib. exact Hx. }
  unfold body_pu. apply body_sat_app. split; [|apply body_sat_app; split].
  - apply Part; [|exact B1]. intros x Hx. unfold ctx_vars. rewrite flat_map_app. apply in_or_app. left. exact Hx.
  - apply body_sat_blits'. apply (BLr_sat Gu). apply (BLr_sat Gq). exact BR.
  - apply Part; [|exact B2]. intros x Hx. unfold ctx_vars. rewrite flat_map_app. apply in_or_app. right. exact Hx.
Qed.

Lemma plain_body_bwd X T s : fresh_for ctx_vars -> closed X T -> body_sat Gu X T s body_pu -> body_sat Gq X T s body_pq.
Proof.
  intros Fr Cl B. unfold body_pu in B. apply body_sat_app in B. destruct B as [B1 B]. apply body_sat_app in B.
  destruct B as [BR B2]. apply body_sat_blits' in BR.
  assert (Part: forall b, incl (flat_map vars_bodyelem b) ctx_vars -> body_sat Gu X T s b -> body_sat Gq X T s b).
  { intros b Ib Bb. apply (MinMaxSem.body_sat_gweak sym_lt Gq Gu b Gq_incl_Gu); [|exact Bb].
    apply Gu_fresh. eapply fresh_for_incl; [|exact Fr]. exact Ib. }
  unfold body_pq. apply body_sat_app. split; [|apply body_sat_cons; split].
  - apply Part; [|exact B1]. intros x Hx. unfold ctx_vars. rewrite flat_map_app. apply in_or_app. left. exact Hx.
  - simpl. exact (body_to_occ Gq X T s Cl (proj2 (BLr_sat Gq X T s) (proj1 (BLr_sat Gu X T s) BR))).
  - apply Part; [|exact B2]. intros x Hx. unfold ctx_vars. rewrite flat_map_app. apply in_or_app. right. exact Hx.
Qed.
End PlainW.

Lemma all_and {A} (P Q: A -> Prop) : (forall s, P s /\ Q s) <-> (forall s, P s) /\ (forall s, Q s).
Proof. split; [intro F; split; intro s; apply (F s)|intros [F1 F2] s; split; [apply F1|apply F2]]. Qed.

Definition rule_pq : stmt := SRule line h body_pq.
Definition rule_pu : stmt := SRule line h body_pu.

Lemma plain_impl X T : ren_apart -> fresh_for (Gq (gvars_head h) ++ ctx_vars ++ vars_head h) -> defd X T ->
  ((forall s, body_sat (Gq (gvars_head h)) X T s body_pq -> head_sat (Gq (gvars_head h)) X T s h) <->
   (forall s, body_sat (Gu (gvars_head h)) X T s body_pu -> head_sat (Gu (gvars_head h)) X T s h)).
Proof.
  intros RA Fr Df. set (W := gvars_head h) in *.
  assert (Fr1: fresh_for (Gq W ++ ctx_vars)).
  { eapply fresh_for_incl; [|exact Fr]. intros x Hx. rewrite !in_app_iff in *. tauto. }
  assert (Fr2: fresh_for ctx_vars).
  { eapply fresh_for_incl; [|exact Fr]. intros x Hx. rewrite !in_app_iff. tauto. }
  assert (Fr3: fresh_for (vars_head h)).
  { eapply fresh_for_incl; [|exact Fr]. intros x Hx. rewrite !in_app_iff. tauto. }
  assert (Fr4: fresh_for (Gq W)).
  { eapply fresh_for_incl; [|exact Fr]. intros x Hx. rewrite !in_app_iff. tauto. }
  pose proof (MinMaxSem.head_sat_gweak sym_lt (Gq W) (Gu W) h (Gq_incl_Gu W) (Gu_fresh W _ Fr3) X T) as HW.
  split.
  - intros F s B. apply HW. apply F. exact (plain_body_bwd W X T s Fr2 (defd_closed sym_lt qn ts BL X T Df) B).
  - intros F s B. destruct (plain_body_fwd W X T s RA Fr1 Df B) as [s' [Same B']].
    apply HW. apply (head_sat_coincide sym_lt (Gu W) X T s' s h).
    + intros x Hx. apply (Same (Gq W) x Fr4). unfold Gq. apply in_or_app. left. exact Hx.
    + intros x Hx _. exact (Same (vars_head h) x Fr3 Hx).
    + apply F. exact B'.
Qed.

Theorem plain_rule_unfold_sat H T : ren_apart -> fresh_for (gvars_rule h body_pq ++ ctx_vars ++ vars_head h) ->
  defd H T -> defd T T -> (stmt_sat H T rule_pq <-> stmt_sat H T rule_pu).
Proof.
  intros RA Fr DH DT. simpl. unfold Sat.rule_sat.
  change (gvars_rule h body_pq) with (Gq (gvars_head h)) in *. change (gvars_rule h body_pu) with (Gu (gvars_head h)).
  rewrite !all_and. rewrite (plain_impl H T RA Fr DH), (plain_impl T T RA Fr DT). tauto.
Qed.

Definition min_pq : stmt := SMin line w pr tms body_pq.
Definition min_pu : stmt := SMin line w pr tms body_pu.

Lemma min_G_assoc b : vars_term w ++ vars_term pr ++ flat_map vars_term tms ++ flat_map gvars_bodyelem b =
                      min_W ++ flat_map gvars_bodyelem b.
Proof. unfold min_W. rewrite <- !app_assoc. reflexivity. Qed.

Theorem min_plain_unfold_tuples T : ren_apart -> fresh_for (Gq min_W ++ ctx_vars) -> defd T T -> forall wv pv vs,
  ((exists s, body_sat (vars_term w ++ vars_term pr ++ flat_map vars_term tms ++ flat_map gvars_bodyelem body_pq) T T s body_pq /\
              eval s w = Some wv /\ eval s pr = Some pv /\ eval_list s tms = Some vs) <->
   (exists s, body_sat (vars_term w ++ vars_term pr ++ flat_map vars_term tms ++ flat_map gvars_bodyelem body_pu) T T s body_pu /\
              eval s w = Some wv /\ eval s pr = Some pv /\ eval_list s tms = Some vs)).
Proof.
  intros RA Fr DT wv pv vs. rewrite !min_G_assoc. fold (Gq min_W). fold (Gu min_W).
  assert (Fr2: fresh_for ctx_vars).
  { eapply fresh_for_incl; [|exact Fr]. intros x Hx. rewrite !in_app_iff. tauto. }
  assert (FrW: fresh_for min_W).
  { eapply fresh_for_incl; [|exact Fr]. intros x Hx. unfold Gq. rewrite !in_app_iff. tauto. }
  split.
  - intros [s [B [E1 [E2 E3]]]]. destruct (plain_body_fwd min_W T T s RA Fr DT B) as [s' [Same B']].
    assert (SW: forall x, In x min_W -> s' x = s x) by (intros x Hx; exact (Same min_W x FrW Hx)).
    exists s'. split; [exact B'|]. split; [|split].
    + rewrite <- E1. apply eval_coincide. intros x Hx. apply SW. unfold min_W. rewrite !in_app_iff. tauto.
    + rewrite <- E2. apply eval_coincide. intros x Hx. apply SW. unfold min_W. rewrite !in_app_iff. tauto.
    + rewrite <- E3. apply eval_list_coincide. intros x Hx. apply SW. unfold min_W. rewrite !in_app_iff. tauto.
  - intros [s [B E]]. exists s. split; [|exact E].
    exact (plain_body_bwd min_W T T s Fr2 (defd_closed sym_lt qn ts BL T T DT) B).
Qed.
End ElemUnfold.

(* ================================================================================================ *)
(* 4. Programs                                                                                      *)
(* ================================================================================================ *)
Definition nlow (low: pred -> bool) : pred -> bool := fun p => negb (low p).

Section Programs.
Variable sym_lt : sym -> sym -> Prop.
Notation lits_sat := (Sat.lits_sat sym_lt).
Notation stmt_sat := (Sat.stmt_sat sym_lt).
Notation prog_sat := (Sat.prog_sat sym_lt).
Notation stable := (Sat.stable sym_lt).
Notation equiv_on := (equiv_on sym_lt).

Lemma stmt_in_head K st : stmt_in K st = true -> stmt_head_in K st = true.
Proof. destruct st as [line h b| | | |]; simpl; try reflexivity. intro A. apply andb_true_iff in A. tauto. Qed.

Lemma body_in_blits K cs : body_in K (map BLit cs) = lits_in K cs.
Proof. unfold body_in, lits_in. induction cs as [|c cs IH]; simpl; [reflexivity|]. rewrite IH. reflexivity. Qed.

(* ---- the splitting argument: in a stable model T, an HT-model (H,T) of the bottom part has all low atoms of T ---- *)
Lemma split_agree (low: pred -> bool) P I T H :
  stable P I T -> subi H T -> facts_sat H I ->
  (forall st, In st P -> (stmt_in low st = true /\ stmt_sat H T st) \/ stmt_head_in (nlow low) st = true) ->
  agreeK low H T.
Proof.
  intros [[PT FT] Min] S FH Hst.
  set (K := fun a : gatom => (low (gpred a) = true /\ H a) \/ (low (gpred a) = false /\ T a)).
  assert (SK: subi K T) by (intros a [[_ Ha]|[_ Ta]]; [apply S; exact Ha|exact Ta]).
  assert (AKH: agreeK low K H).
  { intros a La. unfold K. split; [intros [[_ Ha]|[Lf _]]; [exact Ha|rewrite La in Lf; discriminate Lf]|intro Ha; left; split; assumption]. }
  assert (ATK: agreeK (nlow low) T K).
  { intros a La. unfold nlow in La. apply negb_true_iff in La. unfold K. split; [intro Ta; right; split; assumption|].
    intros [[Lt _]|[_ Ta]]; [rewrite La in Lt; discriminate Lt|exact Ta]. }
  assert (PS: prog_sat K T P).
  { intros st Hin. destruct (Hst st Hin) as [[Lo M]|Top].
    - apply (stmt_sat_in sym_lt low K H T T st Lo AKH (agreeK_refl low T)). exact M.
    - exact (head_in_sat_lift sym_lt (nlow low) K T st Top SK ATK (PT st Hin)). }
  assert (FK: facts_sat K I).
  { intros a Ha. unfold K. destruct (low (gpred a)) eqn:E; [left; split; [reflexivity|apply FH; exact Ha]|right; split; [reflexivity|apply FT; exact Ha]]. }
  pose proof (Min K SK PS FK) as TK.
  intros a La. split; [apply S|]. intro Ta. destruct (TK a Ta) as [[_ Ha]|[Lf _]]; [exact Ha|rewrite La in Lf; discriminate Lf].
Qed.

Variables (qn: string) (ts: list string) (BL: list lit) (l0: nat).
Notation qp := (qn, List.length ts).
Notation D := (def_stmt qn ts BL l0).
Notation defd := (defd sym_lt qn ts BL).
Notation closed := (closed sym_lt qn ts BL).
Hypothesis BL_simple : simple_lits BL = true.

(* the two versions of a statement have the same HT-models as soon as q is "defined" in both worlds *)
Definition swappable (R1 R2: stmt) : Prop :=
  forall H T, defd H T -> defd T T -> (stmt_sat H T R1 <-> stmt_sat H T R2).
Lemma swappable_sym R1 R2 : swappable R1 R2 -> swappable R2 R1.
Proof. intros S H T DH DT. symmetry. apply S; assumption. Qed.

Lemma D_in_low (low: pred -> bool) : low qp = true -> lits_in low BL = true -> stmt_in low D = true.
Proof.
  intros Lq LB. unfold def_stmt, ProjectionSem.Example.at_. simpl.
  change (lit_in low (Lit NoSign (ASym (TFun qn (map TVar ts) false)))) with (low (qn, List.length (map TVar ts))).
  rewrite map_length, Lq, body_in_blits, LB. reflexivity.
Qed.

Section Transfer.
Variables (R1 R2: stmt) (C Q Q': program) (I: list gatom).
Hypothesis MQ : forall st, In st Q <-> In st (D :: R1 :: C).
Hypothesis MQ' : forall st, In st Q' <-> In st (D :: R2 :: C).
Hypothesis Swap : swappable R1 R2.
Hypothesis R1_head : stmt_head_in (notp qp) R1 = true.
Hypothesis C_heads : heads_in (notp qp) C = true.
Hypothesis FO : facts_over (fun p => p <> qp) I.

Lemma Q_heads st : In st Q -> st = D \/ stmt_head_in (notp qp) st = true.
Proof.
  intro Hin. apply MQ in Hin. destruct Hin as [<-|[<-|Hin]]; [left; reflexivity|right; exact R1_head|right].
  unfold heads_in in C_heads. rewrite forallb_forall in C_heads. exact (C_heads st Hin).
Qed.

Lemma transfer_classical T : stable Q I T -> defd T T /\ prog_sat T T Q' /\ facts_sat T I.
Proof.
  intros St. assert (DT: defd T T).
  { apply (stable_defd sym_lt qn ts BL l0 BL_simple Q I T St); [apply MQ; left; reflexivity|exact Q_heads|exact FO]. }
  destruct St as [[PT FT] _]. split; [exact DT|]. split; [|exact FT].
  intros st Hin. apply MQ' in Hin. destruct Hin as [<-|[<-|Hin]].
  - apply PT. apply MQ. left. reflexivity.
  - apply (Swap T T DT DT). apply PT. apply MQ. right. left. reflexivity.
  - apply PT. apply MQ. right. right. exact Hin.
Qed.

(* (A) q occurs nowhere else: answer sets are never lost (no stratification needed) *)
Theorem transfer_fwd_avoid T :
  stmt_in (notp qp) R2 = true -> prog_in (notp qp) C = true -> lits_in (notp qp) BL = true ->
  stable Q I T -> stable Q' I T.
Proof.
  intros R2_av C_av BL_av St. destruct (transfer_classical T St) as [DT [PT' FT]].
  split; [split; assumption|]. destruct St as [[PT _] Min].
  intros H S PS FH.
  set (H' := fun a : gatom => H a /\ (fst a = qn -> List.length (snd a) = List.length ts ->
                                      exists s, map s ts = snd a /\ lits_sat [] H T s BL)).
  assert (S1: subi H' H) by (intros a [Ha _]; exact Ha).
  assert (AK: agreeK (notp qp) H' H).
  { intros a Ka. apply notp_true in Ka. split; [apply S1|]. intro Ha. split; [exact Ha|].
    intros E1 E2. exfalso. apply Ka. unfold gpred. rewrite E1, E2. reflexivity. }
  assert (BLeq: forall s, lits_sat [] H' T s BL <-> lits_sat [] H T s BL).
  { intro s. apply (lits_sat_in sym_lt (notp qp) [] H' H T T s BL BL_av AK (agreeK_refl _ T)). }
  assert (DH: stmt_sat H T D) by (apply PS; apply MQ'; left; reflexivity).
  assert (DH': defd H' T).
  { intros vs Len. split.
    - intros [_ Sup]. destruct (Sup eq_refl Len) as [s [E B]]. exists s. split; [exact E|apply BLeq; exact B].
    - intros [s [E B]]. apply BLeq in B. split.
      + rewrite <- E. exact (def_sat_closed sym_lt qn ts BL l0 BL_simple H T DH s B).
      + intros _ _. exists s. split; [exact E|exact B]. }
  assert (PS': prog_sat H' T Q).
  { intros st Hin. apply MQ in Hin. destruct Hin as [<-|[<-|Hin]].
    - apply (closed_def_sat sym_lt qn ts BL l0 BL_simple); [exact (defd_closed sym_lt qn ts BL H' T DH')|].
      apply (def_sat_closed sym_lt qn ts BL l0 BL_simple T T). apply PT. apply MQ. left. reflexivity.
    - apply (Swap H' T DH' DT). apply (stmt_sat_in sym_lt (notp qp) H' H T T R2 R2_av AK (agreeK_refl _ T)).
      apply PS. apply MQ'. right. left. reflexivity.
    - apply (stmt_sat_in sym_lt (notp qp) H' H T T st (prog_in_stmt _ C st C_av Hin) AK (agreeK_refl _ T)).
      apply PS. apply MQ'. right. right. exact Hin. }
  assert (FH': facts_sat H' I).
  { intros a Ha. split; [apply FH; exact Ha|]. intros E1 E2. exfalso. apply (FO a Ha). rewrite E1, E2. reflexivity. }
  intros a Ta. apply S1. exact (Min H' (fun x Hx => S x (S1 x Hx)) PS' FH' a Ta).
Qed.

(* (B) a splitting: the predicates of [low] (q and those of its body among them) are defined by statements that
   mention low predicates only; all other statements have heads outside low *)
Theorem transfer_split (low: pred -> bool) T :
  low qp = true -> lits_in low BL = true ->
  stmt_head_in (nlow low) R1 = true ->
  (forall st, In st C -> stmt_in low st = true \/ stmt_head_in (nlow low) st = true) ->
  stable Q I T -> stable Q' I T.
Proof.
  intros Lq LB R1_top C_split St. destruct (transfer_classical T St) as [DT [PT' FT]].
  split; [split; assumption|]. pose proof St as [[PT _] Min].
  intros H S PS FH.
  assert (AL: agreeK low H T).
  { apply (split_agree low Q I T H St S FH). intros st Hin. apply MQ in Hin. destruct Hin as [<-|[<-|Hin]].
    - left. split; [exact (D_in_low low Lq LB)|apply PS; apply MQ'; left; reflexivity].
    - right. exact R1_top.
    - destruct (C_split st Hin) as [Lo|Top]; [left; split; [exact Lo|apply PS; apply MQ'; right; right; exact Hin]|right; exact Top]. }
  assert (DH: defd H T).
  { intros vs Len. assert (Lv: low (gpred (qn, vs)) = true) by (unfold gpred; simpl; rewrite Len; exact Lq).
    rewrite (AL (qn, vs) Lv), (DT vs Len).
    split; intros [s [E B]]; exists s; (split; [exact E|]);
      apply (lits_sat_in sym_lt low [] H T T T s BL LB AL (agreeK_refl _ T)); exact B. }
  apply Min; [exact S| |exact FH].
  intros st Hin. apply MQ in Hin. destruct Hin as [<-|[<-|Hin]].
  - apply PS. apply MQ'. left. reflexivity.
  - apply (Swap H T DH DT). apply PS. apply MQ'. right. left. reflexivity.
  - apply PS. apply MQ'. right. right. exact Hin.
Qed.
End Transfer.

(* same answer sets under a splitting *)
Theorem swap_split_equiv_on (low: pred -> bool) (R1 R2: stmt) (C Q Q': program) :
  (forall st, In st Q <-> In st (D :: R1 :: C)) -> (forall st, In st Q' <-> In st (D :: R2 :: C)) ->
  swappable R1 R2 ->
  stmt_head_in (notp qp) R1 = true -> stmt_head_in (notp qp) R2 = true -> heads_in (notp qp) C = true ->
  low qp = true -> lits_in low BL = true ->
  stmt_head_in (nlow low) R1 = true -> stmt_head_in (nlow low) R2 = true ->
  (forall st, In st C -> stmt_in low st = true \/ stmt_head_in (nlow low) st = true) ->
  equiv_on (fun p => p <> qp) Q Q'.
Proof.
  intros MQ MQ' Sw H1 H2 HC Lq LB T1 T2 CS I FO T. split.
  - exact (transfer_split R1 R2 C Q Q' I MQ MQ' Sw H1 HC FO low T Lq LB T1 CS).
  - exact (transfer_split R2 R1 C Q' Q I MQ' MQ (swappable_sym _ _ Sw) H2 HC FO low T Lq LB T2 CS).
Qed.

(* statements without meaning for the answer sets (#minimize, #show, ...) can be exchanged freely *)
Lemma nonrule_swap_equiv_all (R1 R2: stmt) (C Q Q': program) :
  (forall st, In st Q <-> In st (R1 :: C)) -> (forall st, In st Q' <-> In st (R2 :: C)) ->
  (forall H T, stmt_sat H T R1) -> (forall H T, stmt_sat H T R2) -> Sat.equiv_all sym_lt Q Q'.
Proof.
  intros MQ MQ' T1 T2. apply stmts_equiv_equiv_all. intros H T _. split; intros A st Hin.
  - apply MQ' in Hin. destruct Hin as [<-|Hin]; [apply T2|apply A; apply MQ; right; exact Hin].
  - apply MQ in Hin. destruct Hin as [<-|Hin]; [apply T1|apply A; apply MQ'; right; exact Hin].
Qed.
End Programs.

(* ================================================================================================ *)
(* 5. Deleting the definition of a predicate that is not used (arbitrary statements)                *)
(* ================================================================================================ *)
Section Drop.
Variable sym_lt : sym -> sym -> Prop.
Notation lits_sat := (Sat.lits_sat sym_lt).
Notation stmt_sat := (Sat.stmt_sat sym_lt).
Notation prog_sat := (Sat.prog_sat sym_lt).
Notation stable := (Sat.stable sym_lt).
Notation equiv_on := (equiv_on sym_lt).
Notation cons_ext := (Sat.cons_ext sym_lt).

Variables (qn: string) (ts: list string) (BL: list lit) (l0: nat).
Notation qp := (qn, List.length ts).
Notation D := (def_stmt qn ts BL l0).
Notation defd := (defd sym_lt qn ts BL).
Notation closed := (closed sym_lt qn ts BL).
Hypothesis BL_simple : simple_lits BL = true.

Definition nonq : gatom -> Prop := fun a => ~ is_p qp a.
Lemma is_p_gpred a : is_p qp a <-> gpred a = qp.
Proof.
  unfold is_p, gpred. destruct a as [n vs]. simpl. split; [intros [-> ->]; reflexivity|intro E; injection E as -> ->; split; reflexivity].
Qed.
Lemma agree_restr (X: interp) : agreeK (notp qp) (restr nonq X) X.
Proof.
  intros a Ka. apply notp_true in Ka. unfold restr, nonq. rewrite is_p_gpred. tauto.
Qed.
Lemma qatom_is_p s : is_p qp (qn, map s ts).
Proof. split; [reflexivity|apply map_length]. Qed.

(* T0 extended by the q-atoms its body derives *)
Definition qext (T0: interp) : interp := fun a => T0 a \/ exists s, a = (qn, map s ts) /\ lits_sat [] T0 T0 s BL.

Section OneInstance.
Variables (P0 P: program) (I: list gatom).
Hypothesis MP : forall st, In st P <-> In st (D :: P0).
Hypothesis P0_av : prog_in (notp qp) P0 = true.
Hypothesis BL_av : lits_in (notp qp) BL = true.
Hypothesis FO : facts_over (fun p => p <> qp) I.

Lemma facts_nonq a : In a I -> nonq a.
Proof. intros Ha Pa. apply is_p_gpred in Pa. exact (FO a Ha Pa). Qed.

Theorem drop_def_fwd T : stable P I T -> stable P0 I (restr nonq T).
Proof.
  intros [[PT FT] Min]. set (T0 := restr nonq T).
  assert (ATT: agreeK (notp qp) T0 T) by apply agree_restr.
  assert (DT: stmt_sat T T D) by (apply PT; apply MP; left; reflexivity).
  split; [split|].
  - intros st Hin. apply (stmt_sat_in sym_lt (notp qp) T0 T T0 T st (prog_in_stmt _ P0 st P0_av Hin) ATT ATT).
    apply PT. apply MP. right. exact Hin.
  - intros a Ha. split; [exact (facts_nonq a Ha)|apply FT; exact Ha].
  - intros H0 S0 PS0 FH0.
    set (H := fun a : gatom => H0 a \/ (T a /\ exists s, a = (qn, map s ts) /\ lits_sat [] H0 T0 s BL)).
    assert (S: subi H T) by (intros a [Ha|[Ta _]]; [exact (proj2 (S0 a Ha))|exact Ta]).
    assert (AH: agreeK (notp qp) H H0).
    { intros a Ka. apply notp_true in Ka. split; [|intro Ha; left; exact Ha].
      intros [Ha|[_ [s [-> _]]]]; [exact Ha|]. exfalso. apply Ka. apply is_p_gpred. apply qatom_is_p. }
    assert (BLeq: forall s, lits_sat [] H T s BL <-> lits_sat [] H0 T0 s BL).
    { intro s. apply (lits_sat_in sym_lt (notp qp) [] H H0 T T0 s BL BL_av AH (agreeK_sym _ _ _ ATT)). }
    assert (PS: prog_sat H T P).
    { intros st Hin. apply MP in Hin. destruct Hin as [<-|Hin].
      - apply (closed_def_sat sym_lt qn ts BL l0 BL_simple); [|exact (def_sat_closed sym_lt qn ts BL l0 BL_simple T T DT)].
        intros s B. right. split.
        + apply (def_sat_closed sym_lt qn ts BL l0 BL_simple T T DT).
          exact (CleanupSpec.lits_sat_persist_proof sym_lt [] H T s BL S B).
        + exists s. split; [reflexivity|apply BLeq; exact B].
      - apply (stmt_sat_in sym_lt (notp qp) H H0 T T0 st (prog_in_stmt _ P0 st P0_av Hin) AH (agreeK_sym _ _ _ ATT)).
        apply PS0. exact Hin. }
    assert (FH: facts_sat H I) by (intros a Ha; left; apply FH0; exact Ha).
    intros a [Va Ta]. destruct (Min H S PS FH a Ta) as [Ha|[_ [s [-> _]]]]; [exact Ha|].
    exfalso. exact (Va (qatom_is_p s)).
Qed.

Lemma drop_def_noq T0 : stable P0 I T0 -> forall a, T0 a -> nonq a.
Proof.
  intros [[PT FT] Min] a Ta.
  assert (X: restr nonq T0 a); [|exact (proj1 X)].
  apply Min; [intros x [_ Hx]; exact Hx| |intros x Hx; split; [exact (facts_nonq x Hx)|apply FT; exact Hx]|exact Ta].
  intros st Hin. apply (stmt_sat_in sym_lt (notp qp) (restr nonq T0) T0 T0 T0 st (prog_in_stmt _ P0 st P0_av Hin)
                          (agree_restr T0) (agreeK_refl _ T0)). exact (PT st Hin).
Qed.

Theorem drop_def_bwd T0 : stable P0 I T0 -> stable P I (qext T0) /\ same (restr nonq (qext T0)) T0.
Proof.
  intros St0. pose proof (drop_def_noq T0 St0) as NQ. destruct St0 as [[PT0 FT0] Min0]. set (T := qext T0).
  assert (ATT: agreeK (notp qp) T T0).
  { intros a Ka. apply notp_true in Ka. split; [|intro Ha; left; exact Ha].
    intros [Ha|[s [-> _]]]; [exact Ha|]. exfalso. apply Ka. apply is_p_gpred. apply qatom_is_p. }
  assert (CT: closed T T).
  { intros s B. right. exists s. split; [reflexivity|].
    apply (lits_sat_in sym_lt (notp qp) [] T T0 T T0 s BL BL_av ATT ATT). exact B. }
  split; [split; [split|]|].
  - intros st Hin. apply MP in Hin. destruct Hin as [<-|Hin].
    + apply (closed_def_sat sym_lt qn ts BL l0 BL_simple); exact CT.
    + apply (stmt_sat_in sym_lt (notp qp) T T0 T T0 st (prog_in_stmt _ P0 st P0_av Hin) ATT ATT). exact (PT0 st Hin).
  - intros a Ha. left. apply FT0. exact Ha.
  - intros H S PS FH.
    assert (S0: subi (restr nonq H) T0).
    { intros a [Va Ha]. destruct (S a Ha) as [Ta|[s [-> _]]]; [exact Ta|]. exfalso. exact (Va (qatom_is_p s)). }
    assert (PS0: prog_sat (restr nonq H) T0 P0).
    { intros st Hin. apply (stmt_sat_in sym_lt (notp qp) (restr nonq H) H T0 T st (prog_in_stmt _ P0 st P0_av Hin)
                              (agree_restr H) (agreeK_sym _ _ _ ATT)). apply PS. apply MP. right. exact Hin. }
    assert (FH0: facts_sat (restr nonq H) I) by (intros a Ha; split; [exact (facts_nonq a Ha)|apply FH; exact Ha]).
    pose proof (Min0 _ S0 PS0 FH0) as T0H.
    assert (AT0H: agreeK (notp qp) T0 H).
    { intros a Ka. split; [intro Ta; exact (proj2 (T0H a Ta))|]. intro Ha. apply (ATT a Ka). apply S. exact Ha. }
    intros a [Ta|[s [-> B]]]; [exact (proj2 (T0H a Ta))|].
    apply (def_sat_closed sym_lt qn ts BL l0 BL_simple H T); [apply PS; apply MP; left; reflexivity|].
    apply (lits_sat_in sym_lt (notp qp) [] T0 H T0 T s BL BL_av AT0H (agreeK_sym _ _ _ ATT)). exact B.
  - intros a. unfold restr. split.
    + intros [Va [Ta|[s [-> _]]]]; [exact Ta|]. exfalso. exact (Va (qatom_is_p s)).
    + intro Ta. split; [exact (NQ a Ta)|left; exact Ta].
Qed.

Lemma P_heads st : In st P -> st = D \/ stmt_head_in (notp qp) st = true.
Proof.
  intro Hin. apply MP in Hin. destruct Hin as [<-|Hin]; [left; reflexivity|right].
  apply stmt_in_head. exact (prog_in_stmt _ P0 st P0_av Hin).
Qed.

Theorem drop_def_inj T1 T2 : stable P I T1 -> stable P I T2 -> same (restr nonq T1) (restr nonq T2) -> same T1 T2.
Proof.
  assert (Half: forall T1 T2, stable P I T1 -> stable P I T2 -> same (restr nonq T1) (restr nonq T2) -> forall a, T1 a -> T2 a).
  { clear T1 T2. intros T1 T2 S1 S2 E a Ta.
    assert (A12: agreeK (notp qp) T1 T2).
    { intros x Kx. apply notp_true in Kx. pose proof (E x) as Ex. unfold restr, nonq in Ex. rewrite is_p_gpred in Ex. tauto. }
    destruct a as [n vs]. destruct (string_dec n qn) as [->|Nn]; [destruct (Nat.eq_dec (List.length vs) (List.length ts)) as [Len|Nl]|].
    - pose proof (stable_defd sym_lt qn ts BL l0 BL_simple P I T1 S1 (proj2 (MP D) (or_introl eq_refl)) P_heads FO) as D1.
      apply (D1 vs Len) in Ta. destruct Ta as [s [<- B]].
      destruct S2 as [[PT2 _] _]. apply (def_sat_closed sym_lt qn ts BL l0 BL_simple T2 T2 (PT2 _ (proj2 (MP D) (or_introl eq_refl)))).
      apply (lits_sat_in sym_lt (notp qp) [] T1 T2 T1 T2 s BL BL_av A12 A12). exact B.
    - apply (A12 (qn, vs)); [|exact Ta]. apply notp_true. unfold gpred. simpl. intro X. injection X as X. exact (Nl X).
    - apply (A12 (n, vs)); [|exact Ta]. apply notp_true. unfold gpred. simpl. intro X. injection X as X _. exact (Nn X). }
  intros S1 S2 E a. split; [apply (Half T1 T2 S1 S2 E)|apply (Half T2 T1 S2 S1)]. intro x. symmetry. apply E.
Qed.
End OneInstance.

(* P = P0 + { q(ts) :- BL. } is a conservative extension of P0 when q/n does not occur in P0 and BL *)
Theorem drop_def_cons_ext (P0 P: program) :
  (forall st, In st P <-> In st (D :: P0)) -> prog_in (notp qp) P0 = true -> lits_in (notp qp) BL = true ->
  cons_ext (fun p => p <> qp) nonq P0 P.
Proof.
  intros MP Av BA I FO. split; [|split].
  - intros T0 St0. exists (qext T0). exact (drop_def_bwd P0 P I MP Av BA FO T0 St0).
  - intros T St. exact (drop_def_fwd P0 P I MP Av BA FO T St).
  - intros T1 T2. exact (drop_def_inj P0 P I MP Av BA FO T1 T2).
Qed.

(* ---- unfold, then delete the definition ---- *)
Section InlineDrop.
Variables (R1 R2: stmt) (C Q Q2: program).
Hypothesis MQ : forall st, In st Q <-> In st (D :: R1 :: C).                (* the original program *)
Hypothesis MQ2 : forall st, In st Q2 <-> In st (R2 :: C).                   (* the inlined program *)
Hypothesis Swap : swappable sym_lt qn ts BL R1 R2.
Hypothesis R1_head : stmt_head_in (notp qp) R1 = true.
Hypothesis R2_av : stmt_in (notp qp) R2 = true.
Hypothesis C_av : prog_in (notp qp) C = true.
Hypothesis BL_av : lits_in (notp qp) BL = true.

Lemma P0_av : prog_in (notp qp) (R2 :: C) = true.
Proof. unfold prog_in. simpl. rewrite R2_av. exact C_av. Qed.
Lemma C_heads_av : heads_in (notp qp) C = true.
Proof.
  unfold heads_in, prog_in in *. rewrite forallb_forall in *. intros st Hin. apply stmt_in_head. exact (C_av st Hin).
Qed.
Lemma Q2_av : prog_in (notp qp) Q2 = true.
Proof.
  pose proof P0_av as A. unfold prog_in in *. rewrite forallb_forall in *. intros st Hin. apply A. apply MQ2. exact Hin.
Qed.

(* no stratification: answer sets are never lost *)
Theorem inline_then_drop_fwd_gen I T : facts_over (fun p => p <> qp) I ->
  stable Q I T -> stable Q2 I (restr nonq T).
Proof.
  intros FO St.
  apply (drop_def_fwd Q2 (D :: Q2) I (fun st => iff_refl _) Q2_av BL_av FO T).
  apply (transfer_fwd_avoid sym_lt qn ts BL l0 BL_simple R1 R2 C Q (D :: Q2) I MQ); try assumption.
  - intro st. simpl. rewrite (MQ2 st). simpl. tauto.
  - exact C_heads_av.
Qed.

(* with a splitting: the original program is a conservative extension of the inlined one *)
Theorem inline_then_drop_sound_gen (low: pred -> bool) :
  low qp = true -> lits_in low BL = true ->
  stmt_head_in (nlow low) R1 = true -> stmt_head_in (nlow low) R2 = true ->
  (forall st, In st C -> stmt_in low st = true \/ stmt_head_in (nlow low) st = true) ->
  cons_ext (fun p => p <> qp) nonq Q2 Q.
Proof.
  intros Lq LB T1 T2 CS.
  apply (cons_ext_equiv_on sym_lt _ _ Q2 (D :: Q2) Q).
  - apply drop_def_cons_ext; [intro st; tauto|exact Q2_av|exact BL_av].
  - apply (swap_split_equiv_on sym_lt qn ts BL l0 BL_simple low R2 R1 C (D :: Q2) Q); try assumption.
    + intro st. simpl. rewrite (MQ2 st). simpl. tauto.
    + apply swappable_sym. exact Swap.
    + apply stmt_in_head. exact R2_av.
    + exact C_heads_av.
Qed.

Corollary inline_then_drop_out_gen (low: pred -> bool) (IN: pred -> Prop) (OUT: gatom -> Prop) :
  low qp = true -> lits_in low BL = true ->
  stmt_head_in (nlow low) R1 = true -> stmt_head_in (nlow low) R2 = true ->
  (forall st, In st C -> stmt_in low st = true \/ stmt_head_in (nlow low) st = true) ->
  (forall p, IN p -> p <> qp) -> (forall a, OUT a -> nonq a) ->
  Sat.equiv_out sym_lt IN OUT Q Q2.
Proof.
  intros Lq LB T1 T2 CS HIN HOUT. apply equiv_out_sym.
  intros I FO. apply (cons_ext_out sym_lt (fun p => p <> qp) nonq OUT Q2 Q HOUT
                        (inline_then_drop_sound_gen low Lq LB T1 T2 CS) I).
  intros a Ha. apply HIN. exact (FO a Ha).
Qed.
End InlineDrop.
End Drop.

(* ================================================================================================ *)
(* 6. Cost                                                                                          *)
(* ================================================================================================ *)
Section CostS.
Variable sym_lt : sym -> sym -> Prop.
Notation body_sat := (Sat.body_sat sym_lt).
Notation stable := (Sat.stable sym_lt).
Notation cost_tuples := (Cost.cost_tuples sym_lt).
Notation cost_at := (Cost.cost_at sym_lt).
Notation same_cost := (Cost.same_cost sym_lt).
Notation equiv_cost := (Cost.equiv_cost sym_lt).
Notation cons_ext := (Sat.cons_ext sym_lt).

Definition min_in (K: pred -> bool) (st: stmt) : bool := match st with SMin _ _ _ _ b => body_in K b | _ => true end.
Definition is_rule (st: stmt) : bool := match st with SRule _ _ _ => true | _ => false end.
(* st under T and st' under T' contribute the same cost tuples *)
Definition same_tuples (T T': interp) (st st': stmt) : Prop := forall p tv, cost_tuples [st] T p tv <-> cost_tuples [st'] T' p tv.

Lemma cost_tuples_split P T p tv : cost_tuples P T p tv <-> exists st, In st P /\ cost_tuples [st] T p tv.
Proof.
  split.
  - intros (line & w & pr & tms & b & s & wz & vs & Hin & R). exists (SMin line w pr tms b). split; [exact Hin|].
    exists line, w, pr, tms, b, s, wz, vs. split; [left; reflexivity|exact R].
  - intros [st [Hin (line & w & pr & tms & b & s & wz & vs & [->|[]] & R)]].
    exists line, w, pr, tms, b, s, wz, vs. split; [exact Hin|exact R].
Qed.

Lemma rule_no_tuples st T p tv : is_rule st = true -> ~ cost_tuples [st] T p tv.
Proof. intros E (line & w & pr & tms & b & s & wz & vs & [->|[]] & _). discriminate E. Qed.

Lemma same_tuples_agree K T T' st : min_in K st = true -> agreeK K T T' -> same_tuples T T' st st.
Proof.
  intros A AT p tv. split; intros (line & w & pr & tms & b & s & wz & vs & [->|[]] & B & R);
    exists line, w, pr, tms, b, s, wz, vs; (split; [left; reflexivity|]); (split; [|exact R]); simpl in A.
  - apply (body_sat_in sym_lt K _ T T' T T' s b A AT AT). exact B.
  - apply (body_sat_in sym_lt K _ T T' T T' s b A AT AT). exact B.
Qed.

Lemma same_tuples_trans T1 T2 T3 a b c : same_tuples T1 T2 a b -> same_tuples T2 T3 b c -> same_tuples T1 T3 a c.
Proof. intros X Y p tv. rewrite (X p tv). apply Y. Qed.

Lemma same_cost_by_stmts P P' T T' :
  (forall st, In st P -> (forall p tv, ~ cost_tuples [st] T p tv) \/ exists st', In st' P' /\ same_tuples T T' st st') ->
  (forall st', In st' P' -> (forall p tv, ~ cost_tuples [st'] T' p tv) \/ exists st, In st P /\ same_tuples T T' st st') ->
  same_cost P P' T T'.
Proof.
  intros A B p c.
  assert (TE: tup_eq (cost_tuples P T p) (cost_tuples P' T' p)).
  { intro tv. rewrite !cost_tuples_split. split.
    - intros [st [Hin X]]. destruct (A st Hin) as [N|[st' [Hin' E]]]; [exfalso; exact (N p tv X)|].
      exists st'. split; [exact Hin'|apply E; exact X].
    - intros [st' [Hin' X]]. destruct (B st' Hin') as [N|[st [Hin E]]]; [exfalso; exact (N p tv X)|].
      exists st. split; [exact Hin|apply E; exact X]. }
  unfold Cost.cost_at. split; intros [l [En V]]; exists l; (split; [|exact V]); apply (enumerates_ext _ _ l TE); exact En.
Qed.

(* a conservative extension whose corresponding answer sets have the same cost *)
Lemma cons_ext_equiv_cost (qp: pred) (IN: pred -> Prop) (OUT: gatom -> Prop) (Q Q2: program) :
  cons_ext IN (fun a => ~ is_p qp a) Q2 Q -> (forall a, OUT a -> ~ is_p qp a) ->
  (forall I T T0, facts_over IN I -> stable Q I T -> agreeK (notp qp) T T0 -> same_cost Q Q2 T T0) ->
  equiv_cost IN OUT Q Q2.
Proof.
  intros CE HOUT SC I FO S k. destruct (CE I FO) as [A [B _]].
  assert (AG: forall T T0, same (restr (fun a => ~ is_p qp a) T) T0 -> agreeK (notp qp) T T0).
  { intros T T0 E a Ka. apply notp_true in Ka. rewrite <- (E a). unfold restr.
    assert (N: ~ is_p qp a). { intros [E1 E2]. apply Ka. unfold gpred. destruct qp; simpl in *. rewrite E1, E2. reflexivity. }
    tauto. }
  split.
  - intros [T [St [Sa Co]]]. exists (restr (fun a => ~ is_p qp a) T). split; [apply B; exact St|]. split.
    + eapply same_trans; [apply (restr_restr _ OUT T HOUT)|exact Sa].
    + intros p c. rewrite <- (Co p c). symmetry. apply (SC I T _ FO St). apply AG. intro a. tauto.
  - intros [T0 [St0 [Sa Co]]]. destruct (A T0 St0) as [T [St E]]. exists T. split; [exact St|]. split.
    + eapply same_trans; [apply same_sym, (restr_restr _ OUT T HOUT)|].
      eapply same_trans; [apply same_restr; exact E|exact Sa].
    + intros p c. rewrite <- (Co p c). apply (SC I T T0 FO St). apply AG. exact E.
Qed.

Variables (qn: string) (ts: list string) (BL: list lit) (l0: nat).
Notation qp := (qn, List.length ts).
Notation D := (def_stmt qn ts BL l0).
Notation defd := (defd sym_lt qn ts BL).
Hypothesis BL_simple : simple_lits BL = true.

(* (i) the unfolded statement is a RULE; #minimize statements elsewhere do not mention q *)
Theorem inline_rule_then_drop_cost (low: pred -> bool) (R1 R2: stmt) (C Q Q2: program) (IN: pred -> Prop) (OUT: gatom -> Prop) :
  (forall st, In st Q <-> In st (D :: R1 :: C)) -> (forall st, In st Q2 <-> In st (R2 :: C)) ->
  swappable sym_lt qn ts BL R1 R2 -> is_rule R1 = true -> is_rule R2 = true ->
  stmt_head_in (notp qp) R1 = true -> stmt_in (notp qp) R2 = true -> prog_in (notp qp) C = true -> lits_in (notp qp) BL = true ->
  low qp = true -> lits_in low BL = true ->
  stmt_head_in (nlow low) R1 = true -> stmt_head_in (nlow low) R2 = true ->
  (forall st, In st C -> stmt_in low st = true \/ stmt_head_in (nlow low) st = true) ->
  (forall p, IN p -> p <> qp) -> (forall a, OUT a -> nonq qn ts a) ->
  equiv_cost IN OUT Q Q2.
Proof.
  intros MQ MQ2 Sw IR1 IR2 H1 A2 AC AB Lq LB T1 T2 CS HIN HOUT.
  apply (cons_ext_equiv_cost qp IN OUT Q Q2).
  - intros I FO. apply (inline_then_drop_sound_gen sym_lt qn ts BL l0 BL_simple R1 R2 C Q Q2 MQ MQ2 Sw H1 A2 AC AB low Lq LB T1 T2 CS I).
    intros a Ha. apply HIN. exact (FO a Ha).
  - exact HOUT.
  - intros I T T0 _ _ AG. apply same_cost_by_stmts.
    + intros st Hin. apply MQ in Hin. destruct Hin as [<-|[<-|Hin]].
      * left. intros p tv. apply rule_no_tuples. reflexivity.
      * left. intros p tv. apply rule_no_tuples. exact IR1.
      * right. exists st. split; [apply MQ2; right; exact Hin|].
        apply (same_tuples_agree (notp qp)); [|exact AG]. pose proof (prog_in_stmt _ C st AC Hin) as X.
        destruct st; try reflexivity. exact X.
    + intros st Hin. apply MQ2 in Hin. destruct Hin as [<-|Hin].
      * left. intros p tv. apply rule_no_tuples. exact IR2.
      * right. exists st. split; [apply MQ; right; right; exact Hin|].
        apply (same_tuples_agree (notp qp)); [|exact AG]. pose proof (prog_in_stmt _ C st AC Hin) as X.
        destruct st; try reflexivity. exact X.
Qed.

(* (ii) the unfolded statement is a #MINIMIZE / weak constraint: no stratification is needed *)
Definition min_swappable (M1 M2: stmt) : Prop := forall T, defd T T -> same_tuples T T M1 M2.

Theorem inline_min_then_drop_cost (M1 M2: stmt) (C Q Q2: program) (IN: pred -> Prop) (OUT: gatom -> Prop) :
  (forall st, In st Q <-> In st (D :: M1 :: C)) -> (forall st, In st Q2 <-> In st (M2 :: C)) ->
  min_swappable M1 M2 -> is_rule M1 = false -> is_rule M2 = false ->
  stmt_in (notp qp) M2 = true -> prog_in (notp qp) C = true -> lits_in (notp qp) BL = true ->
  (forall p, IN p -> p <> qp) -> (forall a, OUT a -> nonq qn ts a) ->
  cons_ext (fun p => p <> qp) (nonq qn ts) Q2 Q /\ equiv_cost IN OUT Q Q2.
Proof.
  intros MQ MQ2 Sw N1 N2 A2 AC AB HIN HOUT.
  assert (Triv: forall M, is_rule M = false -> forall H T, Sat.stmt_sat sym_lt H T M).
  { intros M NM H T. destruct M; try exact Logic.I. discriminate NM. }
  assert (Q2av: prog_in (notp qp) Q2 = true).
  { unfold prog_in. apply forallb_forall. intros st Hin. apply MQ2 in Hin. destruct Hin as [<-|Hin]; [exact A2|exact (prog_in_stmt _ C st AC Hin)]. }
  assert (CE: cons_ext (fun p => p <> qp) (nonq qn ts) Q2 Q).
  { apply (cons_ext_equiv_on sym_lt _ _ Q2 (D :: Q2) Q).
    - apply (drop_def_cons_ext sym_lt qn ts BL l0 BL_simple Q2 (D :: Q2)); [intro st; tauto|exact Q2av|exact AB].
    - apply equiv_all_on. apply (nonrule_swap_equiv_all sym_lt M2 M1 (D :: C) (D :: Q2) Q).
      + intro st. simpl. rewrite (MQ2 st). simpl. tauto.
      + intro st. rewrite (MQ st). simpl. tauto.
      + exact (Triv M2 N2).
      + exact (Triv M1 N1). }
  split; [exact CE|].
  apply (cons_ext_equiv_cost qp IN OUT Q Q2).
  - intros I FO. apply CE. intros a Ha. apply HIN. exact (FO a Ha).
  - exact HOUT.
  - intros I T T0 FO St AG.
    assert (DT: defd T T).
    { apply (stable_defd sym_lt qn ts BL l0 BL_simple Q I T St); [apply MQ; left; reflexivity| |intros a Ha; apply HIN; exact (FO a Ha)].
      intros st Hin. apply MQ in Hin. destruct Hin as [<-|[<-|Hin]]; [left; reflexivity|right|right].
      - destruct M1; try reflexivity. discriminate N1.
      - apply stmt_in_head. exact (prog_in_stmt _ C st AC Hin). }
    assert (M2in: min_in (notp qp) M2 = true) by (destruct M2; try reflexivity; exact A2).
    apply same_cost_by_stmts.
    + intros st Hin. apply MQ in Hin. destruct Hin as [<-|[<-|Hin]].
      * left. intros p tv. apply rule_no_tuples. reflexivity.
      * right. exists M2. split; [apply MQ2; left; reflexivity|].
        exact (same_tuples_trans T T T0 M1 M2 M2 (Sw T DT) (same_tuples_agree (notp qp) T T0 M2 M2in AG)).
      * right. exists st. split; [apply MQ2; right; exact Hin|].
        apply (same_tuples_agree (notp qp)); [|exact AG]. pose proof (prog_in_stmt _ C st AC Hin) as X.
        destruct st; try reflexivity. exact X.
    + intros st Hin. apply MQ2 in Hin. destruct Hin as [<-|Hin].
      * right. exists M1. split; [apply MQ; right; left; reflexivity|].
        exact (same_tuples_trans T T T0 M1 M2 M2 (Sw T DT) (same_tuples_agree (notp qp) T T0 M2 M2in AG)).
      * right. exists st. split; [apply MQ; right; right; exact Hin|].
        apply (same_tuples_agree (notp qp)); [|exact AG]. pose proof (prog_in_stmt _ C st AC Hin) as X.
        destruct st; try reflexivity. exact X.
Qed.
End CostS.

(* ================================================================================================ *)
(* 4'/5'/6'. The statements for the two kinds of occurrence                                         *)
(* ================================================================================================ *)
Section Concrete.
Variable sym_lt : sym -> sym -> Prop.
Notation stable := (Sat.stable sym_lt).
Notation equiv_on := (equiv_on sym_lt).
Notation cons_ext := (Sat.cons_ext sym_lt).
Notation equiv_cost := (Cost.equiv_cost sym_lt).

Variables (qn: string) (ts: list string) (BL: list lit) (l0: nat) (r: string -> string).
Notation qp := (qn, List.length ts).
Notation D := (def_stmt qn ts BL l0).
Hypothesis BL_simple : simple_lits BL = true.
Hypothesis RA : ren_apart ts BL r.

(* ---------------- (A) the occurrence inside the condition of a body-aggregate element ---------------- *)
Section AggOcc.
Variables (tup: list term) (c1 c2: list lit) (es1 es2: list belem) (sg: sign) (lg rg: option guard) (f: aggfun).
Variables (pre post: list bodyelem) (line: nat).
Notation Baq := (body_aq qn ts r tup c1 c2 es1 es2 sg lg rg f pre post).
Notation Bau := (body_au BL r tup c1 c2 es1 es2 sg lg rg f pre post).

Section AggRule.
Variable h : head.
Notation R := (rule_aq qn ts r tup c1 c2 es1 es2 sg lg rg f pre post line h).     (* h :- pre, #agg{ tup : c1, q(r ts), c2; .. }, post *)
Notation R' := (rule_au BL r tup c1 c2 es1 es2 sg lg rg f pre post line h).       (* h :- pre, #agg{ tup : c1, BL[r], c2; .. }, post *)
Hypothesis Fr : fresh_for ts BL r (gvars_rule h Baq ++ elem_ctx_vars tup c1 c2).

Lemma agg_swappable : swappable sym_lt qn ts BL R R'.
Proof. intros H T DH DT. exact (agg_rule_unfold_sat sym_lt qn ts BL r BL_simple tup c1 c2 es1 es2 sg lg rg f pre post line h H T RA Fr DH DT). Qed.

(* q is used nowhere else: no answer set is lost, whatever the aggregate and whatever the dependencies *)
Theorem unfold_agg_fwd_sound (C Q Q': program) :
  (forall st, In st Q <-> In st (D :: R :: C)) -> (forall st, In st Q' <-> In st (D :: R' :: C)) ->
  stmt_in (notp qp) R' = true -> prog_in (notp qp) C = true -> lits_in (notp qp) BL = true ->
  forall I, facts_over (fun p => p <> qp) I -> forall T, stable Q I T -> stable Q' I T.
Proof.
  intros MQ MQ' A2 AC AB I FO T.
  apply (transfer_fwd_avoid sym_lt qn ts BL l0 BL_simple R R' C Q Q' I MQ MQ' agg_swappable); try assumption.
  - exact (stmt_in_head _ R' A2).
  - exact (C_heads_av qn ts C AC).
Qed.

(* same answer sets, for a splitting of the program below the head of the rule *)
Theorem unfold_agg_sound (low: pred -> bool) (C Q Q': program) :
  (forall st, In st Q <-> In st (D :: R :: C)) -> (forall st, In st Q' <-> In st (D :: R' :: C)) ->
  head_in (notp qp) h = true -> heads_in (notp qp) C = true ->
  low qp = true -> lits_in low BL = true -> head_in (nlow low) h = true ->
  (forall st, In st C -> stmt_in low st = true \/ stmt_head_in (nlow low) st = true) ->
  equiv_on (fun p => p <> qp) Q Q'.
Proof.
  intros MQ MQ' Hh HC Lq LB Th CS.
  exact (swap_split_equiv_on sym_lt qn ts BL l0 BL_simple low R R' C Q Q' MQ MQ' agg_swappable Hh Hh HC Lq LB Th Th CS).
Qed.

Theorem inline_agg_then_drop_fwd (C Q Q2: program) :
  (forall st, In st Q <-> In st (D :: R :: C)) -> (forall st, In st Q2 <-> In st (R' :: C)) ->
  stmt_in (notp qp) R' = true -> prog_in (notp qp) C = true -> lits_in (notp qp) BL = true ->
  forall I, facts_over (fun p => p <> qp) I -> forall T, stable Q I T -> stable Q2 I (restr (nonq qn ts) T).
Proof.
  intros MQ MQ2 A2 AC AB I FO T.
  exact (inline_then_drop_fwd_gen sym_lt qn ts BL l0 BL_simple R R' C Q Q2 MQ MQ2 agg_swappable (stmt_in_head _ R' A2) A2 AC AB I T FO).
Qed.

Theorem inline_agg_then_drop_sound (low: pred -> bool) (C Q Q2: program) :
  (forall st, In st Q <-> In st (D :: R :: C)) -> (forall st, In st Q2 <-> In st (R' :: C)) ->
  stmt_in (notp qp) R' = true -> prog_in (notp qp) C = true -> lits_in (notp qp) BL = true ->
  low qp = true -> lits_in low BL = true -> head_in (nlow low) h = true ->
  (forall st, In st C -> stmt_in low st = true \/ stmt_head_in (nlow low) st = true) ->
  cons_ext (fun p => p <> qp) (nonq qn ts) Q2 Q.
Proof.
  intros MQ MQ2 A2 AC AB Lq LB Th CS.
  exact (inline_then_drop_sound_gen sym_lt qn ts BL l0 BL_simple R R' C Q Q2 MQ MQ2 agg_swappable (stmt_in_head _ R' A2) A2 AC AB low Lq LB Th Th CS).
Qed.

Theorem inline_agg_then_drop_cost (low: pred -> bool) (C Q Q2: program) (IN: pred -> Prop) (OUT: gatom -> Prop) :
  (forall st, In st Q <-> In st (D :: R :: C)) -> (forall st, In st Q2 <-> In st (R' :: C)) ->
  stmt_in (notp qp) R' = true -> prog_in (notp qp) C = true -> lits_in (notp qp) BL = true ->
  low qp = true -> lits_in low BL = true -> head_in (nlow low) h = true ->
  (forall st, In st C -> stmt_in low st = true \/ stmt_head_in (nlow low) st = true) ->
  (forall p, IN p -> p <> qp) -> (forall a, OUT a -> nonq qn ts a) ->
  equiv_cost IN OUT Q Q2.
Proof.
  intros MQ MQ2 A2 AC AB Lq LB Th CS HIN HOUT.
  exact (inline_rule_then_drop_cost sym_lt qn ts BL l0 BL_simple low R R' C Q Q2 IN OUT MQ MQ2 agg_swappable eq_refl eq_refl
           (stmt_in_head _ R' A2) A2 AC AB Lq LB Th Th CS HIN HOUT).
Qed.
End AggRule.

(* the occurrence inside an aggregate of a #minimize / weak constraint body *)
Section AggMin.
Variables (w pr: term) (tms: list term).
Notation M := (min_aq qn ts r tup c1 c2 es1 es2 sg lg rg f pre post line w pr tms).
Notation M' := (min_au BL r tup c1 c2 es1 es2 sg lg rg f pre post line w pr tms).
Hypothesis Fr : fresh_for ts BL r ((min_W w pr tms ++ flat_map gvars_bodyelem Baq) ++ elem_ctx_vars tup c1 c2).

Lemma agg_min_swappable : min_swappable sym_lt qn ts BL M M'.
Proof.
  intros T DT p tv. split; intros (ln & w' & pr' & tms' & b & s & wz & vs & [E|[]] & B & R);
    injection E as <- <- <- <- <-; eexists _, _, _, _, _, s, wz, vs; (split; [left; reflexivity|]); (split; [|exact R]).
  - apply (min_agg_unfold_body sym_lt qn ts BL r BL_simple tup c1 c2 es1 es2 sg lg rg f pre post w pr tms T s RA Fr DT). exact B.
  - apply (min_agg_unfold_body sym_lt qn ts BL r BL_simple tup c1 c2 es1 es2 sg lg rg f pre post w pr tms T s RA Fr DT). exact B.
Qed.

Theorem inline_agg_min_then_drop_cost (C Q Q2: program) (IN: pred -> Prop) (OUT: gatom -> Prop) :
  (forall st, In st Q <-> In st (D :: M :: C)) -> (forall st, In st Q2 <-> In st (M' :: C)) ->
  stmt_in (notp qp) M' = true -> prog_in (notp qp) C = true -> lits_in (notp qp) BL = true ->
  (forall p, IN p -> p <> qp) -> (forall a, OUT a -> nonq qn ts a) ->
  cons_ext (fun p => p <> qp) (nonq qn ts) Q2 Q /\ equiv_cost IN OUT Q Q2.
Proof.
  intros MQ MQ2 A2 AC AB HIN HOUT.
  exact (inline_min_then_drop_cost sym_lt qn ts BL l0 BL_simple M M' C Q Q2 IN OUT MQ MQ2 agg_min_swappable eq_refl eq_refl A2 AC AB HIN HOUT).
Qed.
End AggMin.
End AggOcc.

(* ---------------- (B) the occurrence as a plain body literal ---------------- *)
Section PlainOcc.
Hypothesis D_safe : incl ts (flat_map vars_lit BL).
Variables (pre post: list bodyelem) (line: nat).
Notation Bpq := (body_pq qn ts r pre post).

Section PlainRule.
Variable h : head.
Notation R := (rule_pq qn ts r pre post line h).           (* h :- pre, q(r ts), post *)
Notation R' := (rule_pu BL r pre post line h).             (* h :- pre, BL[r], post *)
Hypothesis Fr : fresh_for ts BL r (gvars_rule h Bpq ++ ctx_vars pre post ++ vars_head h).

Lemma plain_swappable : swappable sym_lt qn ts BL R R'.
Proof. intros H T DH DT. exact (plain_rule_unfold_sat sym_lt qn ts BL r BL_simple pre post line h D_safe H T RA Fr DH DT). Qed.

Theorem unfold_plain_fwd_sound (C Q Q': program) :
  (forall st, In st Q <-> In st (D :: R :: C)) -> (forall st, In st Q' <-> In st (D :: R' :: C)) ->
  stmt_in (notp qp) R' = true -> prog_in (notp qp) C = true -> lits_in (notp qp) BL = true ->
  forall I, facts_over (fun p => p <> qp) I -> forall T, stable Q I T -> stable Q' I T.
Proof.
  intros MQ MQ' A2 AC AB I FO T.
  apply (transfer_fwd_avoid sym_lt qn ts BL l0 BL_simple R R' C Q Q' I MQ MQ' plain_swappable); try assumption.
  - exact (stmt_in_head _ R' A2).
  - exact (C_heads_av qn ts C AC).
Qed.

Theorem unfold_plain_sound (low: pred -> bool) (C Q Q': program) :
  (forall st, In st Q <-> In st (D :: R :: C)) -> (forall st, In st Q' <-> In st (D :: R' :: C)) ->
  head_in (notp qp) h = true -> heads_in (notp qp) C = true ->
  low qp = true -> lits_in low BL = true -> head_in (nlow low) h = true ->
  (forall st, In st C -> stmt_in low st = true \/ stmt_head_in (nlow low) st = true) ->
  equiv_on (fun p => p <> qp) Q Q'.
Proof.
  intros MQ MQ' Hh HC Lq LB Th CS.
  exact (swap_split_equiv_on sym_lt qn ts BL l0 BL_simple low R R' C Q Q' MQ MQ' plain_swappable Hh Hh HC Lq LB Th Th CS).
Qed.

Theorem inline_plain_then_drop_sound (low: pred -> bool) (C Q Q2: program) :
  (forall st, In st Q <-> In st (D :: R :: C)) -> (forall st, In st Q2 <-> In st (R' :: C)) ->
  stmt_in (notp qp) R' = true -> prog_in (notp qp) C = true -> lits_in (notp qp) BL = true ->
  low qp = true -> lits_in low BL = true -> head_in (nlow low) h = true ->
  (forall st, In st C -> stmt_in low st = true \/ stmt_head_in (nlow low) st = true) ->
  cons_ext (fun p => p <> qp) (nonq qn ts) Q2 Q.
Proof.
  intros MQ MQ2 A2 AC AB Lq LB Th CS.
  exact (inline_then_drop_sound_gen sym_lt qn ts BL l0 BL_simple R R' C Q Q2 MQ MQ2 plain_swappable (stmt_in_head _ R' A2) A2 AC AB low Lq LB Th Th CS).
Qed.
End PlainRule.

(* #minimize { w@pr,tms : pre, q(r ts), post } *)
Section PlainMin.
Variables (w pr: term) (tms: list term).
Notation M := (min_pq qn ts r pre post line w pr tms).
Notation M' := (min_pu BL r pre post line w pr tms).
Hypothesis Fr : fresh_for ts BL r (Gq qn ts r pre post (min_W w pr tms) ++ ctx_vars pre post).

Lemma plain_min_swappable : min_swappable sym_lt qn ts BL M M'.
Proof.
  intros T DT p tv.
  pose proof (min_plain_unfold_tuples sym_lt qn ts BL r BL_simple pre post w pr tms D_safe T RA Fr DT) as K.
  split; intros (ln & w' & pr' & tms' & b & s & wz & vs & [E|[]] & B & E1 & E2 & E3 & ->); injection E as <- <- <- <- <-.
  - destruct (proj1 (K (SNum wz) (SNum p) vs)) as [s' [B' [F1 [F2 F3]]]]; [exists s; auto|].
    eexists _, _, _, _, _, s', wz, vs. split; [left; reflexivity|]. auto.
  - destruct (proj2 (K (SNum wz) (SNum p) vs)) as [s' [B' [F1 [F2 F3]]]]; [exists s; auto|].
    eexists _, _, _, _, _, s', wz, vs. split; [left; reflexivity|]. auto.
Qed.

Theorem inline_plain_min_then_drop_cost (C Q Q2: program) (IN: pred -> Prop) (OUT: gatom -> Prop) :
  (forall st, In st Q <-> In st (D :: M :: C)) -> (forall st, In st Q2 <-> In st (M' :: C)) ->
  stmt_in (notp qp) M' = true -> prog_in (notp qp) C = true -> lits_in (notp qp) BL = true ->
  (forall p, IN p -> p <> qp) -> (forall a, OUT a -> nonq qn ts a) ->
  cons_ext (fun p => p <> qp) (nonq qn ts) Q2 Q /\ equiv_cost IN OUT Q Q2.
Proof.
  intros MQ MQ2 A2 AC AB HIN HOUT.
  exact (inline_min_then_drop_cost sym_lt qn ts BL l0 BL_simple M M' C Q Q2 IN OUT MQ MQ2 plain_min_swappable eq_refl eq_refl A2 AC AB HIN HOUT).
Qed.
End PlainMin.
End PlainOcc.
End Concrete.

(* ================================================================================================ *)
(* 7. Simple programs, plain body literal: the fold theorem read right-to-left, with locals         *)
(* ================================================================================================ *)
Local Notation grule := (Meta.Cleanup.rule gatom gF).
Local Notation mkrule := (Meta.Cleanup.Build_rule gatom gF).
Local Notation ghd := (Meta.Cleanup.hd gatom gF).
Local Notation gbd := (Meta.Cleanup.bd gatom gF).
Local Notation gstable := (Meta.Cleanup.stable gatom gF gsat).

Lemma term_in_notp p t : term_in (notp p) t = term_avoids p t.
Proof. induction t as [x|c|o u IH|o l IHl r IHr|l IHl r IHr|n xs e|xs]; try reflexivity. all: destruct o; try reflexivity; exact IH. Qed.
Lemma lit_in_avoids p l : lit_in (notp p) l = true -> lit_avoids p l = true.
Proof.
  destruct l as [sg a]. destruct a as [t| | | | |]; try reflexivity.
  change (term_in (notp p) t = true -> term_avoids p t = true). rewrite term_in_notp. exact (fun X => X).
Qed.
Lemma head_in_avoids p h : head_in (notp p) h = true -> head_avoids p h = true.
Proof.
  destruct h as [l|es|lg es rg|lg f es rg|tx]; try reflexivity; simpl.
  - apply lit_in_avoids.
  - rewrite !forallb_forall. intros A c Hc. specialize (A c Hc). unfold condlit_in in A. apply andb_true_iff in A.
    apply lit_in_avoids. tauto.
Qed.
Lemma heads_in_avoid p P : heads_in (notp p) P = true -> heads_avoid p P = true.
Proof.
  unfold heads_in, heads_avoid. rewrite !forallb_forall. intros A st Hin. specialize (A st Hin).
  destruct st as [ln h b| | | |]; try reflexivity. simpl in *. apply head_in_avoids. exact A.
Qed.

Lemma simple_lit_same l : Ground.simple_lit l = Normalize.simple_lit_b l.
Proof. destruct l as [sg a]. destruct a; reflexivity. Qed.
Lemma simple_body_blits cs : simple_body (map BLit cs) = simple_lits cs.
Proof. unfold simple_body, simple_lits. induction cs as [|c cs IH]; simpl; [reflexivity|]. rewrite IH, simple_lit_same. reflexivity. Qed.
Lemma vars_blits cs : flat_map vars_bodyelem (map BLit cs) = flat_map vars_lit cs.
Proof. induction cs as [|c cs IH]; simpl; [reflexivity|]. rewrite IH. reflexivity. Qed.
Lemma ren_blits r cs : map (ren_bodyelem r) (map BLit cs) = map BLit (map (ren_lit r) cs).
Proof. induction cs as [|c cs IH]; simpl; [reflexivity|]. rewrite IH. reflexivity. Qed.

Section GroundUnfold.
Variable sym_lt : sym -> sym -> Prop.
Notation ground_body := (ground_body sym_lt).
Notation ground_prog := (ground_prog sym_lt).
Notation equiv_on := (equiv_on sym_lt).
Notation cons_ext := (Sat.cons_ext sym_lt).

Variables (qn: string) (ts: list string) (BL: list lit) (l0: nat) (r: string -> string).
Notation qp := (qn, List.length ts).
Notation D := (def_stmt qn ts BL l0).
Notation New := (map BLit BL).
Hypothesis BL_simple : simple_lits BL = true.
Hypothesis RA : ren_apart ts BL r.

Variables (C: program) (line: nat) (h: head) (Rest Bf Bu: list bodyelem).
Hypothesis Bf_members : forall e, In e Bf <-> In e (Rest ++ [BLit (qocc qn ts r)]).        (* h :- Rest, q(r ts) *)
Hypothesis Bu_members : forall e, In e Bu <-> In e (map BLit (BLr BL r) ++ Rest).          (* h :- BL[r], Rest   *)
Hypothesis Fr : fresh_for ts BL r (vars_head h ++ flat_map vars_bodyelem Rest).

Lemma Bu_members' e : In e Bu <-> In e (map (ren_bodyelem r) New ++ Rest).
Proof. rewrite ren_blits. apply Bu_members. Qed.
Lemma New_simple : simple_body New = true.
Proof. rewrite simple_body_blits. exact BL_simple. Qed.

(* the backward premise of gfold_iff: an instance of the folded rule and ANY definition of its q-atom give an
   instance of the unfolded rule -- the values of the locals are put on the fresh names *)
Lemma ufe_bwd I c' : GQ' sym_lt qn ts false C l0 line h New Bf I c' -> GQ sym_lt qn ts false C l0 line h New Bu I c' \/
  exists a rest, is_p qp a /\ (forall f, In f (gbd c') <-> f = GPos a \/ In f rest) /\
    forall beta, GDef sym_lt qn ts New a beta -> exists c, GQ sym_lt qn ts false C l0 line h New Bu I c /\ ghd c = ghd c' /\
      (forall f, In f (gbd c) <-> In f beta \/ In f rest).
Proof.
  intros [[st [[<-|[<-|Hin]] GR]]|F].
  - left. left. exists (def_rule qn ts false l0 New). split; [left; reflexivity|exact GR].
  - right. destruct GR as [s [fs [Eb [Hh Ebd]]]].
    destruct (ground_body_members sym_lt s Bf _ fs Bf_members Eb) as [fs1 [E1 M1]].
    destruct (ground_upd_inv sym_lt qn (map r ts) false Rest s fs1 E1) as [rest [Er ->]].
    exists (aux_atom qn ts (comp s r)), rest. split; [apply aux_atom_isaux|]. split.
    + intro f. rewrite Ebd, (M1 f), in_app_iff, fold_atom_eq. simpl.
      split; [intros [A|[A|[]]]; [right; exact A|left; symmetry; exact A]|intros [->|A]; [right; left; reflexivity|left; exact A]].
    + intros beta [s2 [En Ea]].
      assert (Ets: forall y, In y ts -> s (r y) = s2 y) by (intros y Hy; exact (aux_atom_eq qn ts _ _ Ea y Hy)).
      set (s' := patch ts BL r s s2).
      assert (Same: forall x, In x (vars_head h ++ flat_map vars_bodyelem Rest) -> s' x = s x)
        by (intros x Hx; exact (patch_other ts BL r _ s s2 x Fr Hx)).
      assert (EN: ground_body s' (map (ren_bodyelem r) New) = Some beta).
      { rewrite (ground_body_ren sym_lt r s' New New_simple), <- En. apply ground_body_agree.
        intros y Hy. rewrite vars_blits in Hy. exact (patch_ren ts BL r s s2 RA Ets y Hy). }
      assert (ER: ground_body s' Rest = Some rest).
      { rewrite <- Er. apply ground_body_agree. intros x Hx. apply Same. apply in_or_app. right. exact Hx. }
      assert (E2: ground_body s' (map (ren_bodyelem r) New ++ Rest) = Some (beta ++ rest)) by (rewrite ground_body_app, EN, ER; reflexivity).
      destruct (ground_body_members sym_lt s' _ Bu _ (fun e => iff_sym (Bu_members' e)) E2) as [fs2 [E3 M2]].
      exists (mkrule (ghd c') fs2). split.
      { left. exists (unfolded_rule line h Bu). split; [right; left; reflexivity|]. exists s', fs2. simpl.
        split; [exact E3|]. split; [|reflexivity].
        rewrite (ground_heads_agree s' s h); [exact Hh|]. intros x Hx. apply Same. apply in_or_app. left. exact Hx. }
      split; [reflexivity|]. intro f. simpl. rewrite <- (M2 f), in_app_iff. tauto.
  - left. left. exists st. split; [right; right; exact Hin|exact GR].
  - left. right. exact F.
Qed.

Theorem unfold_existing_ground I T : head_avoids qp h = true -> heads_avoid qp C = true -> facts_over (fun p => p <> qp) I ->
  gstable (ground_prog (D :: SRule line h Bf :: C) I) T <-> gstable (ground_prog (D :: SRule line h Bu :: C) I) T.
Proof.
  intros Hh HC FO. symmetry.
  assert (Bf': forall e, In e Bf <-> In e (Rest ++ [BLit (fold_lit qn ts false r)])) by exact Bf_members.
  exact (gfold_iff (is_p qp) (GDef sym_lt qn ts New) (GQ sym_lt qn ts false C l0 line h New Bu I) (GQ' sym_lt qn ts false C l0 line h New Bf I)
           (fe_def_both sym_lt qn ts false C l0 line h New Bu Bf I)
           (fe_aux_head sym_lt qn ts false C l0 line h New I Hh HC FO Bu)
           (fe_aux_head sym_lt qn ts false C l0 line h New I Hh HC FO Bf)
           (fe_fwd sym_lt qn ts false r C l0 line h New Rest Bu Bf I Bu_members' Bf' New_simple)
           (ufe_bwd I) T).
Qed.

(* UNFOLDING AGAINST THE ONLY DEFINITION, simple programs:  Q = C + {D, h :- Rest, q(r ts)},  Q' = C + {D, h :- BL[r], Rest}.
   No stratification hypothesis: without aggregates the rewrite is sound also through recursion and negation. *)
Theorem unfold_existing_sound_members (Q Q': program) :
  (forall st, In st Q <-> In st (D :: SRule line h Bf :: C)) ->
  (forall st, In st Q' <-> In st (D :: SRule line h Bu :: C)) ->
  simple_prog Q = true -> simple_prog Q' = true ->
  heads_avoid qp (SRule line h Bf :: C) = true ->                       (* D is the only statement with q/n in its head *)
  equiv_on (fun p => p <> qp) Q Q'.
Proof.
  intros MQ MQ' S S' HA I FO T. simpl in HA. apply andb_true_iff in HA. destruct HA as [Hh HC].
  rewrite (ground_stable_iff sym_lt Q S I T), (ground_stable_iff sym_lt Q' S' I T).
  rewrite (gstable_ext _ _ (fun c => ground_prog_members sym_lt Q _ I c MQ) T).
  rewrite (gstable_ext _ _ (fun c => ground_prog_members sym_lt Q' _ I c MQ') T).
  exact (unfold_existing_ground I T Hh HC FO).
Qed.

(* ... and deleting the definition afterwards (section 5 needs no fragment) *)
Theorem inline_simple_then_drop_sound (Q Q2: program) :
  (forall st, In st Q <-> In st (D :: SRule line h Bf :: C)) ->
  (forall st, In st Q2 <-> In st (SRule line h Bu :: C)) ->
  simple_prog Q = true -> simple_prog Q2 = true ->
  prog_in (notp qp) (SRule line h Bu :: C) = true -> lits_in (notp qp) BL = true ->
  cons_ext (fun p => p <> qp) (nonq qn ts) Q2 Q.
Proof.
  intros MQ MQ2 S S2 Av AB.
  assert (Q2av: prog_in (notp qp) Q2 = true).
  { unfold prog_in in *. rewrite forallb_forall in *. intros st Hin. apply Av. apply MQ2. exact Hin. }
  apply (cons_ext_equiv_on sym_lt _ _ Q2 (D :: Q2) Q).
  - apply (drop_def_cons_ext sym_lt qn ts BL l0 BL_simple Q2 (D :: Q2)); [intro st; tauto|exact Q2av|exact AB].
  - apply equiv_on_sym.
    apply (unfold_existing_sound_members Q (D :: Q2) MQ).
    + intro st. simpl. rewrite (MQ2 st). simpl. tauto.
    + exact S.
    + change (simple_stmt D && simple_prog Q2 = true). rewrite S2, andb_true_r.
      unfold def_stmt. simpl. rewrite andb_true_r. fold (simple_body (map BLit BL)). apply New_simple.
    + simpl in Av. apply andb_true_iff in Av. destruct Av as [Ah AC]. apply andb_true_iff in Ah. destruct Ah as [Ah _].
      simpl. rewrite (head_in_avoids qp h Ah). simpl. apply heads_in_avoid. exact (C_heads_av qn ts C AC).
Qed.
End GroundUnfold.

(* the positional statement asked for: Q = P1 ++ [D] ++ P2 ++ [h :- Rest, q(r ts)] ++ P3 *)
Theorem unfold_existing_sound (sym_lt: sym -> sym -> Prop) (q: string) (ts: list string) (r: string -> string)
        (P1 P2 P3: program) (l0 line: nat) (h: head) (BL: list lit) (Rest: list bodyelem) :
  let p : pred := (q, List.length ts) in
  let D := SRule l0 (HLit (Lit NoSign (ASym (TFun q (map TVar ts) false)))) (map BLit BL) in
  let Q := P1 ++ [D] ++ P2 ++ [SRule line h (Rest ++ [BLit (Lit NoSign (ASym (TFun q (map TVar (map r ts)) false)))])] ++ P3 in
  let Q' := P1 ++ [D] ++ P2 ++ [SRule line h (map BLit (map (ren_lit r) BL) ++ Rest)] ++ P3 in
  simple_prog Q = true -> simple_prog Q' = true ->
  heads_avoid p (P1 ++ P2 ++ [SRule line h Rest] ++ P3) = true ->   (* D is the only statement with q/n in its head *)
  ren_apart ts BL r ->                                              (* the locals of BL are renamed apart ...        *)
  fresh_for ts BL r (vars_head h ++ flat_map vars_bodyelem Rest) -> (* ... to names that are fresh for the rule      *)
  equiv_on sym_lt (fun p' => p' <> p) Q Q'.
Proof.
  intros p D Q Q' S S' HA RA Fr.
  assert (SL: simple_lits BL = true).
  { assert (SD: simple_stmt D = true) by (apply (simple_prog_stmt Q _ S); unfold Q; rewrite !in_app_iff; simpl; tauto).
    unfold D in SD. simpl in SD. rewrite andb_true_r in SD. rewrite <- simple_body_blits. exact SD. }
  apply (unfold_existing_sound_members sym_lt q ts BL l0 r SL RA (P1 ++ P2 ++ P3) line h Rest
           (Rest ++ [BLit (qocc q ts r)]) (map BLit (BLr BL r) ++ Rest) (fun e => iff_refl _) (fun e => iff_refl _) Fr Q Q').
  - intro st. unfold Q, D, def_stmt, qocc. simpl. rewrite !in_app_iff. simpl. rewrite !in_app_iff. simpl. tauto.
  - intro st. unfold Q', D, def_stmt, BLr. simpl. rewrite !in_app_iff. simpl. rewrite !in_app_iff. simpl. tauto.
  - exact S.
  - exact S'.
  - unfold heads_avoid in *. rewrite forallb_forall in *. intros st Hin.
    destruct Hin as [<-|Hin].
    + apply (HA (SRule line h Rest)). rewrite !in_app_iff. simpl. tauto.
    + apply HA. rewrite !in_app_iff in *. simpl. tauto.
Qed.

(* ================================================================================================ *)
(* 8. Refutations: every side condition is necessary                                                *)
(* ================================================================================================ *)
Module Refutations.
Section Witnesses.
Variable sym_lt : sym -> sym -> Prop.
Notation body_sat := (Sat.body_sat sym_lt).
Notation lit_sat := (Sat.lit_sat sym_lt).
Notation stmt_sat := (Sat.stmt_sat sym_lt).
Notation stable := (Sat.stable sym_lt).

(* rules  hn(hxs) :- b1(xs1), .., bk(xsk) [, not n(xs)]  over variables *)
Definition pbody (bs: list (string * list string)) : list bodyelem := map (fun p => BLit (at_ (fst p) (snd p))) bs.
Definition prule (line: nat) (hn: string) (hxs: list string) (bs: list (string * list string)) : stmt :=
  SRule line (HLit (at_ hn hxs)) (pbody bs).
Definition nat_ (n: string) (xs: list string) : lit := Lit Neg (ASym (TFun n (map TVar xs) false)).
Definition nrule (line: nat) (hn: string) (hxs: list string) (bs: list (string * list string)) (n: string) (xs: list string) : stmt :=
  SRule line (HLit (at_ hn hxs)) (pbody bs ++ [BLit (nat_ n xs)]).

Lemma nat_sat G (H T: interp) s n xs : lit_sat G H T s (nat_ n xs) = (~ T (n, map s xs)).
Proof. unfold nat_. rewrite (Ground.lit_sat_sym sym_lt). unfold sym_atom_sat. rewrite eval_fun, eval_list_vars. reflexivity. Qed.

Lemma pbody_sat G X T s bs : body_sat G X T s (pbody bs) <-> forall p, In p bs -> X (fst p, map s (snd p)).
Proof.
  unfold pbody, Sat.body_sat. rewrite Forall_forall. split.
  - intros F p Hp. specialize (F _ (in_map _ _ _ Hp)). simpl in F. rewrite at_sat in F. exact F.
  - intros F e He. apply in_map_iff in He. destruct He as [p [<- Hp]]. simpl. rewrite at_sat. exact (F p Hp).
Qed.

Lemma prule_sat X T line hn hxs bs : stmt_sat X T (prule line hn hxs bs) <->
  forall s, ((forall p, In p bs -> X (fst p, map s (snd p))) -> X (hn, map s hxs)) /\
            ((forall p, In p bs -> T (fst p, map s (snd p))) -> T (hn, map s hxs)).
Proof.
  unfold prule. simpl. unfold Sat.rule_sat, Sat.head_sat. split; intros F s; specialize (F s);
    rewrite !pbody_sat, !at_sat in *; exact F.
Qed.

Lemma nrule_sat X T line hn hxs bs n xs : stmt_sat X T (nrule line hn hxs bs n xs) <->
  forall s, ((forall p, In p bs -> X (fst p, map s (snd p))) -> ~ T (n, map s xs) -> X (hn, map s hxs)) /\
            ((forall p, In p bs -> T (fst p, map s (snd p))) -> ~ T (n, map s xs) -> T (hn, map s hxs)).
Proof.
  unfold nrule. simpl. unfold Sat.rule_sat, Sat.head_sat.
  assert (E: forall G Y s, body_sat G Y T s (pbody bs ++ [BLit (nat_ n xs)]) <->
                           (forall p, In p bs -> Y (fst p, map s (snd p))) /\ ~ T (n, map s xs)).
  { intros G Y s. unfold Sat.body_sat. rewrite Forall_app. fold (body_sat G Y T s (pbody bs)). rewrite pbody_sat.
    rewrite Forall_cons_iff. simpl. rewrite nat_sat. split; [intros [A [B _]]; tauto|intros [A B]; repeat split; auto]. }
  split; intros F s; specialize (F s); rewrite !E, !at_sat in *; tauto.
Qed.

Definition c1 : sym := SNum 1.
Definition c2 : sym := SNum 2.
Definition sX (v: sym) : subst := fun _ => v.
Ltac inl H := simpl in H; repeat (destruct H as [H|H]); try discriminate H; try contradiction.

(* ---- (a) q is defined by TWO rules:  q(X) :- a(X).  q(X) :- b(X).  h(X) :- q(X).   ~>   ... h(X) :- a(X).
        Facts b(1): h(1) is lost.  Every other hypothesis of unfold_existing_sound holds (r = identity, no locals). ---- *)
Definition a_d1 : stmt := prule 1 "q" ["X"] [("a", ["X"])].
Definition a_d2 : stmt := prule 2 "q" ["X"] [("b", ["X"])].
Definition a_r : stmt := prule 3 "h" ["X"] [("q", ["X"])].
Definition a_r' : stmt := prule 3 "h" ["X"] [("a", ["X"])].
Definition a_I : list gatom := [("b", [c1])].
Definition a_T : interp := fun g => In g [("b", [c1]); ("q", [c1]); ("h", [c1])].

Lemma a_stable : stable [a_d1; a_d2; a_r] a_I a_T.
Proof.
  split; [split|].
  - intros st [<-|[<-|[<-|[]]]]; apply prule_sat; intro s.
    + split; intro F; pose proof (F _ (or_introl eq_refl)) as Y; inl Y.
    + split; intro F; pose proof (F _ (or_introl eq_refl)) as Y; inl Y; injection Y as Y; simpl; rewrite <- Y; unfold a_T; simpl; tauto.
    + split; intro F; pose proof (F _ (or_introl eq_refl)) as Y; inl Y; injection Y as Y; simpl; rewrite <- Y; unfold a_T; simpl; tauto.
  - intros a Ha. unfold a_T. simpl. inl Ha. subst a. tauto.
  - intros H _ PS FS a Ta.
    assert (Hb: H ("b", [c1])) by (apply FS; left; reflexivity).
    assert (Hq: H ("q", [c1])).
    { pose proof (proj1 (prule_sat H a_T _ _ _ _) (PS a_d2 (or_intror (or_introl eq_refl))) (sX c1)) as [R _].
      apply R. intros p [<-|[]]. exact Hb. }
    assert (Hh: H ("h", [c1])).
    { pose proof (proj1 (prule_sat H a_T _ _ _ _) (PS a_r (or_intror (or_intror (or_introl eq_refl)))) (sX c1)) as [R _].
      apply R. intros p [<-|[]]. exact Hq. }
    inl Ta; subst a; assumption.
Qed.

Lemma a_not_stable' : ~ stable [a_d1; a_d2; a_r'] a_I a_T.
Proof.
  intros [_ Min].
  set (H := fun g : gatom => In g [("b", [c1]); ("q", [c1])]).
  assert (X: H ("h", [c1])).
  { apply Min.
    - intros g Hg. unfold H in Hg. unfold a_T. simpl in *. tauto.
    - intros st [<-|[<-|[<-|[]]]]; apply prule_sat; intro s.
      + split; intro F; pose proof (F _ (or_introl eq_refl)) as Y; inl Y.
      + split; intro F; pose proof (F _ (or_introl eq_refl)) as Y; inl Y; injection Y as Y; simpl; rewrite <- Y; unfold H, a_T; simpl; tauto.
      + split; intro F; pose proof (F _ (or_introl eq_refl)) as Y; inl Y.
    - intros a Ha. inl Ha. subst a. unfold H. simpl. tauto.
    - unfold a_T. simpl. tauto. }
  inl X.
Qed.

Theorem two_definitions_refuted :
  simple_prog [a_d1; a_d2; a_r] = true /\ simple_prog [a_d1; a_d2; a_r'] = true /\
  heads_avoid ("q", 1) [a_r] = true /\ heads_avoid ("q", 1) [a_d2; a_r] = false /\        (* the hypothesis that fails *)
  facts_over (fun p => p <> ("q", 1)) a_I /\
  stable [a_d1; a_d2; a_r] a_I a_T /\ ~ stable [a_d1; a_d2; a_r'] a_I a_T /\
  ~ equiv_on sym_lt (fun p => p <> ("q", 1)) [a_d1; a_d2; a_r] [a_d1; a_d2; a_r'].
Proof.
  assert (FO: facts_over (fun p => p <> ("q", 1)) a_I) by (intros a [<-|[]]; simpl; discriminate).
  repeat (split; [first [reflexivity|exact FO|exact a_stable|exact a_not_stable']|]).
  intro E. apply a_not_stable'. apply (E a_I FO a_T). exact a_stable.
Qed.

(* ---- (b) q is ALSO USED ELSEWHERE:  q(X) :- a(X).  h(X) :- q(X).  g(X) :- q(X).   ~>   h(X) :- a(X).  g(X) :- q(X).
        Deleting the definition loses g(1). ---- *)
Definition b_d : stmt := prule 1 "q" ["X"] [("a", ["X"])].
Definition b_r : stmt := prule 2 "h" ["X"] [("q", ["X"])].
Definition b_g : stmt := prule 3 "g" ["X"] [("q", ["X"])].
Definition b_r' : stmt := prule 2 "h" ["X"] [("a", ["X"])].
Definition b_I : list gatom := [("a", [c1])].
Definition b_T : interp := fun g => In g [("a", [c1]); ("q", [c1]); ("h", [c1]); ("g", [c1])].

Lemma b_stable : stable [b_d; b_r; b_g] b_I b_T.
Proof.
  split; [split|].
  - intros st [<-|[<-|[<-|[]]]]; apply prule_sat; intro s;
      split; intro F; pose proof (F _ (or_introl eq_refl)) as Y; inl Y; injection Y as Y; simpl; rewrite <- Y; unfold b_T; simpl; tauto.
  - intros a Ha. unfold b_T. simpl. inl Ha. subst a. tauto.
  - intros H _ PS FS a Ta.
    assert (Ha: H ("a", [c1])) by (apply FS; left; reflexivity).
    assert (Hq: H ("q", [c1])).
    { pose proof (proj1 (prule_sat H b_T _ _ _ _) (PS b_d (or_introl eq_refl)) (sX c1)) as [R _].
      apply R. intros p [<-|[]]. exact Ha. }
    assert (Hh: H ("h", [c1])).
    { pose proof (proj1 (prule_sat H b_T _ _ _ _) (PS b_r (or_intror (or_introl eq_refl))) (sX c1)) as [R _].
      apply R. intros p [<-|[]]. exact Hq. }
    assert (Hg: H ("g", [c1])).
    { pose proof (proj1 (prule_sat H b_T _ _ _ _) (PS b_g (or_intror (or_intror (or_introl eq_refl)))) (sX c1)) as [R _].
      apply R. intros p [<-|[]]. exact Hq. }
    inl Ta; subst a; assumption.
Qed.

Lemma b_not_stable2 : ~ stable [b_r'; b_g] b_I (restr (nonq "q" ["X"]) b_T).
Proof.
  intros [_ Min].
  set (H := fun g : gatom => In g [("a", [c1]); ("h", [c1])]).
  assert (NQ: forall n v, n <> "q" -> nonq "q" ["X"] (n, [v])) by (intros n v Nn [E _]; simpl in E; exact (Nn E)).
  assert (X: H ("g", [c1])).
  { apply Min.
    - intros g Hg. unfold H in Hg. inl Hg; subst g; (split; [apply NQ; discriminate|unfold b_T; simpl; tauto]).
    - intros st [<-|[<-|[]]]; apply prule_sat; intro s.
      + split; intro F; pose proof (F _ (or_introl eq_refl)) as Y.
        * inl Y. injection Y as Y. simpl. rewrite <- Y. unfold H. simpl. tauto.
        * destruct Y as [_ Y]. inl Y. injection Y as Y. simpl. rewrite <- Y. split; [apply NQ; discriminate|unfold b_T; simpl; tauto].
      + split; intro F; pose proof (F _ (or_introl eq_refl)) as Y.
        * inl Y.
        * destruct Y as [N _]. exfalso. apply N. split; reflexivity.
    - intros a Ha. inl Ha. subst a. unfold H. simpl. tauto.
    - split; [apply NQ; discriminate|unfold b_T; simpl; tauto]. }
  inl X.
Qed.

Theorem used_elsewhere_refuted :
  prog_in (notp ("q", 1)) [b_g] = false /\                                         (* the hypothesis that fails *)
  stmt_in (notp ("q", 1)) b_r' = true /\ lits_in (notp ("q", 1)) [at_ "a" ["X"]] = true /\
  facts_over (fun p => p <> ("q", 1)) b_I /\
  stable [b_d; b_r; b_g] b_I b_T /\ ~ stable [b_r'; b_g] b_I (restr (nonq "q" ["X"]) b_T).
Proof.
  split; [reflexivity|]. split; [reflexivity|]. split; [reflexivity|].
  split; [intros a [<-|[]]; simpl; discriminate|]. split; [exact b_stable|exact b_not_stable2].
Qed.

(* ---- (c) a local variable that is NOT renamed apart and captures a variable of the tuple:
        q(X) :- a(X,Y).      #sum{ 1,Y : q(X), b(Y) }   ~>   #sum{ 1,Y : a(X,Y), b(Y) }      (r = identity)
        With a(1,5), b(5), b(6), q(1) the element contributes (1,5),(1,6) before and only (1,5) after.
        (Renamed apart -- #sum{ 1,Y : a(X,Y0), b(Y) } -- the tuple SET is unchanged, whatever the multiplicity of the
        locals: elems_unfold.) ---- *)
Definition c_BL : list lit := [at_ "a" ["X"; "Y"]].
Definition c_tup : list term := [TSym c1; TVar "Y"].
Definition c_T : interp := fun g => In g [("a", [c1; SNum 5]); ("b", [SNum 5]); ("b", [SNum 6]); ("q", [c1])].
Definition idr : string -> string := fun x => x.

Lemma c_defd : defd sym_lt "q" ["X"] c_BL c_T c_T.
Proof.
  intros vs Len. split.
  - intro Tq. inl Tq. injection Tq as Tq. subst vs. exists (fun y => if String.eqb y "X" then c1 else SNum 5). split; [reflexivity|].
    apply Forall_cons; [|apply Forall_nil]. rewrite at_sat. unfold c_T. simpl. tauto.
  - intros [s [<- B]]. inversion B as [|? ? B1 _]; subst. rewrite at_sat in B1. inl B1. injection B1 as B1 _.
    simpl. rewrite <- B1. unfold c_T. simpl. tauto.
Qed.

Theorem capture_changes_tuples s :
  defd sym_lt "q" ["X"] c_BL c_T c_T /\ simple_lits c_BL = true /\ ren_apart ["X"] c_BL idr /\
  ~ fresh_for ["X"] c_BL idr (elem_ctx_vars c_tup [] [at_ "b" ["Y"]]) /\          (* the hypothesis that fails *)
  AggSem.elems_tuples sym_lt [] c_T c_T s [elem_q "q" ["X"] idr c_tup [] [at_ "b" ["Y"]]] [c1; SNum 6] /\
  ~ AggSem.elems_tuples sym_lt [] c_T c_T s [elem_u c_BL idr c_tup [] [at_ "b" ["Y"]]] [c1; SNum 6].
Proof.
  split; [exact c_defd|]. split; [reflexivity|]. split; [intros y z _ _ E; exact E|]. split.
  - intro F. apply (F "Y"); [apply locals_spec; simpl; split; [tauto|intros [E|[]]; discriminate E]|simpl; tauto].
  - split.
    + apply elems_tuples_iff. eexists. split; [left; reflexivity|].
      exists (fun y => if String.eqb y "X" then c1 else SNum 6). split; [intros x []|]. split; [reflexivity|].
      simpl. repeat constructor; rewrite at_sat; unfold c_T; simpl; tauto.
    + intro E. apply elems_tuples_iff in E. destruct E as [e [[<-|[]] [th [_ [Ev C]]]]]. simpl in Ev.
      injection Ev as Ev.
      change (Sat.lits_sat sym_lt [] c_T c_T th (BLr c_BL idr ++ [at_ "b" ["Y"]])) in C.
      apply lits_sat_app in C. destruct C as [C _]. apply (BLr_sat sym_lt c_BL idr eq_refl) in C.
      inversion C as [|? ? C1 _]; subst. rewrite at_sat in C1. unfold comp, idr in C1. simpl in C1. rewrite Ev in C1. inl C1.
Qed.

(* ---- (d) head arguments that are NOT DISTINCT VARIABLES.  The pass renames positionally (dict(zip(head args, passed args))):
        q(X,X) :- a(X).   h(Y,Z) :- q(Y,Z), b(Y), b(Z).      ~>   h(Y,Z) :- a(Z), b(Y), b(Z).          (X |-> Z, the later binding)
        With a(1), b(1), b(2) the result also derives h(2,1). ---- *)
Definition d_d : stmt := prule 1 "q" ["X"; "X"] [("a", ["X"])].
Definition d_r : stmt := prule 2 "h" ["Y"; "Z"] [("q", ["Y"; "Z"]); ("b", ["Y"]); ("b", ["Z"])].
Definition d_r' : stmt := prule 2 "h" ["Y"; "Z"] [("a", ["Z"]); ("b", ["Y"]); ("b", ["Z"])].
Definition d_I : list gatom := [("a", [c1]); ("b", [c1]); ("b", [c2])].
Definition d_T : interp := fun g => In g [("a", [c1]); ("b", [c1]); ("b", [c2]); ("q", [c1; c1]); ("h", [c1; c1])].

Lemma d_stable : stable [d_d; d_r] d_I d_T.
Proof.
  split; [split|].
  - intros st [<-|[<-|[]]]; apply prule_sat; intro s.
    + split; intro F; pose proof (F _ (or_introl eq_refl)) as Y; inl Y; injection Y as Y; simpl; rewrite <- Y; unfold d_T; simpl; tauto.
    + split; intro F; pose proof (F _ (or_introl eq_refl)) as Y; inl Y; injection Y as Y1 Y2; simpl; rewrite <- Y1, <- Y2; unfold d_T; simpl; tauto.
  - intros a Ha. unfold d_T. simpl. inl Ha; subst a; tauto.
  - intros H _ PS FS a Ta.
    assert (Ha: H ("a", [c1])) by (apply FS; simpl; tauto).
    assert (Hb: H ("b", [c1])) by (apply FS; simpl; tauto).
    assert (Hb2: H ("b", [c2])) by (apply FS; simpl; tauto).
    assert (Hq: H ("q", [c1; c1])).
    { pose proof (proj1 (prule_sat H d_T _ _ _ _) (PS d_d (or_introl eq_refl)) (sX c1)) as [R _].
      apply R. intros p [<-|[]]. exact Ha. }
    assert (Hh: H ("h", [c1; c1])).
    { pose proof (proj1 (prule_sat H d_T _ _ _ _) (PS d_r (or_intror (or_introl eq_refl))) (sX c1)) as [R _].
      apply R. intros p [<-|[<-|[<-|[]]]]; assumption. }
    inl Ta; subst a; assumption.
Qed.

Lemma d_not_model' : ~ stable [d_d; d_r'] d_I d_T.
Proof.
  intros [[PS _] _].
  pose proof (proj1 (prule_sat d_T d_T _ _ _ _) (PS d_r' (or_intror (or_introl eq_refl))) (fun y => if String.eqb y "Y" then c2 else c1)) as [R _].
  assert (X: d_T ("h", [c2; c1])).
  { apply R. intros p [<-|[<-|[<-|[]]]]; unfold d_T; simpl; tauto. }
  inl X.
Qed.

Theorem repeated_head_variable_refuted :
  stable [d_d; d_r] d_I d_T /\ ~ stable [d_d; d_r'] d_I d_T /\
  ~ equiv_on sym_lt (fun p => p <> ("q", 2)) [d_d; d_r] [d_d; d_r'].
Proof.
  split; [exact d_stable|]. split; [exact d_not_model'|]. intro E. apply d_not_model'. apply (E d_I); [|exact d_stable].
  intros a Ha. inl Ha; subst a; simpl; discriminate.
Qed.

(* ---- (e) the occurrence is NEGATED:  q(X) :- a(X,Y).   h(X) :- d(X), not q(X).   ~>   h(X) :- d(X), not a(X,Y0).
        "not exists Y" has become "exists Y0 not".  With d(1), a(1,2): h(1) is derived after, not before. ---- *)
Definition e_d : stmt := prule 1 "q" ["X"] [("a", ["X"; "Y"])].
Definition e_r : stmt := nrule 2 "h" ["X"] [("d", ["X"])] "q" ["X"].
Definition e_r' : stmt := nrule 2 "h" ["X"] [("d", ["X"])] "a" ["X"; "Y0"].
Definition e_I : list gatom := [("d", [c1]); ("a", [c1; c2])].
Definition e_T : interp := fun g => In g [("d", [c1]); ("a", [c1; c2]); ("q", [c1])].

Lemma e_stable : stable [e_d; e_r] e_I e_T.
Proof.
  split; [split|].
  - intros st [<-|[<-|[]]].
    + apply prule_sat. intro s.
      split; intro F; pose proof (F _ (or_introl eq_refl)) as Y; inl Y; injection Y as Y _; simpl; rewrite <- Y; unfold e_T; simpl; tauto.
    + apply nrule_sat. intro s.
      split; intros F N; pose proof (F _ (or_introl eq_refl)) as Y; inl Y; injection Y as Y; exfalso; apply N; simpl; rewrite <- Y; unfold e_T; simpl; tauto.
  - intros a Ha. unfold e_T. simpl. inl Ha; subst a; tauto.
  - intros H _ PS FS a Ta.
    assert (Hd: H ("d", [c1])) by (apply FS; simpl; tauto).
    assert (Ha: H ("a", [c1; c2])) by (apply FS; simpl; tauto).
    assert (Hq: H ("q", [c1])).
    { pose proof (proj1 (prule_sat H e_T _ _ _ _) (PS e_d (or_introl eq_refl)) (fun y => if String.eqb y "X" then c1 else c2)) as [R _].
      apply R. intros p [<-|[]]. exact Ha. }
    inl Ta; subst a; assumption.
Qed.

Lemma e_not_model' : ~ stable [e_d; e_r'] e_I e_T.
Proof.
  intros [[PS _] _].
  pose proof (proj1 (nrule_sat e_T e_T _ _ _ _ _ _) (PS e_r' (or_intror (or_introl eq_refl))) (fun y => if String.eqb y "X" then c1 else SNum 3)) as [R _].
  assert (X: e_T ("h", [c1])).
  { apply R; [intros p [<-|[]]; unfold e_T; simpl; tauto|]. intro Y. inl Y. }
  inl X.
Qed.

Theorem negated_occurrence_refuted :
  stable [e_d; e_r] e_I e_T /\ ~ stable [e_d; e_r'] e_I e_T /\
  ~ equiv_on sym_lt (fun p => p <> ("q", 1)) [e_d; e_r] [e_d; e_r'].
Proof.
  split; [exact e_stable|]. split; [exact e_not_model'|]. intro E. apply e_not_model'. apply (E e_I); [|exact e_stable].
  intros a Ha. inl Ha; subst a; simpl; discriminate.
Qed.

(* ---- (f) NO SPLITTING: the body of q depends on the head of the rule through a NON-MONOTONE aggregate.
          n1(1). sw(1,2). sw(2,1).                                   (facts)
          a(X) :- p, n1(X).     a(Y) :- a(X), sw(X,Y).     q(X) :- a(X).
          p :- #sum{ 1,X : q(X) } != 1.            ~>            p :- #sum{ 1,X : a(X) } != 1.
        The unfolded program has the answer set {p, a(1), a(2), q(1), q(2)}, the original program has none
        (clingo agrees): (H,T) with H = facts + {q(1)} is a model of the original reduct -- the sum over q is 1 there --
        while in the unfolded program the sum over a can only be 0 or 2.  So unfold_agg_fwd_sound has no converse and
        unfold_agg_sound needs its splitting hypothesis. ---- *)
Definition f_c1 : stmt := prule 1 "a" ["X"] [("p", []); ("n1", ["X"])].
Definition f_c2 : stmt := prule 2 "a" ["Y"] [("a", ["X"]); ("sw", ["X"; "Y"])].
Definition f_d : stmt := prule 3 "q" ["X"] [("a", ["X"])].
Definition f_tup : list term := [TSym c1; TVar "X"].
Definition f_agg (n: string) : lit := Lit NoSign (ABodyAgg None FSum [(f_tup, [at_ n ["X"]])] (Some (CNe, TSym c1))).
Definition f_r : stmt := SRule 4 (HLit (at_ "p" [])) [BLit (f_agg "q")].
Definition f_r' : stmt := SRule 4 (HLit (at_ "p" [])) [BLit (f_agg "a")].
Definition f_I : list gatom := [("n1", [c1]); ("sw", [c1; c2]); ("sw", [c2; c1])].
Definition f_T : interp := fun g => In g (f_I ++ [("p", []); ("a", [c1]); ("a", [c2]); ("q", [c1]); ("q", [c2])]).

Lemma f_forms : f_r = rule_aq "q" ["X"] idr f_tup [] [] [] [] NoSign None (Some (CNe, TSym c1)) FSum [] [] 4 (HLit (at_ "p" [])) /\
                f_r' = rule_au [at_ "a" ["X"]] idr f_tup [] [] [] [] NoSign None (Some (CNe, TSym c1)) FSum [] [] 4 (HLit (at_ "p" [])) /\
                f_d = def_stmt "q" ["X"] [at_ "a" ["X"]] 3.
Proof. repeat split; reflexivity. Qed.

Lemma f_tuples (X T: interp) s n tv :
  AggSem.elems_tuples sym_lt [] X T s [(f_tup, [at_ n ["X"]])] tv <-> exists v, tv = [c1; v] /\ X (n, [v]).
Proof.
  rewrite elems_tuples_iff. split.
  - intros [e [[<-|[]] [th [_ [Ev C]]]]]. simpl in Ev. injection Ev as <-. exists (th "X"). split; [reflexivity|].
    inversion C as [|? ? C1 _]; subst. rewrite at_sat in C1. exact C1.
  - intros [v [-> Xv]]. eexists. split; [left; reflexivity|]. exists (sX v). split; [intros x []|]. split; [reflexivity|].
    simpl. apply Forall_cons; [|apply Forall_nil]. rewrite at_sat. exact Xv.
Qed.

Lemma ne1_holds (S: tupset) s l : enumerates S l ->
  (Sat.agg_holds sym_lt s None FSum (Some (CNe, TSym c1)) S <-> sum_of l <> 1%Z).
Proof.
  intro En. unfold Sat.agg_holds. simpl. split.
  - intros [v [[l' [En' ->]] [_ Ne]]] E. apply Ne. rewrite (CostAlg.sum_enumeration_independent_proof S l' l En' En), E. reflexivity.
  - intro Ne. exists (SNum (sum_of l)). split; [exists l; split; [exact En|reflexivity]|]. split; [exact Logic.I|].
    intro E. injection E as E. exact (Ne E).
Qed.

Lemma f_agg_sat (H T: interp) s n :
  lit_sat [] H T s (f_agg n) <->
  Sat.agg_holds sym_lt s None FSum (Some (CNe, TSym c1)) (AggSem.elems_tuples sym_lt [] H T s [(f_tup, [at_ n ["X"]])]) /\
  Sat.agg_holds sym_lt s None FSum (Some (CNe, TSym c1)) (AggSem.elems_tuples sym_lt [] T T s [(f_tup, [at_ n ["X"]])]).
Proof. unfold f_agg. change (Sat.lit_sat sym_lt [] H T s (Lit NoSign (ABodyAgg None FSum [(f_tup, [at_ n ["X"]])] (Some (CNe, TSym c1)))))
         with (Sat.atom_sat sym_lt [] H T s NoSign (ABodyAgg None FSum [(f_tup, [at_ n ["X"]])] (Some (CNe, TSym c1)))).
       rewrite atom_sat_bodyagg. simpl. tauto. Qed.

Lemma f_rule_sat (H T: interp) n : stmt_sat H T (SRule 4 (HLit (at_ "p" [])) [BLit (f_agg n)]) <->
  forall s, (lit_sat [] H T s (f_agg n) -> H ("p", [])) /\ (lit_sat [] T T s (f_agg n) -> T ("p", [])).
Proof.
  simpl. unfold Sat.rule_sat, Sat.head_sat, Sat.body_sat. split; intros F s; specialize (F s); rewrite !at_sat in *; simpl in *.
  - destruct F as [F1 F2]. split; intro L; [apply F1|apply F2]; (apply Forall_cons; [exact L|apply Forall_nil]).
  - destruct F as [F1 F2]. split; intro L; [apply F1|apply F2]; inversion L; assumption.
Qed.

Lemma f_T_a v : f_T ("a", [v]) <-> v = c1 \/ v = c2.
Proof. unfold f_T. simpl. split; [intro Y; inl Y; injection Y as <-; tauto|intros [->| ->]; tauto]. Qed.
Lemma f_T_q v : f_T ("q", [v]) <-> v = c1 \/ v = c2.
Proof. unfold f_T. simpl. split; [intro Y; inl Y; injection Y as <-; tauto|intros [->| ->]; tauto]. Qed.

(* the classical part: the three plain rules and the definition hold in (X, f_T) for these X *)
Lemma f_T_rules : stmt_sat f_T f_T f_c1 /\ stmt_sat f_T f_T f_c2 /\ stmt_sat f_T f_T f_d.
Proof.
  split; [|split]; apply prule_sat; intro s.
  - assert (R: (forall p, In p [("p", []); ("n1", ["X"])] -> f_T (fst p, map s (snd p))) -> f_T ("a", map s ["X"])).
    { intro F. pose proof (F _ (or_intror (or_introl eq_refl))) as Y. unfold f_T in Y. inl Y. injection Y as Y. simpl. rewrite <- Y. apply f_T_a. tauto. }
    split; exact R.
  - assert (R: (forall p, In p [("a", ["X"]); ("sw", ["X"; "Y"])] -> f_T (fst p, map s (snd p))) -> f_T ("a", map s ["Y"])).
    { intro F. pose proof (F _ (or_intror (or_introl eq_refl))) as Y. unfold f_T in Y. inl Y; injection Y as _ Y; simpl; rewrite <- Y; apply f_T_a; tauto. }
    split; exact R.
  - assert (R: (forall p, In p [("a", ["X"])] -> f_T (fst p, map s (snd p))) -> f_T ("q", map s ["X"])).
    { intro F. pose proof (F _ (or_introl eq_refl)) as Y. simpl in Y. apply f_T_a in Y. simpl. apply f_T_q. exact Y. }
    split; exact R.
Qed.

Lemma f_enum_T n : (forall v, f_T (n, [v]) <-> v = c1 \/ v = c2) -> forall s,
  enumerates (AggSem.elems_tuples sym_lt [] f_T f_T s [(f_tup, [at_ n ["X"]])]) [[c1; c1]; [c1; c2]].
Proof.
  intros Sp s. split.
  - constructor; [intros [E|[]]; discriminate E|]. constructor; [intros []|constructor].
  - intro tv. rewrite f_tuples. split.
    + intros [<-|[<-|[]]]; eexists; (split; [reflexivity|]); apply Sp; tauto.
    + intros [v [-> Xv]]. apply Sp in Xv. destruct Xv as [->| ->]; simpl; tauto.
Qed.

Lemma f_unfolded_stable : stable [f_c1; f_c2; f_d; f_r'] f_I f_T.
Proof.
  destruct f_T_rules as [R1 [R2 R3]].
  split; [split|].
  - intros st [<-|[<-|[<-|[<-|[]]]]]; try assumption.
    apply f_rule_sat. intro s. split; intros _; unfold f_T; simpl; tauto.
  - intros a Ha. unfold f_T. apply in_or_app. left. exact Ha.
  - intros H S PS FS.
    assert (Hn1: H ("n1", [c1])) by (apply FS; simpl; tauto).
    assert (Hs12: H ("sw", [c1; c2])) by (apply FS; simpl; tauto).
    assert (Hs21: H ("sw", [c2; c1])) by (apply FS; simpl; tauto).
    pose proof (proj1 (prule_sat H f_T _ _ _ _) (PS f_c1 (or_introl eq_refl))) as P1.
    pose proof (proj1 (prule_sat H f_T _ _ _ _) (PS f_c2 (or_intror (or_introl eq_refl)))) as P2.
    pose proof (proj1 (prule_sat H f_T _ _ _ _) (PS f_d (or_intror (or_intror (or_introl eq_refl))))) as P3.
    pose proof (proj1 (f_rule_sat H f_T "a") (PS f_r' (or_intror (or_intror (or_intror (or_introl eq_refl)))))) as P4.
    assert (A12: H ("a", [c1]) -> H ("a", [c2])).
    { intro A. destruct (P2 (fun y => if String.eqb y "X" then c1 else c2)) as [R _]. apply R. intros p [<-|[<-|[]]]; assumption. }
    assert (A21: H ("a", [c2]) -> H ("a", [c1])).
    { intro A. destruct (P2 (fun y => if String.eqb y "X" then c2 else c1)) as [R _]. apply R. intros p [<-|[<-|[]]]; assumption. }
    assert (Hp: H ("p", [])).
    { destruct (P4 (sX c1)) as [R _]. apply R. apply f_agg_sat. split.
      - destruct (classic (H ("a", [c1]))) as [A|N].
        + apply (ne1_holds _ _ [[c1; c1]; [c1; c2]]); [|simpl; discriminate]. split.
          * constructor; [intros [E|[]]; discriminate E|]. constructor; [intros []|constructor].
          * intro tv. rewrite f_tuples. split.
            -- intros [<-|[<-|[]]]; eexists; (split; [reflexivity|]); [exact A|exact (A12 A)].
            -- intros [v [-> Xv]]. apply S in Xv. apply f_T_a in Xv. destruct Xv as [->| ->]; simpl; tauto.
        + apply (ne1_holds _ _ []); [|simpl; discriminate]. split; [constructor|].
          intro tv. rewrite f_tuples. split; [intros []|]. intros [v [-> Xv]]. pose proof (S _ Xv) as Tv. apply f_T_a in Tv.
          destruct Tv as [->| ->]; [exact (N Xv)|exact (N (A21 Xv))].
      - apply (ne1_holds _ _ _ (f_enum_T "a" f_T_a (sX c1))). simpl. discriminate. }
    assert (Ha1: H ("a", [c1])).
    { destruct (P1 (sX c1)) as [R _]. apply R. intros p [<-|[<-|[]]]; assumption. }
    pose proof (A12 Ha1) as Ha2.
    assert (Hq1: H ("q", [c1])) by (destruct (P3 (sX c1)) as [R _]; apply R; intros p [<-|[]]; exact Ha1).
    assert (Hq2: H ("q", [c2])) by (destruct (P3 (sX c2)) as [R _]; apply R; intros p [<-|[]]; exact Ha2).
    intros a Ta. unfold f_T in Ta. inl Ta; subst a; assumption.
Qed.

Lemma f_original_not_stable_gen (T: interp) : (forall a, T a <-> f_T a) -> ~ stable [f_c1; f_c2; f_d; f_r] f_I T.
Proof.
  intros E [[PT _] Min].
  set (H := fun g : gatom => In g (f_I ++ [("q", [c1])])).
  assert (X: H ("p", [])).
  { apply Min.
    - intros g Hg. apply E. unfold H in Hg. unfold f_T. simpl in *. tauto.
    - intros st Hin. pose proof (PT st Hin) as PTst. destruct Hin as [<-|[<-|[<-|[<-|[]]]]].
      + apply prule_sat. intro s. split; [|exact (proj2 (proj1 (prule_sat T T _ _ _ _) PTst s))].
        intro F. pose proof (F _ (or_introl eq_refl)) as Y. unfold H in Y. inl Y.
      + apply prule_sat. intro s. split; [|exact (proj2 (proj1 (prule_sat T T _ _ _ _) PTst s))].
        intro F. pose proof (F _ (or_introl eq_refl)) as Y. unfold H in Y. inl Y.
      + apply prule_sat. intro s. split; [|exact (proj2 (proj1 (prule_sat T T _ _ _ _) PTst s))].
        intro F. pose proof (F _ (or_introl eq_refl)) as Y. unfold H in Y. inl Y.
      + apply f_rule_sat. intro s. split; [|intros _; apply E; unfold f_T; simpl; tauto].
        intro L. exfalso. apply f_agg_sat in L. destruct L as [L _].
        assert (En: enumerates (AggSem.elems_tuples sym_lt [] H T s [(f_tup, [at_ "q" ["X"]])]) [[c1; c1]]).
        { split.
          * constructor; [intros []|constructor].
          * intro tv. rewrite f_tuples. split.
            -- intros [<-|[]]. exists c1. split; [reflexivity|]. unfold H. simpl. tauto.
            -- intros [v [-> Xv]]. unfold H in Xv. inl Xv. injection Xv as <-. simpl. tauto. }
        apply (proj1 (ne1_holds _ s _ En)) in L. apply L. reflexivity.
    - intros a Ha. unfold H. apply in_or_app. left. exact Ha.
    - apply E. unfold f_T. simpl. tauto. }
  unfold H in X. inl X.
Qed.

Lemma f_original_not_stable : ~ stable [f_c1; f_c2; f_d; f_r] f_I f_T.
Proof. apply f_original_not_stable_gen. intro a. tauto. Qed.

Theorem no_splitting_refuted :
  stmt_in (notp ("q", 1)) f_r' = true /\ prog_in (notp ("q", 1)) [f_c1; f_c2] = true /\ lits_in (notp ("q", 1)) [at_ "a" ["X"]] = true /\
  facts_over (fun p => p <> ("q", 1)) f_I /\
  stable [f_c1; f_c2; f_d; f_r'] f_I f_T /\ ~ stable [f_c1; f_c2; f_d; f_r] f_I f_T /\
  (forall T, ~ stable [f_c1; f_c2; f_d; f_r] f_I T) /\
  ~ equiv_on sym_lt (fun p => p <> ("q", 1)) [f_c1; f_c2; f_d; f_r] [f_c1; f_c2; f_d; f_r'].
Proof.
  assert (FO: facts_over (fun p => p <> ("q", 1)) f_I) by (intros a Ha; inl Ha; subst a; simpl; discriminate).
  split; [reflexivity|]. split; [reflexivity|]. split; [reflexivity|]. split; [exact FO|].
  split; [exact f_unfolded_stable|]. split; [exact f_original_not_stable|].
  assert (Fwd: forall T, stable [f_c1; f_c2; f_d; f_r] f_I T -> stable [f_c1; f_c2; f_d; f_r'] f_I T).
  { intros T St. destruct f_forms as [E1 [E2 E3]].
    apply (unfold_agg_fwd_sound sym_lt "q" ["X"] [at_ "a" ["X"]] 3 idr eq_refl (fun y z _ _ E => E)
             f_tup [] [] [] [] NoSign None (Some (CNe, TSym c1)) FSum [] [] 4 (HLit (at_ "p" []))
             (fun y Hy => match proj1 (locals_spec ["X"] [at_ "a" ["X"]] y) Hy with conj A B => False_ind _ (B A) end)
             [f_c1; f_c2] [f_c1; f_c2; f_d; f_r] [f_c1; f_c2; f_d; f_r']); try reflexivity; try assumption.
    - intro st. rewrite <- E1, <- E3. simpl. tauto.
    - intro st. rewrite <- E2, <- E3. simpl. tauto. }
  split.
  - (* the original program has no answer set at all: one would be an answer set of the unfolded program, whose only
       answer set is f_T *)
    intros T St. pose proof (Fwd T St) as St'.
    assert (E: forall a, T a <-> f_T a).
    { (* both are stable models of the unfolded program; compare through the classical model property *)
      destruct St' as [[PT FT] MinT]. destruct f_unfolded_stable as [[PF FF] MinF].
      pose proof (proj1 (prule_sat T T _ _ _ _) (PT f_c1 (or_introl eq_refl))) as P1.
      pose proof (proj1 (prule_sat T T _ _ _ _) (PT f_c2 (or_intror (or_introl eq_refl)))) as P2.
      pose proof (proj1 (prule_sat T T _ _ _ _) (PT f_d (or_intror (or_intror (or_introl eq_refl))))) as P3.
      pose proof (proj1 (f_rule_sat T T "a") (PT f_r' (or_intror (or_intror (or_intror (or_introl eq_refl)))))) as P4.
      assert (Tn1: T ("n1", [c1])) by (apply FT; simpl; tauto).
      assert (Ts12: T ("sw", [c1; c2])) by (apply FT; simpl; tauto).
      assert (Ts21: T ("sw", [c2; c1])) by (apply FT; simpl; tauto).
      (* T is closed under the rules, so f_T-minimality gives T included in ... we use MinT with H := T /\ f_T *)
      assert (Sub: forall a, T a -> f_T a).
      { set (H := fun a : gatom => T a /\ f_T a).
        assert (HS: subi H T) by (intros a [A _]; exact A).
        assert (HP: Sat.prog_sat sym_lt H T [f_c1; f_c2; f_d; f_r']).
        { intros st [<-|[<-|[<-|[<-|[]]]]].
          - apply prule_sat. intro s. split; [|exact (proj2 (P1 s))]. intro F. split.
            + apply (proj1 (P1 s)). intros p Hp. exact (proj1 (F p Hp)).
            + apply (proj1 (proj1 (prule_sat f_T f_T _ _ _ _) (PF f_c1 (or_introl eq_refl)) s)). intros p Hp. exact (proj2 (F p Hp)).
          - apply prule_sat. intro s. split; [|exact (proj2 (P2 s))]. intro F. split.
            + apply (proj1 (P2 s)). intros p Hp. exact (proj1 (F p Hp)).
            + apply (proj1 (proj1 (prule_sat f_T f_T _ _ _ _) (PF f_c2 (or_intror (or_introl eq_refl))) s)). intros p Hp. exact (proj2 (F p Hp)).
          - apply prule_sat. intro s. split; [|exact (proj2 (P3 s))]. intro F. split.
            + apply (proj1 (P3 s)). intros p Hp. exact (proj1 (F p Hp)).
            + apply (proj1 (proj1 (prule_sat f_T f_T _ _ _ _) (PF f_d (or_intror (or_intror (or_introl eq_refl)))) s)). intros p Hp. exact (proj2 (F p Hp)).
          - apply f_rule_sat. intro s. split; [|exact (proj2 (P4 s))]. intro L. split.
            + apply (proj2 (P4 s)). apply f_agg_sat in L. apply f_agg_sat. destruct L as [_ L2]. split; exact L2.
            + unfold f_T. simpl. tauto. }
        assert (HF: facts_sat H f_I) by (intros a Ha; split; [apply FT; exact Ha|apply FF; exact Ha]).
        intros a Ta. exact (proj2 (MinT H HS HP HF a Ta)). }
      intro a. split; [apply Sub|]. apply MinF; [exact Sub| |exact FT].
      intros st [<-|[<-|[<-|[<-|[]]]]].
      - apply prule_sat. intro s. split; [exact (proj1 (P1 s))|]. exact (proj2 (proj1 (prule_sat f_T f_T _ _ _ _) (PF f_c1 (or_introl eq_refl)) s)).
      - apply prule_sat. intro s. split; [exact (proj1 (P2 s))|]. exact (proj2 (proj1 (prule_sat f_T f_T _ _ _ _) (PF f_c2 (or_intror (or_introl eq_refl))) s)).
      - apply prule_sat. intro s. split; [exact (proj1 (P3 s))|]. exact (proj2 (proj1 (prule_sat f_T f_T _ _ _ _) (PF f_d (or_intror (or_intror (or_introl eq_refl)))) s)).
      - apply f_rule_sat. intro s. split; [|intros _; unfold f_T; simpl; tauto].
        intro L. apply (proj1 (P4 s)). apply f_agg_sat in L. apply f_agg_sat. destruct L as [L1 _].
        assert (L': Sat.agg_holds sym_lt s None FSum (Some (CNe, TSym c1)) (AggSem.elems_tuples sym_lt [] T T s [(f_tup, [at_ "a" ["X"]])])).
        { apply (agg_holds_ext sym_lt s None FSum (Some (CNe, TSym c1)) _ _ (fun tv => iff_trans (f_tuples T f_T s "a" tv) (iff_sym (f_tuples T T s "a" tv)))).
          exact L1. }
        split; exact L'. }
    exact (f_original_not_stable_gen T E St).
  - intro Eq. apply f_original_not_stable. apply (Eq f_I FO f_T). exact f_unfolded_stable.
Qed.
End Witnesses.
End Refutations.

Print Assumptions q_supported.
Print Assumptions elems_unfold.
Print Assumptions agg_rule_unfold_sat.
Print Assumptions plain_rule_unfold_sat.
Print Assumptions unfold_agg_fwd_sound.
Print Assumptions unfold_agg_sound.
Print Assumptions unfold_plain_fwd_sound.
Print Assumptions unfold_plain_sound.
Print Assumptions drop_def_cons_ext.
Print Assumptions inline_agg_then_drop_fwd.
Print Assumptions inline_agg_then_drop_sound.
Print Assumptions inline_plain_then_drop_sound.
Print Assumptions inline_then_drop_out_gen.
Print Assumptions inline_agg_then_drop_cost.
Print Assumptions inline_agg_min_then_drop_cost.
Print Assumptions inline_plain_min_then_drop_cost.
Print Assumptions unfold_existing_sound_members.
Print Assumptions unfold_existing_sound.
Print Assumptions inline_simple_then_drop_sound.
Print Assumptions Refutations.two_definitions_refuted.
Print Assumptions Refutations.used_elsewhere_refuted.
Print Assumptions Refutations.capture_changes_tuples.
Print Assumptions Refutations.repeated_head_variable_refuted.
Print Assumptions Refutations.negated_occurrence_refuted.
Print Assumptions Refutations.no_splitting_refuted.

(* ================================================================================================ *)
(* 9. The model (Model/Inline.v, validated against ngo/inline.py) on concrete programs              *)
(* ================================================================================================ *)
From NGO Require Model.Inline.

Module ModelExamples.
Definition base_stmt : stmt := SOther "ASTType.Program" "#program base.".
Definition idr : string -> string := fun x => x.

(* ---- A:  { a(1); a(2); a(3) }.  p(X) :- a(X), X > 1.  s(S) :- S = #sum { X : p(X) }.     output predicate s/1
        (as vlib/ser.py serialises the parsed and preprocessed program) ---- *)
Definition exA_choice : stmt :=
  SRule 1 (HAgg None [((Lit NoSign (ASym (TFun "a" [(TSym (SNum 1%Z))] false))), []); ((Lit NoSign (ASym (TFun "a" [(TSym (SNum 2%Z))] false))), []); ((Lit NoSign (ASym (TFun "a" [(TSym (SNum 3%Z))] false))), [])] None) [].
Definition exA_p : stmt :=
  SRule 1 (HLit (Lit NoSign (ASym (TFun "p" [(TVar "X")] false)))) [(BLit (Lit NoSign (ASym (TFun "a" [(TVar "X")] false)))); (BLit (Lit NoSign (ACmp (TVar "X") [(CGt, (TSym (SNum 1%Z)))])))].
Definition exA_s : stmt :=
  SRule 1 (HLit (Lit NoSign (ASym (TFun "s" [(TVar "S")] false)))) [(BLit (Lit NoSign (ABodyAgg (Some (CEq, (TVar "S"))) FSum [([(TVar "X")], [(Lit NoSign (ASym (TFun "p" [(TVar "X")] false)))])] None)))].
Definition exA_in : program := [base_stmt; exA_choice; exA_p; exA_s].
(* s(S) :- S = #sum { X : a(X), X > 1 }. *)
Definition exA_s' : stmt :=
  SRule 1 (HLit (Lit NoSign (ASym (TFun "s" [(TVar "S")] false)))) [(BLit (Lit NoSign (ABodyAgg (Some (CEq, (TVar "S"))) FSum [([(TVar "X")], [(Lit NoSign (ASym (TFun "a" [(TVar "X")] false))); (Lit NoSign (ACmp (TVar "X") [(CGt, (TSym (SNum 1%Z)))]))])] None)))].
Definition exA_inlined : program := [base_stmt; exA_choice; exA_s'].

(* X = InlineTranslator(prg, [], [s/1]); X.execute(prg): THE REAL PASS LEAVES THIS PROGRAM UNCHANGED -- ngo only unfolds
   a rule whose body contains an aggregate `V = #sum{..}` whose value V is a head argument (is_single); the same value
   is observed from ngo. *)
Example exA_model : Inline.run_execute exA_in [] [("s", 1)] exA_in = Ok exA_in.
Proof. vm_compute. reflexivity. Qed.

(* ... although unfolding p would be sound here: the instance of inline_agg_then_drop_sound *)
Definition exA_BL : list lit := [Lit NoSign (ASym (TFun "a" [TVar "X"] false)); Lit NoSign (ACmp (TVar "X") [(CGt, TSym (SNum 1%Z))])].
Definition exA_low : pred -> bool := fun p => pred_eqb p ("a", 1) || pred_eqb p ("p", 1).

Lemma exA_no_locals : locals ["X"] exA_BL = [].
Proof. reflexivity. Qed.

Theorem exA_unfold_sound sym_lt :
  Sat.cons_ext sym_lt (fun p => p <> ("p", 1)) (nonq "p" ["X"]) exA_inlined exA_in /\
  Sat.equiv_out sym_lt (fun p => p <> ("p", 1)) (fun a => fst a = "s" /\ List.length (snd a) = 1) exA_in exA_inlined.
Proof.
  assert (CE: Sat.cons_ext sym_lt (fun p => p <> ("p", 1)) (nonq "p" ["X"]) exA_inlined exA_in).
  { apply (inline_agg_then_drop_sound sym_lt "p" ["X"] exA_BL 1 idr eq_refl) with
      (tup := [TVar "X"]) (c1 := []) (c2 := []) (es1 := []) (es2 := []) (sg := NoSign) (lg := Some (CEq, TVar "S")) (rg := None) (f := FSum)
      (pre := []) (post := []) (line := 1) (h := HLit (at_ "s" ["S"])) (low := exA_low) (C := [base_stmt; exA_choice]).
    - intros y z Hy. rewrite exA_no_locals in Hy. destruct Hy.
    - intros y Hy. rewrite exA_no_locals in Hy. destruct Hy.
    - intro st. unfold exA_in. simpl. tauto.
    - intro st. unfold exA_inlined. simpl. tauto.
    - reflexivity.
    - reflexivity.
    - reflexivity.
    - reflexivity.
    - reflexivity.
    - reflexivity.
    - intros st [<-|[<-|[]]]; left; reflexivity. }
  split; [exact CE|]. apply equiv_out_sym.
  apply (cons_ext_out sym_lt _ (nonq "p" ["X"]) _ exA_inlined exA_in); [|exact CE].
  intros a [E _] [E' _]. simpl in E'. rewrite E in E'. discriminate E'.
Qed.

(* ---- B: a program the real pass DOES rewrite, and gets wrong (recursion through a non-monotone aggregate):
          e(1,1) :- p.  e(2,1) :- p.  q(V) :- V = #sum{ W,Y : e(Y,W) }.  p :- 1 != #sum{ V : q(V) }.        output p/0
      ~>  e(1,1) :- p.  e(2,1) :- p.  p :- 1 != #sum{ W,Y : e(Y,W) }.
        clingo: the source has the answer set {p, e(1,1), e(2,1), q(2)}, the result has none.  It is the aggregate-valued
        form of Refutations.no_splitting_refuted. ---- *)
Definition exB_in : program :=
  [(SOther "ASTType.Program" "#program base."); (SRule 1 (HLit (Lit NoSign (ASym (TFun "e" [(TSym (SNum 1%Z)); (TSym (SNum 1%Z))] false)))) [(BLit (Lit NoSign (ASym (TFun "p" [] false))))]); (SRule 1 (HLit (Lit NoSign (ASym (TFun "e" [(TSym (SNum 2%Z)); (TSym (SNum 1%Z))] false)))) [(BLit (Lit NoSign (ASym (TFun "p" [] false))))]); (SRule 1 (HLit (Lit NoSign (ASym (TFun "q" [(TVar "V")] false)))) [(BLit (Lit NoSign (ABodyAgg (Some (CEq, (TVar "V"))) FSum [([(TVar "W"); (TVar "Y")], [(Lit NoSign (ASym (TFun "e" [(TVar "Y"); (TVar "W")] false)))])] None)))]); (SRule 1 (HLit (Lit NoSign (ASym (TFun "p" [] false)))) [(BLit (Lit NoSign (ABodyAgg (Some (CNe, (TSym (SNum 1%Z)))) FSum [([(TVar "V")], [(Lit NoSign (ASym (TFun "q" [(TVar "V")] false)))])] None)))])].
Definition exB_out : program :=
  [(SOther "ASTType.Program" "#program base."); (SRule 1 (HLit (Lit NoSign (ASym (TFun "e" [(TSym (SNum 1%Z)); (TSym (SNum 1%Z))] false)))) [(BLit (Lit NoSign (ASym (TFun "p" [] false))))]); (SRule 1 (HLit (Lit NoSign (ASym (TFun "e" [(TSym (SNum 2%Z)); (TSym (SNum 1%Z))] false)))) [(BLit (Lit NoSign (ASym (TFun "p" [] false))))]); (SRule 1 (HLit (Lit NoSign (ASym (TFun "p" [] false)))) [(BLit (Lit NoSign (ABodyAgg (Some (CNe, (TSym (SNum 1%Z)))) FSum [([(TVar "W"); (TVar "Y")], [(Lit NoSign (ASym (TFun "e" [(TVar "Y"); (TVar "W")] false)))])] None)))])].

Example exB_model : Inline.run_execute exB_in [] [("p", 0)] exB_in = Ok exB_out.
Proof. vm_compute. reflexivity. Qed.
End ModelExamples.

Print Assumptions ModelExamples.exA_model.
Print Assumptions ModelExamples.exA_unfold_sound.
Print Assumptions ModelExamples.exB_model.
